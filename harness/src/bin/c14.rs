//! C14 correspondence: the three account policies (simple threshold, weighted threshold,
//! spending limit). The REAL example contracts `threshold-policy` and `spending-limit-policy`
//! are compiled from /repo's working tree; the weighted policy has no example contract, so a
//! pass-through harness contract exposes the library functions of `weighted_threshold`.
//! Smart accounts are plain addresses whose authorization is mocked with exact subsets.
use ozharness::*;
use soroban_sdk::{
    auth::{
        Context, ContractContext, ContractExecutable, CreateContractHostFnContext,
        CreateContractWithConstructorHostFnContext,
    },
    xdr, Address, Bytes, BytesN, Env, IntoVal, Map, String as SString, Symbol, Val,
    Vec as SVec,
};
use stellar_accounts::{
    policies::{
        simple_threshold::SimpleThresholdAccountParams,
        spending_limit::{SpendingLimitAccountParams, SpendingLimitData},
        weighted_threshold::WeightedThresholdAccountParams,
    },
    smart_account::{ContextRule, ContextRuleType, Signer},
};

#[path = "/repo/examples/multisig-smart-account/threshold-policy/src/contract.rs"]
mod threshold_policy;
#[path = "/repo/examples/multisig-smart-account/spending-limit-policy/src/contract.rs"]
mod spending_limit_policy;

mod wpol {
    use soroban_sdk::{auth::Context, contract, contractimpl, Address, Env, Map, Vec};
    use stellar_accounts::{
        policies::{weighted_threshold::{self, WeightedThresholdAccountParams}, Policy},
        smart_account::{ContextRule, Signer},
    };

    #[contract]
    pub struct WeightedPolicy;

    #[contractimpl]
    impl Policy for WeightedPolicy {
        type AccountParams = WeightedThresholdAccountParams;

        fn can_enforce(
            e: &Env,
            context: Context,
            authenticated_signers: Vec<Signer>,
            context_rule: ContextRule,
            smart_account: Address,
        ) -> bool {
            weighted_threshold::can_enforce(e, &context, &authenticated_signers, &context_rule, &smart_account)
        }

        fn enforce(
            e: &Env,
            context: Context,
            authenticated_signers: Vec<Signer>,
            context_rule: ContextRule,
            smart_account: Address,
        ) {
            weighted_threshold::enforce(e, &context, &authenticated_signers, &context_rule, &smart_account)
        }

        fn install(e: &Env, install_params: Self::AccountParams, context_rule: ContextRule, smart_account: Address) {
            weighted_threshold::install(e, &install_params, &context_rule, &smart_account)
        }

        fn uninstall(e: &Env, context_rule: ContextRule, smart_account: Address) {
            weighted_threshold::uninstall(e, &context_rule, &smart_account)
        }
    }

    #[contractimpl]
    impl WeightedPolicy {
        pub fn get_threshold(e: &Env, context_rule_id: u32, smart_account: Address) -> u32 {
            weighted_threshold::get_threshold(e, context_rule_id, &smart_account)
        }
        pub fn get_signer_weights(e: &Env, context_rule: ContextRule, smart_account: Address) -> Map<Signer, u32> {
            weighted_threshold::get_signer_weights(e, &context_rule, &smart_account)
        }
        pub fn set_threshold(e: &Env, threshold: u32, context_rule: ContextRule, smart_account: Address) {
            weighted_threshold::set_threshold(e, threshold, &context_rule, &smart_account)
        }
        pub fn set_signer_weight(e: &Env, signer: Signer, weight: u32, context_rule: ContextRule, smart_account: Address) {
            weighted_threshold::set_signer_weight(e, &signer, weight, &context_rule, &smart_account)
        }
    }

}
use wpol::WeightedPolicy;

const NA: usize = 2; // smart accounts (addresses 0,1); address 2 is a stranger that may sign
const NADDR: usize = 3;
const NR: u32 = 2; // context rule ids 0,1
const NS: usize = 5; // signers
// max_entry_ttl ~ 1 year; min_persistent_entry_ttl = max - 1, so persistent entries of the
// unmodified code stay live through the long-idle sequences (up to ~200 days per sequence)
const MAX_TTL: u32 = 6_312_000;
const DAY: u32 = 17_280;

struct Sim {
    e: Env,
    u: Universe,
    signers: Vec<Signer>,
    token: Address,
    simple: Address,
    weighted: Address,
    spend: Address,
    now: u32,
    st_s: String,
    st_w: String,
    st_l: String,
}

/// one operation of the line protocol
#[derive(Clone, Default)]
struct Op {
    kind: &'static str,
    a: usize,
    r: u32,
    rs: Vec<usize>,
    thr: u32,
    w: Vec<(usize, u32)>,
    sgn: usize,
    wt: u32,
    lim: i128,
    per: u32,
    ctx: String,
    sg: Vec<usize>,
    auth: Vec<usize>,
}

impl Op {
    fn line(&self) -> String {
        let w = if self.w.is_empty() {
            "-".to_string()
        } else {
            self.w.iter().map(|(s, x)| format!("{}:{}", s, x)).collect::<Vec<_>>().join(",")
        };
        format!(
            "pol {} a={} r={} rs={} thr={} w={} sgn={} wt={} lim={} per={} ctx={} sg={} auth={}",
            self.kind,
            self.a,
            self.r,
            join(&self.rs),
            self.thr,
            w,
            self.sgn,
            self.wt,
            self.lim,
            self.per,
            if self.ctx.is_empty() { "o:approve" } else { &self.ctx },
            join(&self.sg),
            join(&self.auth)
        )
    }
}

#[derive(Clone, Default)]
struct LData {
    limit: i128,
    period: u32,
    cached: i128,
    hist: Vec<(i128, u32)>,
}

impl Sim {
    fn new(start: u32) -> Sim {
        let e = new_env(start, 16, MAX_TTL);
        // sdk 25 enforces mainnet per-invocation resource limits in tests; a history of ~815
        // entries already exceeds them, so the coded bound of 1000 entries is only reachable
        // with the limits off
        e.cost_estimate().disable_resource_limits();
        e.cost_estimate().budget().reset_unlimited();
        let u = Universe::new(&e, NADDR);
        let verifier = Address::generate_like(&e);
        let mut signers = vec![];
        for i in 0..NS {
            if i < 3 {
                signers.push(Signer::Delegated(Address::generate_like(&e)));
            } else {
                signers.push(Signer::External(verifier.clone(), Bytes::from_array(&e, &[i as u8; 32])));
            }
        }
        let token = Address::generate_like(&e);
        let simple = e.register(threshold_policy::ThresholdPolicyContract, ());
        let weighted = e.register(WeightedPolicy, ());
        let spend = e.register(spending_limit_policy::SpendingLimitPolicyContract, ());
        let mut s = Sim {
            e,
            u,
            signers,
            token,
            simple,
            weighted,
            spend,
            now: start,
            st_s: String::new(),
            st_w: String::new(),
            st_l: String::new(),
        };
        s.refresh('s');
        s.refresh('w');
        s.refresh('l');
        s
    }

    fn rule(&self, id: u32, rs: &[usize]) -> ContextRule {
        let e = &self.e;
        let mut sv: SVec<Signer> = SVec::new(e);
        for &i in rs {
            sv.push_back(self.signers[i].clone());
        }
        ContextRule {
            id,
            context_type: ContextRuleType::Default,
            name: SString::from_str(e, "rule"),
            signers: sv,
            policies: SVec::new(e),
            valid_until: None,
        }
    }

    fn signer_vec(&self, sg: &[usize]) -> SVec<Signer> {
        let mut sv: SVec<Signer> = SVec::new(&self.e);
        for &i in sg {
            sv.push_back(self.signers[i].clone());
        }
        sv
    }

    /// `t:<amt>` transfer(from,to,amt) | `s:<amt>` transfer(from,from,amt) | `x:<amt>` transfer with a 4th argument |
    /// `m:<what>` transfer whose argument 2 is missing / not an i128 | `o:<fn>` another function |
    /// `c:wasm` / `c:ctor` create-contract contexts
    fn mk_ctx(&self, c: &str) -> Context {
        let e = &self.e;
        let (k, rest) = c.split_once(':').unwrap_or((c, ""));
        let from: Val = self.u.a(0).into_val(e);
        let to: Val = self.u.a(1).into_val(e);
        let call = |name: &str, args: SVec<Val>| {
            Context::Contract(ContractContext { contract: self.token.clone(), fn_name: Symbol::new(e, name), args })
        };
        match k {
            "t" => {
                let amt: i128 = rest.parse().unwrap();
                call("transfer", SVec::from_array(e, [from, to, amt.into_val(e)]))
            }
            "s" => {
                // the sender names itself as recipient: the amount is spent like any other
                let amt: i128 = rest.parse().unwrap();
                call("transfer", SVec::from_array(e, [from, from, amt.into_val(e)]))
            }
            "x" => {
                let amt: i128 = rest.parse().unwrap();
                call("transfer", SVec::from_array(e, [from, to, amt.into_val(e), 7u32.into_val(e)]))
            }
            "m" => {
                let third: Option<Val> = match rest {
                    "short" => None,
                    "u32" => Some(5u32.into_val(e)),
                    "u64" => Some(5u64.into_val(e)),
                    "i64" => Some(5i64.into_val(e)),
                    "u128" => Some(5u128.into_val(e)),
                    "i256" => Some(soroban_sdk::I256::from_i32(e, 5).into_val(e)),
                    "sym" => Some(Symbol::new(e, "five").into_val(e)),
                    "addr" => Some(from),
                    "void" => Some(().into_val(e)),
                    "empty" => None,
                    _ => panic!("bad malformed kind"),
                };
                let args = match (rest, third) {
                    ("empty", _) => SVec::new(e),
                    (_, None) => SVec::from_array(e, [from, to]),
                    (_, Some(v)) => SVec::from_array(e, [from, to, v]),
                };
                call("transfer", args)
            }
            "o" => call(rest, SVec::from_array(e, [from, to, 50i128.into_val(e)])),
            "c" => {
                let executable = ContractExecutable::Wasm(BytesN::from_array(e, &[9u8; 32]));
                let salt = BytesN::from_array(e, &[3u8; 32]);
                if rest == "ctor" {
                    Context::CreateContractWithCtorHostFn(CreateContractWithConstructorHostFnContext {
                        executable,
                        salt,
                        constructor_args: SVec::from_array(e, [from, to, 50i128.into_val(e)]),
                    })
                } else {
                    Context::CreateContractHostFn(CreateContractHostFnContext { executable, salt })
                }
            }
            _ => panic!("bad ctx"),
        }
    }

    fn ldata(&self, a: usize, r: u32) -> Option<LData> {
        let e = &self.e;
        let d: SpendingLimitData =
            query(e, &self.spend, "get_spending_limit_data", args(e, [v(e, r), v(e, self.u.a(a))]))?;
        Some(LData {
            limit: d.spending_limit,
            period: d.period_ledgers,
            cached: d.cached_total_spent,
            hist: d.spending_history.iter().map(|x| (x.amount, x.ledger_sequence)).collect(),
        })
    }
    fn sthr(&self, a: usize, r: u32) -> Option<u32> {
        let e = &self.e;
        query(e, &self.simple, "get_threshold", args(e, [v(e, r), v(e, self.u.a(a))]))
    }
    fn wdata(&self, a: usize, r: u32) -> Option<(u32, Vec<(usize, u32)>)> {
        let e = &self.e;
        let t: u32 = query(e, &self.weighted, "get_threshold", args(e, [v(e, r), v(e, self.u.a(a))]))?;
        let m: Map<Signer, u32> =
            query(e, &self.weighted, "get_signer_weights", args(e, [v(e, self.rule(r, &[])), v(e, self.u.a(a))]))?;
        let mut ws = vec![];
        for i in 0..NS {
            if let Some(w) = m.get(self.signers[i].clone()) {
                ws.push((i, w));
            }
        }
        if ws.len() as u32 != m.len() {
            ws.push((99, 0)); // a key outside the universe: must never happen
        }
        Some((t, ws))
    }

    /// re-read every getter of one policy contract over all (account, rule) keys
    fn refresh(&mut self, which: char) {
        let mut out = vec![];
        for a in 0..NA {
            for r in 0..NR {
                match which {
                    's' => {
                        if let Some(t) = self.sthr(a, r) {
                            out.push(format!("{}:{}:{}", a, r, t));
                        }
                    }
                    'w' => {
                        if let Some((t, ws)) = self.wdata(a, r) {
                            let w = if ws.is_empty() {
                                "-".to_string()
                            } else {
                                ws.iter().map(|(i, x)| format!("{}={}", i, x)).collect::<Vec<_>>().join(",")
                            };
                            out.push(format!("{}:{}:{}:{}", a, r, t, w));
                        }
                    }
                    _ => {
                        if let Some(d) = self.ldata(a, r) {
                            let h = if d.hist.is_empty() {
                                "-".to_string()
                            } else {
                                d.hist.iter().map(|(x, l)| format!("{}@{}", x, l)).collect::<Vec<_>>().join(",")
                            };
                            out.push(format!("{}:{}:{}:{}:{}:{}", a, r, d.limit, d.period, d.cached, h));
                        }
                    }
                }
            }
        }
        let s = if out.is_empty() { "-".to_string() } else { out.join(";") };
        match which {
            's' => self.st_s = s,
            'w' => self.st_w = s,
            _ => self.st_l = s,
        }
    }

    fn events(&self) -> String {
        let mut out = vec![];
        for ev in last_events(&self.e) {
            let acct = ev_addr(&self.u, ev.topics.get(0));
            let rule = ev_field(&ev.data, "context_rule_id").and_then(sc_u32).map(|x| x.to_string()).unwrap_or("?".into());
            let n = match ev_field(&ev.data, "authenticated_signers") {
                Some(xdr::ScVal::Vec(Some(v))) => v.len().to_string(),
                _ => "?".into(),
            };
            match ev.name.as_str() {
                "simple_policy_enforced" => out.push(format!("S:{}:{}:{}", acct, rule, n)),
                "weighted_policy_enforced" => out.push(format!("W:{}:{}:{}", acct, rule, n)),
                "spending_limit_policy_enforced" => {
                    let amt = ev_field(&ev.data, "amount").and_then(sc_i128).map(|x| x.to_string()).unwrap_or("?".into());
                    let tot = ev_field(&ev.data, "total_spent_in_period")
                        .and_then(sc_i128)
                        .map(|x| x.to_string())
                        .unwrap_or("?".into());
                    out.push(format!("L:{}:{}:{}:{}", acct, rule, amt, tot));
                }
                other => out.push(format!("other:{}", other)),
            }
        }
        if out.is_empty() {
            "-".into()
        } else {
            out.join(";")
        }
    }

    fn exec(&mut self, t: &mut Trace, op: &Op) -> bool {
        t.op(&op.line());
        let which = op.kind.chars().next().unwrap();
        let (contract, is_can, func, argv): (Address, bool, &str, SVec<Val>) = {
            let e = &self.e;
            let acct: Val = self.u.a(op.a).into_val(e);
            let rule: Val = self.rule(op.r, &op.rs).into_val(e);
            let contract = match which {
                's' => self.simple.clone(),
                'w' => self.weighted.clone(),
                _ => self.spend.clone(),
            };
            let tail = &op.kind[2..];
            match tail {
                "install" => {
                    let params: Val = match which {
                        's' => SimpleThresholdAccountParams { threshold: op.thr }.into_val(e),
                        'w' => {
                            let mut m: Map<Signer, u32> = Map::new(e);
                            for (i, w) in op.w.iter() {
                                m.set(self.signers[*i].clone(), *w);
                            }
                            WeightedThresholdAccountParams { signer_weights: m, threshold: op.thr }.into_val(e)
                        }
                        _ => SpendingLimitAccountParams { spending_limit: op.lim, period_ledgers: op.per }.into_val(e),
                    };
                    (contract, false, "install", args(e, [params, rule, acct]))
                }
                "uninstall" => (contract, false, "uninstall", args(e, [rule, acct])),
                "set" | "set_thr" => (contract, false, "set_threshold", args(e, [v(e, op.thr), rule, acct])),
                "set_weight" => (
                    contract,
                    false,
                    "set_signer_weight",
                    args(e, [v(e, self.signers[op.sgn].clone()), v(e, op.wt), rule, acct]),
                ),
                "set_limit" => (contract, false, "set_spending_limit", args(e, [v(e, op.lim), rule, acct])),
                "can" | "enforce" => {
                    let ctx: Val = self.mk_ctx(&op.ctx).into_val(e);
                    let sg: Val = self.signer_vec(&op.sg).into_val(e);
                    (contract, tail == "can", if tail == "can" { "can_enforce" } else { "enforce" }, args(e, [ctx, sg, rule, acct]))
                }
                _ => panic!("bad kind {}", op.kind),
            }
        };
        let (tag, res, evs, dem, accepted) = if is_can {
            match query::<bool>(&self.e, &contract, func, argv) {
                Some(true) => ("ok", "true", "-".to_string(), "-".to_string(), true),
                Some(false) => ("no", "false", "-".to_string(), "-".to_string(), false),
                None => ("err", "trap", "-".to_string(), "-".to_string(), false),
            }
        } else {
            let signers: Vec<&Address> = op.auth.iter().map(|&i| self.u.a(i)).collect();
            match call(&self.e, &contract, func, argv, &signers) {
                Some(_) => {
                    let dem = demanded(&self.e, &self.u);
                    ("ok", "-", self.events(), join(&dem), true)
                }
                None => ("err", "-", "-".to_string(), "-".to_string(), false),
            }
        };
        self.refresh(which);
        t.obs(&format!(
            "{} r={} S={} W={} L={} now={} ev={} dem={}",
            tag, res, self.st_s, self.st_w, self.st_l, self.now, evs, dem
        ));
        accepted
    }

    fn advance(&mut self, t: &mut Trace, n: u32) {
        self.now += n;
        set_ledger(&self.e, self.now, 16, MAX_TTL);
        t.op(&format!("pol adv n={}", n));
        t.obs(&format!("ok r=- S={} W={} L={} now={} ev=- dem=-", self.st_s, self.st_w, self.st_l, self.now));
    }

    /// "long idle": move the ledger by `n` without any policy call in between, THEN re-read every
    /// getter of all three contracts (an entry that was silently put into temporary storage, or
    /// whose TTL is not kept up, shows up here as a changed getter)
    fn idle(&mut self, t: &mut Trace, n: u32) {
        self.now += n;
        set_ledger(&self.e, self.now, 16, MAX_TTL);
        t.op(&format!("pol idle n={}", n));
        self.refresh('s');
        self.refresh('w');
        self.refresh('l');
        t.obs(&format!("ok r=- S={} W={} L={} now={} ev=- dem=-", self.st_s, self.st_w, self.st_l, self.now));
    }

    // ---- convenience wrappers used by the directed scenarios ---------------------------
    fn s_install(&mut self, t: &mut Trace, a: usize, r: u32, rs: &[usize], thr: u32, auth: &[usize]) -> bool {
        self.exec(t, &Op { kind: "s_install", a, r, rs: rs.to_vec(), thr, auth: auth.to_vec(), ..Default::default() })
    }
    fn s_set(&mut self, t: &mut Trace, a: usize, r: u32, rs: &[usize], thr: u32, auth: &[usize]) -> bool {
        self.exec(t, &Op { kind: "s_set", a, r, rs: rs.to_vec(), thr, auth: auth.to_vec(), ..Default::default() })
    }
    fn uninstall(&mut self, t: &mut Trace, kind: &'static str, a: usize, r: u32, auth: &[usize]) -> bool {
        self.exec(t, &Op { kind, a, r, auth: auth.to_vec(), ..Default::default() })
    }
    /// `can_enforce` immediately followed by `enforce` with the same arguments
    fn try_enforce(&mut self, t: &mut Trace, p: char, a: usize, r: u32, rs: &[usize], ctx: &str, sg: &[usize], auth: &[usize]) -> bool {
        let (kc, ke): (&'static str, &'static str) = match p {
            's' => ("s_can", "s_enforce"),
            'w' => ("w_can", "w_enforce"),
            _ => ("l_can", "l_enforce"),
        };
        let base = Op { a, r, rs: rs.to_vec(), ctx: ctx.to_string(), sg: sg.to_vec(), ..Default::default() };
        self.exec(t, &Op { kind: kc, ..base.clone() });
        self.exec(t, &Op { kind: ke, auth: auth.to_vec(), ..base })
    }
    fn w_install(&mut self, t: &mut Trace, a: usize, r: u32, w: &[(usize, u32)], thr: u32, auth: &[usize]) -> bool {
        self.exec(t, &Op { kind: "w_install", a, r, rs: vec![0, 1, 2], w: w.to_vec(), thr, auth: auth.to_vec(), ..Default::default() })
    }
    fn w_set_thr(&mut self, t: &mut Trace, a: usize, r: u32, thr: u32, auth: &[usize]) -> bool {
        self.exec(t, &Op { kind: "w_set_thr", a, r, thr, auth: auth.to_vec(), ..Default::default() })
    }
    fn w_set_weight(&mut self, t: &mut Trace, a: usize, r: u32, sgn: usize, wt: u32, auth: &[usize]) -> bool {
        self.exec(t, &Op { kind: "w_set_weight", a, r, sgn, wt, auth: auth.to_vec(), ..Default::default() })
    }
    fn l_install(&mut self, t: &mut Trace, a: usize, r: u32, lim: i128, per: u32, auth: &[usize]) -> bool {
        self.exec(t, &Op { kind: "l_install", a, r, lim, per, auth: auth.to_vec(), ..Default::default() })
    }
    fn l_set_limit(&mut self, t: &mut Trace, a: usize, r: u32, lim: i128, auth: &[usize]) -> bool {
        self.exec(t, &Op { kind: "l_set_limit", a, r, lim, auth: auth.to_vec(), ..Default::default() })
    }
    fn spend(&mut self, t: &mut Trace, a: usize, r: u32, amt: i128) -> bool {
        self.try_enforce(t, 'l', a, r, &[0], &format!("t:{}", amt), &[0], &[a])
    }
}

/// `Address::generate` without importing the testutils trait at every call site
trait GenLike {
    fn generate_like(e: &Env) -> Address;
}
impl GenLike for Address {
    fn generate_like(e: &Env) -> Address {
        use soroban_sdk::testutils::Address as _;
        Address::generate(e)
    }
}

// ------------------------------------------------------------------------------------------
// directed scenarios
// ------------------------------------------------------------------------------------------

fn directed_simple(t: &mut Trace) {
    t.seq("directed simple threshold: 0, n+1, exact, re-install, duplicates, set_threshold start=100");
    let mut s = Sim::new(100);
    let rs = [0usize, 1, 2];
    s.try_enforce(t, 's', 0, 0, &rs, "o:approve", &[0, 1, 2], &[0]); // not installed
    s.s_install(t, 0, 0, &rs, 0, &[0]);
    s.s_install(t, 0, 0, &rs, 4, &[0]);
    s.s_install(t, 0, 0, &rs, 2, &[1]); // wrong authorizer
    s.s_install(t, 0, 0, &rs, 2, &[]);
    s.s_install(t, 0, 0, &rs, 2, &[0]);
    s.s_install(t, 0, 0, &rs, 3, &[0]); // already installed
    s.try_enforce(t, 's', 0, 0, &rs, "o:approve", &[0], &[0]);
    s.try_enforce(t, 's', 0, 0, &rs, "t:5", &[0, 1], &[0]);
    s.try_enforce(t, 's', 0, 0, &rs, "c:wasm", &[0, 1, 2], &[0]);
    s.try_enforce(t, 's', 0, 0, &rs, "m:short", &[0, 1], &[1, 2]); // account did not authorize
    s.try_enforce(t, 's', 0, 0, &rs, "o:approve", &[0, 1], &[]);
    s.try_enforce(t, 's', 0, 0, &rs, "o:approve", &[0, 0], &[0]); // a duplicated signer counts twice
    s.try_enforce(t, 's', 0, 0, &rs, "o:approve", &[], &[0]);
    s.try_enforce(t, 's', 0, 1, &rs, "o:approve", &[0, 1], &[0]); // other rule: not installed
    s.try_enforce(t, 's', 1, 0, &rs, "o:approve", &[0, 1], &[1]); // other account: not installed
    s.s_set(t, 0, 0, &rs, 0, &[0]);
    s.s_set(t, 0, 0, &rs, 4, &[0]);
    s.s_set(t, 0, 0, &rs, 3, &[2]);
    s.s_set(t, 0, 0, &rs, 3, &[0]);
    s.try_enforce(t, 's', 0, 0, &rs, "o:approve", &[0, 1], &[0]);
    s.try_enforce(t, 's', 0, 0, &rs, "o:approve", &[0, 1, 2], &[0]);
    s.s_set(t, 0, 0, &[0], 2, &[0]); // rule shrank: threshold 2 unreachable
    s.s_set(t, 0, 0, &[0], 1, &[0]);
    s.s_set(t, 1, 1, &rs, 2, &[1]); // set_threshold without install (as coded: stores)
    s.try_enforce(t, 's', 1, 1, &rs, "o:approve", &[3, 4], &[1]);
    s.s_install(t, 1, 1, &rs, 1, &[1]);
    s.uninstall(t, "s_uninstall", 0, 0, &[1]);
    s.uninstall(t, "s_uninstall", 0, 0, &[0]);
    s.try_enforce(t, 's', 0, 0, &rs, "o:approve", &[0, 1, 2], &[0]);
    s.s_install(t, 0, 0, &[], 1, &[0]); // empty rule: nothing reachable
    s.s_install(t, 0, 0, &[], 0, &[0]);
    s.s_install(t, 0, 0, &[4], 1, &[0]);
    s.s_install(t, 0, 1, &[0, 1, 2, 3, 4], 5, &[0]);
    s.try_enforce(t, 's', 0, 1, &rs, "o:approve", &[0, 1, 2, 3], &[0]);
    s.try_enforce(t, 's', 0, 1, &rs, "o:approve", &[0, 1, 2, 3, 4], &[0, 1, 2]);
}

fn directed_weighted(t: &mut Trace) {
    const M: u32 = u32::MAX;
    t.seq("directed weighted threshold: overflow at install/set_weight/calculate, 0, unreachable start=100");
    let mut s = Sim::new(100);
    let rs = [0usize, 1, 2];
    s.try_enforce(t, 'w', 0, 0, &rs, "o:approve", &[0, 1], &[0]);
    s.w_install(t, 0, 0, &[(0, M), (1, 1)], 1, &[0]); // weights sum past u32::MAX
    s.w_install(t, 0, 0, &[(0, M - 1), (1, 1), (2, 1)], 0, &[0]); // overflow and zero threshold
    s.w_install(t, 0, 0, &[(0, 5), (1, 7)], 0, &[0]);
    s.w_install(t, 0, 0, &[(0, 5), (1, 7)], 13, &[0]);
    s.w_install(t, 0, 0, &[], 0, &[0]);
    s.w_install(t, 0, 0, &[], 1, &[0]);
    s.w_install(t, 0, 0, &[(0, 5), (1, 7)], 12, &[1]);
    s.w_install(t, 0, 0, &[(0, 5), (1, 7), (3, 0)], 12, &[0]);
    s.w_install(t, 0, 0, &[(0, 5)], 5, &[0]); // already installed
    s.try_enforce(t, 'w', 0, 0, &rs, "o:approve", &[0], &[0]);
    s.try_enforce(t, 'w', 0, 0, &rs, "o:approve", &[1, 0], &[0]);
    s.try_enforce(t, 'w', 0, 0, &rs, "t:1", &[1, 0, 3, 4], &[0]); // signer 4 has no weight: skipped
    s.try_enforce(t, 'w', 0, 0, &rs, "o:approve", &[1, 1], &[0]); // duplicate counted twice (14 >= 12)
    s.try_enforce(t, 'w', 0, 0, &rs, "o:approve", &[1, 0], &[1]);
    s.w_set_thr(t, 0, 0, 0, &[0]);
    s.w_set_thr(t, 0, 0, 13, &[0]);
    s.w_set_thr(t, 0, 0, 7, &[2]);
    s.w_set_thr(t, 0, 0, 7, &[0]);
    s.try_enforce(t, 'w', 0, 0, &rs, "o:approve", &[1], &[0]);
    s.try_enforce(t, 'w', 0, 0, &rs, "o:approve", &[0, 3], &[0]);
    s.w_set_weight(t, 0, 0, 1, 1, &[0]); // total 6 < threshold 7
    s.w_set_weight(t, 0, 0, 1, 2, &[0]); // total 7
    s.w_set_weight(t, 0, 0, 4, M - 6, &[0]); // total u32::MAX + 1
    s.w_set_weight(t, 0, 0, 4, M - 7, &[0]); // total u32::MAX
    s.w_set_weight(t, 0, 0, 4, M - 7, &[1]);
    s.try_enforce(t, 'w', 0, 0, &rs, "o:approve", &[0, 1, 3, 4], &[0]); // u32::MAX exactly
    s.try_enforce(t, 'w', 0, 0, &rs, "o:approve", &[4, 4], &[0]); // duplicate: checked_add overflows
    s.try_enforce(t, 'w', 0, 0, &rs, "o:approve", &[0, 1, 4, 1], &[0]);
    s.w_set_thr(t, 0, 0, M, &[0]);
    s.try_enforce(t, 'w', 0, 0, &rs, "o:approve", &[0, 4], &[0]);
    s.try_enforce(t, 'w', 0, 0, &rs, "o:approve", &[0, 1, 4], &[0]);
    s.w_set_weight(t, 0, 0, 0, 4, &[0]); // would make u32::MAX unreachable
    s.w_set_thr(t, 1, 1, 3, &[1]); // not installed
    s.w_set_weight(t, 1, 1, 0, 3, &[1]);
    s.uninstall(t, "w_uninstall", 0, 0, &[2]);
    s.uninstall(t, "w_uninstall", 0, 0, &[0]);
    s.try_enforce(t, 'w', 0, 0, &rs, "o:approve", &[0, 1, 4], &[0]);
    s.w_install(t, 0, 0, &[(2, M)], M, &[0]);
    s.try_enforce(t, 'w', 0, 0, &rs, "o:approve", &[2], &[0]);
    // a wrapping sum would give 4 >= 3 here and 5 >= 2 below: both must be refused as overflow
    s.w_install(t, 1, 0, &[(0, M), (1, 5)], 3, &[1]);
    s.w_install(t, 1, 1, &[(0, M - 1)], 2, &[1]);
    s.w_set_weight(t, 1, 1, 1, 7, &[1]);
    s.w_set_weight(t, 1, 1, 1, 1, &[1]); // total exactly u32::MAX: accepted
    s.try_enforce(t, 'w', 0, 0, &rs, "o:approve", &[0, 1, 3, 4], &[0]);
}

fn directed_spend(t: &mut Trace) {
    t.seq("directed spending limit: window edges, limit changes, contexts, overflow start=100");
    let mut s = Sim::new(100);
    s.spend(t, 0, 0, 1); // not installed
    s.l_install(t, 0, 0, 0, 10, &[0]);
    s.l_install(t, 0, 0, -5, 10, &[0]);
    s.l_install(t, 0, 0, 100, 0, &[0]);
    s.l_install(t, 0, 0, 100, 10, &[1]);
    s.l_install(t, 0, 0, 100, 10, &[0]);
    s.l_install(t, 0, 0, 50, 5, &[0]); // already installed
    s.spend(t, 0, 0, 60);
    s.spend(t, 0, 0, 41);
    s.spend(t, 0, 0, 40);
    s.spend(t, 0, 0, 0);
    s.spend(t, 0, 0, 1);
    s.advance(t, 9); // 109: ledger 100 is still inside (99, 109]
    s.spend(t, 0, 0, 1);
    s.advance(t, 1); // 110: cutoff 100, the entries of ledger 100 leave
    s.spend(t, 0, 0, 70);
    s.spend(t, 0, 0, 31);
    s.advance(t, 5); // 115
    s.spend(t, 0, 0, 30);
    s.advance(t, 4); // 119
    s.spend(t, 0, 0, 1);
    s.advance(t, 1); // 120: the 70 of ledger 110 leaves
    s.spend(t, 0, 0, 71);
    s.spend(t, 0, 0, 70);
    // contexts
    for c in ["m:short", "m:empty", "m:u32", "m:u64", "m:i64", "m:u128", "m:i256", "m:sym", "m:addr", "m:void", "o:approve", "o:transfer_from", "o:Transfer", "o:transfe", "c:wasm", "c:ctor"] {
        s.try_enforce(t, 'l', 0, 0, &[0], c, &[0], &[0]);
    }
    s.advance(t, 30);
    s.try_enforce(t, 'l', 0, 0, &[0], "s:40", &[0], &[0]); // self-transfer over what is left in the window
    s.try_enforce(t, 'l', 0, 0, &[0], "s:20", &[0], &[0]);
    s.try_enforce(t, 'l', 0, 0, &[0], "x:10", &[0], &[0]);
    s.try_enforce(t, 'l', 0, 0, &[0], "t:10", &[], &[0]); // no authenticated signer
    s.try_enforce(t, 'l', 0, 0, &[], "t:10", &[], &[0]); // ... on a rule that has no signers of its own either
    s.try_enforce(t, 'l', 0, 0, &[], "t:10", &[0], &[0]); // a policy-only rule, somebody authenticated
    s.try_enforce(t, 'l', 0, 0, &[0], "t:10", &[0], &[1]); // account did not authorize
    s.try_enforce(t, 'l', 0, 0, &[0], "t:10", &[0], &[]);
    s.try_enforce(t, 'l', 0, 0, &[0], "t:10", &[3, 4], &[0, 2]);
    // limit changes
    s.l_set_limit(t, 0, 0, 0, &[0]);
    s.l_set_limit(t, 0, 0, -1, &[0]);
    s.l_set_limit(t, 0, 0, 15, &[1]);
    s.l_set_limit(t, 0, 0, 15, &[0]); // below what is already spent in the window (20)
    s.spend(t, 0, 0, 0);
    s.spend(t, 0, 0, 1);
    s.l_set_limit(t, 0, 0, 25, &[0]);
    s.spend(t, 0, 0, 6);
    s.spend(t, 0, 0, 5);
    s.l_set_limit(t, 1, 1, 25, &[1]); // not installed
    // negative amounts are not refused by the policy
    s.spend(t, 0, 0, -5);
    s.spend(t, 0, 0, 5);
    s.uninstall(t, "l_uninstall", 0, 0, &[1]);
    s.uninstall(t, "l_uninstall", 0, 0, &[0]);
    s.spend(t, 0, 0, 1);
    s.l_install(t, 0, 0, 7, 2, &[0]);
    s.spend(t, 0, 0, 7);

    t.seq("directed spending limit: i128 overflow, period longer than the chain, period 1 start=3");
    let mut s = Sim::new(3);
    s.l_install(t, 0, 0, i128::MAX, 10, &[0]);
    s.spend(t, 0, 0, i128::MAX - 1);
    s.spend(t, 0, 0, 5); // cached + amount overflows i128: panic, not acceptance
    s.spend(t, 0, 0, 1);
    s.spend(t, 0, 0, 1);
    s.advance(t, 7); // 10: cutoff 0 (saturating), nothing leaves
    s.spend(t, 0, 0, 1);
    s.spend(t, 0, 0, i128::MIN);
    s.spend(t, 0, 0, -1);
    s.advance(t, 3); // 13: cutoff 3
    s.spend(t, 0, 0, i128::MAX);
    s.l_install(t, 1, 0, 10, u32::MAX, &[1]);
    s.spend(t, 1, 0, 10);
    s.advance(t, 1000);
    s.spend(t, 1, 0, 1);
    s.l_install(t, 1, 1, 10, 1, &[1]);
    s.spend(t, 1, 1, 10);
    s.spend(t, 1, 1, 1);
    s.advance(t, 1);
    s.spend(t, 1, 1, 10);
    s.spend(t, 1, 1, 1);
}

/// drive one history to MAX_HISTORY_ENTRIES (1000) entries and around it
fn directed_capacity(t: &mut Trace, start: u32, per_ledger: u32, period: u32) {
    t.seq(&format!("directed spending limit: history capacity 999/1000/1001 per_ledger={} period={} start={}", per_ledger, period, start));
    let mut s = Sim::new(start);
    s.l_install(t, 0, 1, 1_000_000_000, period, &[0]);
    let mut n = 0u32;
    while n < 1000 {
        for _ in 0..per_ledger {
            if n >= 1000 {
                break;
            }
            let base = Op { a: 0, r: 1, rs: vec![0], ctx: "t:1".into(), sg: vec![1], ..Default::default() };
            if n >= 997 || n % 97 == 0 {
                s.exec(t, &Op { kind: "l_can", ..base.clone() });
            }
            s.exec(t, &Op { kind: "l_enforce", auth: vec![0], ..base });
            n += 1;
        }
        if n < 1000 {
            s.advance(t, 1);
        }
    }
    // 1000 entries, all inside the window
    s.spend(t, 0, 1, 1);
    s.spend(t, 0, 1, 0);
    s.try_enforce(t, 'l', 0, 1, &[0], "t:2000000000", &[0], &[0]); // over the limit and over capacity
    // move until the oldest ledger leaves the window: room again
    let first = start;
    let target = first + period; // cutoff = first
    if target > s.now {
        s.advance(t, target - s.now - 1);
        s.spend(t, 0, 1, 1); // one ledger too early
        s.advance(t, 1);
    }
    s.spend(t, 0, 1, 1);
    s.spend(t, 0, 1, 1);
    let d = s.ldata(0, 1).unwrap();
    for _ in d.hist.len()..1000 {
        s.exec(t, &Op { kind: "l_enforce", a: 0, r: 1, rs: vec![0], ctx: "t:1".into(), sg: vec![1], auth: vec![0], ..Default::default() });
    }
    s.spend(t, 0, 1, 1);
    s.advance(t, period + 5); // everything leaves
    // the whole limit fits again: refused if any of the 1000 expired entries is still charged (seed C14-r11-2:
    // eviction capped per call)
    s.spend(t, 0, 1, 1_000_000_000);
    s.spend(t, 0, 1, 1);
}

/// long idle family: install all three policies, spend under a 150-day period, then let 1 / 31 /
/// 100 days pass (in the given order) with NO policy call in between; after every gap read all
/// getters and probe can_enforce / enforce: thresholds and weights unchanged, the window still
/// counts the old spends
fn directed_idle(t: &mut Trace, start: u32, gaps: &[u32]) {
    t.seq(&format!("directed long idle gaps_days={} period_days=150 start={}", join(gaps), start));
    let mut s = Sim::new(start);
    let rs = [0usize, 1, 2];
    let period = 150 * DAY;
    s.s_install(t, 0, 0, &rs, 2, &[0]);
    s.s_install(t, 1, 1, &rs, 3, &[1]);
    s.w_install(t, 0, 0, &[(0, 5), (1, 7), (3, 2)], 12, &[0]);
    s.w_install(t, 1, 0, &[(2, u32::MAX)], u32::MAX, &[1]);
    s.l_install(t, 0, 0, 100, period, &[0]);
    s.l_install(t, 1, 1, 50, period, &[1]);
    s.spend(t, 0, 0, 60);
    s.spend(t, 0, 0, 40);
    s.spend(t, 1, 1, 30);
    let mut elapsed = 0u32;
    for &g in gaps {
        s.idle(t, g * DAY);
        elapsed += g;
        s.try_enforce(t, 's', 0, 0, &rs, "o:approve", &[0], &[0]);
        s.try_enforce(t, 's', 0, 0, &rs, "o:approve", &[0, 1], &[0]);
        s.try_enforce(t, 's', 1, 1, &rs, "o:approve", &[0, 1], &[1]);
        s.try_enforce(t, 'w', 0, 0, &rs, "o:approve", &[0, 3], &[0]);
        s.try_enforce(t, 'w', 0, 0, &rs, "o:approve", &[0, 1], &[0]);
        s.try_enforce(t, 'w', 1, 0, &rs, "o:approve", &[2], &[1]);
        // the window (150 days) is still open: the old 100 / 30 must still count
        s.spend(t, 0, 0, 100);
        s.spend(t, 0, 0, 1);
        s.spend(t, 1, 1, 21);
        s.spend(t, 1, 1, 1);
    }
    // past the period: the first spends leave the window
    if elapsed < 151 {
        s.idle(t, (151 - elapsed) * DAY);
        s.spend(t, 0, 0, 101);
        s.spend(t, 0, 0, 100);
        s.spend(t, 1, 1, 30);
        s.try_enforce(t, 's', 0, 0, &rs, "o:approve", &[0, 1], &[0]);
        s.try_enforce(t, 'w', 0, 0, &rs, "o:approve", &[0, 1], &[0]);
    }
}

// ------------------------------------------------------------------------------------------
// generated sequences
// ------------------------------------------------------------------------------------------

fn gen_auth(rng: &mut Rng, a: usize) -> Vec<usize> {
    if rng.chance(85) {
        let mut r = vec![a];
        if rng.chance(15) {
            r.push(rng.below(NADDR as u64) as usize);
        }
        r.sort();
        r.dedup();
        r
    } else {
        let mut r = vec![];
        for i in 0..NADDR {
            if i != a && rng.chance(50) {
                r.push(i);
            }
        }
        if rng.chance(10) {
            r.push(a);
            r.sort();
        }
        r
    }
}

fn subset(rng: &mut Rng, n: usize, p: u64) -> Vec<usize> {
    (0..n).filter(|_| rng.chance(p)).collect()
}

fn gen_ctx(rng: &mut Rng, amt: i128) -> String {
    match rng.below(100) {
        0..=69 => format!("t:{}", amt),
        70..=79 => format!("s:{}", amt),
        80..=84 => format!("x:{}", amt),
        85..=92 => format!("m:{}", rng.pick(&["short", "empty", "u32", "u64", "i64", "u128", "i256", "sym", "addr", "void"])),
        93..=97 => format!("o:{}", rng.pick(&["approve", "transfer_from", "Transfer", "burn"])),
        _ => format!("c:{}", rng.pick(&["wasm", "ctor"])),
    }
}

fn gen_simple(rng: &mut Rng, s: &mut Sim, t: &mut Trace) {
    let a = rng.below(NA as u64) as usize;
    let r = rng.below(NR as u64) as u32;
    let n = rng.below(NS as u64 + 1) as usize;
    let rs: Vec<usize> = (0..n).collect();
    let cur = s.sthr(a, r);
    let auth = gen_auth(rng, a);
    match rng.below(100) {
        0..=17 => {
            let thr = match rng.below(6) {
                0 => 0,
                1 => n as u32 + 1,
                2 => n as u32,
                3 => 1,
                4 => u32::MAX,
                _ => rng.below(n as u64 + 2) as u32,
            };
            s.s_install(t, a, r, &rs, thr, &auth);
        }
        18..=32 => {
            let thr = match rng.below(6) {
                0 => 0,
                1 => n as u32 + 1,
                2 => n as u32,
                _ => rng.below(n as u64 + 2) as u32,
            };
            s.s_set(t, a, r, &rs, thr, &auth);
        }
        33..=39 => {
            s.uninstall(t, "s_uninstall", a, r, &auth);
        }
        _ => {
            // signer lists of length threshold-1, threshold, threshold+1, sometimes with duplicates
            let thr = cur.unwrap_or(2) as i64;
            let len = (thr + rng.range(-1, 1)).max(0).min(7) as usize;
            let mut sg: Vec<usize> = (0..len).map(|i| i % NS).collect();
            if rng.chance(30) {
                sg = subset(rng, NS, 50);
            }
            if rng.chance(10) && !sg.is_empty() {
                sg.push(sg[0]);
            }
            let ctx = gen_ctx(rng, 5);
            s.try_enforce(t, 's', a, r, &rs, &ctx, &sg, &auth);
        }
    }
}

fn gen_weight(rng: &mut Rng) -> u32 {
    const M: u32 = u32::MAX;
    match rng.below(12) {
        0 => 0,
        1 => M,
        2 => M - 1,
        3 => M / 2,
        4 => M / 2 + 1,
        5 => 1,
        _ => rng.range(1, 20) as u32,
    }
}

fn gen_weighted(rng: &mut Rng, s: &mut Sim, t: &mut Trace) {
    const M: u64 = u32::MAX as u64;
    let a = rng.below(NA as u64) as usize;
    let r = rng.below(NR as u64) as u32;
    let cur = s.wdata(a, r);
    let auth = gen_auth(rng, a);
    let total: u64 = cur.as_ref().map(|(_, ws)| ws.iter().map(|(_, w)| *w as u64).sum()).unwrap_or(0);
    let pick_thr = |rng: &mut Rng, total: u64| -> u32 {
        (match rng.below(7) {
            0 => 0,
            1 => total,
            2 => total + 1,
            3 => total.saturating_sub(1),
            4 => 1,
            5 => M,
            _ => rng.below(total + 2),
        })
        .min(M) as u32
    };
    match rng.below(100) {
        0..=17 => {
            let mut w: Vec<(usize, u32)> = vec![];
            for i in 0..NS {
                if rng.chance(60) {
                    w.push((i, gen_weight(rng)));
                }
            }
            if rng.chance(10) && !w.is_empty() {
                let d = w[0].0;
                w.push((d, gen_weight(rng))); // repeated key: the later pair wins
            }
            let tot: u64 = {
                let mut m = std::collections::BTreeMap::new();
                for (i, x) in w.iter() {
                    m.insert(*i, *x as u64);
                }
                m.values().sum()
            };
            let thr = pick_thr(rng, tot);
            s.w_install(t, a, r, &w, thr, &auth);
        }
        18..=27 => {
            let thr = pick_thr(rng, total);
            s.w_set_thr(t, a, r, thr, &auth);
        }
        28..=42 => {
            let sgn = rng.below(NS as u64) as usize;
            let old = cur.as_ref().and_then(|(_, ws)| ws.iter().find(|(i, _)| *i == sgn).map(|(_, w)| *w as u64)).unwrap_or(0);
            let thr = cur.as_ref().map(|(t, _)| *t as u64).unwrap_or(0);
            let rest = total - old;
            let wt = (match rng.below(7) {
                0 => M.saturating_sub(rest),            // total exactly u32::MAX
                1 => (M + 1).saturating_sub(rest),      // one too many
                2 => thr.saturating_sub(rest),          // threshold just reachable
                3 => thr.saturating_sub(rest + 1),      // just unreachable
                4 => 0,
                _ => gen_weight(rng) as u64,
            })
            .min(M) as u32;
            s.w_set_weight(t, a, r, sgn, wt, &auth);
        }
        43..=47 => {
            s.uninstall(t, "w_uninstall", a, r, &auth);
        }
        _ => {
            let mut sg = subset(rng, NS, 50);
            if rng.chance(15) && !sg.is_empty() {
                let d = *rng.pick(&sg);
                sg.push(d);
            }
            if rng.chance(30) {
                // shuffle
                for i in (1..sg.len()).rev() {
                    let j = rng.below(i as u64 + 1) as usize;
                    sg.swap(i, j);
                }
            }
            let ctx = gen_ctx(rng, 5);
            s.try_enforce(t, 'w', a, r, &[0, 1, 2], &ctx, &sg, &auth);
        }
    }
}

fn gen_spend(rng: &mut Rng, s: &mut Sim, t: &mut Trace, key_bias: (usize, u32)) {
    let (a, r) = if rng.chance(80) { key_bias } else { (rng.below(NA as u64) as usize, rng.below(NR as u64) as u32) };
    let cur = s.ldata(a, r);
    let auth = gen_auth(rng, a);
    let roll = rng.below(100);
    if cur.is_none() && roll < 60 || roll < 4 {
        let lim = match rng.below(8) {
            0 => 0,
            1 => -1,
            2 => 1,
            3 => i128::MAX,
            4 => 1000,
            _ => rng.range(5, 120) as i128,
        };
        let per = match rng.below(10) {
            0 => 0,
            1 => 1,
            2 => 2,
            3 => u32::MAX,
            4 => *rng.pick(&[100_000u32, 40 * 17_280, 150 * 17_280]),
            _ => rng.range(2, 8) as u32,
        };
        s.l_install(t, a, r, lim, per, &auth);
        return;
    }
    match roll {
        4..=17 => {
            // move the ledger: around the point where the oldest entry leaves the window
            let n = match &cur {
                Some(d) if !d.hist.is_empty() && rng.chance(65) => {
                    let e = d.hist[rng.below(d.hist.len().min(3) as u64) as usize].1 as u64;
                    let target = (e as i64 + d.period as i64 + rng.range(-1, 1)).max(0) as u64;
                    target.saturating_sub(s.now as u64).min(200_000) as u32
                }
                Some(d) => *rng.pick(&[0u32, 1, 1, 2, d.period.min(50), d.period.saturating_sub(1).min(50), d.period.min(50) + 1]),
                None => *rng.pick(&[0u32, 1, 2, 7]),
            };
            if (s.now as u64 + n as u64) < 3_000_000 {
                s.advance(t, n);
            }
        }
        18..=27 => {
            let base = cur.as_ref().map(|d| d.cached).unwrap_or(10);
            let lim = match rng.below(8) {
                0 => 0,
                1 => -1,
                2 => base,
                3 => base.saturating_add(1),
                4 => (base - 1).max(1),
                5 => i128::MAX,
                _ => rng.range(1, 150) as i128,
            };
            s.l_set_limit(t, a, r, lim, &auth);
        }
        28..=30 => {
            s.uninstall(t, "l_uninstall", a, r, &auth);
        }
        _ => {
            // amount relative to what is left in the window the implementation will see
            let (limit, cached, live) = match &cur {
                Some(d) => {
                    let cutoff = s.now.saturating_sub(d.period);
                    let live: i128 = d.hist.iter().filter(|(_, l)| *l > cutoff).map(|(x, _)| *x).fold(0i128, |p, q| p.saturating_add(q));
                    (d.limit, d.cached, live)
                }
                None => (10, 0, 0),
            };
            let left = limit.saturating_sub(live);
            let amt = match rng.below(16) {
                0 => left,
                1 => left.saturating_add(1),
                2 => (left - 1).max(0),
                3 => 0,
                4 => 1,
                5 => limit,
                6 => limit.saturating_sub(cached),
                7 => limit.saturating_sub(cached).saturating_add(1),
                8 => -(rng.range(1, 10) as i128),
                9 => i128::MAX,
                10 => left / 2,
                11 => (left / 3).max(1),
                _ => rng.range(1, 12) as i128,
            };
            let ctx = gen_ctx(rng, amt);
            let sg = if rng.chance(6) { vec![] } else { subset(rng, NS, 40).into_iter().chain(std::iter::once(1)).collect() };
            // now and then the rule the policy sits on has NO signers of its own (a policy-only rule)
            let rs: Vec<usize> = if rng.chance(12) { vec![] } else { vec![0, 1] };
            s.try_enforce(t, 'l', a, r, &rs, &ctx, &sg, &auth);
        }
    }
}

fn main() {
    let mut t = Trace::from_args();
    let seed = seed_from_env();
    let thorough = arg_str("--tier").as_deref() == Some("thorough");
    let nseq = arg_u64("--seqs", if thorough { 700 } else { 240 });
    let len = arg_u64("--len", 50);
    let mut rng = Rng::new(seed);
    directed_simple(&mut t);
    directed_weighted(&mut t);
    directed_spend(&mut t);
    directed_capacity(&mut t, 1000, 20, 50);
    directed_idle(&mut t, 1000, &[1, 31, 100]);
    directed_idle(&mut t, 5, &[31, 100, 1]);
    directed_idle(&mut t, 70_000, &[100, 31]);
    if thorough {
        // other shapes: everything in one ledger; one entry per ledger with a long period
        let pl = *rng.pick(&[1000u32, 500, 7, 1]);
        directed_capacity(&mut t, 2 + rng.below(50) as u32, pl, 1000 / pl + rng.below(3) as u32);
    }
    for k in 0..nseq {
        let start = *rng.pick(&[1u32, 2, 5, 100, 5000, 70_000]);
        let focus = rng.below(10);
        let mut s = Sim::new(start);
        t.seq(&format!("rand k={} seed={} focus={} start={}", k, seed, focus, start));
        let key = (rng.below(NA as u64) as usize, rng.below(NR as u64) as u32);
        for _ in 0..len {
            // now and then a long idle period (1 / 31 / 100 days) without any policy call
            if rng.chance(2) {
                let n = *rng.pick(&[1u32, 31, 31, 100]) * DAY;
                if (s.now as u64 + n as u64) < start as u64 + 3_400_000 {
                    s.idle(&mut t, n);
                    continue;
                }
            }
            let p = match focus {
                0 | 1 => 0,
                2 | 3 => 1,
                4..=7 => 2,
                _ => rng.below(3),
            };
            match p {
                0 => gen_simple(&mut rng, &mut s, &mut t),
                1 => gen_weighted(&mut rng, &mut s, &mut t),
                _ => gen_spend(&mut rng, &mut s, &mut t, key),
            }
        }
    }
    t.finish();
}
