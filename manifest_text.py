"""Human-written level texts for MANIFEST.json (one entry per claimed property)."""

TEXT = {
    "C12": dict(
        text="Lean theorems (OZ/Props/C12.lean) prove for ALL x, y, d in i128 that the coded floor/ceil/trunc mul-div "
             "(native product, else widening to I256 and narrowing; the private div_floor/div_ceil helpers exactly as "
             "written) returns the exactly rounded quotient Int.fdiv/cdiv/tdiv (x*y) d when d != 0 and it fits in i128, "
             "and the error outcome (panic / None) exactly otherwise, that the checked variants never panic, the I256 "
             "variants are exact whenever the product fits in 256 bits, Wad checked_mul/checked_div/from_ratio are the "
             "truncated exact quotient, and pow panics iff checked_pow is None. The model is tied to /repo by running the "
             "real functions in-process on the boundary lattice cube and stratified random operands and diffing against "
             "the compiled model; the exact specification is also evaluated directly on the implementation's answers.",
        note="Trusted: Lean kernel; axioms propext/Classical.choice/Quot.sound only; the hand-written model and the "
             "differential correspondence check; host I256 arithmetic semantics (trap on overflow). checked_pow is "
             "proved panic-free and equivalent to pow; its numeric value (iterated truncation) is only differential-tested."),
}

_PENDING = "not yet built in this session (planned, see DESIGN.md section 12 build order); no check is registered for it yet"
NOT_APPLICABLE = [dict(property_id=f"C{n:02d}", reason=_PENDING) for n in range(1, 21) if f"C{n:02d}" not in TEXT]
