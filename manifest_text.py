"""MANIFEST texts come from config/Cxx.json ("text", "note"); properties without a config file are listed not_applicable."""
from checks_config import PROPS

TEXT = {pid: dict(text=c["text"], note=c["note"]) for pid, c in PROPS.items()}
_PENDING = "not yet built (planned, see DESIGN.md section 12 build order); no check is registered for it yet"
NOT_APPLICABLE = [dict(property_id=f"C{n:02d}", reason=_PENDING) for n in range(1, 21) if f"C{n:02d}" not in TEXT]
