"""Human-written level texts for MANIFEST.json (one entry per claimed property)."""

TEXT = {
    "C01": dict(
        text="Lean theorems (OZ/Props/C01.lean) over a line-by-line model of Base::update / mint / transfer / transfer_from / "
             "approve / burn / burn_from prove, by induction over ALL finite operation histories with arbitrary Int amounts "
             "and arbitrary authorizing subsets: total_supply = sum of balances, balances >= 0, 0 <= supply <= i128::MAX "
             "(inv_reachable); supply moves by exactly +amount / -amount / 0 (apply_inv, *_supply); the unchecked additions "
             "in update can never overflow (update_no_overflow); a failed call is the identity (failed_no_effect); replaying "
             "the emitted events reproduces every balance (replay_events). The model is tied to /repo by driving the real "
             "library token through the Soroban host with exact authorization subsets, boundary amounts and ledger movement "
             "and diffing every getter, event and demanded authorization after every call; the property's conclusion is also "
             "evaluated directly on the implementation's observations (monitor).",
        note="Trusted: Lean kernel; standard axioms only; hand-written model + differential correspondence; host rollback, "
             "auth and TTL semantics. Proved for the Base token; other flavours funnel into Base::update (their gates are "
             "covered under C04/C05/C13/C16)."),
    "C12": dict(
        text="Lean theorems (OZ/Props/C12.lean) prove for ALL x, y, d in i128 that the coded floor/ceil/trunc mul-div "
             "(native product, else widening to I256 and narrowing; the private div_floor/div_ceil helpers exactly as "
             "written) returns the exactly rounded quotient Int.fdiv/cdiv/tdiv (x*y) d when d != 0 and it fits in i128, "
             "and the error outcome (panic / None) exactly otherwise, that the checked variants never panic, the I256 "
             "variants are exact whenever the product fits in 256 bits, Wad checked_mul/checked_div/from_ratio are the "
             "truncated exact quotient, and pow panics iff checked_pow is None. The model is tied to /repo by running the "
             "real functions in-process on the boundary lattice cube and stratified random operands and diffing against "
             "the compiled model; the exact specification is also evaluated directly on the implementation's answers.",
        note="Trusted: Lean kernel; axioms propext/Classical.choice/Quot.sound only; the hand-written model and the "
             "differential correspondence check; host I256 arithmetic semantics (trap on overflow). checked_pow is "
             "proved panic-free and equivalent to pow; its numeric value (iterated truncation) is only differential-tested."),
}

_PENDING = "not yet built in this session (planned, see DESIGN.md section 12 build order); no check is registered for it yet"
NOT_APPLICABLE = [dict(property_id=f"C{n:02d}", reason=_PENDING) for n in range(1, 21) if f"C{n:02d}" not in TEXT]
