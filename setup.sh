#!/bin/sh
# Run once after a fresh restore, offline: build the correspondence harness against /repo
# and all Lean models, theorems and drivers, from files on disk only.
set -e
cd "$(dirname "$0")"
export CARGO_NET_OFFLINE=true CARGO_TARGET_DIR="$PWD/harness/target"
mkdir -p work evidence replays lean/OZ/Audit
BINS=$(python3 -c "from checks_config import PROPS; print(' '.join(sorted(set('--bin '+b for c in PROPS.values() for b in [c['bin']]+[a['bin'] for a in c.get('also',[])]))))")
LEANT=$(python3 -c "from checks_config import PROPS; print(' '.join(sorted(set(sum(([c['drv']]+[a['drv'] for a in c.get('also',[])]+c['props']+sum((g['props'] for g in ([c['gen']] if isinstance(c.get('gen'),dict) else c.get('gen',[]))),[]) for c in PROPS.values()),[])))))")
(cd harness && cargo build --release --offline $BINS 2>&1 | tail -3)
(cd lean && lake build $LEANT 2>&1 | tail -3)
echo setup-ok
