#!/bin/sh
# Run once after a fresh restore, offline: build the correspondence harness against /repo
# and all Lean models, theorems and drivers, from files on disk only.
set -e
cd "$(dirname "$0")"
export CARGO_NET_OFFLINE=true CARGO_TARGET_DIR="$PWD/harness/target"
mkdir -p work evidence replays lean/OZ/Audit
(cd harness && cargo build --release --offline --bins 2>&1 | tail -3)
(cd lean && lake build 2>&1 | tail -3)
echo setup-ok
