#!/bin/sh
# ./run_all.sh [quick|thorough] : every registered check, sequentially; summary at the end.
cd "$(dirname "$0")"
TIER=${1:-quick}
FAIL=0
for f in config/C*.json; do
  id=$(basename "$f" .json)
  out=$(./check "$id" --tier "$TIER" 2>&1 | tail -3)
  rc=$?
  echo "$id: $(echo "$out" | tail -1)"
  echo "$out" | grep -q "^VIOLATION" && FAIL=1
done
exit $FAIL
