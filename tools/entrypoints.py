#!/usr/bin/env python3
"""Entry-point inventory of the contracts a correspondence harness drives.

The theorems quantify over ALL finite histories of the entry points the MODEL knows. That closed world is
part of the tie between model and code, so it is checked, not assumed: for every contract source the
harness of a property compiles in with `#[path = "/repo/…"]`, the set of functions inside its
`#[contractimpl …] impl` blocks (explicit entry points), the contract traits it implements that way together
with the associated items of those impls (`type ContractType = …`), and the methods those traits declare in
the library (entry points provided by trait defaults) is compared with the committed baseline
`/verif/entrypoints.json`. A difference (an entry point added, removed, a trait wired to another
ContractType) means the histories the theorems speak about are no longer all the histories of the contract:
the obligation "entry-point inventory" fails.

  tools/entrypoints.py --write            regenerate the baseline from /repo (only on the pinned tree)
  tools/entrypoints.py --check C16        exit 0 if unchanged, else print the differences and exit 1
"""
import json, os, re, sys, glob

ROOT = os.path.dirname(os.path.dirname(os.path.abspath(__file__)))
REPO = os.environ.get("OZ_REPO", "/repo")
BASE = os.path.join(ROOT, "entrypoints.json")


def strip_comments(src):
    src = re.sub(r"/\*.*?\*/", "", src, flags=re.S)
    return re.sub(r"//[^\n]*", "", src)


def block_end(src, i):
    """index just after the brace block opening at src[i] == '{'"""
    d = 0
    while i < len(src):
        if src[i] == "{":
            d += 1
        elif src[i] == "}":
            d -= 1
            if d == 0:
                return i + 1
        i += 1
    return len(src)


def depth1_items(body):
    """(kind, text) of the items directly inside an impl / trait body"""
    out, i, d = [], 0, 0
    n = len(body)
    while i < n:
        c = body[i]
        if c == "{":
            d += 1
        elif c == "}":
            d -= 1
        elif d == 0:
            m = re.compile(r"(?:pub(?:\([^)]*\))?\s+)?(?:const\s+|async\s+|unsafe\s+)*fn\s+([A-Za-z_]\w*)").match(body, i)
            if m and (i == 0 or not (body[i - 1].isalnum() or body[i - 1] == "_")):
                out.append(("fn", m.group(1)))
                i = m.end()
                continue
            m = re.compile(r"type\s+([A-Za-z_]\w*)\s*=\s*([^;]+);").match(body, i)
            if m and (i == 0 or not (body[i - 1].isalnum() or body[i - 1] == "_")):
                out.append(("type", m.group(1) + "=" + "".join(m.group(2).split())))
                i = m.end()
                continue
        i += 1
    return out


TRAIT_CACHE = {}


def trait_methods(name):
    """methods a contract trait of the library declares (searched in packages/**/src)"""
    if name in TRAIT_CACHE:
        return TRAIT_CACHE[name]
    res = None
    for f in sorted(glob.glob(os.path.join(REPO, "packages", "**", "*.rs"), recursive=True)):
        if "/test" in f[len(REPO):]:
            continue
        src = strip_comments(open(f).read())
        m = re.search(r"\btrait\s+" + re.escape(name) + r"\b[^{;]*\{", src)
        if m:
            j = m.end() - 1
            body = src[j + 1:block_end(src, j) - 1]
            res = sorted(n for k, n in depth1_items(body) if k == "fn")
            break
    TRAIT_CACHE[name] = res
    return res


def scan_contract(path):
    src = strip_comments(open(path).read())
    items = []
    for m in re.finditer(r"#\[\s*contractimpl\b[^\]]*\]", src):
        k = src.find("impl", m.end())
        if k < 0:
            continue
        j = src.find("{", k)
        head = re.sub(r"\s+", " ", src[k:j]).strip()
        body = src[j + 1:block_end(src, j) - 1]
        tm = re.match(r"impl(?:<[^>]*>)?\s+([A-Za-z_][\w:]*)(?:<[^>]*>)?\s+for\s+", head)
        trait = tm.group(1).split("::")[-1] if tm else None
        if trait:
            items.append(f"trait:{trait}")
            tms = trait_methods(trait)
            if tms is None:
                items.append(f"trait-methods:{trait}:?")
            else:
                items += [f"trait-fn:{trait}::{n}" for n in tms]
        for kind, text in depth1_items(body):
            items.append(f"{'fn' if kind == 'fn' else 'type'}:{(trait + '::') if trait else ''}{text}")
    return sorted(set(items))


def harness_local(pid, cfg):
    """the harness's own source files (the bin and what it includes from /verif/harness): contracts DEFINED in the
    harness that implement a library contract trait get that trait's default methods as entry points too"""
    files = [os.path.join(ROOT, "harness", "src", "bin", cfg["bin"] + ".rs")]
    seen = []
    while files:
        f = files.pop()
        if f in seen or not os.path.exists(f):
            continue
        seen.append(f)
        for m in re.finditer(r'#\[path\s*=\s*"([^"]+)"\]', open(f).read()):
            p = m.group(1)
            if not p.startswith("/repo/"):
                files.append(os.path.normpath(os.path.join(os.path.dirname(f), p)))
    return sorted(seen)


def harness_sources(pid, cfg):
    files = [os.path.join(ROOT, "harness", "src", "bin", cfg["bin"] + ".rs")]
    out = []
    seen = set()
    while files:
        f = files.pop()
        if f in seen or not os.path.exists(f):
            continue
        seen.add(f)
        for m in re.finditer(r'#\[path\s*=\s*"([^"]+)"\]', open(f).read()):
            p = m.group(1)
            if p.startswith("/repo/"):
                out.append(p[len("/repo/"):])
            else:
                files.append(os.path.normpath(os.path.join(os.path.dirname(f), p)))
    return sorted(set(out))


def inventory(pid):
    cfg = json.load(open(os.path.join(ROOT, "config", pid + ".json")))
    inv = {}
    for rel in harness_sources(pid, cfg):
        p = os.path.join(REPO, rel)
        inv[rel] = scan_contract(p) if os.path.exists(p) else ["<missing>"]
    for f in harness_local(pid, cfg):
        items = [x for x in scan_contract(f) if x.startswith(("trait:", "trait-fn:", "trait-methods:"))]
        if items:
            inv["harness:" + os.path.relpath(f, os.path.join(ROOT, "harness"))] = items
    return inv


def main():
    if "--write" in sys.argv:
        allinv = {}
        for f in sorted(glob.glob(os.path.join(ROOT, "config", "C*.json"))):
            pid = os.path.basename(f)[:-5]
            allinv[pid] = inventory(pid)
        json.dump(allinv, open(BASE, "w"), indent=1, sort_keys=True)
        print(f"wrote {BASE}: " + ", ".join(f"{k}:{sum(len(v) for v in allinv[k].values())}" for k in allinv))
        return 0
    if "--check" in sys.argv:
        pid = sys.argv[sys.argv.index("--check") + 1]
        base = json.load(open(BASE)).get(pid, {})
        cur = inventory(pid)
        diffs = []
        for rel in sorted(set(base) | set(cur)):
            b, c = set(base.get(rel, [])), set(cur.get(rel, []))
            for x in sorted(c - b):
                diffs.append(f"+ {rel}: {x}")
            for x in sorted(b - c):
                diffs.append(f"- {rel}: {x}")
        print(json.dumps(dict(files=len(cur), items=sum(len(v) for v in cur.values()), differences=diffs)))
        return 1 if diffs else 0
    print(__doc__)
    return 2


if __name__ == "__main__":
    sys.exit(main())
