#!/usr/bin/env python3
"""tools/status_table.py: regenerate the per-property table and the total line of DESIGN.md section 14 from
evidence/*.json and config/*.json (run after ./run_all.sh)."""
import json, re, datetime, os
os.chdir(os.path.join(os.path.dirname(os.path.abspath(__file__)), ".."))
rows, tot, names = [], 0, set()
for i in range(1, 21):
    pid = f"C{i:02d}"
    c = json.load(open(f"config/{pid}.json")); e = json.load(open(f"evidence/{pid}.json"))
    th = e["coverage"].get("theorems")
    n = len(th) if isinstance(th, list) else th
    if isinstance(th, list):
        names |= {t if isinstance(t, str) else t.get("name") for t in th}
    tot += n
    bins = " + ".join([f"`harness/src/bin/{c['bin']}.rs`"] + [f"`{a['bin']}.rs`" for a in c.get("also", [])])
    rows.append(f"| {pid} | {n} | {bins} | {', '.join('`%s`' % m for m in c['props'])} |")
s = open("DESIGN.md").read()
a = s.index("| property | property theorems | harness binaries | theorem modules |")
b = s.index("\n\n", a)
s = s[:a] + "| property | property theorems | harness binaries | theorem modules |\n|---|---|---|---|\n" + "\n".join(rows) + s[b:]
s = re.sub(r"Total \(\d{4}-\d{2}-\d{2}\): [^\n]*? theorems in the registered modules",
           f"Total ({datetime.date.today().isoformat()}): {len(names)} distinct theorems ({tot} counting a module once per property that registers it) in the registered modules", s)
open("DESIGN.md", "w").write(s)
print(tot, len(names))
