#!/usr/bin/env python3
"""tools/seed_prompts.py <round-dir>   e.g. tools/seed_prompts.py /tmp/seed12
Writes <round-dir>/prompts/Cxx.txt: the task statement handed to a fresh sub-agent that is to write two seeded
breaking changes for property Cxx (it sees the property record and its scratch worktree <round-dir>/Cxx only —
nothing of /verif). The list of ideas already taken is the list of directories of /verif/seeded.
Then: `git -C /repo worktree add --detach <round-dir>/Cxx HEAD` per property, one sub-agent per property with the prompt
"Read the file <round-dir>/prompts/Cxx.txt and carry out the task it describes exactly as written (it is your complete
task statement). Work only inside <round-dir>/Cxx. Never read or write /repo or /verif.", and
`tools/seed_intake_all <round-dir>/Cxx r<N>` when it has finished (confirms, stores under seeded/, runs the check)."""
import os, sys, json
rd = sys.argv[1].rstrip("/")
T = open(os.path.join(os.path.dirname(os.path.abspath(__file__)), "seed_prompt_template.txt")).read()
seeded = sorted(os.listdir("/verif/seeded"))
os.makedirs(rd + "/prompts", exist_ok=True)
for l in open("/verif/properties.jsonl"):
    p = json.loads(l); cid = p["id"]
    taken = [d for d in seeded if d.startswith(cid + "-")]
    s = T.replace("@DIR@", rd).replace("@ID@", cid).replace("@PROP@", json.dumps(p, indent=1)).replace("@TAKEN@", ", ".join(taken))
    open(f"{rd}/prompts/{cid}.txt", "w").write(s)
print("prompts written to", rd + "/prompts")
