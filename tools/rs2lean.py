#!/usr/bin/env python3
"""tools/rs2lean.py  —  translator from a small, pure subset of Rust to Lean 4.

Regenerates `lean/OZ/Gen/Math.lean` from /repo's CURRENT sources
  packages/contract-utils/src/math/i128_fixed_point.rs   (all functions)
  packages/contract-utils/src/math/i256_fixed_point.rs   (all functions)
  packages/contract-utils/src/math/wad.rs                (the loop-free arithmetic of `impl Wad`)
so that the theorems of `lean/OZ/Props/C12Gen.lean` are re-checked against what the code says now.

The subset: free functions and methods of `impl` blocks whose bodies use `let`, `if`/`else`, `match` on
`Option` / a unit enum, `return`, `?`, `panic_with_error!`, method calls, `Some`/`None`, closures only as
arguments of `unwrap_or_else` / `map`, integer literals, comparison / boolean / arithmetic operators,
references and dereferences (erased), tuple-struct newtypes (erased).  Anything else raises
`Unsupported` (exit code 3): the caller then falls back to the hand-written model + correspondence and
records that the tie-by-translation was not established for this run.

Semantics (see lean/OZ/Model/RustSem.lean): a Rust expression that can panic (overflow-checked `+ - * /`,
`panic_with_error!`, a trapping host I256 operation) becomes a value of `Comp α = ok a | panic`; `Option`
is an ordinary value; `?` and `return` become early exits of the enclosing function.

Usage: rs2lean.py [--repo /repo] [--out <file>]    (prints the Lean text to stdout without --out)
"""
import re, sys, os


class Unsupported(Exception):
    pass


# ------------------------------------------------------------------ tokenizer
TOK = re.compile(r"""
    (?P<ws>\s+)
  | (?P<lc>//[^\n]*)
  | (?P<bc>/\*.*?\*/)
  | (?P<num>0x[0-9a-fA-F_]+|\d[\d_]*(?:[iu](?:8|16|32|64|128|size))?)
  | (?P<life>'[a-zA-Z_]\w*)
  | (?P<bstr>b"(?:[^"\\]|\\.)*")
  | (?P<id>[A-Za-z_]\w*)
  | (?P<str>"(?:[^"\\]|\\.)*")
  | (?P<op>>>=|<<=|\.\.=|->|=>|==|!=|<=|>=|&&|\|\||::|\+=|-=|\*=|/=|\|=|&=|\^=|%=|>>|<<|\.\.|[-+*/%&|^!<>=.,;:(){}\[\]#?@])
""", re.X | re.S)


def tokenize(src):
    out, i = [], 0
    while i < len(src):
        m = TOK.match(src, i)
        if not m:
            raise Unsupported(f"cannot tokenize at {src[i:i+30]!r}")
        i = m.end()
        k = m.lastgroup
        if k in ("ws", "lc", "bc"):
            continue
        out.append((k, m.group()))
    out.append(("eof", ""))
    return out


# ------------------------------------------------------------------ AST (tuples)
# expr: ("num", int) ("var", name) ("path", [segments]) ("call", fexpr, [args]) ("mcall", recv, name, [args])
#       ("field", e, name) ("un", op, e) ("bin", op, l, r) ("if", c, blk, else_blk|None) ("match", e, [(pat, e)])
#       ("block", [stmts], tail|None) ("closure", [params], e) ("macro", name, toks) ("try", e) ("ref", e) ("deref", e)
#       ("return", e|None) ("cast", e, ty)
# stmt: ("let", name, mutable, e) ("expr", e) ("assign", lhs, op, e) ("while", c, blk)
# pat:  ("some", name) ("none",) ("path", [segs]) ("wild",)

class Parser:
    def __init__(self, toks, only=None, tymap=None):
        self.t, self.i = toks, 0
        self.tymap = tymap or {}   # per-file renaming of (generic) type names
        self.only = only   # names of the functions whose bodies are parsed (None = all)

    def peek(self, k=0):
        return self.t[self.i + k]

    def at(self, v):
        return self.t[self.i][1] == v and self.t[self.i][0] != "str"

    def eat(self, v):
        if not self.at(v):
            raise Unsupported(f"expected {v!r}, found {self.t[self.i][1]!r} (token {self.i})")
        self.i += 1

    def opt(self, v):
        if self.at(v):
            self.i += 1
            return True
        return False

    def ident(self):
        k, v = self.t[self.i]
        if k != "id":
            raise Unsupported(f"expected identifier, found {v!r} (after {' '.join(x[1] for x in self.t[max(0, self.i - 6):self.i])})")
        self.i += 1
        return v

    # ---- items
    def skip_attrs(self):
        while self.at("#"):
            self.i += 1
            self.opt("!")
            self.eat("[")
            d = 1
            while d:
                if self.at("["):
                    d += 1
                elif self.at("]"):
                    d -= 1
                self.i += 1

    def skip_to_semicolon_or_block(self):
        d = 0
        while True:
            k, v = self.t[self.i]
            if k == "eof":
                return
            if v in "({[" and k == "op":
                d += 1
            elif v in ")}]" and k == "op":
                d -= 1
                if d == 0 and v == "}":
                    self.i += 1
                    self.opt(";")
                    return
            elif v == ";" and d == 0:
                self.i += 1
                return
            self.i += 1

    def items(self, impl_of=None):
        res = []
        while self.peek()[0] != "eof" and not self.at("}"):
            self.skip_attrs()
            if self.opt("pub"):
                if self.at("("):
                    self.skip_parens()
            k, v = self.peek()
            if v == "fn":
                res.append(self.fn(impl_of))
            elif v == "impl":
                self.i += 1
                # impl [<..>] [Trait [<..>] for] Type [where ..] { items }
                if self.at("<"):
                    self.skip_generics()
                name1 = self.type_()
                ty, trait = name1, None
                if self.opt("for"):
                    trait, ty = name1, self.type_()
                self.skip_where()
                self.eat("{")
                inner = self.items(impl_of=(ty, trait))
                self.eat("}")
                res += inner
            elif v == "const":
                save = self.i
                try:
                    self.i += 1
                    name = self.ident()
                    self.eat(":")
                    ty = self.type_()
                    self.eat("=")
                    e = self.expr()
                    self.eat(";")
                    res.append(("const", name, ty, e))
                except Unsupported:
                    # a constant outside the subset is an error only if it is used
                    self.i = save
                    self.skip_to_semicolon_or_block()
            elif v == "type":
                self.skip_to_semicolon_or_block()
            elif v == "enum":
                save = self.i
                self.i += 1
                name = self.ident()
                variants, ok = [], self.at("{")
                if ok:
                    self.i += 1
                    while not self.at("}"):
                        self.skip_attrs()
                        if self.peek()[0] != "id":
                            ok = False
                            break
                        variants.append(self.ident())
                        if self.at("="):
                            self.i += 1
                            self.expr()
                        if not self.opt(","):
                            if not self.at("}"):
                                ok = False
                            break
                if ok and self.at("}"):
                    self.i += 1
                    res.append(("enum", name, variants))
                else:
                    self.i = save
                    self.skip_to_semicolon_or_block()
            elif v in ("use", "struct", "mod", "trait", "static", "extern"):
                self.skip_to_semicolon_or_block()
            else:
                raise Unsupported(f"item starting with {v!r}")
        return res

    def skip_parens(self):
        self.eat("(")
        d = 1
        while d:
            if self.at("("):
                d += 1
            elif self.at(")"):
                d -= 1
            self.i += 1

    def type_arg(self):
        if self.peek()[0] == "num":
            v = self.peek()[1]
            self.i += 1
            return v
        return self.type_()

    def type_(self):
        # returns a string type: i128, I256, u32, u8, Wad, Self, Option<T>, Env, Rounding, bool, ...
        while self.at("&"):
            self.i += 1
            if self.peek()[0] == "life":
                self.i += 1
            self.opt("mut")
        if self.opt("["):
            inner = self.type_()
            if self.opt(";"):
                self.expr()
            self.eat("]")
            return f"slice<{inner}>"
        if self.opt("("):
            parts = []
            while not self.at(")"):
                parts.append(self.type_())
                self.opt(",")
            self.eat(")")
            return "()" if not parts else f"tuple<{','.join(parts)}>"
        if self.peek()[1] == "impl" and self.peek(1)[0] == "id":
            self.i += 1                # `impl Trait<..>` in argument position: an opaque type
            return "impl:" + self.type_()
        name = self.ident()
        while self.opt("::"):
            name = self.ident()
        if self.opt("<"):
            args = [self.type_arg()]
            while self.opt(","):
                args.append(self.type_arg())
            if self.at(">>"):
                self.t[self.i] = ("op", ">")   # `A<B<C>>`: the first half closes the inner list
            else:
                self.eat(">")
            full = f"{name}<{','.join(args)}>"
            return self.tymap.get(full, full)
        return self.tymap.get(name, name)

    def skip_generics(self):
        d = 0
        while True:
            if self.at("<"):
                d += 1
            elif self.at(">"):
                d -= 1
            elif self.at(">>"):
                d -= 2
            elif self.peek()[0] == "eof":
                raise Unsupported("unbalanced generics")
            self.i += 1
            if d <= 0:
                break

    def skip_where(self):
        if self.at("where"):
            while not self.at("{"):
                self.i += 1

    def fn(self, impl_of):
        self.eat("fn")
        name = self.ident()
        if self.at("<"):
            if self.only is not None and name not in self.only:
                self.skip_generics()
            elif self.tymap:
                self.skip_generics()
            else:
                raise Unsupported(f"generic function {name}")
        self.eat("(")
        params = []
        while not self.at(")"):
            # self | &self | mut self | name: Type | mut name: Type
            amp = False
            while self.at("&"):
                self.i += 1
                amp = True
            mut = self.opt("mut")
            pname = self.ident()
            if pname == "self":
                params.append(("self", "Self", mut))
            else:
                self.eat(":")
                # `name: &mut T` is a mutable OUT parameter
                if self.at("&") and self.peek(1)[1] == "mut":
                    mut = "out"
                params.append((pname, self.type_(), mut))
            if not self.opt(","):
                break
        self.eat(")")
        ret = "()"
        if self.opt("->"):
            ret = self.type_()
        self.skip_where()
        if self.only is not None and name not in self.only:
            # not translated: skip the body
            self.eat("{")
            d = 1
            while d:
                k_, v_ = self.t[self.i]
                if k_ == "op" and v_ == "{":
                    d += 1
                elif k_ == "op" and v_ == "}":
                    d -= 1
                elif k_ == "eof":
                    raise Unsupported("unbalanced braces")
                self.i += 1
            return ("skipfn", name)
        body = self.block()
        return ("fn", name, params, ret, body, impl_of)

    # ---- blocks / statements
    def block(self):
        self.eat("{")
        stmts, tail = [], None
        while not self.at("}"):
            if self.at("let") and self.peek(1)[1] == "Some" and self.peek(2)[1] == "(":
                self.i += 3
                name = self.ident()
                self.eat(")")
                if self.opt(":"):
                    self.type_()       # `let Some(x): Option<T> = ..`: the annotation names the entry's type, known from the store
                self.eat("=")
                e = self.expr(no_struct=True)
                self.eat("else")
                eb = self.block()
                self.eat(";")
                stmts.append(("letelse", name, e, eb))
                continue
            if self.at("let") and self.peek(1)[1] == "(":
                self.i += 2
                names = []
                while not self.at(")"):
                    names.append(self.ident())
                    if not self.opt(","):
                        break
                self.eat(")")
                self.eat("=")
                e = self.expr()
                self.eat(";")
                stmts.append(("lettuple", names, e))
                continue
            if self.at("let") and self.peek(1)[0] == "id" and self.peek(1)[1][0].isupper() and self.peek(2)[1] == "{":
                # `let Struct { f: v, g, .. } = e;`: the named fields bound to variables
                self.i += 1
                sname = self.ident()
                self.eat("{")
                binds = []
                while not self.at("}"):
                    if self.opt(".."):
                        break
                    fn_ = self.ident()
                    vn_ = self.ident() if self.opt(":") else fn_
                    binds.append((fn_, vn_))
                    if not self.opt(","):
                        break
                self.eat("}")
                self.eat("=")
                e = self.expr()
                self.eat(";")
                stmts.append(("letstruct", sname, binds, e))
                continue
            if self.at("let"):
                self.i += 1
                mut = self.opt("mut")
                name = self.ident()
                ann = None
                if self.opt(":"):
                    ann = self.type_()
                self.eat("=")
                e = self.expr()
                self.eat(";")
                stmts.append(("let", name, mut, e, ann))
                continue
            if self.at("continue") and self.peek(1)[1] in (";", "}"):
                self.i += 1
                self.opt(";")
                stmts.append(("continue",))
                continue
            if self.at("break") and self.peek(1)[1] in (";", "}"):
                self.i += 1
                self.opt(";")
                stmts.append(("break",))
                continue
            if self.at("while") and self.peek(1)[1] == "let":
                self.i += 2
                if not (self.peek()[1] == "Some" and self.peek(1)[1] == "("):
                    raise Unsupported("while-let with a pattern other than Some(x)")
                self.i += 2
                name = self.ident()
                self.eat(")")
                self.eat("=")
                c = self.expr(no_struct=True)
                b = self.block()
                stmts.append(("while", ("letsome", name, c), b))
                continue
            if self.at("while"):
                self.i += 1
                c = self.expr(no_struct=True)
                b = self.block()
                stmts.append(("while", c, b))
                continue
            if self.at("for"):
                self.i += 1
                if self.opt("("):
                    # `for (a, b) in ..`: a tuple pattern of plain names
                    names = [self.ident()]
                    while self.opt(","):
                        names.append(self.ident())
                    self.eat(")")
                    v = tuple(names)
                else:
                    v = self.ident()
                self.eat("in")
                c = self.expr(no_struct=True)
                b = self.block()
                stmts.append(("for", v, c, b))
                continue
            if self.at("match") or (self.at("if") and self.peek(1)[1] != "let"):
                # a block-like expression in statement position is a complete statement: what follows it (even a
                # parenthesis) starts the next one
                save_ = self.i
                e = self.primary(False)
                if self.at("}"):
                    tail = e
                    continue
                if self.opt(";"):
                    stmts.append(("expr", e))
                    continue
                if self.peek()[1] in (".", "?", "as") or (self.peek()[0] == "op" and self.peek()[1] in ("+", "-", "*", "/", "==", "!=", "<", ">", "<=", ">=", "&&", "||")):
                    self.i = save_       # used as an operand after all
                else:
                    stmts.append(("expr", e))
                    continue
            e = self.expr()
            if self.at("=") or self.peek()[1] in ("+=", "-=", "*=", "/=", ">>=", "<<=", "|=", "&=", "^=", "%="):
                op = self.peek()[1]
                self.i += 1
                r = self.expr()
                self.eat(";")
                stmts.append(("assign", e, op, r))
                continue
            if self.opt(";"):
                stmts.append(("expr", e))
            elif self.at("}"):
                tail = e
            elif e[0] in ("if", "iflet", "match", "block"):
                stmts.append(("expr", e))
            else:
                raise Unsupported(f"statement not terminated near token {self.i}: {self.peek()[1]!r}")
        self.eat("}")
        return ("block", stmts, tail)

    # ---- expressions (precedence climbing)
    BIN = [("..", "..="), ("||",), ("&&",), ("==", "!=", "<", ">", "<=", ">="), ("|",), ("^",), ("&",), ("<<", ">>"), ("+", "-"), ("*", "/", "%")]

    def expr(self, lvl=0, no_struct=False):
        if lvl == 0 and self.at("return"):
            self.i += 1
            if self.at(";") or self.at("}"):
                return ("return", None)
            return ("return", self.expr())
        if lvl == len(self.BIN):
            return self.cast(no_struct)
        if lvl == 0 and self.peek()[0] == "op" and self.peek()[1] in ("..", "..="):
            # `..hi` / `..=hi`: a range from 0
            op = self.peek()[1]
            self.i += 1
            r = self.expr(lvl + 1, no_struct)
            return ("bin", op, ("num", 0, None), r)
        l = self.expr(lvl + 1, no_struct)
        while self.peek()[0] == "op" and self.peek()[1] in self.BIN[lvl]:
            # `&&x` inside an expression after an operand is the binary operator; fine
            op = self.peek()[1]
            self.i += 1
            r = self.expr(lvl + 1, no_struct)
            l = ("bin", op, l, r)
        return l

    def cast(self, no_struct):
        e = self.unary(no_struct)
        while self.at("as"):
            self.i += 1
            e = ("cast", e, self.type_())
        return e

    def unary(self, no_struct):
        if self.at("-"):
            self.i += 1
            return ("un", "-", self.unary(no_struct))
        if self.at("!"):
            self.i += 1
            return ("un", "!", self.unary(no_struct))
        if self.at("*"):
            self.i += 1
            return ("deref", self.unary(no_struct))
        if self.at("&") or self.at("&&"):
            n = 2 if self.at("&&") else 1
            self.i += 1
            self.opt("mut")
            e = self.unary(no_struct)
            for _ in range(n):
                e = ("ref", e)
            return e
        return self.postfix(no_struct)

    def args(self):
        self.eat("(")
        a = []
        while not self.at(")"):
            a.append(self.expr())
            if not self.opt(","):
                break
        self.eat(")")
        return a

    def postfix(self, no_struct):
        e = self.primary(no_struct)
        while True:
            if self.at("?"):
                self.i += 1
                e = ("try", e)
            elif self.at("."):
                self.i += 1
                k, v = self.peek()
                if k == "num":
                    self.i += 1
                    e = ("field", e, v)
                else:
                    name = self.ident()
                    if self.at("::") and self.peek(1)[1] == "<":
                        self.i += 1
                        self.skip_generics()   # turbofish `name::<..>(..)`
                    if self.at("("):
                        e = ("mcall", e, name, self.args())
                    else:
                        e = ("field", e, name)
            elif self.at("("):
                e = ("call", e, self.args())
            elif self.at("["):
                self.i += 1
                ix = self.expr()
                self.eat("]")
                e = ("index", e, ix)
            else:
                return e

    def primary(self, no_struct):
        k, v = self.peek()
        if k == "num":
            self.i += 1
            if v.startswith("0x"):
                return ("num", int(v[2:].replace("_", ""), 16), None)
            m = re.match(r"(\d[\d_]*?)_?((?:[iu](?:8|16|32|64|128|size))?)$", v)
            return ("num", int(m.group(1).replace("_", "")), m.group(2) or None)
        if k == "str":
            self.i += 1
            return ("str", v[1:-1])
        if k == "bstr":
            self.i += 1
            return ("bytes", [ord(c) for c in bytes(v[2:-1], "utf-8").decode("unicode_escape")])
        if v == "(":
            self.i += 1
            if self.at(")"):
                self.i += 1
                return ("paren_unit",)
            e = self.expr()
            if self.at(","):
                parts = [e]
                while self.opt(","):
                    if self.at(")"):
                        break
                    parts.append(self.expr())
                self.eat(")")
                return ("tuple", parts)
            self.eat(")")
            return ("paren", e)
        if v == "[":
            self.i += 1
            if self.at("]"):
                self.i += 1
                return ("array", [])
            first = self.expr()
            if self.opt(";"):
                n = self.expr()
                self.eat("]")
                return ("arrayrep", first, n)
            items_ = [first]
            while self.opt(","):
                if self.at("]"):
                    break
                items_.append(self.expr())
            self.eat("]")
            return ("array", items_)
        if v == "{":
            return self.block()
        if v == "if" and self.peek(1)[1] == "let":
            self.i += 2
            if not (self.peek()[1] in ("Some", "Ok") and self.peek(1)[1] == "("):
                raise Unsupported("if-let with a pattern other than Some(x) / Ok(x)")
            is_ok_ = self.peek()[1] == "Ok"
            self.i += 2
            self.opt("mut")            # `Some(mut x)`: the binding is a local like any other
            name = self.ident()
            self.eat(")")
            self.eat("=")
            c = self.expr(no_struct=True)
            if is_ok_:
                c = ("mcall", c, "ok", [])     # `if let Ok(x) = r` is `if let Some(x) = r.ok()`
            b = self.block()
            el = None
            if self.opt("else"):
                el = self.primary(no_struct) if self.at("if") else self.block()
            return ("iflet", name, c, b, el)
        if v == "if":
            self.i += 1
            c = self.expr(no_struct=True)
            b = self.block()
            el = None
            if self.opt("else"):
                el = self.primary(no_struct) if self.at("if") else self.block()
            return ("if", c, b, el)
        if v == "match":
            self.i += 1
            s = self.expr(no_struct=True)
            self.eat("{")
            arms = []
            while not self.at("}"):
                save_ = self.i
                try:
                    p = self.pattern()
                    if not self.at("=>"):
                        raise Unsupported("pattern")
                except Unsupported:
                    # a pattern outside the subset: skipped up to its `=>` (an error only if the match is translated)
                    self.i = save_
                    self.skip_attrs()
                    d_ = 0
                    while not (d_ == 0 and self.at("=>")):
                        if self.peek()[0] == "eof":
                            raise Unsupported("unterminated match arm")
                        if self.peek()[0] == "op" and self.peek()[1] in "([{":
                            d_ += 1
                        elif self.peek()[0] == "op" and self.peek()[1] in ")]}":
                            d_ -= 1
                        self.i += 1
                    p = ("opaque",)
                self.eat("=>")
                e = self.expr()
                arms.append((p, e))
                if not self.opt(","):
                    if not self.at("}") and e[0] not in ("block", "if", "match"):
                        raise Unsupported("match arm separator")
            self.eat("}")
            return ("match", s, arms)
        if v in ("continue", "break") and self.peek(1)[1] in (",", ";", "}"):
            self.i += 1
            return ("block", [((v),)], None)      # `continue` / `break` in expression position (a match arm)
        if v == "|" or v == "||":
            params = []
            if v == "||":
                self.i += 1
            else:
                self.i += 1
                while not self.at("|"):
                    if self.opt("("):
                        # `|(a, b)|`: a tuple pattern of plain names
                        names_ = [self.ident()]
                        while self.opt(","):
                            names_.append(self.ident())
                        self.eat(")")
                        params.append(tuple(names_))
                    else:
                        params.append(self.ident())
                        if self.opt(":"):
                            self.type_()          # `|x: T|`: the annotation is not needed (the call site fixes the type)
                    if not self.opt(","):
                        break
                self.eat("|")
            if self.opt("->"):
                rt_ = self.type_()                # `|..| -> T { .. }`
                return ("closure", params, self.expr(), rt_)
            return ("closure", params, self.expr())
        if k == "id":
            segs = [self.ident()]
            while self.at("::"):
                self.i += 1
                if self.at("<"):
                    self.skip_generics()   # `Type::<T>::name`
                    continue
                segs.append(self.ident())
            if self.at("!"):
                self.i += 1
                # macro: capture the balanced token group
                open_ = self.peek()[1]
                close = {"(": ")", "[": "]", "{": "}"}[open_]
                self.i += 1
                d, toks = 1, []
                while d:
                    if self.at(open_):
                        d += 1
                    elif self.at(close):
                        d -= 1
                    if d:
                        toks.append(self.peek()[1])
                    self.i += 1
                return ("macro", segs[-1], toks)
            if not no_struct and self.at("{") and segs[-1][0].isupper() and self.peek(1)[0] == "id" \
                    and self.peek(2)[1] in (":", ",", "}"):
                # struct literal `Name { f: e, g }`
                self.i += 1
                fields = []
                while not self.at("}"):
                    fn_ = self.ident()
                    if self.opt(":"):
                        fe = self.expr()
                    else:
                        fe = ("var", fn_)
                    fields.append((fn_, fe))
                    if not self.opt(","):
                        break
                self.eat("}")
                return ("struct", segs[-1], fields)
            if len(segs) == 1:
                return ("var", segs[0])
            return ("path", segs)
        raise Unsupported(f"expression starting with {v!r}")

    def pattern(self):
        k, v = self.peek()
        if v == "_":
            self.i += 1
            return ("wild",)
        segs = [self.ident()]
        while self.opt("::"):
            segs.append(self.ident())
        if len(segs) == 1 and segs[0][0].islower():
            g = None
            if self.opt("if"):
                g = self.expr(no_struct=True)
            return ("bind", segs[0], g)
        if segs == ["Some"]:
            self.eat("(")
            n = self.ident()
            self.eat(")")
            if self.opt("if"):
                return ("some", n, self.expr(no_struct=True))     # `Some(x) if guard`
            return ("some", n)
        if segs == ["None"]:
            return ("none",)
        if len(segs) == 2 and self.at("(") and self.peek(1)[0] == "id" and self.peek(2)[1] == "{":
            # `Enum::Variant(Struct { a, b, c })`: a payload variant destructured into its fields
            self.i += 1
            sname = self.ident()
            self.eat("{")
            flds = []
            rest_ = False
            while not self.at("}"):
                if self.opt(".."):
                    rest_ = True       # `..`: the fields not named are not bound
                    break
                flds.append(self.ident())
                if not self.opt(","):
                    break
            self.eat("}")
            self.eat(")")
            return ("vstruct", segs, sname, flds) + (("rest",) if rest_ else ())
        if len(segs) == 2 and segs[0] in VTUPLE_ENUMS and self.at("("):
            # `Enum::Variant(a, b)` of an enum that is specialized away before translation
            self.i += 1
            names = []
            while not self.at(")"):
                names.append(self.ident())
                if not self.opt(","):
                    break
            self.eat(")")
            return ("vtuple", segs, names)
        return ("path", segs)


VTUPLE_ENUMS = set()


TENUMS = {}             # enum with tuple-variant payloads kept as a Lean inductive type: name -> [(Variant, [field types])]
HELPER_GETTERS = set()   # names of private generic helpers that are `storage().persistent().get(key)` + TTL bookkeeping
OPAQUE_CONSTS = {}      # (Enum, Variant) of an enum kept as an opaque identifier -> (number, type)


LET_TYPES = {}      # (function, variable) -> type of an un-annotated `let` (declared per mode)
STRUCT_ALIAS = {}   # Rust struct name -> Lean structure name, where a storage key variant carries the struct's name


OUTS = {}     # (namespace, function) -> positions of its `&mut` OUT parameters: the function returns their final values too


def flatten_ast(e):
    """all sub-trees of an AST value, as a list"""
    out = [e]
    if isinstance(e, (tuple, list)):
        for x in e:
            out += flatten_ast(x)
    return out


def ast_subst(e, m):
    """replace the variables named in `m` by expressions, everywhere in the tree"""
    if isinstance(e, tuple):
        if len(e) == 2 and e[0] == "var" and e[1] in m:
            return m[e[1]]
        return tuple(ast_subst(x, m) for x in e)
    if isinstance(e, list):
        return [ast_subst(x, m) for x in e]
    return e


def specialize_enums(fns, spec, key_fns):
    """Monomorphization, before translation, over parameters of a small `enum` that only selects storage keys
    (`spec`: {enum: {variant: [payload types]}}): a function `f(.., p: &Enum, ..)` becomes one function `f_Variant`
    per variant (the payload as parameters), every `match p { .. }` is resolved, every call passes the variant
    statically (a literal, a parameter, or a local bound to a literal), and the functions of `key_fns` — which only
    compute a storage key from such a parameter — are inlined at their call sites."""
    by = {f[1]: f for f in fns}
    def st(e):
        while isinstance(e, tuple) and e and e[0] in ("ref", "deref", "paren"):
            e = e[1]
        return e
    def enum_pos(f):
        return [i for i, (pn, pt, _) in enumerate(f[2]) if pt in spec]
    spec_fns = {f[1]: enum_pos(f) for f in fns if enum_pos(f)}
    def static_of(e, senv):
        e = st(e)
        if e[0] == "mcall" and e[2] == "clone" and not e[3]:
            return static_of(e[1], senv)
        if e[0] == "var" and e[1] in senv:
            return senv[e[1]]
        if e[0] == "path" and len(e[1]) == 2 and e[1][0] in spec and e[1][1] in spec[e[1][0]]:
            return (e[1][0], e[1][1], [])
        if e[0] == "call" and e[1][0] == "path" and len(e[1][1]) == 2 and e[1][1][0] in spec and e[1][1][1] in spec[e[1][1][0]]:
            return (e[1][1][0], e[1][1][1], [sp(a, senv) for a in e[2]])
        return None
    def choose(arms, sv, senv):
        for pat, body in arms:
            if pat[0] == "path" and pat[1] == [sv[0], sv[1]]:
                return sp(body, senv)
            if pat[0] == "vtuple" and pat[1] == [sv[0], sv[1]]:
                if len(pat[2]) != len(sv[2]):
                    raise Unsupported("payload arity of " + sv[1])
                return sp(ast_subst(body, dict(zip(pat[2], sv[2]))), senv)
            if pat[0] == "wild":
                return sp(body, senv)
        raise Unsupported(f"no arm for {sv[0]}::{sv[1]}")
    def sp_call(name, args, senv):
        f = by[name]
        pos = spec_fns.get(name, [])
        # parameters of handle types (`e: &Env`) are part of `args` too: positions are those of the signature
        if len(args) != len(f[2]):
            raise Unsupported(f"call of {name} with {len(args)} arguments")
        svs = {i: static_of(args[i], senv) for i in pos}
        if any(v is None for v in svs.values()):
            raise Unsupported(f"call of {name} with a variant that is not known statically")
        if name in key_fns:
            m, senv2 = {}, {}
            for i, (pn, pt, _) in enumerate(f[2]):
                if i in svs:
                    senv2[pn] = svs[i]
                else:
                    m[pn] = sp(args[i], senv)
            body = f[4]
            if body[0] != "block" or body[1] or body[2] is None:
                raise Unsupported(f"key function {name} with statements")
            return sp(ast_subst(body[2], m), senv2)
        new_args, suffix = [], ""
        for i, a in enumerate(args):
            if i in svs:
                suffix += "_" + svs[i][1]
                new_args.extend(svs[i][2])
            else:
                new_args.append(sp(a, senv))
        return ("call", ("var", name + suffix), new_args)
    def sp(e, senv):
        if isinstance(e, list):
            return [sp(x, senv) for x in e]
        if not isinstance(e, tuple) or not e:
            return e
        if e[0] == "block":
            senv = dict(senv)
            out = []
            for s_ in e[1]:
                if s_[0] == "let":
                    sv = static_of(s_[3], senv)
                    if sv is not None:
                        senv[s_[1]] = sv
                        continue
                    senv.pop(s_[1], None)
                    ce = st(s_[3])
                    if ce[0] == "call" and ce[1][0] == "var" and ce[1][1] in key_fns:
                        # `let key = key_fn(p, a - 1);`: the computed arguments are named first (a storage key is
                        # built from values, and `a - 1` is a checked subtraction)
                        args2 = []
                        for j_, a_ in enumerate(ce[2]):
                            a0 = st(a_)
                            if a0[0] in ("var", "num", "path") or static_of(a_, senv) is not None:
                                args2.append(a_)
                            else:
                                tmp = f"{s_[1]}_arg{j_}"
                                out.append(("let", tmp, False, sp(a_, senv), None))
                                args2.append(("var", tmp))
                        s_ = (s_[0], s_[1], s_[2], ("call", ce[1], args2), s_[4])
                r_ = sp(s_, senv)
                if r_[0] == "expr" and isinstance(r_[1], tuple) and r_[1] and r_[1][0] == "block" and r_[1][2] is None:
                    out.extend(r_[1][1])      # a resolved `match` in statement position: its arm's statements
                    continue
                out.append(r_)
            return ("block", out, sp(e[2], senv) if e[2] is not None else None)
        if e[0] == "match":
            sv = static_of(e[1], senv)
            if sv is not None:
                return choose(e[2], sv, senv)
        if e[0] == "call" and e[1][0] == "var" and e[1][1] in by and (e[1][1] in spec_fns or e[1][1] in key_fns):
            return sp_call(e[1][1], e[2], senv)
        return tuple(sp(x, senv) for x in e)
    out = []
    for f in fns:
        if f[1] in key_fns:
            continue
        pos = spec_fns.get(f[1])
        if not pos:
            out.append((f[0], f[1], f[2], f[3], sp(f[4], {}), f[5]))
            continue
        import itertools
        for combo in itertools.product(*[list(spec[f[2][i][1]].items()) for i in pos]):
            params, senv, suffix = [], {}, ""
            ci = 0
            for i, (pn, pt, mt_) in enumerate(f[2]):
                if i in pos:
                    variant, ptys = combo[ci]
                    ci += 1
                    pay = [(f"{pn}_{j}", t_, False) for j, t_ in enumerate(ptys)]
                    senv[pn] = (pt, variant, [("var", q[0]) for q in pay])
                    params.extend(pay)
                    suffix += "_" + variant
                else:
                    params.append((pn, pt, mt_))
            out.append((f[0], f[1] + suffix, params, f[3], sp(f[4], senv), f[5]))
    return out


# ------------------------------------------------------------------ translation
INT_TYPES = {"i128": "I128", "I256": "I256"}
SMALL = {"u32", "u8", "i32", "usize", "u64"}
NATTY = {"u32", "u8", "usize", "u64", "u128"}
BITS = {"u8": 8, "u32": 32, "u64": 64, "usize": 64, "u128": 128}
OPAQUE = {"Env", "CheckpointType", "Hasher!", "Context", "Key!"}   # parameters of these types are keys / handles: dropped


def sym_code(name):
    """a symbol: the number whose base-256 digits are the characters of its name (injective)"""
    return int.from_bytes(name.encode(), "big")


def as_nat(l, t):
    """a literal rendered for an unsigned context"""
    return l.replace(" : Int)", " : Nat)") if t == "int" else l


def is_int(ty):
    return ty in INT_TYPES or ty in SMALL or ty in ("Wad", "int", "u128")


class Gen:
    """One function at a time. Translation is continuation-passing: tr(e, env, k) produces Lean code of
    type `Comp R` (R = the function's result type) that evaluates `e` to a PURE atom `a` and continues
    with `k(a, ty)`."""

    def __init__(self, sigs, consts):
        self.sigs = sigs      # (ns, name) -> (param types, ret)
        self.consts = consts  # name -> (ty, lean)
        self.n = 0
        self.fuel_fns = set()

    def fresh(self, base="t"):
        self.n += 1
        return f"{base}{self.n}"

    # --- helpers
    def ns_of(self, ty):
        if ty == "i128":
            return "I128"
        if ty == "I256":
            return "I256"
        if ty == "Wad":
            return "Wad"
        raise Unsupported(f"no namespace for type {ty}")

    def lean_ty(self, ty):
        if ty in NATTY:
            return "Nat"
        if ty in ("i128", "I256", "Wad") or ty in SMALL:
            return "Int"
        if ty == "()":
            return "Unit"
        if ty in getattr(self, "enums", {}) or ty in getattr(self, "structs", {}):
            return ty
        if ty.startswith("tuple<"):
            return "(" + " × ".join(self.lean_ty(t_) for t_ in ty[6:-1].split(",")) + ")"
        if ty == "Leaf":
            return "Nat"     # a leaf value: an opaque identifier (its hash and index are reads)
        if ty in getattr(self, "penums", {}):
            return ty
        if ty in TENUMS:
            return ty
        if ty in ("Symbol", "Signer", "Val", "Ctx"):
            return "Nat"     # a role / function name / host value: an opaque identifier
        if ty in ("Address", "MuxedAddress"):
            return "Nat"     # an account / contract: an opaque identifier (a muxed address: its account)
        if ty == "Bytes32":
            return "B32"
        if ty == "Bytes":
            return "(List Nat)"   # a byte string: the list of its bytes
        if ty.startswith("Vec<"):
            return f"(List {self.lean_ty(ty[4:-1])})"
        if ty.startswith("KeySet<"):
            return "(List Nat)"   # a `Map<K, ()>` used as a set (K an integer / address / symbol): the list of its keys
        if ty.startswith("Map<") and len(ty[4:-1].split(",")) == 2:
            # a host map with opaque-identifier keys: the association list sorted by key, one entry per key
            # (`mapGet` / `mapSet` of the prelude)
            kt_, vt_ = ty[4:-1].split(",")
            # (keys of another type than an identifier: the entries can only be iterated; `mapGet` / `mapSet` would
            # not type-check)
            return f"(List ({self.lean_ty(kt_)} × {self.lean_ty(vt_)}))"
        if ty.startswith("BytesN<"):
            return "Nat"     # an opaque identifier, only passed through
        if ty in ("bool", "TryOk"):
            return "Bool"
        if ty.startswith("Client:"):
            return "Nat"     # a cross-contract client handle: the address of the contract it talks to
        if ty == "Rounding":
            return "Rounding"
        if ty.startswith("Option<"):
            return f"(Option {self.lean_ty(ty[7:-1])})"
        if ty.startswith("Result<"):
            return f"(Option {self.lean_ty(ty[7:-1].split(',')[0])})"   # Ok(v) = some v, Err(_) = none
        raise Unsupported(f"type {ty}")

    def strip(self, e):
        while e[0] in ("ref", "deref", "paren"):
            e = e[1]
        return e

    def panic(self):
        return "Comp.panic"

    # --- conditions: pure boolean expressions (Props)
    def cond(self, e, env):
        e = self.strip(e)
        if e[0] == "bin" and e[1] in ("&&", "||"):
            return f"({self.cond(e[2], env)} {'∧' if e[1] == '&&' else '∨'} {self.cond(e[3], env)})"
        if e[0] == "bin" and e[1] in ("==", "!=", "<", ">", "<=", ">="):
            l, lt = self.pure(e[2], env)
            r, rt = self.pure(e[3], env)
            if lt == rt and lt in getattr(self, "enums", {}) and e[1] in ("==", "!="):
                return f"({l} {'=' if e[1] == '==' else '≠'} {r})"
            if e[1] in ("==", "!=") and lt.startswith("Option<") and rt.startswith("Option<") and \
                    (lt == rt or lt.endswith("?>") or rt.endswith("?>")) and lt[7:-1] in ("Address", "Symbol", "u32", "?"):
                return f"({l} {'=' if e[1] == '==' else '≠'} {r})"
            if lt == rt and lt in ("Address", "Symbol", "Bytes", "Signer", "Val") and e[1] in ("==", "!="):
                return f"({l} {'=' if e[1] == '==' else '≠'} {r})"
            if lt == rt == "Bytes32":
                if e[1] in ("==", "!="):
                    return f"({l} {'=' if e[1] == '==' else '≠'} {r})"
                if e[1] == ">" and "gt" in getattr(self, "reads", {}):
                    # the byte-string order (`PartialOrd` of BytesN): a function of the reads record
                    self.uses_reads = True
                    return f"(envr.gt {l} {r} = true)"
                raise Unsupported(f"comparison {e[1]} of byte strings")
            if not (is_int(lt) and is_int(rt)):
                raise Unsupported(f"comparison of {lt} and {rt}")
            if lt in NATTY or rt in NATTY:
                if not ((lt in NATTY or lt == "int") and (rt in NATTY or rt == "int")):
                    raise Unsupported(f"comparison of {lt} and {rt}")
                l, r = as_nat(l, lt), as_nat(r, rt)
            op = {"==": "=", "!=": "≠", "<": "<", ">": ">", "<=": "≤", ">=": "≥"}[e[1]]
            return f"({l} {op} {r})"
        if e[0] == "un" and e[1] == "!":
            return f"(¬ {self.cond(e[2], env)})"
        if e[0] == "var" and e[1] in env and env[e[1]][1] == "bool":
            return f"({env[e[1]][0]} = true)"
        if e[0] == "mcall" and e[2] in ("contains", "is_empty"):
            l, t = self.pure(e, env)
            if t == "bool":
                return f"({l} = true)"
        if e[0] == "mcall" and e[2] == "is_multiple_of" and len(e[3]) == 1:
            l, lt = self.pure(e[1], env)
            a_ = self.strip(e[3][0])
            if lt in NATTY and a_[0] == "num" and int(str(a_[1]).replace("_", ""), 0) > 0:
                return f"({l} % {as_nat(*self.pure(a_, env))} = 0)"
        raise Unsupported(f"condition {e[0]}")

    # --- branching on a condition whose operands may panic (short-circuit semantics kept)
    def branch(self, c, env, kt, kf, ret):
        c = self.strip(c)
        try:
            pc = self.cond(c, env)
        except Unsupported:
            pc = None
        if pc is not None:
            return f"(if {pc} then\n {kt()}\n else\n {kf()})"
        if c[0] == "bin" and c[1] == "&&":
            return self.branch(c[2], env, lambda: self.branch(c[3], env, kt, kf, ret), kf, ret)
        if c[0] == "bin" and c[1] == "||":
            return self.branch(c[2], env, kt, lambda: self.branch(c[3], env, kt, kf, ret), ret)
        if c[0] == "un" and c[1] == "!":
            return self.branch(c[2], env, kf, kt, ret)
        if c[0] == "bin" and c[1] in ("==", "!=", "<", ">", "<=", ">="):
            op = {"==": "=", "!=": "≠", "<": "<", ">": ">", "<=": "≤", ">=": "≥"}[c[1]]

            def kl(a, at):
                def kr(b, bt):
                    if not (is_int(at) and is_int(bt)):
                        raise Unsupported(f"comparison of {at} and {bt}")
                    if at in NATTY or bt in NATTY:
                        if not ((at in NATTY or at == "int") and (bt in NATTY or bt == "int")):
                            raise Unsupported(f"comparison of {at} and {bt}")
                        return f"(if ({as_nat(a, at)} {op} {as_nat(b, bt)}) then\n {kt()}\n else\n {kf()})"
                    return f"(if ({a} {op} {b}) then\n {kt()}\n else\n {kf()})"
                return self.tr(c[3], env, kr, ret)
            return self.tr(c[2], env, kl, ret)
        if c[0] == "mcall" and c[2] in ("is_some", "is_none") and not c[3]:
            def ko(a, at):
                if not at.startswith("Option<"):
                    raise Unsupported(f"{c[2]} on {at}")
                t, f = (kt, kf) if c[2] == "is_some" else (kf, kt)
                v = self.fresh("v")
                return f"(optCase {a}\n (fun {v} =>\n {t()})\n ({f()}))"
            return self.tr(c[1], env, ko, ret)
        if c[0] == "mcall" and c[2] == "is_some_and" and len(c[3]) == 1:
            cl = self.strip(c[3][0])
            if cl[0] != "closure" or len(cl[1]) != 1:
                raise Unsupported("is_some_and without a one-parameter closure")

            def ko(a, at):
                if not at.startswith("Option<"):
                    raise Unsupported(f"is_some_and on {at}")
                v = cl[1][0]
                inner = self.branch(cl[2], dict(env, **{v: (v, at[7:-1])}), kt, kf, ret)
                return f"(optCase {a}\n (fun {v} =>\n {inner})\n ({kf()}))"
            return self.tr(c[1], env, ko, ret)
        if c[0] in ("call", "mcall", "var"):
            # a boolean-valued computation (e.g. a call of a translated predicate)
            def kb(a, at):
                if at != "bool":
                    raise Unsupported(f"condition of type {at}")
                return f"(if ({a} = true) then\n {kt()}\n else\n {kf()})"
            return self.tr(c, env, kb, ret)
        raise Unsupported(f"condition {c[0]} {c[1] if len(c) > 1 and isinstance(c[1], str) else ''}")

    # --- pure expressions (no panic possible): returns (lean, ty)
    def pure(self, e, env):
        e = self.strip(e)
        if e[0] == "num":
            if e[2] in NATTY:
                return (f"({e[1]} : Nat)", e[2])      # `0u32`: an unsigned literal
            return (f"({e[1]} : Int)", e[2] or "int")
        if e[0] == "var" and e[1] == "None":
            return ("none", "Option<?>")
        if e[0] == "var" and e[1] in ("true", "false") and e[1] not in env:
            return (e[1], "bool")
        if e == ("paren_unit",):
            return ("()", "()")
        if e[0] == "var":
            if e[1] in env:
                return env[e[1]]
            if e[1] in self.consts:
                return (self.consts[e[1]][1], self.consts[e[1]][0])
            raise Unsupported(f"unknown variable {e[1]}")
        if e[0] == "bin" and e[1] in ("&", ">>", "|"):
            l, lt = self.pure(e[2], env)
            r = self.strip(e[3])
            if lt in NATTY and r[0] == "num":
                if e[1] == "&" and r[1] == 1:
                    return (f"({l} % 2)", lt)
                if e[1] == ">>":
                    return (f"({l} / {2 ** r[1]})", lt)
            if lt in NATTY:
                rl, rt = self.pure(e[3], env)
                if rt in NATTY or rt == "int":
                    return (f"({l} {'&&&' if e[1] == '&' else ('|||' if e[1] == '|' else '>>>')} {as_nat(rl, rt)})", lt)
            raise Unsupported(f"bit operation {e[1]} on {lt}")
        if e[0] == "call" and e[1][0] == "path" and e[1][1][0] == "BytesN" and e[1][1][-1] == "from_array" and len(e[2]) == 2:
            arr = self.strip(e[2][1])
            if arr[0] == "arrayrep" and self.strip(arr[1])[0] == "num" and self.strip(arr[2])[0] == "num":
                return (f"(List.replicate {self.strip(arr[2])[1]} ({self.strip(arr[1])[1]} : Nat))", "Bytes32")
            raise Unsupported("BytesN::from_array of a non-literal")
        if e[0] == "call" and e[1][0] == "var" and isinstance(getattr(self, "reads", {}).get(e[1][1]), tuple) \
                and self.reads[e[1][1]][0] == "purefn" and (self.cur_ns, e[1][1]) not in self.sigs:
            _, atys, rty_ = self.reads[e[1][1]]
            args_ = [a for a in e[2] if not self.is_handle(a, env)]
            if len(args_) != len(atys):
                raise Unsupported(f"{e[1][1]}: arity")
            self.uses_reads = True
            return (f"(envr.{e[1][1]} {' '.join(self.pure(a, env)[0] for a in args_)})", rty_)
        if e[0] == "call" and e[1] == ("path", ["Vec", "new"]) and all(self.strip(a) in (("var", "e"), ("var", "_e")) for a in e[2]):
            return ("[]", "Vec<?>")
        if e[0] == "call" and e[1] == ("path", ["Map", "new"]) and all(self.strip(a) in (("var", "e"), ("var", "_e")) for a in e[2]):
            return ("[]", "KeySet<?>")     # a `Map<K, ()>` used as a set: the list of its keys
        if e[0] == "call" and e[1] == ("path", ["Vec", "from_iter"]) and len(e[2]) == 2 and self.strip(e[2][0]) in (("var", "e"), ("var", "_e")):
            # `Vec::from_iter(e, v.iter().filter(|x| pure predicate))`
            it_ = self.strip(e[2][1])
            if it_[0] == "mcall" and it_[2] in ("keys", "values") and not it_[3]:
                # `Vec::from_iter(e, map.keys())`: the keys in the map's order
                try:
                    l_, t_ = self.pure(it_, env)
                    if t_.startswith("Vec<"):
                        return (l_, t_)
                except Unsupported:
                    pass
            if it_[0] == "mcall" and it_[2] == "filter" and len(it_[3]) == 1:
                src_ = self.strip(it_[1])
                cl_ = self.strip(it_[3][0])
                if src_[0] == "mcall" and src_[2] == "iter" and not src_[3] and cl_[0] == "closure" and len(cl_[1]) == 1:
                    vl, vt = self.pure(src_[1], env)
                    if vt.startswith("Vec<"):
                        x_ = self.fresh(cl_[1][0] + "_")
                        pl = self.cond(cl_[2], dict(env, **{cl_[1][0]: (x_, vt[4:-1])}))
                        return (f"(List.filter (fun {x_} => decide {pl}) {vl})", vt)
            raise Unsupported("Vec::from_iter of this iterator")
        if e[0] == "struct":
            if e[1] in STRUCT_ALIAS:
                e = (e[0], STRUCT_ALIAS[e[1]]) + tuple(e[2:])     # a struct whose Lean name differs from its Rust name
            flds = getattr(self, "structs", {}).get(e[1])
            if flds is None or [f for f, _ in flds] != [f for f, _ in e[2]]:
                raise Unsupported(f"struct literal {e[1]}")
            parts = []
            for (fn_, ft), (_, fe) in zip(flds, e[2]):
                l, t = self.pure(fe, env)
                parts.append(f"{fn_} := {as_nat(l, t) if ft in NATTY or ft == 'Address' else l}")
            return (f"({{ {', '.join(parts)} }} : {e[1]})", e[1])
        if e[0] == "mcall" and e[2] == "clone" and not e[3]:
            return self.pure(e[1], env)
        if e[0] == "mcall" and e[2] == "ok" and not e[3]:
            l, t = self.pure(e[1], env)
            if not t.startswith("Result<"):
                raise Unsupported(".ok() of " + t)
            return (l, "Option<" + t[7:-1] + ">")       # `Ok(v)` = `some v`, `Err(_)` = `none`
        if e[0] == "call" and e[1] == ("path", ["i128", "try_from_val"]) and len(e[2]) == 2 and self.is_handle(e[2][0], env) \
                and "i128_try_from_val" in getattr(self, "reads", {}):
            # the host's conversion of a value to i128: a function of the reads record (`none` = not an i128)
            l, t = self.pure(e[2][1], env)
            if t != "Val":
                raise Unsupported("i128::try_from_val of " + t)
            self.uses_reads = True
            return (f"(envr.i128_try_from_val {l})", "Result<i128>")
        if e[0] == "mcall" and e[2] == "as_ref" and not e[3]:
            l, t = self.pure(e[1], env)
            if not t.startswith("Option<"):
                raise Unsupported("as_ref of " + t)
            return (l, t)      # `Option<T>` seen as `Option<&T>`: the same value
        if e[0] == "mcall" and e[2] == "map_or" and len(e[3]) == 2 and self.strip(e[3][1])[0] == "closure" \
                and len(self.strip(e[3][1])[1]) == 1:
            l, t = self.pure(e[1], env)
            if not t.startswith("Option<"):
                raise Unsupported("map_or of " + t)
            cl = self.strip(e[3][1])
            dl, dt = self.pure(e[3][0], env)
            if t == "Option<?>":
                return (dl, dt)        # the receiver is the literal `None` on this path
            x_ = self.fresh(cl[1][0] + "_")
            bl, bt = self.pure(cl[2], dict(env, **{cl[1][0]: (x_, t[7:-1])}))
            if bt in NATTY:
                dl = as_nat(dl, dt)
            return (f"(Option.elim {l} {dl} (fun {x_} => {bl}))", bt)
        if e[0] == "mcall" and e[2] == "address" and not e[3]:
            l, t = self.pure(e[1], env)
            if t == "MuxedAddress":
                return (l, "Address")
            raise Unsupported(f".address() of {t}")
        if e == ("mcall", ("mcall", ("var", "e"), "ledger", []), "max_live_until_ledger", []) and "max_ttl" in getattr(self, "reads", {}):
            self.uses_reads = True
            return (f"(OZ.Host.Cfg.maxLiveUntil {self.CFG} envr.ledger_sequence)", "u32")
        if e == ("mcall", ("mcall", ("var", "e"), "ledger", []), "max_live_until_ledger", []) and "max_live_until_ledger" in getattr(self, "reads", {}):
            self.uses_reads = True
            return ("envr.max_live_until_ledger", self.reads["max_live_until_ledger"])
        if e[0] == "cast":
            l, t = self.pure(e[1], env)
            if e[2] in ("i128", "I256") and (t in SMALL or t in ("int", "i128")):
                return (l, e[2])
            if e[2] == "u128" and t in ("i128", "int"):
                return (f"(i128_as_u128 {l})", "u128")     # two's complement reinterpretation
            if e[2] == "u32" and t == "usize":
                return (f"({l} % 4294967296)", "u32")      # truncating cast
            raise Unsupported(f"cast of {t} as {e[2]}")
        if e[0] == "field" and e[2] != "0":
            l, t = self.pure(e[1], env)
            flds = dict(getattr(self, "structs", {}).get(t, []))
            if e[2] not in flds:
                raise Unsupported(f"field {e[2]} of {t}")
            return (f"{l}.{e[2]}", flds[e[2]])
        if e[0] == "field" and e[2] == "0":
            l, t = self.pure(e[1], env)
            if t.startswith("Map<") or t.startswith("Vec<"):
                return (l, t)      # a newtype around a host collection (`Signatures(pub Map<..>)`): the collection itself
            if t != "Wad":
                raise Unsupported(f".0 of {t}")
            return (l, "i128")
        if e[0] == "call" and e[1][0] == "path" and e[1][1] in (["I256", "from_i128"], ["I256", "from_i32"]):
            return (self.pure(e[2][1], env)[0], "I256")
        if e[0] == "call" and e[1][0] == "path" and len(e[1][1]) == 2 and e[1][1][0] == "Self" \
                and e[1][1][1] in getattr(self, "reads", {}) \
                and all(self.strip(a) in (("var", "e"), ("var", "_e")) for a in e[2]):
            # a side-effect-free getter of the contract's state: a field of the environment-reads record
            self.uses_reads = True
            return (f"envr.{e[1][1][1]}", self.reads[e[1][1][1]])
        if e[0] == "path" and len(e[1]) == 2 and (e[1][0], e[1][1]) in OPAQUE_CONSTS:
            n_, t_ = OPAQUE_CONSTS[(e[1][0], e[1][1])]
            return (f"({n_} : Nat)", t_)
        if e[0] == "path" and e[1] == ["i128", "MAX"]:
            return (f"({2**127 - 1} : Int)", "i128")
        if e[0] == "path" and e[1] == ["i128", "MIN"]:
            return (f"(-{2**127} : Int)", "i128")
        if e[0] == "path" and e[1] == ["u32", "BITS"]:
            return ("(32 : Nat)", "u32")
        if e[0] == "path" and len(e[1]) == 2 and e[1][0] == "Rounding":
            return (f"Rounding.{e[1][1]}", "Rounding")
        if e[0] == "path" and len(e[1]) == 2 and e[1][0] in getattr(self, "enums", {}):
            if e[1][1] not in self.enums[e[1][0]]:
                raise Unsupported(f"unknown variant {e[1]}")
            return (f"{e[1][0]}.{e[1][1]}", e[1][0])
        st_ = self.storage_get(e, env)
        if st_ is not None:
            return st_
        if e[0] == "mcall" and e[2] == "inspect" and len(e[3]) == 1 and self.strip(e[3][0])[0] == "closure":
            inner = self.storage_get(self.strip(e[1]), env)
            cb = self.strip(self.strip(e[3][0])[2])
            while cb[0] == "block":
                if not cb[1] and cb[2] is not None:
                    cb = self.strip(cb[2])
                elif len(cb[1]) == 1 and cb[2] is None and cb[1][0][0] == "expr":
                    cb = self.strip(cb[1][0][1])
                else:
                    break
            if inner is not None and cb[0] == "mcall" and cb[2] == "extend_ttl":
                return inner   # `.inspect(|_| extend_ttl(..))`: TTL bookkeeping only
        if e[0] == "mcall" and e[2] == "has" and len(e[3]) == 1 and self.is_storage(e[1]) and getattr(self, "store", None):
            ko = self.key_of(e[3][0], env)
            if ko is not None and "$st" in env:
                return (f"(Option.isSome ({env['$st'][0]}.{ko[0]}{''.join(' ' + a for a in ko[1])}))", "bool")
        if e[0] == "mcall" and e[2] in ("is_some", "is_none") and not e[3]:
            l, t = self.pure(e[1], env)
            if t.startswith("Option<"):
                return (f"(Option.{'isSome' if e[2] == 'is_some' else 'isNone'} {l})", "bool")
        rd_ = getattr(self, "reads", {})
        if e == ("mcall", ("mcall", ("var", "e"), "ledger", []), "network_id", []) and "network_id" in rd_:
            self.uses_reads = True
            return ("envr.network_id", "Bytes")
        if e == ("mcall", ("mcall", ("var", "e"), "ledger", []), "timestamp", []) and "ledger_timestamp" in rd_:
            self.uses_reads = True
            return ("envr.ledger_timestamp", rd_["ledger_timestamp"])
        if e == ("mcall", ("var", "e"), "current_contract_address", []) and "current_contract_address" in rd_:
            self.uses_reads = True
            return ("envr.current_contract_address", "Address")
        if e[0] == "mcall" and e[2] == "to_bytes" and not e[3]:
            try:
                l_, t_ = self.pure(e[1], env)
            except Unsupported:
                l_, t_ = None, None
            if t_ == "Bytes32":
                return (l_, t_)     # `Hash<32>::to_bytes()`: the same 32 bytes
        if e[0] == "mcall" and e[2] == "to_array" and not e[3]:
            l, t = self.pure(e[1], env)
            if t in ("Bytes", "Bytes32"):
                return (l, t)       # the bytes as an array: the same byte string
        if e[0] == "call" and e[1] == ("path", ["Bytes", "from_array"]) and len(e[2]) == 2 and self.is_handle(e[2][0], env):
            l, t = self.pure(e[2][1], env)
            if t in ("Bytes", "Bytes32"):
                return (l, "Bytes")
            raise Unsupported("Bytes::from_array of " + t)
        if e[0] == "mcall" and e[2] == "to_xdr" and len(e[3]) == 1 and self.is_handle(e[3][0], env) and "to_xdr" in rd_:
            l, t = self.pure(e[1], env)
            if t != "Address":
                raise Unsupported("to_xdr of " + t)
            self.uses_reads = True
            return (f"(envr.to_xdr {l})", "Bytes")
        if e[0] == "mcall" and e[2] == "to_be_bytes" and not e[3]:
            l, t = self.pure(e[1], env)
            if t != "u32":
                raise Unsupported("to_be_bytes of " + t)
            return (f"(u32_to_be_bytes {l})", "Bytes")
        if e[0] == "mcall" and e[2] == "to_bytes" and not e[3] and "keccak256" in rd_:
            r_ = self.strip(e[1])
            if r_[0] == "mcall" and r_[2] == "keccak256" and len(r_[3]) == 1 and self.strip(r_[1]) == ("mcall", ("var", "e"), "crypto", []):
                l, t = self.pure(r_[3][0], env)
                if t != "Bytes":
                    raise Unsupported("keccak256 of " + t)
                self.uses_reads = True
                return (f"(envr.keccak256 {l})", "Bytes32")
        if e[0] == "mcall" and e[2] in ("unwrap_or", "unwrap_or_default") and len(e[3]) == (1 if e[2] == "unwrap_or" else 0):
            r_ = self.strip(e[1])
            if r_[0] == "mcall" and r_[2] == "inspect":
                il, it = self.pure(r_, env)
                if it.startswith("Option<"):
                    vt_ = it[7:-1]
                    if e[2] == "unwrap_or":
                        d, dt = self.pure(e[3][0], env)
                        d = as_nat(d, dt) if vt_ in NATTY else d
                    elif vt_ == "bool":
                        d = "false"
                    elif vt_ in NATTY:
                        d = "(0 : Nat)"
                    else:
                        raise Unsupported("unwrap_or_default of " + it)
                    return (f"(Option.getD {il} {d})", vt_)
        if e[0] == "mcall" and e[2] == "unwrap_or" and len(e[3]) == 1:
            inner = self.storage_get(self.strip(e[1]), env)
            if inner is not None:
                d, dt = self.pure(e[3][0], env)
                if inner[1][7:-1] in NATTY:
                    d = as_nat(d, dt)
                return (f"(Option.getD {inner[0]} {d})", inner[1][7:-1])
        if e == ("mcall", ("mcall", ("var", "e"), "ledger", []), "sequence", []) and "ledger_sequence" in getattr(self, "reads", {}):
            self.uses_reads = True
            return ("envr.ledger_sequence", self.reads["ledger_sequence"])
        if e[0] == "call" and e[1][0] == "var" and e[1][1] in getattr(self, "reads", {}) and (self.cur_ns, e[1][1]) not in self.sigs:
            # a state getter called with the environment and PARAMETERS of this function passed through
            if isinstance(self.reads[e[1][1]], tuple):
                raise Unsupported("indexed state getter (not pure: it may panic)")
            for a in e[2]:
                a_ = self.strip(a)
                if not (a_[0] == "var" and (a_[1] in ("e", "_e") or a_[1] in self.param_names)):
                    raise Unsupported(f"state getter {e[1][1]} called with a computed argument")
            self.uses_reads = True
            return (f"envr.{e[1][1]}", self.reads[e[1][1]])
        if e[0] == "call" and e[1] == ("var", "Wad"):
            return (self.pure(e[2][0], env)[0], "Wad")
        if e[0] == "call" and e[1] == ("path", ["Wad", "from_raw"]):
            return (self.pure(e[2][0], env)[0], "Wad")
        if e[0] == "call" and e[1] == ("var", "Some"):
            l, t = self.pure(e[2][0], env)
            return (f"(some {l})", f"Option<{t}>")
        if e[0] == "tuple":
            parts_ = [self.pure(x, env) for x in e[1]]
            return ("(" + ", ".join(as_nat(l_, t_) if t_ == "int" else l_ for l_, t_ in parts_) + ")",
                    "tuple<" + ",".join("u32" if t_ == "int" else t_ for _, t_ in parts_) + ">")
        if e[0] == "un" and e[1] == "!":
            l, t = self.pure(e[2], env)
            if t != "bool":
                raise Unsupported("! of " + t)
            return (f"(!{l})", "bool")
        if e[0] == "macro" and e[1] == "vec" and e[2] in (["e"], ["_e"]):
            return ("[]", "Vec<?>")     # `vec![e]`: the empty vector
        if e[0] == "macro" and e[1] == "matches" and len(e[2]) >= 2 and e[2][1] == "," and e[2][2:] == ["Ok", "(", "Ok", "(", "_", ")", ")"] \
                and e[2][0] in env and env[e[2][0]][1] == "TryOk":
            return (env[e[2][0]][0], "bool")
        if e[0] == "macro" and e[1] == "symbol_short" and len(e[2]) == 1 and e[2][0].startswith('"'):
            return (f"({sym_code(e[2][0][1:-1])} : Nat)", "Symbol")
        if e[0] == "call" and e[1] == ("path", ["Symbol", "new"]) and len(e[2]) == 2 and self.is_handle(e[2][0], env) \
                and self.strip(e[2][1])[0] == "str":
            return (f"({sym_code(self.strip(e[2][1])[1])} : Nat)", "Symbol")
        if e[0] == "mcall" and e[2] == "into_val" and len(e[3]) == 1 and self.is_handle(e[3][0], env):
            return self.pure(e[1], env)     # conversion to a host value: the same data
        if e[0] == "call" and e[1] == ("var", "Ok") and len(e[2]) == 1:
            l, t = self.pure(e[2][0], env)       # `Result<T, E>`: `some` value or `none` (the error value is not kept)
            return (f"(some {l})", f"Result<{t}>")
        if e[0] == "call" and e[1] == ("var", "Err") and len(e[2]) == 1:
            return ("none", "Result<?>")
        if e[0] == "paren_unit":
            return ("()", "()")
        if e[0] == "var" and e[1] == "None":
            return ("none", "Option<?>")
        if e[0] == "mcall":
            r = self.pure_mcall(e, env)
            if r:
                return r
        if e[0] == "if":
            c = self.cond(e[1], env)
            a, at = self.pure(self.block_expr(e[2]), env)
            b, bt = self.pure(self.block_expr(e[3]), env)
            rt_ = at if at != "int" else bt
            if rt_ in NATTY:
                a, b = as_nat(a, at), as_nat(b, bt)
            return (f"(if {c} then {a} else {b})", rt_)
        raise Unsupported(f"not a pure expression: {e[0]} {e[1] if len(e) > 1 and isinstance(e[1], str) else ''}")

    def storage_get(self, e, env=None):
        """`e.storage().instance()/persistent()/temporary().get(&Key::Variant)` (optionally typed `get::<_, T>`)
        → the field `get_<Variant>` of the reads record, an `Option`"""
        if e[0] == "call" and e[1][0] == "var" and e[1][1] in HELPER_GETTERS and len(e[2]) == 2 \
                and self.strip(e[2][0]) in (("var", "e"), ("var", "_e")):
            # a generic private helper `fn get_persistent_entry<T>(e, key) -> Option<T>` that is nothing but
            # `e.storage().persistent().get(key)` plus TTL bookkeeping (declared per mode)
            e = ("mcall", ("mcall", ("mcall", ("var", "e"), "storage", []), "persistent", []), "get", [e[2][1]])
        if e[0] == "mcall" and e[2] == "get" and len(e[3]) == 1:
            r = self.strip(e[1])
            if r[0] == "mcall" and r[2] in ("instance", "persistent", "temporary") and not r[3] \
                    and self.strip(r[1]) == ("mcall", ("var", "e"), "storage", []):
                key = self.strip(e[3][0])
                ko = self.key_of(key, env) if (getattr(self, "store", None) and env is not None) else None
                if ko is not None:
                    cell, kargs = ko
                    if "$st" not in env:
                        raise Unsupported("storage read outside a store function")
                    if self.is_temp(cell):
                        self.uses_reads = True
                        return (f"(OZ.Host.Temp.get? ({env['$st'][0]}.{cell}{''.join(' ' + a for a in kargs)}) envr.ledger_sequence)", f"Option<{self.store[cell][1]}>")
                    return (f"({env['$st'][0]}.{cell}{''.join(' ' + a for a in kargs)})", f"Option<{self.store[cell][1]}>")
                if key[0] == "path":
                    name = "get_" + key[1][-1]
                    if name in getattr(self, "reads", {}):
                        self.uses_reads = True
                        return (f"envr.{name}", self.reads[name])
        return None

    def key_of(self, key, env):
        """a storage key expression -> (cell name, [argument atoms]) of the store record, or None"""
        key = self.strip(key)
        store = getattr(self, "store", None) or {}
        if key[0] == "var" and key[1] in getattr(self, "key_params", {}) and key[1] not in env:
            return (self.key_params[key[1]], [])
        if key[0] == "var" and key[1] in env and env[key[1]][1].startswith("Key:"):
            cell = env[key[1]][1][4:]
            return (cell, [a for a in env[key[1]][0].split("\x00") if a])
        if key[0] == "path" and len(key[1]) == 2 and key[1][1] in store and not store[key[1][1]][0]:
            return (key[1][1], [])
        if key[0] == "call" and key[1][0] == "path" and len(key[1][1]) == 2 and key[1][1][1] in store:
            cell = key[1][1][1]
            atys = store[cell][0]
            if len(atys) != len(key[2]):
                raise Unsupported(f"storage key {cell}: arity")
            args_ = []
            for a in key[2]:
                l, t = self.pure(a, env)
                args_.append(l)
            return (cell, args_)
        return None

    def is_temp(self, cell):
        return len(self.store[cell]) > 2 and self.store[cell][2] == "temp"

    CFG = "(⟨envr.min_temp_ttl, envr.max_ttl⟩ : OZ.Host.Cfg)"

    def is_storage(self, r):
        r = self.strip(r)
        return r[0] == "mcall" and r[2] in ("instance", "persistent", "temporary") and not r[3] \
            and self.strip(r[1]) == ("mcall", ("var", "e"), "storage", [])

    def block_expr(self, b):
        if b is None:
            raise Unsupported("if without else used as a value")
        if b[0] == "block" and not b[1] and b[2] is not None:
            return b[2]
        return b

    PURE_M = {
        ("i128", "checked_mul"): ("i128_checked_mul", "Option<i128>"),
        ("i128", "checked_add"): ("i128_checked_add", "Option<i128>"),
        ("i128", "checked_sub"): ("i128_checked_sub", "Option<i128>"),
        ("i128", "checked_div"): ("i128_checked_div", "Option<i128>"),
        ("i128", "checked_rem_euclid"): ("i128_checked_rem_euclid", "Option<i128>"),
        ("i128", "checked_neg"): ("i128_checked_neg", "Option<i128>"),
        ("i128", "checked_pow"): ("i128_checked_pow", "Option<i128>"),
        ("i128", "checked_abs"): ("i128_checked_abs", "Option<i128>"),
        ("i128", "saturating_add"): ("i128_saturating_add", "i128"),
        ("i128", "saturating_sub"): ("i128_saturating_sub", "i128"),
    }

    def pure_mcall(self, e, env):
        _, recv, name, args = e
        r0 = self.strip(recv)
        if name == "any" and len(args) == 1 and r0[0] == "mcall" and r0[2] == "iter" and not r0[3]:
            # `v.iter().any(|x| pure predicate)`
            cl = self.strip(args[0])
            try:
                vl, vt = self.pure(r0[1], env)
            except Unsupported:
                return None
            if vt.startswith("Vec<") and cl[0] == "closure" and len(cl[1]) == 1 and isinstance(cl[1][0], str):
                x_ = self.fresh(cl[1][0] + "_")
                pl = self.cond(cl[2], dict(env, **{cl[1][0]: (x_, vt[4:-1])}))
                return (f"(List.any {vl} (fun {x_} => decide {pl}))", "bool")
            if vt.startswith("Vec<tuple<") and cl[0] == "closure" and len(cl[1]) == 1 and isinstance(cl[1][0], tuple) \
                    and len(cl[1][0]) == len(vt[10:-2].split(",")):
                # `|(a, _)|` over a vector of tuples: the components by projection (`_` binds nothing)
                tys_ = vt[10:-2].split(",")
                x_ = self.fresh("p_")
                env2 = dict(env)
                for jx_, (nm_, ty_) in enumerate(zip(cl[1][0], tys_)):
                    if nm_ != "_":
                        env2[nm_] = (x_ + "".join(".2" for _ in range(jx_)) + (".1" if jx_ < len(tys_) - 1 else ""), ty_)
                pl = self.cond(cl[2], env2)
                return (f"(List.any {vl} (fun {x_} => decide {pl}))", "bool")
        if name == "position" and len(args) == 1 and r0[0] == "mcall" and r0[2] == "iter" and not r0[3]:
            # `v.iter().position(|x| pure predicate)`: index of the first element satisfying it
            cl = self.strip(args[0])
            try:
                vl, vt = self.pure(r0[1], env)
            except Unsupported:
                return None
            if vt.startswith("Vec<") and cl[0] == "closure" and len(cl[1]) == 1:
                x_ = self.fresh(cl[1][0] + "_")
                pl = self.cond(cl[2], dict(env, **{cl[1][0]: (x_, vt[4:-1])}))
                return (f"(List.findIdx? (fun {x_} => decide {pl}) {vl})", "Option<usize>")
        if name == "rposition" and len(args) == 1 and r0[0] == "mcall" and r0[2] == "iter" and not r0[3]:
            # `v.iter().rposition(|x| pure predicate)`: index of the LAST element satisfying it
            cl = self.strip(args[0])
            try:
                vl, vt = self.pure(r0[1], env)
            except Unsupported:
                return None
            if vt.startswith("Vec<") and cl[0] == "closure" and len(cl[1]) == 1:
                x_ = self.fresh(cl[1][0] + "_")
                pl = self.cond(cl[2], dict(env, **{cl[1][0]: (x_, vt[4:-1])}))
                return (f"(listRPosition (fun {x_} => decide {pl}) {vl})", "Option<usize>")
        try:
            rl, rt = self.pure(recv, env)
        except Unsupported:
            return None
        if rt == "int":
            rt = "i128"
        if (rt, name) in self.PURE_M:
            f, ret = self.PURE_M[(rt, name)]
            al = [self.pure(a, env)[0] for a in args]
            return (f"({f} {rl} {' '.join(al)})", ret)
        if rt in NATTY and name in ("checked_add", "checked_sub") and len(args) == 1:
            al, at_ = self.pure(args[0], env)
            return (f"(uN_{name} {BITS[rt]} {rl} {as_nat(al, at_)})", f"Option<{rt}>")
        if rt in NATTY and name in ("saturating_add", "saturating_sub") and len(args) == 1:
            bits = BITS[rt]
            al, at_ = self.pure(args[0], env)
            return (f"(uN_{name} {bits} {rl} {as_nat(al, at_)})", rt)
        if rt.startswith("Vec<") and name == "get" and len(args) == 1:
            al, at_ = self.pure(args[0], env)
            if not (at_ in NATTY or at_ == "int"):
                raise Unsupported("Vec::get with an index of type " + at_)
            return (f"({rl}[{as_nat(al, at_)}]?)", f"Option<{rt[4:-1]}>")
        if rt.startswith("Vec<") and name == "contains" and len(args) == 1:
            al, at_ = self.pure(args[0], env)
            elt = rt[4:-1]
            return (f"(decide ({as_nat(al, at_) if elt in NATTY else al} ∈ {rl}))", "bool")
        if rt.startswith("KeySet<") and name == "contains_key" and len(args) == 1:
            al, at_ = self.pure(args[0], env)
            return (f"(decide ({as_nat(al, at_) if at_ in NATTY or at_ == 'int' else al} ∈ {rl}))", "bool")
        if rt.startswith("Map<") and name == "get" and len(args) == 1:
            al, at_ = self.pure(args[0], env)
            return (f"(mapGet {rl} {as_nat(al, at_)})", f"Option<{rt[4:-1].split(',')[1]}>")
        if rt.startswith("Map<") and name == "values" and not args:
            return (f"(List.map Prod.snd {rl})", f"Vec<{rt[4:-1].split(',')[1]}>")
        if rt.startswith("Map<") and name == "keys" and not args:
            return (f"(List.map Prod.fst {rl})", f"Vec<{rt[4:-1].split(',')[0]}>")
        if rt.startswith("Map<") and name == "len" and not args:
            return (f"(List.length {rl})", "u32")
        if rt.startswith("Vec<") and name == "first_index_of" and len(args) == 1:
            # index of the first element equal to the argument
            al, at_ = self.pure(args[0], env)
            elt = rt[4:-1]
            x_ = self.fresh("y_")
            return (f"(List.findIdx? (fun {x_} => decide ({x_} = {as_nat(al, at_) if elt in NATTY else al})) {rl})", "Option<u32>")
        if rt.startswith("Vec<") and name == "is_empty" and not args:
            return (f"(List.isEmpty {rl})", "bool")
        if rt.startswith("Vec<") and name == "len" and not args:
            return (f"(List.length {rl})", "u32")
        if rt == "Bytes" and name == "is_empty" and not args:
            return (f"(List.isEmpty {rl})", "bool")
        if rt == "Bytes" and name == "len" and not args:
            return (f"(List.length {rl})", "u32")     # the length of a byte string / host string
        if rt in NATTY and name == "div_ceil" and len(args) == 1:
            a_ = self.strip(args[0])
            if not (a_[0] == "num" and int(str(a_[1]).replace("_", ""), 0) > 0):
                raise Unsupported("div_ceil by a non-literal")
            al, at_ = self.pure(args[0], env)
            return (f"(uN_div_ceil {rl} {as_nat(al, at_)})", rt)
        if rt == "I256" and name == "to_i128" and not args:
            return (f"(i256_to_i128 {rl})", "Option<i128>")
        if rt.startswith("Option<") and name == "map" and len(args) == 1:
            inner = rt[7:-1]
            a = self.strip(args[0])
            if a == ("var", "Wad"):
                if inner != "i128":
                    raise Unsupported("map(Wad) on " + rt)
                return (rl, "Option<Wad>")
            if a[0] == "closure" and len(a[1]) == 1:
                v = a[1][0]
                bl, bt = self.pure(a[2], dict(env, **{v: (v, inner)}))
                return (f"(Option.map (fun {v} => {bl}) {rl})", f"Option<{bt}>")
        return None

    # --- general expressions
    COMP_BIN = {"/": "div", "*": "mul", "+": "add", "-": "sub", "%": "rem", "<<": "shl"}
    COMP_M256 = {"mul": "i256_mul", "div": "i256_div", "add": "i256_add", "sub": "i256_sub", "rem_euclid": "i256_rem_euclid"}

    def tr(self, e, env, k, ret):
        """ret: the enclosing function's Rust return type (for `?` / `return`)."""
        e0 = e
        e = self.strip(e)
        if "$st" in env:
            self.cur_st = env["$st"][0]
        # 1. pure?
        pure_err, got = None, None
        try:
            got = self.pure(e, env)
        except Unsupported as ex:
            pure_err = ex
        if got is not None:
            return k(got[0], got[1])
        if e[0] == "mcall" and e[2] == "to_bytes" and not e[3] and "keccak256" in getattr(self, "reads", {}):
            r_ = self.strip(e[1])
            if r_[0] == "mcall" and r_[2] == "keccak256" and len(r_[3]) == 1 and self.strip(r_[1]) == ("mcall", ("var", "e"), "crypto", []):
                # the hashed bytes are computed (a call of a translated function): evaluate them, then hash
                def kh(a, t):
                    if t != "Bytes":
                        raise Unsupported("keccak256 of " + t)
                    self.uses_reads = True
                    return k(f"(envr.keccak256 {a})", "Bytes32")
                return self.tr(r_[3][0], env, kh, ret)
        kind = e[0]
        if kind == "bin" and e[1] in ("==", "!=", "<", ">", "<=", ">=", "&&", "||"):
            try:
                c_ = self.cond(e, env)
            except Unsupported:
                c_ = None
            if c_ is not None:
                return k(f"(decide {c_})", "bool")
            if e[1] in ("&&", "||"):
                raise Unsupported("boolean operator over effectful operands in value position")
            # a comparison whose operands are computed (e.g. a call): evaluate them, then compare
            def kl(a, at):
                def kr(b, bt):
                    v1, v2 = self.fresh("c"), self.fresh("c")
                    c2 = self.cond(("bin", e[1], ("var", v1), ("var", v2)), dict(env, **{v1: (a, at), v2: (b, bt)}))
                    return k(f"(decide {c2})", "bool")
                return self.tr(e[3], env, kr, ret)
            return self.tr(e[2], env, kl, ret)
        if kind == "macro":
            if e[1] == "panic_with_error":
                return self.panic()
            raise Unsupported(f"macro {e[1]}!")
        if kind == "return":
            if e[1] is None:
                if ret != "()":
                    raise Unsupported("return without value")
                wrap = getattr(self, "ret_wrap", None) or (lambda x: x)
                return f"Comp.ok {wrap('()')}"
            wrap = getattr(self, "ret_wrap", None) or (lambda x: x)
            return self.tr(e[1], env, lambda a, t: f"Comp.ok {wrap(as_nat(a, t) if ret in NATTY else a)}", ret)
        if kind == "cast":
            # the operand is computed (it may panic): evaluate it, then convert the atom
            return self.tr(e[1], env, lambda a, t: k(*self.pure(("cast", ("var", "$c"), e[2]), dict(env, **{"$c": (a, t)}))), ret)
        if kind == "field":
            return self.tr(e[1], env, lambda a, t: k(*self.pure(("field", ("var", "$f"), e[2]), dict(env, **{"$f": (a, t)}))), ret)
        if kind == "try":
            if getattr(self, "ret_wrap", None):
                raise Unsupported("`?` inside a loop with early returns")
            def kk(a, t):
                if not t.startswith("Option<") or not ret.startswith("Option<"):
                    raise Unsupported(f"`?` on {t} in a function returning {ret}")
                v = self.fresh("v")
                return f"(Comp.tryOpt {a} fun {v} =>\n {k(v, t[7:-1])})"
            return self.tr(e[1], env, kk, ret)
        if kind == "bin" and e[1] in self.COMP_BIN:
            def kl(a, at):
                def kr(b, bt):
                    ty = at if at != "int" else bt
                    if ty in ("int", "Wad"):
                        ty = "i128"
                    if e[1] == "<<":
                        if not (bt in NATTY and (at in NATTY or at == "int")):
                            raise Unsupported(f"shift of {at} by {bt}")
                        v = self.fresh()
                        # an untyped literal on the left takes the type of the comparison it stands in: u32 here
                        return f"(Comp.bind (uN_shl {BITS[at] if at in NATTY else 32} {as_nat(a, at)} {b}) fun {v} =>\n {k(v, at if at in NATTY else 'u32')})"
                    if ty in NATTY and e[1] in ("+", "-", "*", "/", "%"):
                        bits = BITS[ty]
                        v = self.fresh()
                        opn = {"+": "add", "-": "sub", "*": "mul", "/": "div", "%": "rem"}[e[1]]
                        return f"(Comp.bind (uN_{opn} {bits} {as_nat(a, at)} {as_nat(b, bt)}) fun {v} =>\n {k(v, ty)})"
                    if ty != "i128":
                        raise Unsupported(f"operator {e[1]} on {ty}")
                    v = self.fresh()
                    return f"(Comp.bind (i128_{self.COMP_BIN[e[1]]} {a} {b}) fun {v} =>\n {k(v, 'i128')})"
                return self.tr(e[3], env, kr, ret)
            return self.tr(e[2], env, kl, ret)
        if kind == "bin" and e[1] in ("&", "|", "^", ">>"):
            # a bit operation whose operands are computed: evaluate them, then the pure operation on the atoms
            def kl(a, at):
                def kr(b, bt):
                    got2 = self.pure(("bin", e[1], ("var", "$l"), ("var", "$r")), dict(env, **{"$l": (a, at), "$r": (b, bt)}))
                    return k(got2[0], got2[1])
                return self.tr(e[3], env, kr, ret)
            return self.tr(e[2], env, kl, ret)
        if kind == "mcall" and e[2] == "find_map" and len(e[3]) == 1 and self.strip(e[1])[0] == "bin" and self.strip(e[1])[1] == "..":
            return self.tr_find_map(e, env, k, ret)
        if kind == "iflet":
            # `if let Some(x) = v { .. } else { .. }` as a VALUE
            _, nm, sc, tb, eb = e
            if eb is None:
                raise Unsupported("if-let without else in value position")
            def kiv(a, t):
                if not t.startswith("Option<"):
                    raise Unsupported("if-let on " + t)
                nb = self.fresh(nm + "_")
                some_c = self.tr_block(tb, dict(env, **{nm: (nb, t[7:-1])}), k, ret)
                none_c = self.tr_block(eb, env, k, ret)
                return f"(optCase {a}\n (fun {nb} =>\n {some_c})\n ({none_c}))"
            return self.tr(sc, env, kiv, ret)
        if kind == "un" and e[1] == "-":
            def kn(a, at):
                v = self.fresh()
                return f"(Comp.bind (i128_neg {a}) fun {v} =>\n {k(v, 'i128')})"
            return self.tr(e[2], env, kn, ret)
        if kind == "if":
            if e[3] is None:
                raise Unsupported("if without else in value position")
            return self.branch(e[1], env, lambda: self.tr_block(e[2], env, k, ret), lambda: self.tr_block(e[3], env, k, ret), ret)
        if kind == "block":
            return self.tr_block(e, env, k, ret)
        if kind == "match" and len(e[2]) == 2 and e[2][0][0][0] == "vstruct" and e[2][1][0][0] == "wild":
            # `match x { Enum::Variant(Struct { a, b, .. }) => A, _ => B }` as a VALUE: the named eliminator of the
            # payload enum; the continuation runs in both arms
            (_, segs_, sname_, flds_, *rest_), body1 = e[2][0]
            body2 = e[2][1][1]
            en_, vn_ = segs_
            pen_ = getattr(self, "penums", {}).get(en_)
            if not pen_ or dict(pen_).get(vn_) != sname_:
                raise Unsupported(f"payload pattern {en_}::{vn_}({sname_})")
            sflds_ = dict(getattr(self, "structs", {}).get(sname_, []))
            if (set(flds_) != set(sflds_)) if not rest_ else (not set(flds_) <= set(sflds_)):
                raise Unsupported(f"payload pattern of {sname_}: fields {flds_}")
            def kmvv(sv, st_):
                if st_ != en_:
                    raise Unsupported(f"payload match on {st_}")
                pv = self.fresh("p")
                env1 = dict(env, **{f_: (f"{pv}.{f_}", sflds_[f_]) for f_ in flds_})
                return f"({en_}.case{vn_} {sv}\n (fun {pv} =>\n {self.tr_block(body1, env1, k, ret)})\n ({self.tr_block(body2, env, k, ret)}))"
            return self.tr(e[1], env, kmvv, ret)
        if kind == "match":
            def km_int(sv, st):
                # `match n { CONST => a, x if guard => b, _ => c }` on an integer: an if-chain
                code_else = None
                arms = list(e[2])
                def build(i):
                    if i == len(arms):
                        raise Unsupported("integer match without a catch-all arm")
                    p, body = arms[i]
                    if p[0] == "wild":
                        return self.tr(body, env, k, ret)
                    if p[0] == "path" and len(p[1]) == 1 and p[1][0] in self.consts:
                        c = as_nat(self.consts[p[1][0]][1], "int") if st in NATTY else self.consts[p[1][0]][1]
                        return f"(if ({sv} = {c}) then\n {self.tr(body, env, k, ret)}\n else\n {build(i + 1)})"
                    if p[0] == "bind":
                        env2 = dict(env, **{p[1]: (sv, st)})
                        if p[2] is None:
                            return self.tr(body, env2, k, ret)
                        return self.branch(p[2], env2, lambda: self.tr(body, env2, k, ret), lambda: build(i + 1), ret)
                    raise Unsupported(f"pattern {p} on {st}")
                return build(0)
            def km(s, st):
                if st in NATTY or st in ("i128", "int", "u32"):
                    return km_int(s, st)
                # matches become calls of NAMED eliminators of the prelude (anonymous `match`es of
                # different definitions do not unify in proofs)
                arms = {}
                for p, body in e[2]:
                    if p[0] == "some":
                        if not st.startswith("Option<"):
                            raise Unsupported("Some-pattern on " + st)
                        nb = self.fresh(p[1] + "_")
                        arms["some"] = f"(fun {nb} =>\n {self.tr(body, dict(env, **{p[1]: (nb, st[7:-1])}), k, ret)})"
                    elif p[0] == "none":
                        arms["none"] = f"({self.tr(body, env, k, ret)})"
                    elif p[0] == "path" and st == "Rounding":
                        arms[p[1][-1]] = f"({self.tr(body, env, k, ret)})"
                    else:
                        raise Unsupported(f"pattern {p} on {st}")
                if st.startswith("Option<") and set(arms) == {"some", "none"}:
                    return f"(optCase {s}\n {arms['some']}\n {arms['none']})"
                if st == "Rounding" and set(arms) == {"Floor", "Ceil", "Truncate"}:
                    return f"(Rounding.pick {s}\n {arms['Floor']}\n {arms['Ceil']}\n {arms['Truncate']})"
                raise Unsupported(f"match on {st} with arms {sorted(arms)}")
            return self.tr(e[1], env, km, ret)
        if kind == "call" and e[1] == ("path", ["Vec", "from_iter"]) and len(e[2]) == 2 and self.strip(e[2][0]) in (("var", "e"), ("var", "_e")) \
                and self.strip(e[2][1])[0] == "mcall" and self.strip(e[2][1])[2] == "map" and len(self.strip(e[2][1])[3]) == 1 \
                and self.strip(self.strip(e[2][1])[3][0])[0] == "closure" and len(self.strip(self.strip(e[2][1])[3][0])[1]) == 1 \
                and self.strip(self.strip(e[2][1])[1])[0] == "mcall" and self.strip(self.strip(e[2][1])[1])[2] == "iter":
            # `Vec::from_iter(e, v.iter().map(|x| body))` with a body that computes (and may trap): the results in order,
            # by an auxiliary definition recursing on the list (the first trap aborts the whole collection)
            m_ = self.strip(e[2][1])
            cl_ = self.strip(m_[3][0])
            src_ = self.strip(m_[1])[1]
            vl, vt = self.pure(src_, env)
            if not vt.startswith("Vec<"):
                raise Unsupported("from_iter over " + vt)
            self.loops += 1
            name = f"{self.cur_ns}.{self.cur_fn}.loop{self.loops}"
            others = [v for v in sorted(env) if not v.startswith("$") and not env[v][1].startswith("Key:") and env[v][1] != "Closure"
                      and not (env[v][1].startswith("Client:") and not env[v][0])]
            penv = {v: (v + "_", env[v][1]) for v in others}
            plist = " ".join(f"({penv[v][0]} : {self.lean_ty(env[v][1])})" for v in others)
            rd = self.cur_ns in getattr(self, "reads_ns", set())
            ev = " envr" if rd else ""
            has_st_ = "$st" in env
            if has_st_:
                if (self.cur_ns, self.cur_fn) in getattr(self, "writers", set()):
                    raise Unsupported("from_iter with a computing closure inside a state-changing function")
                penv["$st"] = ("st_", "Store")       # a reader: the store is a constant parameter
                plist = f"(st_ : {self.cur_ns}.Store) " + plist
            stp_ = (lambda en: en["$st"][0] + " ") if has_st_ else (lambda en: "")
            xn = cl_[1][0]
            seen = {}
            def kbody(a, t):
                seen["t"] = t
                r_ = self.fresh("r")
                return (f"(Comp.bind ({name}{ev} rest_ {stp_(penv)}{' '.join(penv[v][0] for v in others)}) fun {r_} =>\n Comp.ok ({a} :: {r_}))")
            body_code = self.tr(cl_[2], dict(penv, **{xn: (xn + "_", vt[4:-1])}), kbody, ret)
            elt_t = seen.get("t")
            if elt_t is None:
                raise Unsupported("from_iter: closure body")
            self.aux.append(f"def {name} {'(envr : ' + self.cur_ns + '.Reads) ' if rd else ''}(xs_ : List {self.lean_ty(vt[4:-1])}) {plist} : Comp (List {self.lean_ty(elt_t)}) :=\n"
                            f" match xs_ with\n | [] => Comp.ok []\n | {xn}_ :: rest_ =>\n {body_code}\n")
            v_ = self.fresh()
            return f"(Comp.bind ({name}{ev} {vl} {stp_(env)}{' '.join(env[v][0] for v in others)}) fun {v_} =>\n {k(v_, 'Vec<' + elt_t + '>')})"
        if kind == "call" and e[1][0] == "var" and ("$cl:" + e[1][1]) in env:
            # a call of a local closure `let f = |x| { body }`: the body is expanded here with the parameters bound
            # to the arguments (the closure captures immutable bindings only: its free variables keep their values)
            cl_ = env["$cl:" + e[1][1]][0]
            if len(cl_[1]) != len(e[2]):
                raise Unsupported("closure call: arity")
            got_ = []
            def gocl2(j):
                if j == len(e[2]):
                    cenv = dict(env, **{p_: g_ for p_, g_ in zip(cl_[1], got_)})
                    crt_ = cl_[3] if len(cl_) > 3 else "?closure"
                    body_ = cl_[2]
                    saved_rv = getattr(self, "ret_var", None)
                    self.ret_var = body_[2][1] if (body_[0] == "block" and body_[2] is not None and body_[2][0] == "var") else None
                    try:
                        return self.tr_block(body_, cenv, k, crt_)
                    finally:
                        self.ret_var = saved_rv
                return self.tr(e[2][j], env, lambda a, t: (got_.append((a, t)), gocl2(j + 1))[1], ret)
            return gocl2(0)
        if kind == "call":
            f = e[1]
            if f[0] == "var" and isinstance(getattr(self, "reads", {}).get(f[1]), tuple) and self.reads[f[1]][0] == "fn" and (self.cur_ns, f[1]) not in self.sigs:
                # an INDEXED state getter `name(e, key.., index)`: a function of the reads record that may panic;
                # the environment and pass-through parameters of opaque (key) types are dropped
                _, atys, rty_ = self.reads[f[1]]
                comp_args = []
                for a in e[2]:
                    if self.is_handle(a, env):
                        continue
                    comp_args.append(a)
                if len(comp_args) != len(atys):
                    raise Unsupported(f"indexed getter {f[1]}: expected {len(atys)} index arguments")
                self.uses_reads = True
                atoms = []
                def goi(i):
                    if i == len(comp_args):
                        v = self.fresh()
                        return f"(Comp.bind (envr.{f[1]} {' '.join(atoms)}) fun {v} =>\n {k(v, rty_)})"
                    def ka(x, t):
                        atoms.append(as_nat(x, t) if atys[i] in NATTY else x)
                        return goi(i + 1)
                    return self.tr(comp_args[i], env, ka, ret)
                return goi(0)
            if f[0] == "var" and ("", f[1]) in self.sigs_local:
                return self.call_fn(self.cur_ns, f[1], None, e[2], env, k, ret)
            if f[0] == "var":
                # a free function of another translated file (unique by name)
                cands = [ns for (ns, n) in self.sigs if n == f[1] and (ns, n) in self.free_fns]
                if len(cands) == 1:
                    return self.call_fn(cands[0], f[1], None, e[2], env, k, ret)
            if f[0] == "path" and len(f[1]) == 2 and f[1][0] in getattr(self, "impl_types", {}):
                tgt = self.impl_types[f[1][0]]
                tgt, pre_ = tgt if isinstance(tgt, tuple) else (tgt, "")
                if (tgt, pre_ + f[1][1]) not in self.sigs:
                    raise Unsupported(f"call of untranslated function {f[1][0]}::{f[1][1]}")
                return self.call_fn(tgt, pre_ + f[1][1], None, e[2], env, k, ret)
            if f[0] == "path" and len(f[1]) == 2 and f[1][0] in ("Wad", "Self"):
                tgt = "Wad" if f[1][0] == "Wad" else self.cur_ns
                if (tgt, f[1][1]) not in self.sigs:
                    raise Unsupported(f"call of untranslated function {f[1][0]}::{f[1][1]}")
                return self.call_fn(tgt, f[1][1], None, e[2], env, k, ret)
            if f == ("var", "Some"):
                return self.tr(e[2][0], env, lambda a, t: k(f"(some {a})", f"Option<{t}>"), ret)
            if f == ("var", "Wad"):
                return self.tr(e[2][0], env, lambda a, t: k(a, "Wad"), ret)
            raise Unsupported(f"call of {f} ({pure_err})")
        if kind == "mcall" and self.strip(e[1]) == ("var", "e") and e[2] == "invoke_contract" \
                and isinstance(getattr(self, "reads", {}).get("invoke_contract"), tuple):
            # `e.invoke_contract::<T>(contract, fn, args)`: a cross-contract call, a function of the reads record
            spec = self.reads["invoke_contract"]
            if len(e[3]) != len(spec[1]):
                raise Unsupported("invoke_contract: arity")
            self.uses_reads = True
            atoms = []
            def goz(j):
                if j == len(e[3]):
                    v_ = self.fresh()
                    return f"(Comp.bind (envr.invoke_contract {' '.join(atoms)}) fun {v_} =>\n {k(v_, spec[2])})"
                return self.tr(e[3][j], env, lambda a, t: (atoms.append(a), goz(j + 1))[1], ret)
            return goz(0)
        if kind == "mcall" and self.strip(e[1])[0] == "var" and env.get(self.strip(e[1])[1], ("", ""))[1].startswith("Client:") \
                and isinstance(getattr(self, "reads", {}).get(env[self.strip(e[1])[1]][1][7:] + "_" + e[2]), tuple) \
                and self.reads[env[self.strip(e[1])[1]][1][7:] + "_" + e[2]][0] == "fn":
            # a value-returning cross-contract call through a client variable: a function of the reads record
            cname = env[self.strip(e[1])[1]][1][7:] + "_" + e[2]
            spec = self.reads[cname]
            cargs = [a for a in e[3] if not self.is_handle(a, env)]
            atoms = []
            caddr_ = env[self.strip(e[1])[1]][0]
            if len(cargs) + 1 == len(spec[1]) and caddr_:
                atoms.append(caddr_)
                spec = (spec[0], spec[1][1:], spec[2])
            if len(cargs) != len(spec[1]):
                raise Unsupported(f"{cname}: arity")
            self.uses_reads = True
            def goy(j):
                if j == len(cargs):
                    v_ = self.fresh()
                    return f"(Comp.bind (envr.{cname} {' '.join(atoms)}) fun {v_} =>\n {k(v_, spec[2])})"
                def ky(a, t):
                    atoms.append(as_nat(a, t) if spec[1][j] in NATTY else a)
                    return goy(j + 1)
                return self.tr(cargs[j], env, ky, ret)
            return goy(0)
        if kind == "mcall" and self.strip(e[1])[0] == "var" and env.get(self.strip(e[1])[1], ("", ""))[1].startswith("Client:") \
                and (self.cur_ns, env[self.strip(e[1])[1]][1][7:] + "_" + e[2]) in self.sigs:
            cname = env[self.strip(e[1])[1]][1][7:] + "_" + e[2]
            return self.tr(("call", ("var", cname), [("var", "e")] + list(e[3])), env, k, ret)
        if kind == "mcall" and self.strip(e[1])[0] == "call" and self.strip(e[1])[1][0] == "path" and len(self.strip(e[1])[1][1]) == 2 \
                and self.strip(e[1])[1][1][1] == "new" and self.strip(e[1])[1][1][0].endswith("Client") \
                and isinstance(getattr(self, "reads", {}).get(self.strip(e[1])[1][1][0] + "_" + e[2]), tuple):
            # `XClient::new(e, &addr).method(args)`: a cross-contract call, a function of the reads record that
            # may panic; its first argument is the called contract's address
            c_ = self.strip(e[1])
            cname = c_[1][1][0] + "_" + e[2]
            spec = self.reads[cname]
            if spec[0] not in ("fn", "tryfn") or (spec[0] == "tryfn" and not e[2].startswith("try_")):
                raise Unsupported(f"cross-contract call {cname} must be declared as ('fn', ..)")
            cargs = [a for a in c_[2] if not self.is_handle(a, env)] + [a for a in e[3] if not self.is_handle(a, env)]
            if len(cargs) != len(spec[1]):
                raise Unsupported(f"{cname}: arity")
            self.uses_reads = True
            atoms = []
            def gox(j):
                if j == len(cargs):
                    if spec[0] == "tryfn":
                        # `client.try_f(..)`: never traps in the caller; its value is reduced to the one bit the
                        # caller may read with `matches!(r, Ok(Ok(_)))`
                        return k(f"(envr.{cname} {' '.join(atoms)})", "TryOk")
                    v_ = self.fresh()
                    return f"(Comp.bind (envr.{cname} {' '.join(atoms)}) fun {v_} =>\n {k(v_, spec[2])})"
                def kx(a, t):
                    atoms.append(as_nat(a, t) if spec[1][j] in NATTY else a)
                    return gox(j + 1)
                return self.tr(cargs[j], env, kx, ret)
            return gox(0)
        if kind == "mcall":
            _, recv, name, args = e

            def kr(r, rt):
                if rt == "int":
                    rt_ = "i128"
                else:
                    rt_ = rt
                # the receiver is an atom now: retry the pure method table
                try:
                    got = self.pure(("mcall", ("var", "$recv"), name, args), dict(env, **{"$recv": (r, rt_)}))
                except Unsupported:
                    got = None
                if got is not None:
                    return k(got[0], got[1])
                if (rt_, name) in self.PURE_M and args and not getattr(self, "_in_argeval", False):
                    # the ARGUMENTS are computed (a call of a translated reader): evaluate them in order, then retry
                    def goa(j_, env_):
                        if j_ == len(args):
                            self._in_argeval = True
                            try:
                                g2 = self.pure(("mcall", ("var", "$recv"), name, [("var", f"$a{x_}") for x_ in range(len(args))]),
                                               dict(env_, **{"$recv": (r, rt_)}))
                            finally:
                                self._in_argeval = False
                            return k(g2[0], g2[1])
                        return self.tr(args[j_], env_, lambda a_, t_: goa(j_ + 1, dict(env_, **{f"$a{j_}": (a_, t_)})), ret)
                    return goa(0, env)
                if rt_.startswith("Option<") and name == "map" and len(args) == 1 and self.strip(args[0])[0] == "closure" \
                        and len(self.strip(args[0])[1]) == 1:
                    # `opt.map(|x| body)` with a body that computes (and may panic): a case split
                    cl = self.strip(args[0])
                    pv = cl[1][0]
                    nb = self.fresh(pv + "_")
                    seen = {}
                    def ksome(a, t):
                        seen["t"] = t
                        return k(f"(some {a})", f"Option<{t}>")
                    some_code = self.tr(cl[2], dict(env, **{pv: (nb, rt_[7:-1])}), ksome, ret)
                    return f"(optCase {r}\n (fun {nb} =>\n {some_code})\n ({k('none', 'Option<' + seen.get('t', '?') + '>')}))"
                if rt_.startswith("Vec<") and name == "slice" and len(args) == 1 and self.strip(args[0])[0] == "bin" \
                        and self.strip(args[0])[1] in ("..", "..="):
                    # `v.slice(lo..hi)`: the sub-vector, a panic when the bounds are out of range
                    r_ = self.strip(args[0])
                    def klo(ll, lt):
                        def khi(hl, ht):
                            hi = as_nat(hl, ht) if r_[1] == ".." else f"({as_nat(hl, ht)} + 1)"
                            v = self.fresh("v")
                            return f"(Comp.unwrap (vecSlice? {r} {as_nat(ll, lt)} {hi}) fun {v} =>\n {k(v, rt_)})"
                        return self.tr(r_[3], env, khi, ret)
                    return self.tr(r_[2], env, klo, ret)
                if rt_.startswith("Vec<") and name == "get_unchecked" and len(args) == 1:
                    # `v.get_unchecked(i)`: the element, a panic outside the bounds
                    il, it_ = self.pure(args[0], env)
                    if not (it_ in NATTY or it_ == "int"):
                        raise Unsupported("get_unchecked with an index of type " + it_)
                    v = self.fresh("v")
                    return f"(Comp.unwrap ({r}[{as_nat(il, it_)}]?) fun {v} =>\n {k(v, rt_[4:-1])})"
                if rt_.startswith("Option<") and name == "and_then" and len(args) == 1 and self.strip(args[0])[0] == "closure" \
                        and len(self.strip(args[0])[1]) == 1:
                    # `opt.and_then(|x| body)` with a body that computes an Option (and may read the store)
                    cl = self.strip(args[0])
                    pv = cl[1][0]
                    nb = self.fresh(pv + "_")
                    seen = {}
                    def ksome2(a, t):
                        seen["t"] = t
                        return k(a, t)
                    some_code = self.tr(cl[2], dict(env, **{pv: (nb, rt_[7:-1])}), ksome2, ret)
                    return f"(optCase {r}\n (fun {nb} =>\n {some_code})\n ({k('none', seen.get('t', 'Option<?>'))}))"
                if rt_.startswith("Option<") and name == "expect" and len(args) == 1 and self.strip(args[0])[0] == "str":
                    v = self.fresh("v")
                    return f"(Comp.unwrap {r} fun {v} =>\n {k(v, rt_[7:-1])})"
                if rt_.startswith("Option<") and name == "unwrap_or_else":
                    a = self.strip(args[0])
                    if a[0] == "closure":
                        # `|| { panic_with_error!(..) }`: a block holding nothing but one expression is that expression
                        b_ = self.strip(a[2])
                        while b_[0] == "block" and ((not b_[1] and b_[2] is not None) or (len(b_[1]) == 1 and b_[2] is None and b_[1][0][0] == "expr")):
                            b_ = self.strip(b_[2] if b_[2] is not None else b_[1][0][1])
                        a = (a[0], a[1], b_) + tuple(a[3:])
                    if a[0] == "closure" and not a[1] and not (self.strip(a[2])[0] == "macro" and self.strip(a[2])[1] == "panic_with_error"):
                        # `opt.unwrap_or_else(|| pure default)`
                        try:
                            d_, dt_ = self.pure(a[2], env)
                        except Unsupported:
                            raise Unsupported("unwrap_or_else with a closure that is neither a panic nor a pure value")
                        return k(f"(Option.getD {r} {d_})", rt_[7:-1])
                    if not (a[0] == "closure" and not a[1] and self.strip(a[2])[0] == "macro" and self.strip(a[2])[1] == "panic_with_error"):
                        raise Unsupported("unwrap_or_else with a non-panicking closure")
                    v = self.fresh("v")
                    return f"(Comp.unwrap {r} fun {v} =>\n {k(v, rt_[7:-1])})"
                if rt_ == "I256" and name in self.COMP_M256:
                    def ka(a, at):
                        v = self.fresh()
                        return f"(Comp.bind ({self.COMP_M256[name]} {r} {a}) fun {v} =>\n {k(v, 'I256')})"
                    return self.tr(args[0], env, ka, ret)
                if rt_ == "i128" and name == "abs" and not args:
                    v = self.fresh()
                    return f"(Comp.bind (i128_abs {r}) fun {v} =>\n {k(v, 'i128')})"
                if rt_ in ("i128", "I256", "Wad") and (self.ns_of(rt_), name) in self.sigs:
                    return self.call_fn(self.ns_of(rt_), name, r, args, env, k, ret)
                raise Unsupported(f"method {name} on {rt_} ({pure_err})")
            return self.tr(recv, env, kr, ret)
        raise Unsupported(f"expression kind {kind}: {pure_err}")

    def is_handle(self, a, env):
        """an argument that carries no data of the model: the environment, a parameter of an opaque type,
        a freshly constructed hasher `H::new(e)`"""
        a = self.strip(a)
        if a[0] == "var" and (a[1] in ("e", "_e") or (a[1] in self.param_names and a[1] not in env)):
            return True
        if a == ("mcall", ("var", "e"), "current_contract_address", []) and "current_contract_address" not in getattr(self, "reads", {}):
            return True
        if a[0] == "path" and len(a[1]) == 2 and getattr(self, "key_params", None) and a[1][1] in (getattr(self, "store", None) or {}) \
                and a[1][1] in self.key_params.values():
            return True     # a storage key handed to a function whose key parameters are resolved statically
        return a[0] == "call" and a[1][0] == "path" and a[1][1][-1] == "new" and all(self.strip(x) in (("var", "e"), ("var", "_e")) for x in a[2])

    def call_fn(self, ns, name, recv, args, env, k, ret):
        ptys, rty = self.sigs[(ns, name)]
        # drop Env arguments
        real = [a for a in args]
        atoms = []

        def go(i):
            if i == len(real):
                al = ([recv] if recv is not None else []) + [a for a in atoms if a is not None]
                if ns in getattr(self, "store_ns", set()):
                    if "$st" not in env:
                        raise Unsupported("call of a store function outside a store function")
                    if (ns, name) in self.writers and not getattr(self, "_writer_ok", False):
                        raise Unsupported(f"call of the state-changing function {name} inside an expression")
                    self._writer_ok = False
                    al = [env["$st"][0]] + al
                if ns in getattr(self, "reads_ns", set()):
                    al = ["envr" if ns == self.cur_ns else f"envr.{ns.lower()}"] + al
                    self.uses_reads = True
                if (ns, name) in self.fuel_fns:
                    al = ["fuel"] + al        # `fuel` is the first parameter of every definition that takes it
                    self.uses_fuel = True
                v = self.fresh()
                return f"(Comp.bind ({ns}.{name} {' '.join(al)}) fun {v} =>\n {k(v, rty)})"
            a = self.strip(real[i])
            if a in (("var", "e"), ("var", "_e")) or (a[0] == "call" and a[1] == ("path", ["Env", "default"])) or self.is_handle(a, env):
                atoms.append(None)
                return go(i + 1)

            def ka(x, t):
                j_ = len([a_ for a_ in atoms if a_ is not None])
                if j_ < len(ptys) and ptys[j_] in NATTY:
                    x = as_nat(x, t)      # an integer literal passed for an unsigned parameter
                atoms.append(x)
                return go(i + 1)
            return self.tr(real[i], env, ka, ret)
        return go(0)

    MUTATORS = ("push_back", "push_front", "append", "extend_from_array", "remove", "remove_unchecked", "pop_front", "pop_back", "set", "insert")

    def deep_assigned(self, x, acc, lets):
        """every local that an assignment or a mutating method call ANYWHERE inside `x` re-binds (closures excluded);
        `lets` collects the names bound by `let` inside `x`"""
        if isinstance(x, list):
            for y in x:
                self.deep_assigned(y, acc, lets)
            return
        if not isinstance(x, tuple) or not x:
            return
        if x[0] == "closure":
            return
        if x[0] in ("let", "letelse") and len(x) > 1 and isinstance(x[1], str):
            lets.add(x[1])
        if x[0] == "lettuple":
            lets.update(n_ for n_ in x[1] if isinstance(n_, str))
        if x[0] == "iflet" and isinstance(x[1], str):
            lets.add(x[1])                                   # `if let Some(mut v) = ..`: local to the statement
        if x[0] == "letsome" and isinstance(x[1], str):
            lets.add(x[1])
        if x[0] == "letstruct":
            lets.update(vn_ for _, vn_ in x[2])
        if x[0] == "for":
            lets.update(x[1] if isinstance(x[1], tuple) else (x[1],))
        if x[0] == "some" and len(x) >= 2 and isinstance(x[1], str):
            lets.add(x[1])                                   # a `Some(x)` pattern binder
        if x[0] == "assign":
            l_ = self.strip(x[1])
            while l_[0] == "field":
                l_ = self.strip(l_[1])
            if l_[0] == "var":
                acc.add(l_[1])
        if x[0] == "mcall" and len(x) == 4 and x[2] in self.MUTATORS:
            r_ = self.strip(x[1])
            while r_[0] == "field":
                r_ = self.strip(r_[1])
            if r_[0] == "var" and r_[1] not in ("e", "_e"):
                acc.add(r_[1])
        for y in x[1:]:
            if isinstance(y, (tuple, list)):
                self.deep_assigned(y, acc, lets)

    def assigned_vars(self, stmts, acc):
        # what the structured scan below may miss (assignments inside match arms, nested blocks): a deep scan; a name
        # it finds that is bound by a `let` inside the scanned statements is local to them
        deep_, lets_ = set(), set()
        self.deep_assigned(stmts, deep_, lets_)
        for v_ in deep_ - lets_:
            if v_ in getattr(self, "cur_env_names", set()) or True:
                acc.add(v_)
        for st in stmts:
            if st[0] == "assign":
                lhs = self.strip(st[1])
                if lhs[0] == "field" and self.strip(lhs[1])[0] == "var":
                    lhs = self.strip(lhs[1])         # `x.f = v`: the struct value `x` is re-bound
                if lhs[0] != "var":
                    raise Unsupported("assignment to a non-variable")
                acc.add(lhs[1])
            elif st[0] == "expr" and self.strip(st[1])[0] == "mcall" and self.strip(st[1])[2] in ("push_back", "set") \
                    and self.strip(self.strip(st[1])[1])[0] == "field" and self.strip(self.strip(self.strip(st[1])[1])[1])[0] == "var":
                acc.add(self.strip(self.strip(self.strip(st[1])[1])[1])[1])      # `x.f.push_back(v)` / `x.f.set(k, v)`
            elif st[0] == "let" and self.strip(st[3])[0] == "call" and self.strip(st[3])[1][0] == "var" \
                    and (self.cur_ns, self.strip(st[3])[1][1]) in OUTS:
                for a_ in self.strip(st[3])[2]:
                    a_ = self.strip(a_)
                    if a_[0] == "field" and self.strip(a_[1])[0] == "var":
                        a_ = self.strip(a_[1])
                    if a_[0] == "var" and a_[1] not in ("e", "_e"):
                        pass
                lv_ = [self.strip(x_) for x_ in self.strip(st[3])[2]]
                real_ = [x_ for x_ in lv_ if x_ not in (("var", "e"), ("var", "_e"))]
                for j_ in OUTS[(self.cur_ns, self.strip(st[3])[1][1])]:
                    if j_ < len(real_):
                        t_ = real_[j_]
                        if t_[0] == "field" and self.strip(t_[1])[0] == "var":
                            t_ = self.strip(t_[1])
                        if t_[0] == "var":
                            acc.add(t_[1])           # the place handed to a `&mut` parameter is re-bound
            elif st[0] == "expr" and self.strip(st[1])[0] == "mcall" and self.strip(st[1])[2] in ("push_back", "push_front", "append", "extend_from_array", "remove", "pop_front") \
                    and self.strip(self.strip(st[1])[1])[0] == "var":
                acc.add(self.strip(self.strip(st[1])[1])[1])     # a growing collection is a re-bound variable
            elif st[0] == "expr" and self.strip(st[1])[0] == "mcall" and self.strip(st[1])[2] == "set" and len(self.strip(st[1])[3]) == 2 \
                    and self.strip(self.strip(st[1])[1])[0] == "var" and self.strip(self.strip(st[1])[3][1]) == ("paren_unit",):
                acc.add(self.strip(self.strip(st[1])[1])[1])     # `seen.set(k, ())` on a local `Map<K, ()>`
            elif st[0] == "expr" and self.strip(st[1])[0] == "iflet":
                e_ = self.strip(st[1])
                inner_ = set()
                self.assigned_vars(self.as_stmts(e_[3])[1], inner_)
                inner_.discard(e_[1])
                inner_ -= {x[1] for x in self.as_stmts(e_[3])[1] if x[0] == "let"}
                acc |= inner_
                if e_[4] is not None and e_[4][0] == "block":
                    self.assigned_vars(self.as_stmts(e_[4])[1], acc)
            elif st[0] == "while":
                self.assigned_vars(self.as_stmts(st[2])[1], acc)
            elif st[0] == "for":
                self.assigned_vars(self.as_stmts(st[3])[1], acc)
            elif st[0] == "expr" and self.strip(st[1])[0] == "if":
                e = self.strip(st[1])
                if e[2][0] == "block":
                    self.assigned_vars(self.as_stmts(e[2])[1], acc)
                if e[3] is not None and e[3][0] == "block":
                    self.assigned_vars(self.as_stmts(e[3])[1], acc)
        return acc

    def tr_stmts(self, stmts, env, k_end, ret):
        """statements in sequence; `k_end(env)` generates what follows the last one"""
        def go(i, env):
            if i == len(stmts):
                return k_end(env)
            s = stmts[i]
            if s[0] == "let" and len(s) > 4 and s[4] is None and isinstance(s[1], str) and (self.cur_fn, s[1]) in LET_TYPES:
                # a declared type for an un-annotated `let` whose type Rust infers from later uses
                s = s[:4] + (LET_TYPES[(self.cur_fn, s[1])],) + tuple(s[5:])
            if s[0] == "let" and self.strip(s[3])[0] == "call" and self.strip(s[3])[1][0] == "var" \
                    and (self.cur_ns, self.strip(s[3])[1][1]) in OUTS:
                # `let r = f(&mut lv, ..);` — `f` returns its result and the final values of its `&mut` parameters,
                # which are assigned back to the places named at the call (a local, or a field of a local struct)
                c_ = self.strip(s[3])
                fname_ = c_[1][1]
                real_ = [a_ for a_ in c_[2] if not (self.strip(a_) in (("var", "e"), ("var", "_e")) or self.is_handle(a_, env))]
                pos_ = OUTS[(self.cur_ns, fname_)]
                if len(pos_) != 1:
                    raise Unsupported("more than one out parameter")
                lv_ = self.strip(real_[pos_[0]])
                def kout(a, t):
                    env2 = dict(env, **{s[1]: (f"{a}.1", t)})
                    if lv_[0] == "var" and lv_[1] in env:
                        env2[lv_[1]] = (f"{a}.2", env[lv_[1]][1])
                    elif lv_[0] == "field" and self.strip(lv_[1])[0] == "var" and self.strip(lv_[1])[1] in env:
                        xn_ = self.strip(lv_[1])[1]
                        xo_, xt_ = env[xn_]
                        env2[xn_] = (f"({{ {xo_} with {lv_[2]} := {a}.2 }} : {xt_})", xt_)
                    else:
                        raise Unsupported("out argument that is neither a local nor a field of a local")
                    return go(i + 1, env2)
                return self.tr(s[3], env, kout, ret)
            if s[0] == "expr" and self.strip(s[1])[0] == "match" and all(p_[0] == "vtuple" and p_[1][0] in TENUMS for p_, _ in self.strip(s[1])[2]):
                # `match x { Enum::A(a, b) => { .. } Enum::B(c) => { .. } }` over a tuple-variant enum, as a statement:
                # a Lean `match`; what follows the statement continues in every arm
                m_ = self.strip(s[1])
                en_ = m_[2][0][0][1][0]
                vs_ = dict(TENUMS[en_])
                if sorted(p_[1][1] for p_, _ in m_[2]) != sorted(vs_):
                    raise Unsupported(f"match on {en_} does not name every variant exactly once")
                def kmt(sv, st_):
                    if st_ != en_:
                        raise Unsupported(f"match on {st_}")
                    arms_ = []
                    for p_, b_ in m_[2]:
                        vn_ = p_[1][1]
                        if len(p_[2]) != len(vs_[vn_]):
                            raise Unsupported(f"pattern {en_}::{vn_}: arity")
                        fresh_ = [self.fresh(n_ + "_") for n_ in p_[2]]
                        env1 = dict(env, **{n_: (f_, t_) for n_, f_, t_ in zip(p_[2], fresh_, vs_[vn_])})
                        b_ = b_ if b_[0] == "block" else ("block", [("expr", b_)], None)
                        if b_[2] is not None:
                            b_ = ("block", list(b_[1]) + [("expr", b_[2])], None)     # a unit-valued tail is a statement
                        code_ = self.tr_stmts(b_[1], env1, lambda env3: go(i + 1, dict(env, **{"$st": env3["$st"]}) if "$st" in env3 else env), ret)
                        arms_.append(f" | .{vn_} {' '.join(fresh_)} =>\n {code_}")
                    return f"(match {sv} with\n" + "\n".join(arms_) + ")"
                return self.tr(m_[1], env, kmt, ret)
            if s[0] == "expr" and self.strip(s[1])[0] == "mcall" and self.strip(self.strip(s[1])[1])[0] == "call" \
                    and self.strip(self.strip(s[1])[1])[1][0] == "path" and len(self.strip(self.strip(s[1])[1])[1][1]) == 2 \
                    and self.strip(self.strip(s[1])[1])[1][1][1] == "new" and self.strip(self.strip(s[1])[1])[1][1][0].endswith("Client") \
                    and isinstance(getattr(self, "reads", {}).get(self.strip(self.strip(s[1])[1])[1][1][0] + "_" + self.strip(s[1])[2]), tuple):
                # `XClient::new(e, &addr).method(args);` as a statement: called for its trap (its effects belong to the
                # other contract)
                return self.tr(self.strip(s[1]), env, lambda a, t: go(i + 1, env), ret)
            if s[0] == "expr" and not getattr(self, "store", None) and self.strip(s[1])[0] == "call" and self.strip(s[1])[1][0] == "var" \
                    and (self.cur_ns, self.strip(s[1])[1][1]) in self.sigs and self.sigs[(self.cur_ns, self.strip(s[1])[1][1])][1] == "()":
                # a translated function called for its trap only (`authenticate(e, ..);`)
                return self.tr(self.strip(s[1]), env, lambda a, t: go(i + 1, env), ret)
            if s[0] == "expr" and self.strip(s[1])[0] == "call" and self.strip(s[1])[1][0] == "var" \
                    and isinstance(getattr(self, "reads", {}).get(self.strip(s[1])[1][1]), tuple) \
                    and self.reads[self.strip(s[1])[1][1]][0] == "fn" and (self.cur_ns, self.strip(s[1])[1][1]) not in self.sigs:
                # a declared function of the reads record called for its trap only (`validate(e, &x);`)
                return self.tr(self.strip(s[1]), env, lambda a, t: go(i + 1, env), ret)
            if s[0] == "expr" and self.strip(s[1])[0] == "match" and len(self.strip(s[1])[2]) == 2 \
                    and self.strip(s[1])[2][0][0][0] == "some" and len(self.strip(s[1])[2][0][0]) == 2 and self.strip(s[1])[2][1][0][0] == "none":
                # `match o { Some(x) => A, None => B }` as a statement: `if let Some(x) = o { A } else { B }`
                m_ = self.strip(s[1])
                blk = lambda x_: x_ if x_[0] == "block" else ("block", [("expr", x_)], None)
                stmts2 = list(stmts[i:])
                stmts2[0] = ("expr", ("iflet", m_[2][0][0][1], m_[1], blk(m_[2][0][1]), blk(m_[2][1][1])))
                return self.tr_stmts(stmts2, env, k_end, ret)
            if s[0] == "expr" and self.strip(s[1])[0] == "mcall" and self.strip(s[1])[2] == "remove_unchecked" and len(self.strip(s[1])[3]) == 1 \
                    and self.strip(self.strip(s[1])[1])[0] == "var" and env.get(self.strip(self.strip(s[1])[1])[1], ("", ""))[1].startswith("Vec<"):
                # `v.remove_unchecked(i);` on a local vector: a host error (panic) when `i` is out of bounds
                vn = self.strip(self.strip(s[1])[1])[1]
                old_, vt_ = env[vn]
                def kru(ia, it_):
                    return (f"(if {as_nat(ia, it_)} < List.length {old_} then\n "
                            f"{go(i + 1, dict(env, **{vn: (f'(List.eraseIdx {old_} {as_nat(ia, it_)})', vt_)}))}\n else\n Comp.panic)")
                return self.tr(self.strip(s[1])[3][0], env, kru, ret)
            if s[0] == "let" and self.strip(s[3])[0] == "closure" and all(isinstance(p_, str) for p_ in self.strip(s[3])[1]):
                # `let f = |x| { .. };` — a local function: remembered, and expanded where it is called
                return go(i + 1, dict(env, **{s[1]: ("", "Closure"), "$cl:" + s[1]: (self.strip(s[3]), "Closure")}))
            if s[0] == "continue":
                if getattr(self, "continue_k", None) is None:
                    raise Unsupported("continue outside a translated for loop")
                return self.continue_k(env)
            if s[0] == "expr" and self.strip(s[1])[0] == "match" and len(self.strip(s[1])[2]) == 2 \
                    and self.strip(s[1])[2][0][0][0] == "some" and len(self.strip(s[1])[2][0][0]) == 3 and self.strip(s[1])[2][1][0][0] == "wild":
                # `match o { Some(x) if guard => A, _ => B }` as a statement:
                # `if let Some(x) = o { if guard { A } else { B } } else { B }`
                m_ = self.strip(s[1])
                (_, nm_, guard_), a_ = m_[2][0]
                b_ = m_[2][1][1]
                blk = lambda x_: x_ if x_[0] == "block" else ("block", [("expr", x_)], None)
                inner_ = ("block", [("expr", ("if", guard_, blk(a_), blk(b_)))], None)
                stmts2 = list(stmts[i:])
                stmts2[0] = ("expr", ("iflet", nm_, m_[1], inner_, blk(b_)))
                return self.tr_stmts(stmts2, env, k_end, ret)
            if s[0] == "expr" and self.strip(s[1])[0] == "mcall" and self.strip(s[1])[2] == "push_front" and len(self.strip(s[1])[3]) == 1 \
                    and self.strip(self.strip(s[1])[1])[0] == "var" and env.get(self.strip(self.strip(s[1])[1])[1], ("", ""))[1].startswith("Vec<"):
                vn = self.strip(self.strip(s[1])[1])[1]
                old_, vt_ = env[vn]
                def kpf(a, t):
                    if vt_ == "Vec<?>":
                        return go(i + 1, dict(env, **{vn: (f"({a} :: {old_})", f"Vec<{t}>")}))
                    return go(i + 1, dict(env, **{vn: (f"({as_nat(a, t) if vt_[4:-1] in NATTY else a} :: {old_})", vt_)}))
                return self.tr(self.strip(s[1])[3][0], env, kpf, ret)
            if s[0] == "expr" and self.strip(s[1])[0] == "mcall" and self.strip(s[1])[2] == "append" and len(self.strip(s[1])[3]) == 1 \
                    and self.strip(self.strip(s[1])[1])[0] == "var" and env.get(self.strip(self.strip(s[1])[1])[1], ("", ""))[1].startswith("Vec<"):
                # `v.append(&w);` on a local vector, `w` computed
                vn = self.strip(self.strip(s[1])[1])[1]
                old_, vt_ = env[vn]
                def kapv(a, t):
                    if not t.startswith("Vec<"):
                        raise Unsupported("append of " + t)
                    return go(i + 1, dict(env, **{vn: (f"({old_} ++ {a})", vt_ if vt_ != "Vec<?>" else t)}))
                return self.tr(self.strip(s[1])[3][0], env, kapv, ret)
            if s[0] == "break":
                if getattr(self, "break_k", None) is None:
                    raise Unsupported("break outside a translated for loop")
                return self.break_k(env)
            if s[0] == "let" and self.strip(s[3])[0] == "mcall" and self.strip(s[3])[2] == "map" and len(self.strip(s[3])[3]) == 1 \
                    and self.strip(self.strip(s[3])[3][0])[0] == "closure" and self.strip(self.strip(s[3])[1])[0] == "mcall" \
                    and self.strip(self.strip(s[3])[1])[2] == "enumerate":
                # `let it = v.iter().enumerate().map(|(i, x)| body);` — a LAZY iterator: nothing runs here. It must be
                # consumed by exactly one later `for pat in it { .. }` of this block, which then runs the closure
                # body at the head of every iteration (what `next()` does); the closure's parameters get fresh names
                m_ = self.strip(s[3])
                cl_ = self.strip(m_[3][0])
                uses_ = [j for j in range(i + 1, len(stmts)) if ("var", s[1]) in flatten_ast(stmts[j])]
                if len(cl_[1]) != 1 or not isinstance(cl_[1][0], tuple) or len(cl_[1][0]) != 2 or len(uses_) != 1 \
                        or stmts[uses_[0]][0] != "for" or self.strip(stmts[uses_[0]][2]) != ("var", s[1]) \
                        or flatten_ast(stmts[uses_[0]][3]).count(("var", s[1])) != 0:
                    raise Unsupported("lazy iterator that is not consumed by exactly one for loop")
                f_ = stmts[uses_[0]]
                fresh_ = {n_: ("var", self.fresh(n_ + "_c")) for n_ in cl_[1][0]}
                cbody_ = self.strip(cl_[2])
                while cbody_[0] == "block" and not cbody_[1] and cbody_[2] is not None:
                    cbody_ = self.strip(cbody_[2])
                cbody_ = ast_subst(cbody_, fresh_)
                head_ = ("lettuple", list(f_[1]), cbody_) if isinstance(f_[1], tuple) else ("let", f_[1], False, cbody_, None)
                fb_ = f_[3]
                if fb_[0] != "block":
                    raise Unsupported("for body")
                nf_ = ("for", tuple(fresh_[n_][1] for n_ in cl_[1][0]), m_[1], ("block", [head_] + list(fb_[1]), fb_[2]))
                stmts2 = list(stmts[i + 1:])
                stmts2[uses_[0] - i - 1] = nf_
                return self.tr_stmts(stmts2, env, k_end, ret)
            if s[0] == "lettuple" and self.strip(s[2])[0] == "tuple" and len(self.strip(s[2])[1]) == len(s[1]):
                # `let (a, b) = (e1, e2);`: the components are evaluated in order in the OLD scope, then bound
                comps_ = self.strip(s[2])[1]
                got_ = []
                def golt(j):
                    if j == len(comps_):
                        return go(i + 1, dict(env, **{n_: g_ for n_, g_ in zip(s[1], got_)}))
                    def klt2(a, t):
                        got_.append((as_nat(a, t), "u32") if t == "int" else (a, t))
                        return golt(j + 1)
                    return self.tr(comps_[j], env, klt2, ret)
                return golt(0)
            if s[0] == "lettuple":
                wc_ = self.writer_call(s[2]) if getattr(self, "store", None) else None
                def klt(a, t):
                    if not t.startswith("tuple<"):
                        raise Unsupported("tuple pattern on " + t)
                    tys = t[6:-1].split(",")
                    if len(tys) != len(s[1]):
                        raise Unsupported("tuple pattern arity")
                    env2 = dict(env)
                    base_ = f"{a}.1" if wc_ is not None else a     # a state-changing call returns (value, store)
                    for j, (nm_, ty_) in enumerate(zip(s[1], tys)):
                        proj = base_ + "".join(".2" for _ in range(j)) + (".1" if j < len(tys) - 1 else "")
                        env2[nm_] = (proj, ty_)
                    if wc_ is not None:
                        env2["$st"] = (f"{a}.2", "Store")
                    return go(i + 1, env2)
                if wc_ is not None:
                    self._writer_ok = True
                return self.tr(s[2], env, klt, ret)
            if s[0] == "expr" and self.strip(s[1])[0] == "match" and any(p_[0] == "vstruct" for p_, _ in self.strip(s[1])[2]):
                # `match x { Enum::Variant(Struct { a, b }) => A, _ => B }` as a statement: the named eliminator
                # of the payload enum; what follows the statement continues in both arms
                m_ = self.strip(s[1])
                if len(m_[2]) != 2 or m_[2][0][0][0] != "vstruct" or m_[2][1][0][0] != "wild":
                    raise Unsupported("payload match: expected one variant arm and a catch-all")
                (_, segs_, sname_, flds_, *rest_), body1 = m_[2][0]
                body2 = m_[2][1][1]
                en_, vn_ = segs_
                pen_ = getattr(self, "penums", {}).get(en_)
                if not pen_ or dict(pen_).get(vn_) != sname_:
                    raise Unsupported(f"payload pattern {en_}::{vn_}({sname_})")
                sflds_ = dict(getattr(self, "structs", {}).get(sname_, []))
                if (set(flds_) != set(sflds_)) if not rest_ else (not set(flds_) <= set(sflds_)):
                    raise Unsupported(f"payload pattern of {sname_}: fields {flds_}")
                blk = lambda b_: self.as_stmts(b_) if b_[0] == "block" else ("block", [("expr", b_)], None)
                def arm(b_, env_):
                    b_ = blk(b_)
                    if b_[2] is not None and self.strip(b_[2])[0] == "macro" and self.strip(b_[2])[1] == "panic_with_error":
                        # an arm that ends in a panic: what follows the statement is not reached from it
                        return self.tr_stmts(b_[1], env_, lambda env3: "Comp.panic", ret)
                    if b_[2] is not None:
                        raise Unsupported("payload match arm with a value")
                    return self.tr_stmts(b_[1], env_, lambda env3: go(i + 1, env3), ret)
                def kmv(sv, st_):
                    if st_ != en_:
                        raise Unsupported(f"payload match on {st_}")
                    pv = self.fresh("p")
                    env1 = dict(env, **{f_: (f"{pv}.{f_}", sflds_[f_]) for f_ in flds_})
                    return f"({en_}.case{vn_} {sv}\n (fun {pv} =>\n {arm(body1, env1)})\n ({arm(body2, env)}))"
                return self.tr(m_[1], env, kmv, ret)
            if s[0] == "expr" and self.strip(s[1])[0] == "match" and len(self.strip(s[1])[2]) >= 2 \
                    and all(p_[0] == "path" and len(p_[1]) == 2 and p_[1][0] in getattr(self, "enums", {}) for p_, _ in self.strip(s[1])[2][:-1]) \
                    and (self.strip(s[1])[2][-1][0][0] in ("wild",) or
                         (self.strip(s[1])[2][-1][0][0] == "path" and len(self.strip(s[1])[2][-1][0][1]) == 2
                          and self.strip(s[1])[2][-1][0][1][0] in getattr(self, "enums", {}))):
                # `match x { Enum::A => .., Enum::B => .. }` on a unit enum, as a statement: an if-chain (the last arm
                # is the `else`; the arms must cover the enum, which the Rust compiler has checked)
                m_ = self.strip(s[1])
                arms_ = list(m_[2])
                en_ = arms_[0][0][1][0]
                named_ = [p_[1][1] for p_, _ in arms_ if p_[0] == "path"]
                if arms_[-1][0][0] == "path" and sorted(named_) != sorted(self.enums[en_]):
                    raise Unsupported(f"match on {en_} does not name every variant")
                blk = lambda b_: b_ if b_[0] == "block" else ("block", [("expr", b_)], None)
                def chain(j_):
                    if j_ == len(arms_) - 1:
                        return blk(arms_[j_][1])
                    return ("block", [("expr", ("if", ("bin", "==", m_[1], ("path", arms_[j_][0][1])), blk(arms_[j_][1]), chain(j_ + 1)))], None)
                stmts2 = list(stmts)
                stmts2[i] = chain(0)[1][0]
                return self.tr_stmts(stmts2[i:], env, k_end, ret)
            if s[0] == "expr" and self.strip(s[1])[0] == "match":
                m_ = self.strip(s[1])
                pats = [p_ for p_, _ in m_[2]]
                if sorted(str(p_) for p_ in pats) == sorted(str(p_) for p_ in [("bind", "true", None), ("bind", "false", None)]):
                    # `match cond { true => A, false => B };` as a statement: an if-statement
                    arms_ = {p_[1]: b_ for p_, b_ in m_[2]}
                    blk = lambda b_: b_ if b_[0] == "block" else ("block", [("expr", b_)], None)
                    stmts2 = list(stmts)
                    stmts2[i] = ("expr", ("if", m_[1], blk(arms_["true"]), blk(arms_["false"])))
                    return self.tr_stmts(stmts2[i:], env, k_end, ret)
            if s[0] == "let":
                ini = self.strip(s[3])
                if ini[0] == "call" and ini[1][0] == "path" and len(ini[1][1]) >= 2 and ini[1][1][-1] == "new" and ini[1][1][-2].endswith("Client") \
                        and (any(k_.startswith(ini[1][1][-2] + "_") for k_ in getattr(self, "reads", {}))
                             or any(n_.startswith(ini[1][1][-2] + "_") for (_, n_) in self.sigs)):
                    # a cross-contract client: a handle; its calls are functions of the reads record that may panic, or
                    # declared stand-ins. The address it is built from is evaluated (it may panic), its value is the
                    # contract the stand-ins model
                    cty_ = ini[1][1][-2]
                    addr_ = []
                    def gocl(j_):
                        if j_ == len(ini[2]):
                            return go(i + 1, dict(env, **{s[1]: (addr_[0] if addr_ else "", "Client:" + cty_)}))
                        if self.is_handle(ini[2][j_], env):
                            return gocl(j_ + 1)
                        def kcl(a_, t_):
                            addr_.append(a_)      # the contract the client talks to
                            return gocl(j_ + 1)
                        return self.tr(ini[2][j_], env, kcl, ret)
                    return gocl(0)
            if s[0] == "let" and getattr(self, "store", None):
                ko = self.key_of(s[3], env)
                if ko is not None:
                    return go(i + 1, dict(env, **{s[1]: ("\x00".join(ko[1]), "Key:" + ko[0])}))
                wc = self.writer_call(s[3])
                if wc is not None:
                    self._writer_ok = True
                    return self.tr(s[3], env, lambda a, t: go(i + 1, dict(env, **{s[1]: (f"{a}.1", t), "$st": (f"{a}.2", "Store")})), ret)
            if s[0] == "let" and (self.cur_fn, s[1]) in getattr(self, "let_stubs", {}):
                # a DECLARED hole: this binding's initializer is outside the subset; it is replaced by a call of a
                # function of the reads record (recorded in the trusted base of the property that uses it)
                fn_, args_ = self.let_stubs[(self.cur_fn, s[1])]
                s = ("let", s[1], s[2], ("call", ("var", fn_), [("var", a_) for a_ in args_]), s[4] if len(s) > 4 else None)
            if s[0] == "letstruct":
                flds_ = dict(getattr(self, "structs", {}).get(s[1], []))
                def kls(a, t):
                    if t != s[1]:
                        raise Unsupported(f"struct pattern {s[1]} on {t}")
                    env2 = dict(env)
                    for fn_, vn_ in s[2]:
                        if fn_ not in flds_:
                            raise Unsupported(f"struct pattern: no field {fn_}")
                        env2[vn_] = (f"{a}.{fn_}", flds_[fn_])
                    return go(i + 1, env2)
                return self.tr(s[3], env, kls, ret)
            if s[0] == "let":
                ann = s[4] if len(s) > 4 else None
                def klet(a, t):
                    if t == "int" and ann in NATTY:
                        a, t = as_nat(a, t), ann
                    elif t == "int" and ann in INT_TYPES:
                        t = ann
                    if t == "Vec<?>" and ann and ann.startswith("Vec<"):
                        t = ann
                    elif t == "Vec<?>" and i + 1 < len(stmts) or t == "Vec<?>":
                        # an empty vector without annotation: it has the function's result type when it is what
                        # the function returns
                        if getattr(self, "ret_var", None) == s[1] and ret.startswith("Vec<"):
                            t = ret
                    return go(i + 1, dict(env, **{s[1]: (a, t)}))
                return self.tr(s[3], env, klet, ret)
            if s[0] == "letelse":
                eb = self.as_stmts(s[3])
                def kle(a, t):
                    if not t.startswith("Option<"):
                        raise Unsupported("let-else on " + t)
                    def none_code():
                        return self.tr_stmts(eb[1], env, lambda _env: (_ for _ in ()).throw(Unsupported("let-else block that does not diverge")), ret) \
                            if eb[2] is None else self.tr(eb[2], env, None, ret)
                    nb = self.fresh(s[1] + "_")
                    return f"(optCase {a}\n (fun {nb} =>\n {go(i + 1, dict(env, **{s[1]: (nb, t[7:-1])}))})\n ({none_code()}))"
                return self.tr(s[2], env, kle, ret)
            if s[0] == "assign" and self.strip(s[1])[0] == "field" and s[2] in ("+=", "-=") and self.strip(self.strip(s[1])[1])[0] == "var" \
                    and self.strip(self.strip(s[1])[1])[1] in env:
                # `x.f += v;` is `x.f = x.f + v;`
                stmts2 = list(stmts[i:])
                stmts2[0] = ("assign", s[1], "=", ("bin", s[2][0], s[1], s[3]))
                return self.tr_stmts(stmts2, env, k_end, ret)
            if s[0] == "expr" and self.strip(s[1])[0] == "mcall" and self.strip(s[1])[2] == "push_back" and len(self.strip(s[1])[3]) == 1 \
                    and self.strip(self.strip(s[1])[1])[0] == "field" and self.strip(self.strip(self.strip(s[1])[1])[1])[0] == "var" \
                    and self.strip(self.strip(self.strip(s[1])[1])[1])[1] in env:
                # `x.f.push_back(v);` on a vector-valued field of a local struct value
                e_ = self.strip(s[1])
                fe_ = self.strip(e_[1])
                xn_ = self.strip(fe_[1])[1]
                xo_, xt_ = env[xn_]
                ft_ = dict(getattr(self, "structs", {}).get(xt_, [])).get(fe_[2], "")
                if not ft_.startswith("Vec<"):
                    raise Unsupported(f"push_back on field {fe_[2]} of {xt_}")
                def kfp(a, t):
                    return go(i + 1, dict(env, **{xn_: (f"({{ {xo_} with {fe_[2]} := {xo_}.{fe_[2]} ++ [{as_nat(a, t) if ft_[4:-1] in NATTY else a}] }} : {xt_})", xt_)}))
                return self.tr(e_[3][0], env, kfp, ret)
            if s[0] == "expr" and self.strip(s[1])[0] == "mcall" and self.strip(s[1])[2] == "pop_back" and not self.strip(s[1])[3] \
                    and self.strip(self.strip(s[1])[1])[0] == "var" and env.get(self.strip(self.strip(s[1])[1])[1], ("", ""))[1].startswith("Vec<"):
                # `v.pop_back();` on a local vector (the returned element is dropped)
                vn = self.strip(self.strip(s[1])[1])[1]
                old_, vt_ = env[vn]
                return go(i + 1, dict(env, **{vn: (f"(List.dropLast {old_})", vt_)}))
            if s[0] == "expr" and self.strip(s[1])[0] == "mcall" and self.strip(s[1])[2] == "set" and len(self.strip(s[1])[3]) == 2 \
                    and self.strip(self.strip(s[1])[1])[0] == "var" and env.get(self.strip(self.strip(s[1])[1])[1], ("", ""))[1].startswith("Vec<"):
                # `v.set(i, x);` on a local vector: a host error (panic) when `i` is out of bounds
                vn = self.strip(self.strip(s[1])[1])[1]
                old_, vt_ = env[vn]
                def ksi(ia, it_):
                    def ksv(xa, xt_):
                        xv_ = as_nat(xa, xt_) if vt_[4:-1] in NATTY else xa
                        return (f"(if {as_nat(ia, it_)} < List.length {old_} then\n "
                                f"{go(i + 1, dict(env, **{vn: (f'(List.set {old_} {as_nat(ia, it_)} {xv_})', vt_)}))}\n else\n Comp.panic)")
                    return self.tr(self.strip(s[1])[3][1], env, ksv, ret)
                return self.tr(self.strip(s[1])[3][0], env, ksi, ret)
            if s[0] == "expr" and self.strip(s[1])[0] == "mcall" and self.strip(s[1])[2] == "pop_front" and not self.strip(s[1])[3] \
                    and self.strip(self.strip(s[1])[1])[0] == "var" and env.get(self.strip(self.strip(s[1])[1])[1], ("", ""))[1].startswith("Vec<"):
                # `v.pop_front();` on a local vector (the returned element is dropped)
                vn = self.strip(self.strip(s[1])[1])[1]
                old_, vt_ = env[vn]
                return go(i + 1, dict(env, **{vn: (f"(List.drop 1 {old_})", vt_)}))
            if s[0] == "assign" and self.strip(s[1])[0] == "field" and s[2] == "=" and self.strip(self.strip(s[1])[1])[0] == "var" \
                    and self.strip(self.strip(s[1])[1])[1] in env:
                # `x.f = v;` on a local struct value: the struct is re-bound with that field replaced
                lhs = self.strip(s[1])
                xn_ = self.strip(lhs[1])[1]
                xo_, xt_ = env[xn_]
                flds_ = dict(getattr(self, "structs", {}).get(xt_, []))
                if lhs[2] not in flds_:
                    raise Unsupported(f"assignment to field {lhs[2]} of {xt_}")
                ft_ = flds_[lhs[2]]
                def kfa(a, t):
                    return go(i + 1, dict(env, **{xn_: (f"({{ {xo_} with {lhs[2]} := {as_nat(a, t) if ft_ in NATTY else a} }} : {xt_})", xt_)}))
                return self.tr(s[3], env, kfa, ret)
            if s[0] == "expr" and self.strip(s[1])[0] == "mcall" and self.strip(s[1])[2] == "set" and len(self.strip(s[1])[3]) == 2 \
                    and self.strip(self.strip(s[1])[1])[0] == "field" and self.strip(self.strip(self.strip(s[1])[1])[1])[0] == "var" \
                    and self.strip(self.strip(self.strip(s[1])[1])[1])[1] in env \
                    and dict(getattr(self, "structs", {}).get(env[self.strip(self.strip(self.strip(s[1])[1])[1])[1]][1], [])).get(
                        self.strip(self.strip(s[1])[1])[2], "").startswith("Map<"):
                # `x.f.set(k, v);` on a map-valued field of a local struct value
                e_ = self.strip(s[1])
                fe_ = self.strip(e_[1])
                xn_ = self.strip(fe_[1])[1]
                xo_, xt_ = env[xn_]
                flds_ = dict(getattr(self, "structs", {}).get(xt_, []))
                ft_ = flds_.get(fe_[2], "")
                if not ft_.startswith("Map<"):
                    raise Unsupported(f"set on field {fe_[2]} of {xt_}")
                vt_ = ft_[4:-1].split(",")[1]
                def kmk(ka_, kt_):
                    def kmv(va_, vtt_):
                        return go(i + 1, dict(env, **{xn_: (f"({{ {xo_} with {fe_[2]} := mapSet {xo_}.{fe_[2]} {as_nat(ka_, kt_)} {as_nat(va_, vtt_) if vt_ in NATTY else va_} }} : {xt_})", xt_)}))
                    return self.tr(e_[3][1], env, kmv, ret)
                return self.tr(e_[3][0], env, kmk, ret)
            if s[0] == "assign":
                lhs = self.strip(s[1])
                if lhs[0] != "var" or lhs[1] not in env:
                    raise Unsupported("assignment to an unknown variable")
                name, (old, oty) = lhs[1], env[lhs[1]]
                if s[2] == "=":
                    return self.tr(s[3], env, lambda a, t: go(i + 1, dict(env, **{name: (a, oty if t == "int" else t)})), ret)
                if s[2] == "/=" and oty in NATTY:
                    a_ = self.strip(s[3])
                    if not (a_[0] == "num" and int(str(a_[1]).replace("_", ""), 0) > 0):
                        raise Unsupported("/= by a non-literal")
                    return go(i + 1, dict(env, **{name: (f"({old} / {as_nat(*self.pure(a_, env))})", oty)}))
                if s[2] in ("+=", "-=", "*=") and oty in ("i128",) + tuple(NATTY):
                    return self.tr(("bin", s[2][:-1], s[1], s[3]), env, lambda a, t: go(i + 1, dict(env, **{name: (a, oty)})), ret)
                if s[2] in (">>=", "&="):
                    l, t = self.pure(("bin", s[2][:-1], s[1], s[3]), env)
                    return go(i + 1, dict(env, **{name: (l, oty)}))
                raise Unsupported(f"compound assignment {s[2]}")
            if s[0] == "while":
                return self.tr_while(s, env, lambda env2: go(i + 1, env2), ret)
            if s[0] == "for":
                return self.tr_for(s, env, lambda env2: go(i + 1, env2), ret)
            if s[0] == "expr":
                e = self.strip(s[1])
                if e[0] == "mcall" and self.strip(e[1])[0] == "var" and env.get(self.strip(e[1])[1], ("", ""))[1].startswith("Client:"):
                    cname = env[self.strip(e[1])[1]][1][7:] + "_" + e[2]
                    spec = getattr(self, "reads", {}).get(cname)
                    if (self.cur_ns, cname) in self.sigs:
                        # a declared stand-in of this namespace: called like a translated function
                        s2_ = ("expr", ("call", ("var", cname), [("var", "e")] + list(e[3])))
                        return self.tr_stmts([s2_] + list(stmts[i + 1:]), env, k_end, ret)
                    if not (isinstance(spec, tuple) and spec[0] == "fn"):
                        raise Unsupported(f"cross-contract call {cname} is not declared")
                    cargs = [a for a in e[3] if not self.is_handle(a, env)]
                    atoms = []
                    caddr_ = env[self.strip(e[1])[1]][0]
                    if len(cargs) + 1 == len(spec[1]) and caddr_:
                        atoms.append(caddr_)       # the declaration names the called contract first
                        spec = (spec[0], spec[1][1:], spec[2])
                    if len(cargs) != len(spec[1]):
                        raise Unsupported(f"{cname}: arity")
                    self.uses_reads = True
                    pre_ = list(atoms)
                    def gox(j):
                        if j == len(cargs):
                            v_ = self.fresh()
                            return f"(Comp.bind (envr.{cname} {' '.join(atoms)}) fun {v_} =>\n {go(i + 1, env)})"
                        def kx(a, t):
                            atoms.append(as_nat(a, t) if spec[1][j] in NATTY else a)
                            return gox(j + 1)
                        return self.tr(cargs[j], env, kx, ret)
                    return gox(0)
            if s[0] == "expr" and ("authorized" in getattr(self, "reads", {}) or "authorized_for_args" in getattr(self, "reads", {})
                                   or getattr(self, "store", None)):
                e = self.strip(s[1])
                if e[0] == "mcall" and e[2] == "require_auth" and not e[3] and "authorized" in getattr(self, "reads", {}):
                    l, t = self.pure(e[1], env)
                    if t != "Address":
                        raise Unsupported("require_auth of " + t)
                    self.uses_reads = True
                    return f"(if (envr.authorized {l} = true) then\n {go(i + 1, env)}\n else\n Comp.panic)"
                if e[0] == "mcall" and e[2] == "require_auth_for_args" and len(e[3]) == 1 and "authorized_for_args" in getattr(self, "reads", {}):
                    l, t = self.pure(e[1], env)
                    if t != "Address":
                        raise Unsupported("require_auth_for_args of " + t)
                    al, at = self.pure(e[3][0], env)
                    if at != self.reads["authorized_for_args"][1][1]:
                        raise Unsupported(f"require_auth_for_args with arguments of type {at}")
                    self.uses_reads = True
                    return f"(if (envr.authorized_for_args {l} {al} = true) then\n {go(i + 1, env)}\n else\n Comp.panic)"
                if e[0] == "mcall" and e[2] == "publish" and self.strip(e[1])[0] == "struct":
                    return go(i + 1, env)   # event emission
                if e[0] == "call" and e[1][0] == "var" and e[1][1].startswith("emit_") and (self.cur_ns, e[1][1]) not in self.sigs:
                    # event emission: not part of the functional state (events are compared by the correspondence run)
                    return go(i + 1, env)
            if s[0] == "expr":
                e = self.strip(s[1])
                if e[0] == "mcall" and e[2] == "push_back" and len(e[3]) == 1 and self.strip(e[1])[0] == "var" \
                        and env.get(self.strip(e[1])[1], ("", ""))[1].startswith("Vec<"):
                    vn = self.strip(e[1])[1]
                    old, vt_ = env[vn]
                    def kpb(a, t):
                        elt = vt_[4:-1]
                        return go(i + 1, dict(env, **{vn: (f"({old} ++ [{as_nat(a, t) if elt in NATTY else a}])", vt_)}))
                    return self.tr(e[3][0], env, kpb, ret)
            if s[0] == "expr":
                e = self.strip(s[1])
                if e[0] == "mcall" and e[2] == "set" and len(e[3]) == 2 and self.strip(e[1])[0] == "var" \
                        and env.get(self.strip(e[1])[1], ("", ""))[1].startswith("KeySet<") and self.strip(e[3][1]) == ("paren_unit",):
                    vn = self.strip(e[1])[1]
                    old, vt_ = env[vn]
                    kl, kt = self.pure(e[3][0], env)
                    return go(i + 1, dict(env, **{vn: (f"({as_nat(kl, kt) if kt in NATTY or kt == 'int' else kl} :: {old})", "KeySet<" + kt + ">")}))
            if s[0] == "expr":
                e = self.strip(s[1])
                if e[0] == "mcall" and e[2] == "remove" and len(e[3]) == 1 and self.strip(e[1])[0] == "var" \
                        and env.get(self.strip(e[1])[1], ("", ""))[1].startswith("Vec<"):
                    # `v.remove(i);` on a local vector (the returned element is dropped)
                    vn = self.strip(e[1])[1]
                    old, vt_ = env[vn]
                    il, it_ = self.pure(e[3][0], env)
                    if not (it_ in NATTY or it_ == "int"):
                        raise Unsupported("Vec::remove with an index of type " + it_)
                    return go(i + 1, dict(env, **{vn: (f"(List.eraseIdx {old} {as_nat(il, it_)})", vt_)}))
            if s[0] == "expr":
                e = self.strip(s[1])
                if e[0] == "mcall" and e[2] in ("append", "extend_from_array") and len(e[3]) == 1 and self.strip(e[1])[0] == "var" \
                        and env.get(self.strip(e[1])[1], ("", ""))[1] == "Bytes":
                    vn = self.strip(e[1])[1]
                    old, _ = env[vn]
                    def kap(a, t):
                        if t not in ("Bytes", "Bytes32"):
                            raise Unsupported(f"{e[2]} of {t}")
                        return go(i + 1, dict(env, **{vn: (f"({old} ++ {a})", "Bytes")}))
                    return self.tr(e[3][0], env, kap, ret)
            if s[0] == "expr" and getattr(self, "store", None):
                e = self.strip(s[1])
                if e[0] == "mcall" and self.is_storage(e[1]):
                    if e[2] == "extend_ttl":
                        ko = self.key_of(e[3][0], env) if e[3] else None
                        if ko is not None and self.is_temp(ko[0]) and len(e[3]) == 3:
                            # a temporary entry WITH its lifetime (host rules of OZ/Model/Host.lean)
                            cell, kargs = ko
                            ka = "".join(" " + x for x in kargs)
                            a1, t1_ = self.pure(e[3][1], env)
                            a2, t2_ = self.pure(e[3][2], env)
                            ev_ = self.fresh("e")
                            self.uses_reads = True
                            st2 = f"({self.cur_ns}.Store.set_{cell} {env['$st'][0]}{ka} {ev_})"
                            return (f"(tempExtend {self.CFG} ({env['$st'][0]}.{cell}{ka}) envr.ledger_sequence {as_nat(a1, t1_)} {as_nat(a2, t2_)} fun {ev_} =>\n"
                                    f" {go(i + 1, dict(env, **{'$st': (st2, 'Store')}))})")
                        # TTL bookkeeping: outside the functional state (archival is not modelled)
                        return go(i + 1, env)
                    if e[2] == "set" and len(e[3]) == 2:
                        ko = self.key_of(e[3][0], env)
                        if ko is None or "$st" not in env:
                            raise Unsupported("storage write with an unknown key")
                        cell, kargs = ko
                        def kset(a, t):
                            vt = self.store[cell][1]
                            a2 = as_nat(a, t) if vt in NATTY else a
                            if self.is_temp(cell):
                                self.uses_reads = True
                                ka_ = "".join(" " + x for x in kargs)
                                a2 = f"(OZ.Host.Temp.set {self.CFG} ({env['$st'][0]}.{cell}{ka_}) envr.ledger_sequence {a2})"
                            st2 = f"({self.cur_ns}.Store.set_{cell} {env['$st'][0]}{''.join(' ' + x for x in kargs)} {a2})"
                            return go(i + 1, dict(env, **{"$st": (st2, "Store")}))
                        return self.tr(e[3][1], env, kset, ret)
                    if e[2] == "remove" and len(e[3]) == 1:
                        ko = self.key_of(e[3][0], env)
                        if ko is None or "$st" not in env:
                            raise Unsupported("storage removal with an unknown key")
                        cell, kargs = ko
                        st2 = f"({self.cur_ns}.Store.del_{cell} {env['$st'][0]}{''.join(' ' + x for x in kargs)})"
                        return go(i + 1, dict(env, **{"$st": (st2, "Store")}))
                    raise Unsupported(f"storage operation {e[2]}")
                if self.writer_call(e) is not None:
                    self._writer_ok = True
                    return self.tr(e, env, lambda a, t: go(i + 1, dict(env, **{"$st": (f"{a}.2", "Store")})), ret)
                if e[0] == "call" and e[1][0] == "var" and (self.cur_ns, e[1][1]) in self.sigs and self.sigs[(self.cur_ns, e[1][1])][1] == "()":
                    # a translated check called for its panic only (`when_not_paused(e);`)
                    return self.tr(e, env, lambda a, t: go(i + 1, env), ret)
                if e[0] == "call" and e[1][0] == "path" and len(e[1][1]) == 2:
                    tgt_ = getattr(self, "impl_types", {}).get(e[1][1][0]) or (self.cur_ns if e[1][1][0] == "Self" else None)
                    nm_ = e[1][1][1]
                    if isinstance(tgt_, tuple):
                        tgt_, nm_ = tgt_[0], tgt_[1] + nm_
                    if tgt_ and (tgt_, nm_) in self.sigs and self.sigs[(tgt_, nm_)][1] == "()" and (tgt_, nm_) not in getattr(self, "writers", set()):
                        # `Type::check(e, ..);`: a translated reader called for its panic only
                        return self.tr(e, env, lambda a, t: go(i + 1, env), ret)
            if s[0] == "expr":
                e = self.strip(s[1])
                if e[0] == "if":
                    tb = e[2]
                    if tb[0] != "block":
                        raise Unsupported("if-statement body")
                    def branch_code(b):
                        if b is None:
                            return lambda: go(i + 1, env)
                        b = self.as_stmts(b)
                        if b[0] == "if":
                            b = ("block", [("expr", b)], None)      # `else if ..`: the nested if as the else block's only statement
                        if b[0] != "block":
                            raise Unsupported("else-if in statement position")
                        if b[2] is not None:
                            # a value in statement position: only a diverging one (panic / return) makes sense
                            t_ = self.strip(b[2])
                            if not b[1] and ((t_[0] == "macro" and t_[1] == "panic_with_error") or t_[0] == "return"):
                                return lambda: self.tr(t_, env, None, ret)
                            raise Unsupported("if-statement with a value")
                        return lambda: self.tr_stmts(b[1], env, lambda env2: go(i + 1, env2), ret)
                    return self.branch(e[1], env, branch_code(tb), branch_code(e[3]), ret)
                if e[0] == "macro" and e[1] == "panic_with_error":
                    return "Comp.panic"
                if e[0] == "return":
                    return self.tr(e, env, None, ret)
                if e[0] == "iflet":
                    # `if let Some(x) = v { statements }` [else { statements }] in statement position
                    _, nm, sc, tb, eb = e
                    tb = self.as_stmts(tb)
                    if tb[2] is not None:
                        raise Unsupported("if-let statement with a value")
                    def outer_assigned(stmts_):
                        loc = {x[1] for x in stmts_ if x[0] == "let"}
                        return self.assigned_vars(stmts_, set()) - loc
                    oa_ = outer_assigned(tb[1])
                    if eb is not None and self.as_stmts(eb)[0] == "block":
                        oa_ = oa_ | outer_assigned(self.as_stmts(eb)[1])     # both branches may re-bind outer locals
                    def after(env2):
                        # the continuation is emitted once per branch, so each branch carries its own values of
                        # the outer variables it assigned
                        upd_ = {v_: env2[v_] for v_ in oa_ if v_ in env2 and v_ in env}
                        if "$st" in env2:
                            upd_["$st"] = env2["$st"]
                        return go(i + 1, dict(env, **upd_))
                    def kil(a, t):
                        if not t.startswith("Option<"):
                            raise Unsupported("if-let on " + t)
                        if t == "Option<?>" and a == "none":
                            # the scrutinee is the literal `None` on this path: only the else part runs
                            if eb is None:
                                return go(i + 1, env)
                            eb0_ = self.as_stmts(eb)
                            if eb0_[0] != "block" or eb0_[2] is not None:
                                raise Unsupported("else of an if-let statement")
                            return self.tr_stmts(eb0_[1], env, after, ret)
                        nb = self.fresh(nm + "_")
                        some_c = self.tr_stmts(tb[1], dict(env, **{nm: (nb, t[7:-1])}), after, ret)
                        if eb is None:
                            none_c = go(i + 1, env)
                        else:
                            eb_ = self.as_stmts(eb)
                            if eb_[0] != "block" or eb_[2] is not None:
                                raise Unsupported("else of an if-let statement")
                            none_c = self.tr_stmts(eb_[1], env, after, ret)
                        return f"(optCase {a}\n (fun {nb} =>\n {some_c})\n ({none_c}))"
                    return self.tr(sc, env, kil, ret)
                if e[0] == "mcall" and e[2] in self.MUTATORS and self.strip(e[1])[0] == "field" and self.strip(self.strip(e[1])[1])[0] == "var" \
                        and self.strip(self.strip(e[1])[1])[1] in env \
                        and dict(getattr(self, "structs", {}).get(env[self.strip(self.strip(e[1])[1])[1]][1], [])).get(self.strip(e[1])[2], "").startswith("Vec<"):
                    # `x.f.m(args);` on a vector-valued field of a local struct value: `let mut t = x.f; t.m(args); x.f = t;`
                    fe_ = self.strip(e[1])
                    tmp_ = self.fresh("fld_")
                    stmts2 = [("let", tmp_, True, fe_, None), ("expr", ("mcall", ("var", tmp_), e[2], e[3])),
                              ("assign", fe_, "=", ("var", tmp_))] + list(stmts[i + 1:])
                    return self.tr_stmts(stmts2, env, k_end, ret)
                raise Unsupported(f"expression statement {e[0]}")
            raise Unsupported(f"statement {s[0]}")
        return go(0, env)

    def writer_call(self, e):
        """(ns, name) if `e` is a direct call of a state-changing translated function"""
        e = self.strip(e)
        if e[0] != "call":
            return None
        f = e[1]
        tgt = None
        if f[0] == "path" and len(f[1]) == 2:
            tgt = getattr(self, "impl_types", {}).get(f[1][0]) or (self.cur_ns if f[1][0] == "Self" else None)
            nm = f[1][1]
            if isinstance(tgt, tuple):
                tgt, nm = tgt[0], tgt[1] + nm
        elif f[0] == "var":
            tgt, nm = self.cur_ns, f[1]
        if tgt and (tgt, nm) in getattr(self, "writers", set()):
            return (tgt, nm)
        return None

    def as_stmts(self, b):
        """a block used as a statement: a trailing `if` without a value is its last statement"""
        if b[0] == "block" and b[2] is not None:
            t_ = self.strip(b[2])
            if t_[0] == "if" and t_[2][0] == "block" and (t_[2][2] is None or t_[3] is None):
                return ("block", b[1] + [("expr", b[2])], None)
            def unit_if(x):
                # an `if` whose branches are blocks ending in nothing or in another such `if`
                x = self.strip(x)
                if x[0] != "if" or x[2][0] != "block":
                    return False
                def diverges(t2_):
                    t2_ = self.strip(t2_)
                    return t2_[0] == "macro" and t2_[1] == "panic_with_error"
                def unit_block(bl):
                    return bl is None or (bl[0] == "block" and (bl[2] is None or unit_if(bl[2]) or diverges(bl[2]))) or (bl[0] == "if" and unit_if(bl))
                return unit_block(x[2]) and unit_block(x[3])
            if unit_if(t_):
                return ("block", b[1] + [("expr", b[2])], None)
            if t_[0] == "match" and any(p_[0] == "vstruct" for p_, _ in t_[2]):
                return ("block", b[1] + [("expr", b[2])], None)
            if t_[0] == "match" and t_[2] and all(p_[0] == "vtuple" for p_, _ in t_[2]):
                return ("block", b[1] + [("expr", b[2])], None)
            if t_[0] == "match" and len(t_[2]) == 2 and t_[2][0][0][0] == "some" and len(t_[2][0][0]) == 3 and t_[2][1][0][0] == "wild":
                return ("block", b[1] + [("expr", b[2])], None)     # `match o { Some(x) if g => A, _ => B }` for its effects
            if t_[0] == "iflet" and t_[4] is None and t_[3][0] == "block" and self.as_stmts(t_[3])[2] is None:
                # a trailing `if let Some(x) = v { statements }` without else: a statement
                return ("block", b[1] + [("expr", b[2])], None)
        return b

    def tr_while(self, s, env, k_after, ret):
        """`while c { body }`: an auxiliary definition recursing on `fuel`, returning the loop-carried
        variables (`none` = the body left the FUNCTION through `?`)"""
        body = self.as_stmts(s[2])
        if body[2] is not None:
            raise Unsupported("while body with a value")
        opt = ret.startswith("Option<")
        muts = sorted(self.assigned_vars(body[1], set()))
        for m in muts:
            if m not in env:
                raise Unsupported(f"loop assigns unknown variable {m}")
        others = [v for v in sorted(env) if v not in muts and not v.startswith("$")]
        self.loops += 1
        name = f"{self.cur_ns}.{self.cur_fn}.loop{self.loops}"
        params = muts + others
        penv = {v: (v + "_", env[v][1]) for v in params}
        plist = " ".join(f"({penv[v][0]} : {self.lean_ty(env[v][1])})" for v in params)
        rty = " × ".join(self.lean_ty(env[m][1]) for m in muts)
        tup = lambda en: "(" + ", ".join(en[m][0] for m in muts) + ")"
        rd = self.cur_ns in getattr(self, "reads_ns", set())
        fu = "fuel envr" if rd else "fuel"
        st_const = "$st" in env      # a reader loop inside a state-passing namespace: the store is a constant parameter
        if st_const:
            if (self.cur_ns, self.cur_fn) in getattr(self, "writers", set()):
                raise Unsupported("while loop inside a state-changing function")
            penv["$st"] = ("st_", "Store")
            plist = f"(st_ : {self.cur_ns}.Store) " + plist
        stc = lambda en: (en["$st"][0] + " ") if st_const else ""
        again = lambda en: f"{name} {fu} {stc(en)}{' '.join(en[v][0] for v in params)}"
        done_ = lambda en: (f"Comp.ok (some {tup(en)})" if opt else f"Comp.ok {tup(en)}")
        saved_break = getattr(self, "break_k", None)
        self.break_k = done_         # `break`: the loop ends with the current values
        try:
            if s[1][0] == "letsome":
                # `while let Some(x) = e { body }`: the loop ends when `e` is `None`
                def kwl(a, t):
                    if not t.startswith("Option<"):
                        raise Unsupported("while-let on " + t)
                    nb = self.fresh(s[1][1] + "_")
                    return (f"(optCase {a}\n (fun {nb} =>\n {self.tr_stmts(body[1], dict(penv, **{s[1][1]: (nb, t[7:-1])}), again, ret)})\n"
                            f" ({done_(penv)}))")
                code = self.tr(s[1][2], penv, kwl, ret)
            else:
                code = self.branch(s[1], penv, lambda: self.tr_stmts(body[1], penv, again, ret), lambda: done_(penv), ret)
        finally:
            self.break_k = saved_break
        self.aux.append(f"def {name} (fuel : Nat) {'(envr : ' + self.cur_ns + '.Reads) ' if rd else ''}{plist} : Comp ({'Option (' + rty + ')' if opt else rty}) :=\n match fuel with\n | 0 => Comp.panic\n | fuel + 1 =>\n {code}\n")
        self.uses_fuel = True
        r, st = self.fresh("r"), self.fresh("st")
        env2 = dict(env)
        for jx, m in enumerate(muts):
            proj = st if len(muts) == 1 else st + "".join(".2" for _ in range(jx)) + (".1" if jx < len(muts) - 1 else "")
            env2[m] = (proj, env[m][1])
        if not opt:
            return f"(Comp.bind ({name} {fu} {stc(env)}{' '.join(env[v][0] for v in params)}) fun {st} =>\n {k_after(env2)})"
        return (f"(Comp.bind ({name} {fu} {stc(env)}{' '.join(env[v][0] for v in params)}) fun {r} =>\n"
                f" (Comp.tryOpt {r} fun {st} =>\n {k_after(env2)}))")

    def tr_for(self, s, env, k_after, ret):
        """`for x in v { body }` over a `Vec<T>` value: an auxiliary definition by STRUCTURAL recursion on the
        list (no fuel), returning the loop-carried variables"""
        _, var, coll, body = s
        body = self.as_stmts(body)
        if body[2] is not None:
            raise Unsupported("for body with a value")
        c_ = self.strip(coll)
        if c_[0] == "mcall" and c_[2] == "rev" and not c_[3] and self.strip(c_[1])[0] == "bin" and self.strip(c_[1])[1] == "..=":
            return self.tr_for_range_rev(var, self.strip(c_[1]), body, env, k_after, ret)
        zipped = None
        if c_[0] == "bin" and c_[1] in ("..", "..="):
            # `for i in lo..hi` / `lo..=hi`: the list of the indices, ascending
            ll, lt = self.pure(c_[2], env)
            hl, ht = self.pure(c_[3], env)
            ll, hl = as_nat(ll, lt), as_nat(hl, ht)
            cl, ct = (f"(List.range' {ll} ({hl} - {ll}))" if c_[1] == ".." else f"(List.range' {ll} ({hl} + 1 - {ll}))"), "Vec<u32>"
        elif c_[0] == "mcall" and c_[2] == "zip" and len(c_[3]) == 1:
            # `a.iter().zip(b)`: the list of pairs, as long as the shorter side
            l_ = self.strip(c_[1])
            if l_[0] == "mcall" and l_[2] == "iter" and not l_[3]:
                l_ = self.strip(l_[1])
            al, at = self.pure(l_, env)
            bl, bt = self.pure(c_[3][0], env)
            if not (at.startswith("Vec<") and bt.startswith("Vec<")):
                raise Unsupported(f"zip of {at} and {bt}")
            cl, ct = f"(List.zip {al} {bl})", f"Vec<tuple<{at[4:-1]},{bt[4:-1]}>>"
            zipped = (at[4:-1], bt[4:-1])
        elif c_[0] == "mcall" and c_[2] == "enumerate" and not c_[3] and self.strip(c_[1])[0] == "mcall" \
                and self.strip(c_[1])[2] == "iter" and not self.strip(c_[1])[3]:
            # `v.iter().enumerate()`: the list of (index, element) pairs
            vl, vt = self.pure(self.strip(c_[1])[1], env)
            if not vt.startswith("Vec<"):
                raise Unsupported(f"enumerate over {vt}")
            cl, ct = f"(List.zip (List.range (List.length {vl})) {vl})", f"Vec<tuple<usize,{vt[4:-1]}>>"
            zipped = ("usize", vt[4:-1])
        else:
            if c_[0] == "mcall" and c_[2] == "iter" and not c_[3]:
                coll = c_[1]
            cl, ct = self.pure(coll, env)
            if ct.startswith("Map<") and isinstance(var, tuple) and len(var) == 2:
                # `for (k, v) in map.iter()`: the entries in key order
                kt_, vt_ = ct[4:-1].split(",", 1)
                ct = f"Vec<tuple<{kt_},{vt_}>>"
                zipped = (kt_, vt_)
        if not ct.startswith("Vec<"):
            raise Unsupported(f"for over {ct}")
        elt = ct[4:-1]
        muts = sorted(self.assigned_vars(body[1], set()) - {x[1] for x in body[1] if x[0] == "let"})
        for m in muts:
            if m not in env:
                raise Unsupported(f"loop assigns unknown variable {m}")
        carry_st = "$st" in env and (self.cur_ns, self.cur_fn) in getattr(self, "writers", set())
        def has_return(x):
            if isinstance(x, tuple):
                return (len(x) > 0 and x[0] == "return") or any(has_return(y) for y in x)
            if isinstance(x, list):
                return any(has_return(y) for y in x)
            return False
        if not muts and not carry_st and has_return(body[1]) and not isinstance(var, tuple) and not getattr(self, "ret_wrap", None):
            # `for x in v { .. return r; .. }` that assigns nothing: structural recursion on the list; the
            # auxiliary result is `some r` when the body returned `r` from the FUNCTION, `none` at the end
            self.loops += 1
            name = f"{self.cur_ns}.{self.cur_fn}.loop{self.loops}"
            others = [v for v in sorted(env) if not v.startswith("$") and not env[v][1].startswith("Key:") and env[v][1] != "Closure" and not (env[v][1].startswith("Client:") and not env[v][0])]
            penv = {v: (v + "_", env[v][1]) for v in others}
            if "$st" in env:
                penv["$st"] = ("st_", "Store")
            plist = " ".join(f"({penv[v][0]} : {self.lean_ty(env[v][1])})" for v in others)
            if "$st" in env:
                plist = f"(st_ : {self.cur_ns}.Store) " + plist
            rd = self.cur_ns in getattr(self, "reads_ns", set())
            ev = " envr" if rd else ""
            stp = lambda en: (en["$st"][0] + " ") if "$st" in env else ""
            again = lambda en: f"{name}{ev} rest_ {stp(en)}{' '.join(penv[v][0] for v in others)}"
            benv = dict(penv, **{var: (var + "_", elt)})
            self.ret_wrap = lambda x: f"(some {x})"
            try:
                code = self.tr_stmts(body[1], benv, again, ret)
            finally:
                self.ret_wrap = None
            self.aux.append(f"def {name} {'(envr : ' + self.cur_ns + '.Reads) ' if rd else ''}(xs_ : List {self.lean_ty(elt)}) {plist} : Comp (Option {self.lean_ty(ret)}) :=\n"
                            f" match xs_ with\n | [] => Comp.ok none\n | {var}_ :: rest_ =>\n {code}\n")
            r, v = self.fresh("r"), self.fresh("v")
            return (f"(Comp.bind ({name}{ev} {cl} {stp(env)}{' '.join(env[v_][0] for v_ in others)}) fun {r} =>\n"
                    f" (optCase {r}\n (fun {v} => Comp.ok {v})\n ({k_after(env)})))")
        unit_loop = not muts and not carry_st     # a loop run for its panics only (`for t in ts { if bad(t) { panic } }`)
        others = [v for v in sorted(env) if v not in muts and not v.startswith("$") and not env[v][1].startswith("Key:") and env[v][1] != "Closure" and not (env[v][1].startswith("Client:") and not env[v][0])]
        self.loops += 1
        name = f"{self.cur_ns}.{self.cur_fn}.loop{self.loops}"
        params = muts + others
        penv = {v: (v + "_", env[v][1]) for v in params}
        if carry_st:
            penv["$st"] = ("st_", "Store")
        plist = " ".join(f"({penv[v][0]} : {self.lean_ty(env[v][1])})" for v in params)
        if carry_st:
            plist = f"(st_ : {self.cur_ns}.Store) " + plist
        rparts = [self.lean_ty(env[m][1]) for m in muts] + ([f"{self.cur_ns}.Store"] if carry_st else [])
        rty = " × ".join(rparts) if not unit_loop else "Unit"
        early = has_return(body[1]) and not unit_loop
        if early and (getattr(self, "ret_wrap", None) or carry_st):
            raise Unsupported("early return in a loop of a state-changing function / nested loops with early returns")
        tup0 = lambda en: "(" + ", ".join([en[m][0] for m in muts] + ([en["$st"][0]] if carry_st else [])) + ")"
        # a loop with loop-carried variables whose body may `return r` from the FUNCTION: the auxiliary result is
        # `Sum.inl (carried values)` at the end / at a `break`, `Sum.inr r` when the body returned
        tup = (lambda en: f"(Sum.inl {tup0(en)})") if early else tup0
        if early:
            rty = f"Sum ({rty}) {self.lean_ty(ret)}"
        rd = self.cur_ns in getattr(self, "reads_ns", set())
        ev = " envr" if rd else ""
        st_in_env = "$st" in env and not carry_st
        if st_in_env:
            # a reader loop inside a state-passing namespace: the store is a constant parameter
            penv["$st"] = ("st_", "Store")
            plist = f"(st_ : {self.cur_ns}.Store) " + plist
        again = lambda en: f"{name}{ev} rest_ {(en['$st'][0] + ' ') if (carry_st or st_in_env) else ''}{' '.join(en[v][0] for v in params)}"
        if isinstance(var, tuple) and zipped is None and elt.startswith("tuple<") and len(elt[6:-1].split(",")) == len(var):
            # `for (a, b, c) in v.iter()` over a vector of tuples: the components by projection
            tys_ = elt[6:-1].split(",")
            benv = dict(penv)
            for jx_, (nm_, ty_) in enumerate(zip(var, tys_)):
                benv[nm_] = ("x_" + "".join(".2" for _ in range(jx_)) + (".1" if jx_ < len(tys_) - 1 else ""), ty_)
            hd = "x_"
        elif isinstance(var, tuple):
            if zipped is None or len(var) != 2:
                raise Unsupported("tuple pattern in a for loop over a non-zip")
            benv = dict(penv, **{var[0]: ("x_.1", zipped[0]), var[1]: ("x_.2", zipped[1])})
            hd = "x_"
        else:
            benv = dict(penv, **{var: (var + "_", elt)})
            hd = var + "_"
        saved_break = getattr(self, "break_k", None)
        saved_cont = getattr(self, "continue_k", None)
        self.break_k = lambda en: f"Comp.ok {tup(en) if not unit_loop else '()'}"     # `break`: the loop ends with the current values
        self.continue_k = again                                                        # `continue`: on to the next element
        if early:
            self.ret_wrap = lambda x: f"(Sum.inr {x})"
        try:
            code = self.tr_stmts(body[1], benv, again, ret)
        finally:
            self.break_k = saved_break
            self.continue_k = saved_cont
            if early:
                self.ret_wrap = None
        self.aux.append(f"def {name} {'(envr : ' + self.cur_ns + '.Reads) ' if rd else ''}(xs_ : List {self.lean_ty(elt)}) {plist} : Comp ({rty}) :=\n"
                        f" match xs_ with\n | [] => Comp.ok {tup(penv)}\n | {hd} :: rest_ =>\n {code}\n")
        st = self.fresh("st")
        env2 = dict(env)
        nres = len(rparts)
        for jx, m in enumerate(muts + (["$st"] if carry_st else [])):
            proj = st if nres == 1 else st + "".join(".2" for _ in range(jx)) + (".1" if jx < nres - 1 else "")
            env2[m] = (proj, env[m][1])
        if early:
            r_, v_ = self.fresh("r"), self.fresh("v")
            return (f"(Comp.bind ({name}{ev} {cl} {(env['$st'][0] + ' ') if (carry_st or st_in_env) else ''}{' '.join(env[v][0] for v in params)}) fun {r_} =>\n"
                    f" (match {r_} with\n | Sum.inr {v_} => Comp.ok {v_}\n | Sum.inl {st} =>\n {k_after(env2)}))")
        return f"(Comp.bind ({name}{ev} {cl} {(env['$st'][0] + ' ') if (carry_st or st_in_env) else ''}{' '.join(env[v][0] for v in params)}) fun {st} =>\n {k_after(env2)})"

    def loop_params(self, env):
        others = [v for v in sorted(env) if not v.startswith("$")]
        penv = {v: (v + "_", env[v][1]) for v in others}
        plist = " ".join(f"({penv[v][0]} : {self.lean_ty(env[v][1])})" for v in others)
        return others, penv, plist

    def tr_for_range_rev(self, var, rng, body, env, k_after, ret):
        """`for i in (lo..=hi).rev() { body }` where the body assigns nothing and may `return`: an auxiliary
        definition by structural recursion on the number of remaining iterations; its result is `some r` when
        the body returned `r` from the FUNCTION, `none` when the loop ran to its end"""
        if self.assigned_vars(body[1], set()):
            raise Unsupported("descending range loop with loop-carried variables")
        if getattr(self, "ret_wrap", None):
            raise Unsupported("nested loops with early returns")
        self.loops += 1
        name = f"{self.cur_ns}.{self.cur_fn}.loop{self.loops}"
        others, penv, plist = self.loop_params(env)
        rd = self.cur_ns in getattr(self, "reads_ns", set())
        ev = " envr" if rd else ""
        again = lambda en: f"{name}{ev} c_ lo_ {' '.join(penv[v][0] for v in others)}"
        benv = dict(penv, **{var: ("(lo_ + c_)", "u32")})
        self.ret_wrap = lambda x: f"(some {x})"
        try:
            code = self.tr_stmts(body[1], benv, again, ret)
        finally:
            self.ret_wrap = None
        self.aux.append(f"def {name} {'(envr : ' + self.cur_ns + '.Reads) ' if rd else ''}(cnt_ : Nat) (lo_ : Nat) {plist} : Comp (Option {self.lean_ty(ret)}) :=\n"
                        f" match cnt_ with\n | 0 => Comp.ok none\n | c_ + 1 =>\n {code}\n")
        def klo(lo, lot):
            def khi(hi, hit):
                r = self.fresh("r")
                v = self.fresh("v")
                return (f"(Comp.bind ({name}{ev} ({as_nat(hi, hit)} + 1 - {as_nat(lo, lot)}) {as_nat(lo, lot)} {' '.join(env[v_][0] for v_ in others)}) fun {r} =>\n"
                        f" (optCase {r}\n (fun {v} => Comp.ok {v})\n ({k_after(env)})))")
            return self.tr(rng[3], env, khi, ret)
        return self.tr(rng[2], env, klo, ret)

    def tr_find_map(self, e, env, k, ret):
        """`(lo..hi).find_map(|i| body)`: the first `Some` the body yields for i = lo, lo+1, .., hi-1 — an
        auxiliary definition by structural recursion on the number of remaining iterations"""
        rng, cl = self.strip(e[1]), self.strip(e[3][0])
        if cl[0] != "closure" or len(cl[1]) != 1:
            raise Unsupported("find_map without a one-parameter closure")
        if getattr(self, "ret_wrap", None):
            raise Unsupported("find_map inside a loop with early returns")
        var = cl[1][0]
        self.loops += 1
        name = f"{self.cur_ns}.{self.cur_fn}.loop{self.loops}"
        others, penv, plist = self.loop_params(env)
        rd = self.cur_ns in getattr(self, "reads_ns", set())
        ev = " envr" if rd else ""
        seen = {}
        def kbody(a, t):
            if not t.startswith("Option<"):
                raise Unsupported("find_map closure yielding " + t)
            if not t.endswith("?>"):
                seen["t"] = t
            v = self.fresh("v")
            return (f"(optCase {a}\n (fun {v} => Comp.ok (some {v}))\n ({name}{ev} c_ (i_ + 1) {' '.join(penv[v_][0] for v_ in others)}))")
        benv = dict(penv, **{var: ("i_", "u32")})
        code = self.tr(cl[2], benv, kbody, ret)
        if "t" not in seen:
            raise Unsupported("find_map: result type unknown")
        self.aux.append(f"def {name} {'(envr : ' + self.cur_ns + '.Reads) ' if rd else ''}(cnt_ : Nat) (i_ : Nat) {plist} : Comp {self.lean_ty(seen['t'])} :=\n"
                        f" match cnt_ with\n | 0 => Comp.ok none\n | c_ + 1 =>\n {code}\n")
        def klo(lo, lot):
            def khi(hi, hit):
                r = self.fresh("r")
                return (f"(Comp.bind ({name}{ev} ({as_nat(hi, hit)} - {as_nat(lo, lot)}) {as_nat(lo, lot)} {' '.join(env[v_][0] for v_ in others)}) fun {r} =>\n"
                        f" {k(r, seen['t'])})")
            return self.tr(rng[3], env, khi, ret)
        return self.tr(rng[2], env, klo, ret)

    def tr_block(self, b, env, k, ret):
        if b[0] != "block":
            return self.tr(b, env, k, ret)
        if ret == "()":
            b = self.as_stmts(b)
        stmts, tail = b[1], b[2]

        def k_end(env2):
            if "$st" in env2:
                self.cur_st = env2["$st"][0]
            self.cur_env = env2
            if tail is None:
                if ret == "()":
                    return k("()", "()")
                raise Unsupported("block without a value")
            return self.tr(tail, env2, k, ret)
        return self.tr_stmts(stmts, env, k_end, ret)

    def function(self, ns, f, local_names):
        _, name, params, ret, body, impl_of = f
        self.cur_ns = ns
        self.cur_fn = name
        self.ret_var = body[2][1] if (body and body[0] == "block" and body[2] is not None and body[2][0] == "var") else None
        self.sigs_local = {("", n) for n in local_names}
        self.n = 0
        self.loops, self.aux, self.uses_fuel = 0, [], False
        self.param_names = {pn for pn, _, _ in params}
        env, lparams = {}, []
        self_ty = impl_of[0] if impl_of else None
        params_no = [q for q in params if q[1] not in OPAQUE]
        for pn, pt, mut in params:
            if pt in OPAQUE:
                continue
            if pt == "Self":
                pt = self_ty
            if pn == "self" or pn in ("from", "to", "end", "at", "with", "fun", "then", "else", "do", "in", "have", "show", "open", "by", "let", "match", "if", "where", "at"):
                pn_l = pn + "_"
            else:
                pn_l = pn
            env[pn] = (pn_l, pt)
            lparams.append(f"({pn_l} : {self.lean_ty(pt)})")
        if self_ty:
            ret = re.sub(r"\bSelf\b", self_ty, ret)
        is_store = ns in getattr(self, "store_ns", set())
        is_writer = is_store and (ns, name) in self.writers
        if is_store:
            env["$st"] = ("st", "Store")
            self.cur_st = "st"
        self.ret_wrap = (lambda x: f"({x}, {self.cur_st})") if is_writer else None
        outs_ = [params_no[j][0] for j in OUTS.get((ns, name), [])] if OUTS.get((ns, name)) else []
        if outs_:
            # `&mut` parameters: the function returns their final values next to its result (no early `return`)
            if is_writer:
                raise Unsupported("out parameters of a state-changing function")
            def no_ret(x):
                raise Unsupported("early return in a function with out parameters")
            self.ret_wrap = no_ret
            code = self.tr_block(body, env, lambda a, t: "Comp.ok (" + ", ".join([as_nat(a, t) if ret in NATTY else a] + [self.cur_env[o_][0] for o_ in outs_]) + ")", ret)
        elif is_writer:
            code = self.tr_block(body, env, lambda a, t: f"Comp.ok ({as_nat(a, t) if ret in NATTY else a}, {self.cur_st})", ret)
        else:
            code = self.tr_block(body, env, lambda a, t: f"Comp.ok {as_nat(a, t) if ret in NATTY else a}", ret)
        self.ret_wrap = None
        fuel = "(fuel : Nat) " if (ns, name) in self.fuel_fns else ""
        if ns in getattr(self, "reads_ns", set()):
            fuel += f"(envr : {ns}.Reads) "
        if is_store:
            fuel += f"(st : {ns}.Store) "
        if self.uses_fuel and not fuel:
            raise Unsupported(f"{name} uses fuel but was not announced")
        rty_l = f"({self.lean_ty(ret)} × {ns}.Store)" if is_writer else self.lean_ty(ret)
        if outs_:
            rty_l = "(" + " × ".join([self.lean_ty(ret)] + [self.lean_ty(dict((q[0], q[1]) for q in params_no)[o_]) for o_ in outs_]) + ")"
        return "\n".join(self.aux) + ("\n" if self.aux else "") + \
            f"def {ns}.{name} {fuel}{' '.join(lparams)} : Comp {rty_l} :=\n {code}\n"


FILES_VAULT = [
    ("Vault", "packages/tokens/src/vault/storage.rs",
     ["convert_to_shares_with_rounding", "convert_to_assets_with_rounding", "convert_to_shares", "convert_to_assets",
      "preview_deposit", "preview_mint", "preview_withdraw", "preview_redeem"]),
]
READS_VAULT = {"Vault": {"total_supply": "i128", "total_assets": "i128", "get_decimals_offset": "u32"}}

FILES_TIMELOCK = [
    ("Timelock", "packages/governance/src/timelock/mod.rs", []),      # constants and the state enum
    ("Timelock", "packages/governance/src/timelock/storage.rs",
     ["get_operation_state", "operation_exists", "is_operation_pending", "is_operation_ready", "is_operation_done"]),
]
READS_TIMELOCK = {"Timelock": {"get_operation_ledger": "u32", "ledger_sequence": "u32"}}

FILES_FEE = [
    ("Fee", "packages/fee-abstraction/src/storage.rs", ["validate_fee_bounds", "validate_expiration_ledger"]),
]
READS_FEE = {"Fee": {"ledger_sequence": "u32"}}

FILES_CAP = [
    ("Capped", "packages/tokens/src/fungible/extensions/capped/storage.rs", ["query_cap", "check_cap"]),
]
READS_VOTES = {"Votes": {"get_checkpoint": ("fn", ["u32"], "Checkpoint")}}
STRUCTS_VOTES = {"Checkpoint": [("ledger", "u32"), ("votes", "u128")]}
FILES_VOTES = [("Votes", "packages/governance/src/votes/storage.rs", ["lookup_checkpoint_at"])]
STORE_FUNGIBLE = {"Fungible": {"Balance": (["Address"], "i128"), "TotalSupply": ([], "i128"),
                               "Allowance": (["AllowanceKey"], "AllowanceData")}}
STRUCTS_FUNGIBLE = {"AllowanceData": [("amount", "i128"), ("live_until_ledger", "u32")],
                    "AllowanceKey": [("owner", "Address"), ("spender", "Address")]}
READS_FUNGIBLE = {"Fungible": {"ledger_sequence": "u32", "max_live_until_ledger": "u32", "authorized": "addr2bool"}}
FILES_FUNGIBLE = [("Fungible", "packages/tokens/src/fungible/storage.rs",
                   ["total_supply", "balance", "allowance_data", "allowance", "set_allowance", "spend_allowance", "update",
                    "approve", "transfer", "transfer_from", "mint"]),
                  ("Fungible", "packages/tokens/src/fungible/extensions/burnable/storage.rs", ["burn", "burn_from"])]
STORE_PAUSABLE = {"Pausable": {"Paused": ([], "bool")}}
FILES_PAUSABLE = [("Pausable", "packages/contract-utils/src/pausable/storage.rs",
                   ["paused", "pause", "unpause", "when_not_paused", "when_paused"])]
FILES_CONS = [("Consecutive", "packages/tokens/src/non_fungible/extensions/consecutive/storage.rs",
               ["find_bit_in_item", "find_bit_in_bucket"])]
READS_MERKLE = {"Merkle": {"hash_pair": ("fn", ["Bytes32", "Bytes32"], "Bytes32"), "gt": "fn2bool"}}
FILES_MERKLE = [("Merkle", "packages/contract-utils/src/crypto/hashable.rs", ["commutative_hash_pair"]),
                ("Merkle", "packages/contract-utils/src/crypto/merkle.rs", ["verify", "verify_with_index"])]
TYMAPS_MERKLE = {"packages/contract-utils/src/crypto/hashable.rs": {"H": "Bytes32", "S": "Hasher!", "Output": "Bytes32"},
                 "packages/contract-utils/src/crypto/merkle.rs": {"H": "Hasher!"}}
STORE_BL = {"BlockTok": dict(STORE_FUNGIBLE["Fungible"], **{"Blocked": (["Address"], "()")})}
FILES_BL = [("BlockTok", "packages/tokens/src/fungible/storage.rs",
             ["total_supply", "balance", "allowance_data", "allowance", "set_allowance", "spend_allowance", "update",
              "approve", "transfer", "transfer_from"]),
            ("BlockTok", "packages/tokens/src/fungible/extensions/burnable/storage.rs", ["burn", "burn_from"]),
            ("BlockTok", "packages/tokens/src/fungible/extensions/blocklist/storage.rs",
             ["blocked", "block_user", "unblock_user", "transfer", "transfer_from", "approve", "burn", "burn_from"])]
STORE_UP = {"Upgradeable": {"Migrating": ([], "bool")}}
FILES_UP = [("Upgradeable", "packages/contract-utils/src/upgradeable/storage.rs",
             ["enable_migration", "can_complete_migration", "complete_migration", "ensure_can_complete_migration"])]
STORE_AL = {"AllowTok": dict(STORE_FUNGIBLE["Fungible"], **{"Allowed": (["Address"], "()")})}
READS_AL = {"AllowTok": READS_FUNGIBLE["Fungible"]}
FILES_AL = [("AllowTok", "packages/tokens/src/fungible/storage.rs",
             ["total_supply", "balance", "allowance_data", "allowance", "set_allowance", "spend_allowance", "update",
              "approve", "transfer", "transfer_from"]),
            ("AllowTok", "packages/tokens/src/fungible/extensions/burnable/storage.rs", ["burn", "burn_from"]),
            ("AllowTok", "packages/tokens/src/fungible/extensions/allowlist/storage.rs",
             ["allowed", "allow_user", "disallow_user", "transfer", "transfer_from", "approve", "burn", "burn_from"])]
STORE_NFTT = {"NftT": {"Approval": (["u32"], "ApprovalData", "temp"), "ApprovalForAll": (["Address", "Address"], "u32", "temp")}}
READS_NFTT = {"NftT": {"ledger_sequence": "u32", "min_temp_ttl": "u32", "max_ttl": "u32", "authorized": "addr2bool"}}
FILES_NFTT = [("NftT", "packages/tokens/src/non_fungible/storage.rs",
               ["get_approved", "is_approved_for_all", "approve_for_all", "approve_for_owner", "check_spender_approval"])]
STORE_FF = {"FungibleF": {"Balance": (["Address"], "i128"), "TotalSupply": ([], "i128"),
                            "Allowance": (["AllowanceKey"], "AllowanceData", "temp")}}
READS_FF = {"FungibleF": {"ledger_sequence": "u32", "min_temp_ttl": "u32", "max_ttl": "u32", "authorized": "addr2bool"}}
FILES_FF = [("FungibleF", "packages/tokens/src/fungible/storage.rs",
             ["total_supply", "balance", "allowance_data", "allowance", "set_allowance", "spend_allowance", "update",
              "approve", "transfer", "transfer_from", "mint"]),
            ("FungibleF", "packages/tokens/src/fungible/extensions/burnable/storage.rs", ["burn", "burn_from"])]
STORE_FT = {"FungibleT": {"Allowance": (["AllowanceKey"], "AllowanceData", "temp")}}
READS_FT = {"FungibleT": {"ledger_sequence": "u32", "min_temp_ttl": "u32", "max_ttl": "u32"}}
FILES_FT = [("FungibleT", "packages/tokens/src/fungible/storage.rs", ["allowance_data", "allowance", "set_allowance", "spend_allowance"])]
STORE_CTI = {"Topics": {"ClaimTopics": ([], "Vec<u32>"), "ClaimTopicIssuers": (["u32"], "Vec<Address>")}}
FILES_CTI = [("Topics", "packages/tokens/src/rwa/claim_topics_and_issuers/mod.rs", []),
             ("Topics", "packages/tokens/src/rwa/claim_topics_and_issuers/storage.rs", ["get_claim_topics", "add_claim_topic"])]
STORE_CTIF = {"TopicsF": {"ClaimTopics": ([], "Vec<u32>"), "ClaimTopicIssuers": (["u32"], "Vec<Address>"),
                          "TrustedIssuers": ([], "Vec<Address>"), "IssuerClaimTopics": (["Address"], "Vec<u32>")}}
FILES_CTIF = [("TopicsF", "packages/tokens/src/rwa/claim_topics_and_issuers/mod.rs", []),
              ("TopicsF", "packages/tokens/src/rwa/claim_topics_and_issuers/storage.rs",
               ["get_claim_topics", "get_trusted_issuers", "get_claim_topic_issuers", "get_trusted_issuer_claim_topics",
                "is_trusted_issuer", "has_claim_topic", "add_claim_topic", "remove_claim_topic", "add_trusted_issuer",
                "remove_trusted_issuer", "update_issuer_claim_topics", "validate_topics_exist", "validate_no_duplicate_topics"])]
STORE_VOTESF = {"VotesF": {"Delegatee": (["Address"], "Address"), "NumCheckpoints": (["Address"], "u32"),
                           "DelegateCheckpoint": (["Address", "u32"], "Checkpoint"), "NumTotalSupplyCheckpoints": ([], "u32"),
                           "TotalSupplyCheckpoint": (["u32"], "Checkpoint"), "VotingUnits": (["Address"], "u128")}}
READS_VOTESF = {"VotesF": {"ledger_sequence": "u32", "authorized": "addr2bool"}}
FILES_VOTESF = [("VotesF", "packages/governance/src/votes/storage.rs",
                 ["get_checkpoint", "get_votes", "get_votes_at_checkpoint", "get_total_supply", "get_total_supply_at_checkpoint",
                  "get_delegate", "num_checkpoints", "get_voting_units", "delegate", "transfer_voting_units", "set_voting_units",
                  "move_delegate_votes", "lookup_checkpoint_at", "apply_checkpoint_op", "checkpoint_storage_key",
                  "get_num_checkpoints", "push_checkpoint"])]
STORE_ISS = {"Issuer": {"ClaimNonce": (["Address", "u32"], "u32"), "RevokedClaim": (["Bytes32"], "bool")}}
READS_ISS = {"Issuer": {"network_id": "Bytes", "current_contract_address": "Address", "ledger_timestamp": "u64",
                        "to_xdr": ("purefn", ["Address"], "Bytes"), "keccak256": ("purefn", ["Bytes"], "Bytes32"),
                        "decode_claim_data_expiration": ("purefn", ["Bytes"], "tuple<u64,u64,Bytes>")}}
FILES_ISS = [("Issuer", "packages/tokens/src/rwa/claim_issuer/storage.rs",
              ["get_current_nonce_for", "invalidate_claim_signatures", "build_claim_identifier", "build_claim_message",
               "set_claim_revoked", "is_claim_revoked", "is_claim_expired"])]
STORE_CTL = {"Controller": {"MinDelay": ([], "u32"), "OperationLedger": (["Bytes32"], "u32"), "HasRole": (["Address", "Symbol"], "u32"),
                            "Admin": ([], "Address"), "RoleAdmin": (["Symbol"], "Symbol"), "RoleAccountsCount": (["Symbol"], "u32")}}
STRUCTS_CTL = {"Operation": [("target", "Address"), ("function", "Symbol"), ("args", "Val"), ("predecessor", "Bytes32"), ("salt", "Bytes32")],
               "OperationMeta": [("predecessor", "Bytes32"), ("salt", "Bytes32"), ("executor", "Option<Address>")],
               "ContractContext": [("contract", "Address"), ("fn_name", "Symbol"), ("args", "Val")]}
PENUMS_CTL = {"Context": [("Contract", "ContractContext"), ("CreateContractHostFn", None), ("CreateContractWithCtorHostFn", None)]}
READS_CTL = {"Controller": {"ledger_sequence": "u32", "hash_operation": ("purefn", ["Operation"], "Bytes32"), "current_contract_address": "Address",
                            "authorized_for_args": ("purefn", ["Address", "tuple<Symbol,Address,Symbol,Val,Bytes32,Bytes32>"], "bool")}}
FILES_CTL = [("Controller", "packages/governance/src/timelock/mod.rs", []),
             ("Controller", "packages/governance/src/timelock/storage.rs",
              ["get_operation_ledger", "get_operation_state", "is_operation_ready", "is_operation_done", "set_execute_operation"]),
             ("Controller", "packages/access/src/access_control/storage.rs", ["has_role", "ensure_role", "get_role_member_count"]),
             ("Controller", "examples/timelock-controller/src/contract.rs", ["__check_auth"])]
TYMAPS_CTL = {"packages/governance/src/timelock/storage.rs": {"BytesN<32>": "Bytes32"},
              "examples/timelock-controller/src/contract.rs": {"BytesN<32>": "Bytes32", "Hash<32>": "Key!", "Vec<Val>": "Val"}}
STRUCTS_SA = {"ContextRule": [("id", "u32"), ("context_type", "Val"), ("name", "Val"), ("signers", "Vec<Signer>"), ("policies", "Vec<Address>"),
                               ("valid_until", "Option<u32>")]}
READS_SA = {"SmartAccount": {"valid_context_rules": ("fn", ["Ctx"], "Vec<ContextRule>"),
                             "PolicyClient_can_enforce": ("fn", ["Address", "Ctx", "Vec<Signer>", "ContextRule"], "bool")}}
FILES_SA = [("SmartAccount", "packages/accounts/src/smart_account/mod.rs", []),
            ("SmartAccount", "packages/accounts/src/smart_account/storage.rs",
             ["get_authenticated_signers", "can_enforce_all_policies", "get_validated_context", "validate_signers_and_policies"])]
STORE_NFTF = {"NftF": {"Owner": (["u32"], "Address"), "Balance": (["Address"], "u32"),
                       "Approval": (["u32"], "ApprovalData", "temp"), "ApprovalForAll": (["Address", "Address"], "u32", "temp")}}
READS_NFTF = {"NftF": {"ledger_sequence": "u32", "min_temp_ttl": "u32", "max_ttl": "u32", "authorized": "addr2bool"}}
FILES_NFTF = [("NftF", "packages/tokens/src/non_fungible/storage.rs",
               ["balance", "owner_of", "get_approved", "is_approved_for_all", "transfer", "transfer_from", "approve", "approve_for_all",
                "update", "approve_for_owner", "check_spender_approval", "increase_balance", "decrease_balance", "mint"]),
              ("NftF", "packages/tokens/src/non_fungible/extensions/burnable/storage.rs", ["burn", "burn_from"])]
STORE_VST = {"VaultSt": {"Balance": (["Address"], "i128"), "TotalSupply": ([], "i128"),
                         "Allowance": (["AllowanceKey"], "AllowanceData", "temp"),
                         "AssetAddress": ([], "Address"), "VirtualDecimalsOffset": ([], "u32"),
                         "Asset": ([], "OZ.Fungible.State", "raw")}}
READS_VST = {"VaultSt": {"ledger_sequence": "u32", "min_temp_ttl": "u32", "max_ttl": "u32", "authorized": "addr2bool",
                         "current_contract_address": "Address", "asset_auth": "Vec<Address>"}}
FILES_VST = [("VaultSt", "packages/tokens/src/fungible/storage.rs",
              ["total_supply", "balance", "allowance_data", "allowance", "set_allowance", "spend_allowance", "update",
               "approve", "transfer", "transfer_from"]),
             ("VaultSt", "packages/tokens/src/vault/storage.rs",
              ["query_asset", "total_assets", "get_decimals_offset", "convert_to_shares_with_rounding", "convert_to_assets_with_rounding",
               "max_deposit", "max_mint", "max_withdraw", "max_redeem", "preview_deposit", "preview_mint", "preview_withdraw", "preview_redeem",
               "deposit_internal", "withdraw_internal", "deposit", "mint", "withdraw", "redeem"])]
_AST = "(⟨envr.min_temp_ttl, envr.max_ttl⟩ : OZ.Host.Cfg)"
STUBS_VST = {
    "Client_balance": ("VaultSt", "query_asset", ["Address"], "i128",
        "def VaultSt.Client_balance (envr : VaultSt.Reads) (st : VaultSt.Store) (a : Nat) : Comp Int :=\n Comp.ok (st.Asset.bal a)\n"),
    "Client_transfer": ("VaultSt", "query_asset", ["Address", "Address", "i128"], "()",
        "def VaultSt.Client_transfer (envr : VaultSt.Reads) (st : VaultSt.Store) (from_ : Nat) (to_ : Nat) (amount : Int) : Comp (Unit × VaultSt.Store) :=\n"
        " match OZ.Fungible.transfer st.Asset envr.asset_auth from_ to_ amount with\n | .ok a => Comp.ok ((), { st with Asset := a })\n | .error _ => Comp.panic\n"),
    "Client_transfer_from": ("VaultSt", "query_asset", ["Address", "Address", "Address", "i128"], "()",
        "def VaultSt.Client_transfer_from (envr : VaultSt.Reads) (st : VaultSt.Store) (spender : Nat) (from_ : Nat) (to_ : Nat) (amount : Int) : Comp (Unit × VaultSt.Store) :=\n"
        f" match OZ.Fungible.transferFrom {_AST} st.Asset envr.asset_auth spender from_ to_ amount with\n | .ok a => Comp.ok ((), {{ st with Asset := a }})\n | .error _ => Comp.panic\n"),
}
STORE_OWN = {"Ownable": {"PendingOwner": ([], "Address", "temp"), "Owner": ([], "Address")}}
READS_OWN = {"Ownable": {"ledger_sequence": "u32", "min_temp_ttl": "u32", "max_ttl": "u32", "authorized": "addr2bool"}}
FILES_OWN = [("Ownable", "packages/access/src/role_transfer/storage.rs", ["transfer_role", "accept_transfer"]),
             ("Ownable", "packages/access/src/ownable/storage.rs",
              ["get_owner", "enforce_owner_auth", "transfer_ownership", "accept_ownership", "renounce_ownership"])]
STRUCTS_CA = {"ContextRule": [("id", "u32"), ("context_type", "Val"), ("name", "Val"), ("signers", "Vec<Signer>"), ("policies", "Vec<Address>"),
                               ("valid_until", "Option<u32>")]}
READS_CA = {"CheckAuth": {"VerifierClient_verify": ("fn", ["Address", "Bytes", "Bytes", "Bytes"], "bool"),
                          "authorized_for_args": ("purefn", ["Address", "tuple<Bytes32>"], "bool"),
                          "current_contract_address": "Address",
                          "get_validated_context": ("fn", ["Ctx", "Vec<Signer>"], "tuple<ContextRule,Ctx,Vec<Signer>>"),
                          "PolicyClient_enforce": ("fn", ["Address", "Ctx", "Vec<Signer>", "ContextRule", "Address"], "()")}}
FILES_CA = [("CheckAuth", "packages/accounts/src/smart_account/storage.rs", ["authenticate", "do_check_auth"])]
READS_AU = {"Auth": {"VerifierClient_verify": ("fn", ["Address", "Bytes", "Bytes", "Bytes"], "bool"),
                     "authorized_for_args": ("purefn", ["Address", "tuple<Bytes32>"], "bool")}}
FILES_AU = [("Auth", "packages/accounts/src/smart_account/storage.rs", ["authenticate"])]
STORE_DM = {"Docs": {"Index": (["Bytes32"], "u32"), "Bucket": (["u32"], "Vec<tuple<Bytes32,Document>>"), "Count": ([], "u32")}}
STRUCTS_DM = {"Document": [("uri", "Bytes"), ("document_hash", "Bytes32"), ("timestamp", "u64")]}
FILES_DM = [("Docs", "packages/tokens/src/rwa/extensions/doc_manager/mod.rs", []),
            ("Docs", "packages/tokens/src/rwa/extensions/doc_manager/storage.rs",
             ["get_document_count", "get_document", "get_document_by_index", "get_documents", "set_document", "remove_document"])]
STORE_CP = {"Compliance": {"HookModules": (["ComplianceHook"], "Vec<Address>")}}
READS_CP = {"Compliance": {"authorized": "addr2bool", "is_token_bound": ("purefn", ["Address"], "bool"),
                           "ComplianceModuleClient_on_transfer": ("fn", ["Address", "Address", "Address", "i128", "Address"], "()"),
                           "ComplianceModuleClient_on_created": ("fn", ["Address", "Address", "i128", "Address"], "()"),
                           "ComplianceModuleClient_on_destroyed": ("fn", ["Address", "Address", "i128", "Address"], "()"),
                           "ComplianceModuleClient_can_transfer": ("fn", ["Address", "Address", "Address", "i128", "Address"], "bool"),
                           "ComplianceModuleClient_can_create": ("fn", ["Address", "Address", "i128", "Address"], "bool")}}
FILES_CP = [("Compliance", "packages/tokens/src/rwa/compliance/mod.rs", []),
            ("Compliance", "packages/tokens/src/rwa/compliance/storage.rs",
             ["get_modules_for_hook", "is_module_registered", "add_module_to", "remove_module_from", "transferred", "created",
              "destroyed", "can_transfer", "can_create", "require_auth_from_bound_token"])]
STORE_IRS = {"Irs": {"Identity": (["Address"], "Address"), "IdentityProfile": (["Address"], "IrsProfile"),
                     "RecoveredTo": (["Address"], "Address")}}
STRUCTS_IRS = {"IrsProfile": [("identity_type", "Val"), ("countries", "Vec<Val>")]}
READS_IRS = {"Irs": {"validate_country_data": ("fn", ["Val"], "()")}}
FILES_IRS = [("Irs", "packages/tokens/src/rwa/identity_registry_storage/mod.rs", []),
             ("Irs", "packages/tokens/src/rwa/identity_registry_storage/storage.rs",
              ["stored_identity", "get_identity_profile", "get_country_data", "get_country_data_entries", "get_recovered_to",
               "add_identity", "modify_identity", "remove_identity", "recover_identity", "add_country_data_entries",
               "modify_country_data", "delete_country_data"])]
STORE_KR = {"Keys": {"Topics": (["u32"], "Vec<SigningKey>"), "Pairs": (["SigningKey"], "Vec<tuple<u32,Address>>")}}
STRUCTS_KR = {"SigningKey": [("public_key", "Bytes"), ("scheme", "u32")]}
READS_KR = {"Keys": {"current_contract_address": "Address",
                     "ClaimTopicsAndIssuersClient_has_claim_topic": ("fn", ["Address", "Address", "u32"], "bool")}}
FILES_KR = [("Keys", "packages/tokens/src/rwa/claim_issuer/mod.rs", []),
            ("Keys", "packages/tokens/src/rwa/claim_issuer/storage.rs",
             ["get_keys_for_topic", "is_key_allowed_for_topic", "is_key_allowed_for_registry", "is_authorized_for", "allow_key", "remove_key"])]
STORE_TB = {"Binder": {"TokenBucket": (["u32"], "Vec<Address>"), "TotalCount": ([], "u32")}}
FILES_TB = [("Binder", "packages/tokens/src/rwa/utils/token_binder/mod.rs", []),
            ("Binder", "packages/tokens/src/rwa/utils/token_binder/storage.rs",
             ["linked_token_count", "get_token_by_index", "get_token_index", "is_token_bound", "linked_tokens", "bind_token", "unbind_token"])]
STORE_CR = {"Rules": {"Meta": (["u32"], "MetaS"), "Signers": (["u32"], "Vec<Signer>"), "Policies": (["u32"], "Vec<Address>"),
                      "Ids": (["Val"], "Vec<u32>")}}
STRUCTS_CR = {"MetaS": [("name", "Val"), ("context_type", "Val"), ("valid_until", "Option<u32>")],
              "ContextRule": [("id", "u32"), ("context_type", "Val"), ("name", "Val"), ("signers", "Vec<Signer>"), ("policies", "Vec<Address>"),
                              ("valid_until", "Option<u32>")]}
READS_CR = {"Rules": {"ledger_sequence": "u32"}}
FILES_CR = [("Rules", "packages/accounts/src/smart_account/storage.rs", ["get_context_rule", "get_context_rules", "get_valid_context_rules"])]
STORE_CRW = {"RulesW": {"Meta": (["u32"], "MetaS"), "Signers": (["u32"], "Vec<Signer>"), "Policies": (["u32"], "Vec<Address>"),
                        "Ids": (["Val"], "Vec<u32>"), "NextId": ([], "u32"), "Count": ([], "u32"), "Fingerprint": (["Bytes32"], "bool")}}
READS_CRW = {"RulesW": {"ledger_sequence": "u32",
                        "compute_fingerprint": ("fn", ["Val", "Vec<Signer>", "Vec<Address>"], "Bytes32"),
                        "current_contract_address": "Address",
                        "PolicyClient_try_uninstall": ("tryfn", ["Address", "ContextRule", "Address"], "()"),
                        "PolicyClient_install": ("fn", ["Address", "Val", "ContextRule", "Address"], "()")}}
FILES_CRW = [("RulesW", "packages/accounts/src/smart_account/mod.rs", []),
             ("RulesW", "packages/accounts/src/smart_account/storage.rs",
              ["get_context_rule", "validate_signers_and_policies", "validate_and_set_fingerprint",
               "remove_fingerprint", "update_context_rule_name", "update_context_rule_valid_until", "add_signer", "remove_signer",
               "remove_context_rule", "get_context_rules_count", "add_context_rule", "add_policy", "remove_policy"])]
STORE_CLM = {"Claims": {"Claim": (["Bytes32"], "IdClaim"), "ClaimsByTopic": (["u32"], "Vec<Bytes32>")}}
STRUCTS_CLM = {"IdClaim": [("topic", "u32"), ("scheme", "u32"), ("issuer", "Address"), ("signature", "Bytes"), ("data", "Bytes"), ("uri", "Val")]}
READS_CLM = {"Claims": {"current_contract_address": "Address",
                        "to_xdr": ("purefn", ["Address"], "Bytes"), "keccak256": ("purefn", ["Bytes"], "Bytes32"),
                        "ClaimIssuerClient_is_claim_valid": ("fn", ["Address", "Address", "u32", "u32", "Bytes", "Bytes"], "()")}}
FILES_CLM = [("Claims", "packages/tokens/src/rwa/identity_claims/storage.rs",
              ["add_claim", "get_claim", "get_claim_ids_by_topic", "remove_claim", "remove_claim_from_topic_index", "generate_claim_id",
               "add_claim_to_topic_index"])]
STORE_SEQ = {"Sequential": {"TokenIdCounter": ([], "u32")}}
FILES_SEQ = [("Sequential", "packages/tokens/src/non_fungible/utils/sequential/storage.rs", ["next_token_id", "increment_token_id"])]
STORE_ADM = {"AccessAdmin": {"PendingAdmin": ([], "Address", "temp"), "Admin": ([], "Address")}}
READS_ADM = {"AccessAdmin": {"ledger_sequence": "u32", "min_temp_ttl": "u32", "max_ttl": "u32", "authorized": "addr2bool"}}
FILES_ADM = [("AccessAdmin", "packages/access/src/role_transfer/storage.rs", ["transfer_role", "accept_transfer"]),
             ("AccessAdmin", "packages/access/src/access_control/storage.rs",
              ["get_admin", "enforce_admin_auth", "set_admin", "transfer_admin_role", "accept_admin_transfer", "renounce_admin"])]
STORE_FEEST = {"FeeSt": {"Count": ([], "u32"), "TokenIndex": (["Address"], "u32")}}
READS_FEEST = {"FeeSt": {"ledger_sequence": "u32", "current_contract_address": "Address",
                         "authorized_for_args": ("purefn", ["Address", "tuple<Address,i128,u32,Address,Symbol,Val>"], "bool"),
                         "TokenClient_approve": ("fn", ["Address", "Address", "Address", "i128", "u32"], "()"),
                         "TokenClient_allowance": ("fn", ["Address", "Address", "Address"], "i128"),
                         "TokenClient_transfer_from": ("fn", ["Address", "Address", "Address", "Address", "i128"], "()"),
                         "invoke_contract": ("fn", ["Address", "Symbol", "Val"], "Val")}}
FILES_FEEST = [("FeeSt", "packages/fee-abstraction/src/storage.rs",
                ["is_fee_token_allowlist_enabled", "is_allowed_fee_token", "validate_fee_bounds", "validate_expiration_ledger",
                 "collect_fee", "collect_fee_and_invoke"])]
STORE_RT = {"RoleTransfer": {"Pending": ([], "Address", "temp"), "Active": ([], "Address")}}
READS_RT = {"RoleTransfer": {"ledger_sequence": "u32", "min_temp_ttl": "u32", "max_ttl": "u32", "authorized": "addr2bool"}}
FILES_RT = [("RoleTransfer", "packages/access/src/role_transfer/storage.rs", ["transfer_role", "accept_transfer"])]
STORE_NFT = {"Nft": {"Approval": (["u32"], "ApprovalData"), "ApprovalForAll": (["Address", "Address"], "u32")}}
STRUCTS_NFT = {"ApprovalData": [("approved", "Address"), ("live_until_ledger", "u32")]}
READS_NFT = {"Nft": {"ledger_sequence": "u32", "authorized": "addr2bool"}}
FILES_NFT = [("Nft", "packages/tokens/src/non_fungible/storage.rs",
              ["get_approved", "is_approved_for_all", "approve_for_all", "approve_for_owner", "check_spender_approval"])]
STORE_ST = {"SimpleThreshold": {"AccountContext": (["Address", "u32"], "u32")}}
STRUCTS_ST = {"ContextRule": [("id", "u32"), ("signers", "Vec<Signer>")], "SimpleThresholdAccountParams": [("threshold", "u32")]}
READS_ST = {"SimpleThreshold": {"authorized": "addr2bool"}}
FILES_ST = [("SimpleThreshold", "packages/accounts/src/policies/simple_threshold.rs",
             ["get_threshold", "can_enforce", "enforce", "set_threshold", "install", "uninstall", "validate_and_set_threshold"])]
STORE_SL = {"SpendingLimit": {"AccountContext": (["Address", "u32"], "SpendingLimitData")}}
STRUCTS_SL = {"ContextRule": [("id", "u32"), ("signers", "Vec<Signer>")],
              "SpendingLimitAccountParams": [("spending_limit", "i128"), ("period_ledgers", "u32")],
              "SpendingEntry": [("amount", "i128"), ("ledger_sequence", "u32")],
              "SpendingLimitData": [("spending_limit", "i128"), ("period_ledgers", "u32"), ("spending_history", "Vec<SpendingEntry>"),
                                    ("cached_total_spent", "i128")],
              "ContractContext": [("contract", "Address"), ("fn_name", "Symbol"), ("args", "Vec<Val>")]}
PENUMS_SL = {"Context": [("Contract", "ContractContext"), ("CreateContractHostFn", None), ("CreateContractWithCtorHostFn", None)]}
READS_SL = {"SpendingLimit": {"authorized": "addr2bool", "ledger_sequence": "u32",
                              "i128_try_from_val": ("purefn", ["Val"], "Option<i128>")}}
FILES_SL = [("SpendingLimit", "packages/accounts/src/policies/spending_limit.rs",
             ["get_spending_limit_data", "can_enforce", "enforce", "set_spending_limit", "install", "uninstall", "cleanup_old_entries"])]
STORE_IV = {"Verifier": {"ClaimTopicsAndIssuers": ([], "Address"), "IdentityRegistryStorage": ([], "Address")}}
STRUCTS_IV = {"Claim": [("topic", "u32"), ("scheme", "u32"), ("issuer", "Address"), ("signature", "Bytes"), ("data", "Bytes")]}
# the other contracts `verify_identity` talks to: functions of the reads record (the called contract first); the
# answer of `try_is_claim_valid` is reduced to what `matches!(.., Ok(Ok(_)))` reads of it
READS_IV = {"Verifier": {
    "IdentityRegistryStorageClient_stored_identity": ("fn", ["Address", "Address"], "Address"),
    "ClaimTopicsAndIssuersClient_get_claim_topics_and_issuers": ("fn", ["Address"], "Map<u32,Vec<Address>>"),
    "IdentityClaimsClient_get_claim_ids_by_topic": ("fn", ["Address", "u32"], "Vec<Bytes32>"),
    "IdentityClaimsClient_get_claim": ("fn", ["Address", "Bytes32"], "Claim"),
    "ClaimIssuerClient_try_is_claim_valid": ("tryfn", ["Address", "Address", "u32", "u32", "Bytes", "Bytes"], "bool"),
    "generate_claim_id": ("purefn", ["Address", "u32"], "Bytes32")}}
FILES_IV = [("Verifier", "packages/tokens/src/rwa/identity_verifier/storage.rs",
             ["claim_topics_and_issuers", "identity_registry_storage", "validate_claim", "verify_identity"])]
STORE_WT = {"WeightedThreshold": {"AccountContext": (["Address", "u32"], "WeightedThresholdAccountParams")}}
STRUCTS_WT = {"ContextRule": [("id", "u32"), ("signers", "Vec<Signer>")],
              "WeightedThresholdAccountParams": [("signer_weights", "Map<Signer,u32>"), ("threshold", "u32")]}
READS_WT = {"WeightedThreshold": {"authorized": "addr2bool"}}
FILES_WT = [("WeightedThreshold", "packages/accounts/src/policies/weighted_threshold.rs",
             ["get_threshold", "get_signer_weights", "calculate_weight", "can_enforce", "enforce", "set_threshold",
              "set_signer_weight", "install", "uninstall", "calculate_total_weight"])]
STORE_AC = {"Access": {"HasRole": (["Address", "Symbol"], "u32"), "Admin": ([], "Address"), "RoleAdmin": (["Symbol"], "Symbol")}}
FILES_AC = [("Access", "packages/access/src/access_control/storage.rs",
             ["has_role", "get_admin", "get_role_admin", "ensure_if_admin_or_admin_role", "ensure_role"])]
STORE_ACF = {"AccessF": {"HasRole": (["Address", "Symbol"], "u32"), "Admin": ([], "Address"), "RoleAdmin": (["Symbol"], "Symbol"),
                         "RoleAccountsCount": (["Symbol"], "u32"), "RoleAccounts": (["RoleAccountKey"], "Address"),
                         "ExistingRoles": ([], "Vec<Symbol>")}}
STRUCTS_ACF = {"RoleAccountKey": [("role", "Symbol"), ("index", "u32")]}
READS_ACF = {"AccessF": {"authorized": "addr2bool"}}
FILES_ACF = [("AccessF", "packages/access/src/access_control/mod.rs", []),
             ("AccessF", "packages/access/src/access_control/storage.rs",
              ["has_role", "get_admin", "get_role_member_count", "get_role_member", "get_role_admin", "get_existing_roles",
               "grant_role", "grant_role_no_auth", "revoke_role", "revoke_role_no_auth", "renounce_role",
               "set_role_admin", "set_role_admin_no_auth", "remove_role_admin_no_auth", "remove_role_accounts_count_no_auth",
               "ensure_if_admin_or_admin_role", "ensure_role", "enforce_admin_auth",
               "add_to_role_enumeration", "remove_from_role_enumeration"])]
STORE_RWA = {"Rwa": {"Balance": (["Address"], "i128"), "TotalSupply": ([], "i128"), "AddressFrozen": (["Address"], "bool"),
                     "FrozenTokens": (["Address"], "i128"), "Compliance": ([], "Address"), "IdentityVerifier": ([], "Address"),
                     "Paused": ([], "bool"), "Allowance": (["AllowanceKey"], "AllowanceData")}}
READS_RWA = {"Rwa": {"ledger_sequence": "u32", "max_live_until_ledger": "u32", "authorized": "addr2bool",
                     "ComplianceClient_transferred": ("fn", ["Address", "Address", "i128"], "()"),
                     "ComplianceClient_destroyed": ("fn", ["Address", "i128"], "()"),
                     "ComplianceClient_created": ("fn", ["Address", "i128"], "()"),
                     "ComplianceClient_can_transfer": ("fn", ["Address", "Address", "i128"], "bool"),
                     "ComplianceClient_can_create": ("fn", ["Address", "i128"], "bool"),
                     "IdentityVerifierClient_verify_identity": ("fn", ["Address"], "()"),
                     "IdentityVerifierClient_recovery_target": ("fn", ["Address"], "Option<Address>")}}
FILES_RWA = [("Rwa", "packages/contract-utils/src/pausable/storage.rs", ["paused"]),
             ("Rwa", "packages/tokens/src/fungible/storage.rs",
              ["total_supply", "balance", "allowance_data", "allowance", "set_allowance", "spend_allowance", "update"]),
             ("Rwa", "packages/tokens/src/rwa/storage.rs",
              ["is_frozen", "get_frozen_tokens", "get_free_tokens", "compliance", "identity_verifier", "set_address_frozen",
               "freeze_partial_tokens", "unfreeze_partial_tokens", "forced_transfer", "burn", "validate_transfer", "transfer",
               "transfer_from", "mint", "recover_balance"])]
STORE_TL = {"TimelockSt": {"MinDelay": ([], "u32"), "OperationLedger": (["Bytes32"], "u32")}}
STRUCTS_TL = {"Operation": [("target", "Address"), ("function", "u32"), ("args", "u32"), ("predecessor", "Bytes32"), ("salt", "Bytes32")]}
READS_TL = {"TimelockSt": {"ledger_sequence": "u32", "hash_operation": ("purefn", ["Operation"], "Bytes32")}}
FILES_TL = [("TimelockSt", "packages/governance/src/timelock/mod.rs", []),
            ("TimelockSt", "packages/governance/src/timelock/storage.rs",
             ["get_min_delay", "get_operation_ledger", "get_operation_state", "operation_exists", "is_operation_pending",
              "is_operation_ready", "is_operation_done", "set_min_delay", "schedule_operation", "set_execute_operation",
              "cancel_operation"])]
STORE_DIST = {"Distributor": {"Root": ([], "Bytes32"), "Claimed": (["u32"], "bool")}}
READS_DIST = {"Distributor": {"merkle": "reads:Merkle", "leaf_hash": ("purefn", ["Leaf"], "Bytes32"), "leaf_index": ("purefn", ["Leaf"], "u32")},
              "Merkle": READS_MERKLE["Merkle"]}
FILES_DIST = [("Distributor", "packages/contract-utils/src/merkle_distributor/storage.rs",
               ["get_root", "is_claimed", "set_root", "set_claimed", "verify_and_set_claimed", "verify_with_index_and_set_claimed"])]
TYMAPS_DIST = dict(TYMAPS_MERKLE, **{"packages/contract-utils/src/merkle_distributor/storage.rs": {"H": "Hasher!", "Output": "Bytes32", "N": "Leaf"}})
STUBS_DIST = {"get_verification_args": ("Distributor", "get_root", ["Leaf"], "tuple<Bytes32,Bytes32,u32>",
    "def Distributor.get_verification_args (envr : Distributor.Reads) (st : Distributor.Store) (leaf : Nat) : Comp (B32 × B32 × Nat) :=\n"
    " (Comp.bind (Distributor.get_root envr st) fun root =>\n Comp.ok (root, envr.leaf_hash leaf, envr.leaf_index leaf))\n")}
READS_CAP = {"Capped": {"get_Cap": "Option<i128>", "get_TotalSupply": "Option<i128>"}}

FILES_WEBAUTHN = [
    ("WebAuthn", "packages/accounts/src/verifiers/webauthn.rs",
     ["validate_user_present_bit_set", "validate_user_verified_bit_set", "validate_backup_eligibility_and_state"]),
]

FILES = [
    ("I256", "packages/contract-utils/src/math/i256_fixed_point.rs", None),
    ("I128", "packages/contract-utils/src/math/i128_fixed_point.rs", None),
    ("Wad", "packages/contract-utils/src/math/wad.rs",
     ["from_integer", "to_integer", "from_ratio", "raw", "from_raw", "checked_add", "checked_sub", "checked_mul",
      "checked_div", "checked_mul_int", "checked_div_int", "checked_pow", "pow"]),
]


def deps(e, acc):
    if isinstance(e, tuple):
        if e and e[0] in ("call",) and e[1][0] == "var":
            acc.add(e[1][1])
        if e and e[0] == "call" and e[1][0] == "path":
            acc.add(e[1][1][-1])
        if e and e[0] == "mcall":
            acc.add(e[2])
        for x in e:
            deps(x, acc)
    elif isinstance(e, list):
        for x in e:
            deps(x, acc)


def translate(repo, FILES=FILES, DEPS=(), imports=("OZ.Model.RustSem",), reads=None, structs=None, tymaps=None,
              store=None, impl_types=None, stubs=None, rename_types=None, key_params=None, fn_prefix=None,
              allow_traits=(), penums=None, let_stubs=None, writer_stubs=(), spec_enums=None, key_fns=(), penum_params=False):
    if penum_params:
        OPAQUE.difference_update(penums or {})      # parameters of a payload-enum type are values here, not handles
    """DEPS: files translated elsewhere whose signatures are needed (parsed, not emitted);
    reads: {namespace: {getter name: Rust type}} — the side-effect-free state getters (`Self::name(e)`)
    that become fields of the record `<namespace>.Reads` passed to every function of that namespace"""
    reads = reads or {}
    out = ["-- GENERATED by /verif/tools/rs2lean.py from /repo's current sources. DO NOT EDIT."] + \
          [f"import {m}" for m in imports] + \
          ["set_option linter.unusedVariables false", "namespace OZ.Gen", "open OZ.Rs", ""]
    sigs, consts, parsed, enums, enum_home = {}, {}, [], {}, set()
    VTUPLE_ENUMS.clear()
    VTUPLE_ENUMS.update((spec_enums or {}).keys())
    VTUPLE_ENUMS.update(TENUMS.keys())
    emit_ns = {ns for ns, _, _ in FILES}
    for ns, rel, only in list(DEPS) + list(FILES):
        src = open(os.path.join(repo, rel)).read()
        items = Parser(tokenize(src), set(only) if only is not None else None, tymap=(tymaps or {}).get(rel)).items()
        fns = []
        for it in items:
            if it[0] == "const":
                g = Gen({}, consts)
                try:
                    l, lt_ = g.pure(it[3], {})
                except Unsupported:
                    # a product / sum / difference of unsigned constants: folded here (the compiler has checked that
                    # it fits the declared type)
                    def cval(x_):
                        x_ = g.strip(x_)
                        if x_[0] == "num":
                            return int(str(x_[1]).replace("_", ""), 0)
                        if x_[0] == "var" and x_[1] in consts:
                            m_ = re.fullmatch(r"\((\d+) : Nat\)", consts[x_[1]][1])
                            if m_:
                                return int(m_.group(1))
                        if x_[0] == "bin" and x_[1] in ("*", "+", "-"):
                            a_, b_ = cval(x_[2]), cval(x_[3])
                            if a_ is not None and b_ is not None:
                                return {"*": a_ * b_, "+": a_ + b_, "-": a_ - b_}[x_[1]]
                        return None
                    v_ = cval(it[3]) if it[2] in NATTY else None
                    if v_ is None or v_ < 0:
                        continue   # a constant outside the subset is an error only if it is used
                    consts[it[1]] = (it[2], f"({v_} : Nat)")
                    continue
                consts[it[1]] = (it[2], as_nat(l, lt_) if it[2] in NATTY else l)
            elif it[0] == "enum":
                enums[it[1]] = it[2]
                enum_home.add((ns, it[1]))
            elif it[0] == "fn":
                if only is not None and it[1] not in only:
                    continue
                if it[5] and it[5][1] not in (None, "SorobanMulDiv") + tuple(allow_traits):
                    continue   # operator trait impls (Add, Sub, ...) are outside the property
                pre = (fn_prefix or {}).get(rel, "")
                if pre:
                    it = (it[0], pre + it[1]) + tuple(it[2:])
                fns.append(it)
        if spec_enums and fns:
            fns = specialize_enums(fns, spec_enums, set(key_fns))
        for f in fns:
            self_ty = f[5][0] if f[5] else None
            ptys = [(self_ty if t == "Self" else t) for (_, t, _) in f[2] if t not in OPAQUE]
            r = re.sub(r"\bSelf\b", self_ty, f[3]) if self_ty else f[3]
            sigs[(ns, f[1])] = (ptys, r)
            outs_ = [j for j, (_, _, m_) in enumerate([q for q in f[2] if q[1] not in OPAQUE]) if m_ == "out"]
            if outs_:
                OUTS[(ns, f[1])] = outs_
        parsed.append((ns, rel, fns))
    for sn, (sns, after, ptys_, rty_, text_) in (stubs or {}).items():
        sigs[(sns, sn)] = (ptys_, rty_)
    reads_done = set()
    free_fns = {(ns, f[1]) for ns, rel, fns in parsed for f in fns if f[5] is None}
    free_fns |= {(sns_, sn_) for sn_, (sns_, *_r) in (stubs or {}).items()}
    # functions that need a `fuel` argument: those with a `while`, and (transitively) their callers
    def has_while(e):
        if isinstance(e, tuple):
            return (len(e) > 0 and e[0] == "while") or any(has_while(x) for x in e)
        if isinstance(e, list):
            return any(has_while(x) for x in e)
        return False
    fuel_fns = {(ns, f[1]) for ns, rel, fns in parsed for f in fns if has_while(f[4])}
    changed = True
    while changed:
        changed = False
        for ns, rel, fns in parsed:
            for f in fns:
                if (ns, f[1]) in fuel_fns:
                    continue
                acc = set()
                deps(f[4], acc)
                if any(ns2 == ns and n in acc for (ns2, n) in list(fuel_fns)):
                    fuel_fns.add((ns, f[1])); changed = True
    # state-changing functions of the store namespaces: those with a storage write, and their callers
    def has_write(e):
        if isinstance(e, tuple):
            if len(e) == 4 and e[0] == "mcall" and e[2] in ("set", "remove") and isinstance(e[1], tuple):
                r = e[1]
                while isinstance(r, tuple) and r and r[0] in ("ref", "deref", "paren"):
                    r = r[1]
                if isinstance(r, tuple) and len(r) == 4 and r[0] == "mcall" and r[2] in ("instance", "persistent", "temporary"):
                    return True
            return any(has_write(x) for x in e)
        if isinstance(e, list):
            return any(has_write(x) for x in e)
        return False
    writers = {(ns, f[1]) for ns, rel, fns in parsed for f in fns if ns in (store or {}) and has_write(f[4])}
    writers |= {(sns_, sn_) for sn_, (sns_, *_r) in (stubs or {}).items() if sn_ in writer_stubs}
    changed = True
    while changed:
        changed = False
        for ns, rel, fns in parsed:
            for f in fns:
                if ns in (store or {}) and (ns, f[1]) not in writers:
                    acc = set()
                    deps(f[4], acc)
                    if any(ns2 == ns and n in acc for (ns2, n) in list(writers)):
                        writers.add((ns, f[1])); changed = True
    for ns, rel, fns in parsed:
        if ns not in emit_ns:
            continue
        out.append(f"/-! ## {rel} -/")
        if ns in reads and ns not in reads_done:
            reads_done.add(ns)
            g0 = Gen(sigs, consts)
            g0.enums = enums
            g0.structs = structs or {}
            g0.penums = penums or {}
            for en_, vs_ in TENUMS.items():
                out.append(f"inductive {en_} where\n" + "\n".join(
                    f"  | {vn_} " + " ".join(f"(a{j_} : {g0.lean_ty(t_)})" for j_, t_ in enumerate(ts_)) for vn_, ts_ in vs_) + "\n  deriving DecidableEq, Repr\n")
            for sn, flds in (structs or {}).items():
                out.append(f"structure {sn} where\n" + "\n".join(f"  {fn_} : {g0.lean_ty(ft)}" for fn_, ft in flds) + "\n  deriving DecidableEq, Repr\n")
            for en_, vs_ in (penums or {}).items():
                out.append(f"inductive {en_} where\n" + "\n".join(f"  | {vn_}" + (f" (p : {g0.lean_ty(pt_)})" if pt_ else "") for vn_, pt_ in vs_) + "\n")
                for vn_, pt_ in vs_:
                    if pt_:
                        out.append(f"/-- named eliminator: the payload of `{en_}::{vn_}`, or the other arm -/\n"
                                   f"def {en_}.case{vn_} {{α : Type}} (c : {en_}) (f : {g0.lean_ty(pt_)} → α) (o : α) : α :=\n  match c with\n  | .{vn_} p => f p\n  | _ => o\n")
            out.append(f"/-- the state getters the translated functions read (`Self::name(e)`), as values -/\nstructure {ns}.Reads where")
            for rn, rt in reads[ns].items():
                if rt == "fn2bool":
                    out.append(f"  {rn} : B32 → B32 → Bool")
                    continue
                if rt == "addr2bool":
                    out.append(f"  {rn} : Nat → Bool")
                    continue
                if isinstance(rt, str) and rt.startswith("reads:"):
                    out.append(f"  {rn} : {rt[6:]}.Reads")
                    continue
                if isinstance(rt, tuple) and rt[0] in ("purefn", "tryfn"):
                    out.append(f"  {rn} : {' → '.join(g0.lean_ty(t_) for t_ in rt[1])} → {g0.lean_ty(rt[2])}")
                    continue
                if isinstance(rt, tuple):
                    out.append(f"  {rn} : {' → '.join(g0.lean_ty(t_) for t_ in rt[1])} → Comp {g0.lean_ty(rt[2])}")
                    continue
                out.append(f"  {rn} : {g0.lean_ty(rt)}")
            out.append("")
            if store and ns in store:
                out.append(f"/-- the contract storage the translated functions read and write: one field per storage key\n"
                           f"variant (a missing entry is `none`); TTL bookkeeping is not part of it -/\nstructure {ns}.Store where")
                def vty(spec):
                    return f"(OZ.Host.Temp {g0.lean_ty(spec[1])})" if len(spec) > 2 and spec[2] == "temp" else g0.lean_ty(spec[1])
                for cell, spec in store[ns].items():
                    if len(spec) > 2 and spec[2] == "raw":
                        # a cell holding a value of a HAND-WRITTEN Lean type (the state of a contract that is not
                        # translated: only the declared stand-ins touch it)
                        out.append(f"  {cell} : {spec[1]}")
                        continue
                    out.append(f"  {cell} : {''.join(g0.lean_ty(t_) + ' → ' for t_ in spec[0])}Option {vty(spec)}")
                out.append("")
                for cell, spec in store[ns].items():
                    if len(spec) > 2 and spec[2] == "raw":
                        continue
                    atys, vt = spec[0], spec[1]
                    ks = " ".join(f"(k{j} : {g0.lean_ty(t_)})" for j, t_ in enumerate(atys))
                    if atys:
                        xs = " ".join(f"x{j}" for j in range(len(atys)))
                        cond_ = " ∧ ".join(f"x{j} = k{j}" for j in range(len(atys)))
                        body_ = f"fun {xs} => if {cond_} then some v else s.{cell} {xs}"
                    else:
                        body_ = "some v"
                    out.append(f"def {ns}.Store.set_{cell} (s : {ns}.Store) {ks} (v : {vty(spec)}) : {ns}.Store :=\n  {{ s with {cell} := {body_} }}\n")
                    body_d = body_.replace("some v", "none")
                    out.append(f"def {ns}.Store.del_{cell} (s : {ns}.Store) {ks} : {ns}.Store :=\n  {{ s with {cell} := {body_d} }}\n")
        names = [f[1] for f in fns]
        # callee-before-caller order inside the file
        dep = {}
        for f in fns:
            acc = set()
            deps(f[4], acc)
            dep[f[1]] = {d for d in acc if d in names and d != f[1]}
        done, order = set(), []
        while len(order) < len(fns):
            progress = False
            for f in fns:
                if f[1] not in done and dep[f[1]] <= done:
                    order.append(f); done.add(f[1]); progress = True
            if not progress:
                raise Unsupported(f"recursive functions in {rel}")
        # free helper functions that a method of the same name shadows: methods win for `x.name(..)`,
        # free functions for `name(..)`; they live in the same namespace, so names must differ
        free = [f[1] for f in fns if f[5] is None]
        g = Gen(sigs, consts)
        g.free_fns = free_fns
        g.fuel_fns = fuel_fns
        g.reads = reads.get(ns, {})
        g.reads_ns = set(reads)
        g.store = (store or {}).get(ns)
        g.store_ns = set(store or {})
        g.impl_types = impl_types or {}
        g.key_params = key_params or {}
        g.writers = writers
        g.enums = enums
        g.structs = structs or {}
        g.penums = penums or {}
        g.let_stubs = let_stubs or {}
        for f in order:
            out.append(g.function(ns, f, free))
            for sn, (sns, after, ptys_, rty_, text_) in (stubs or {}).items():
                if sns == ns and after == f[1]:
                    out.append("/-- HAND-WRITTEN stand-in (declared in tools/rs2lean.py), not translated: see the theorem file -/\n" + text_)
    out.append("end OZ.Gen")
    # the unit enums the generated code mentions, declared once, before everything else
    text = "\n".join(out)
    decls = []
    for en, vs in enums.items():
        if re.search(r"\b" + re.escape(en) + r"\b", text):
            decls.append(f"inductive {en} where\n" + "\n".join(f"  | {v_}" for v_ in vs) + "\n  deriving DecidableEq, Repr\n")
    if decls:
        text = text.replace("open OZ.Rs\n", "open OZ.Rs\n\n" + "\n".join(decls), 1)
    # declared type names that would clash with those of another generated file: qualified afterwards
    for old, new in (rename_types or {}).items():
        text = re.sub(r"(?<![\w.])" + re.escape(old) + r"\b", new, text)
    return text + "\n"



# ------------------------------------------------------------------ imperative functions (loops, mutable locals)
class ImpGen:
    """Translation of a function with `let mut`, assignments, `while`, indexed reads / writes of slices.
    Numbers are `Nat` (u8 / usize / u32), slices are `List Nat`.  Mutable variables are renamed at every
    assignment (SSA); an `if` without `else` and a `while` continue with the variables of whichever branch ran
    (the continuation is generated for both).  A `while` becomes an auxiliary definition that recurses on an
    explicit `fuel` argument (out of fuel = panic; the theorems choose enough fuel).  Result of the function =
    the final values of its `&mut` parameters."""

    NAT_BIN = {"+": "+", "*": "*", "/": "/", "%": "%", "<<": "<<<", ">>": ">>>", "|": "|||", "&": "&&&", "^": "^^^"}

    def __init__(self, consts):
        self.consts = consts   # name -> lean list literal / number
        self.n = 0
        self.aux = []

    def fresh(self, base):
        self.n += 1
        return f"{base}_{self.n}"

    def strip(self, e):
        while e[0] in ("ref", "deref", "paren"):
            e = e[1]
        if e[0] == "cast" and e[2] in ("usize", "u32", "u64", "u8"):
            return self.strip(e[1])
        return e

    # expressions -> CPS: k(atom)
    def ex(self, e, env, k):
        e = self.strip(e)
        t = e[0]
        if t == "num":
            return k(f"({e[1]} : Nat)")
        if t == "var":
            if e[1] in env:
                return k(env[e[1]])
            if e[1] in self.consts:
                return k(self.consts[e[1]])
            raise Unsupported(f"unknown variable {e[1]}")
        if t == "mcall" and e[2] == "len" and not e[3]:
            return self.ex(e[1], env, lambda a: k(f"(List.length {a})"))
        if t == "index":
            def ka(a):
                def ki(i):
                    v = self.fresh("t")
                    return f"(Comp.bind (idx {a} {i}) fun {v} =>\n {k(v)})"
                return self.ex(e[2], env, ki)
            return self.ex(e[1], env, ka)
        if t == "bin" and e[1] in self.NAT_BIN:
            return self.ex(e[2], env, lambda a: self.ex(e[3], env, lambda b: k(f"({a} {self.NAT_BIN[e[1]]} {b})")))
        if t == "bin" and e[1] == "-":
            def ka(a):
                def kb(b):
                    v = self.fresh("t")
                    return f"(Comp.bind (usize_sub {a} {b}) fun {v} =>\n {k(v)})"
                return self.ex(e[3], env, kb)
            return self.ex(e[2], env, ka)
        raise Unsupported(f"imperative expression {t} {e[1] if len(e) > 1 and isinstance(e[1], str) else ''}")

    def cond(self, c, env, kt, kf):
        c = self.strip(c)
        if c[0] == "bin" and c[1] in ("==", "!=", "<", ">", "<=", ">="):
            op = {"==": "=", "!=": "≠", "<": "<", ">": ">", "<=": "≤", ">=": "≥"}[c[1]]
            return self.ex(c[2], env, lambda a: self.ex(c[3], env, lambda b: f"(if ({a} {op} {b}) then\n {kt()}\n else\n {kf()})"))
        if c[0] == "bin" and c[1] == "&&":
            return self.cond(c[2], env, lambda: self.cond(c[3], env, kt, kf), kf)
        if c[0] == "bin" and c[1] == "||":
            return self.cond(c[2], env, kt, lambda: self.cond(c[3], env, kt, kf))
        raise Unsupported(f"imperative condition {c[0]}")

    def assigned(self, stmts, acc):
        for s in stmts:
            if s[0] == "assign":
                lhs = self.strip(s[1])
                if lhs[0] == "var":
                    acc.add(lhs[1])
                elif lhs[0] == "index" and self.strip(lhs[1])[0] == "var":
                    acc.add(self.strip(lhs[1])[1])
            elif s[0] == "while":
                self.assigned(s[2][1], acc)
            elif s[0] == "expr" and self.strip(s[1])[0] == "if":
                e = self.strip(s[1])
                self.assigned(e[2][1], acc)
                if e[3] is not None and e[3][0] == "block":
                    self.assigned(e[3][1], acc)
        return acc

    def stmts(self, ss, env, k_end, k_ret):
        """k_end(env): continuation after the last statement; k_ret(env): a `return;`"""
        if not ss:
            return k_end(env)
        s, rest = ss[0], ss[1:]
        cont = lambda env2: self.stmts(rest, env2, k_end, k_ret)
        if s[0] == "let":
            return self.ex(s[3], env, lambda a: cont(dict(env, **{s[1]: a})))
        if s[0] == "assign":
            lhs, op, rhs = self.strip(s[1]), s[2], s[3]
            if lhs[0] == "var":
                if op == "=":
                    val = rhs
                else:
                    val = ("bin", op[:-1], s[1], rhs)
                name = lhs[1]
                def kv(a):
                    # bind to a fresh Lean variable so that later code mentions a name, not a big term
                    v = self.fresh(name)
                    return f"(Comp.bind (Comp.ok {a}) fun {v} =>\n {cont(dict(env, **{name: v}))})"
                return self.ex(val, env, kv)
            if lhs[0] == "index" and op == "=":
                arr = self.strip(lhs[1])
                if arr[0] != "var":
                    raise Unsupported("indexed assignment to a non-variable")
                name = arr[1]
                def ki(i):
                    def kv(a):
                        v = self.fresh(name)
                        return f"(Comp.bind (setIdx {env[name]} {i} {a}) fun {v} =>\n {cont(dict(env, **{name: v}))})"
                    return self.ex(rhs, env, kv)
                return self.ex(lhs[2], env, ki)
            raise Unsupported("assignment form")
        if s[0] == "expr":
            e = self.strip(s[1])
            if e[0] == "return":
                if e[1] is not None:
                    raise Unsupported("return with a value in an imperative function")
                return k_ret(env)
            if e[0] == "if":
                tb = e[2]
                if tb[2] is not None:
                    raise Unsupported("if-statement with a value")
                then_code = lambda: self.stmts(tb[1], env, cont, k_ret)
                if e[3] is None:
                    else_code = lambda: cont(env)
                else:
                    eb = e[3]
                    if eb[0] != "block" or eb[2] is not None:
                        raise Unsupported("else branch form")
                    else_code = lambda: self.stmts(eb[1], env, cont, k_ret)
                return self.cond(e[1], env, then_code, else_code)
            raise Unsupported(f"imperative expression statement {e[0]}")
        if s[0] == "while":
            body = s[2]
            if body[2] is not None:
                raise Unsupported("while body with a value")
            muts = sorted(self.assigned(body[1], set()))
            for m in muts:
                if m not in env:
                    raise Unsupported(f"loop assigns unknown variable {m}")
            others = [v for v in sorted(env) if v not in muts]
            name = f"{self.fname}.loop{len(self.aux) + 1}"
            params = muts + others
            penv = {v: v + "_" for v in params}
            plist = " ".join(f"({penv[v]} : {self.types[v]})" for v in params)
            rty = " × ".join(self.types[m] for m in muts)
            tup = lambda en: "(" + ", ".join(en[m] for m in muts) + ")"
            def again(en):
                return f"{name} fuel {' '.join(en[v] for v in params)}"
            def nested_return(en):
                raise Unsupported("return inside a loop")
            body_code = self.cond(s[1], penv,
                                  lambda: self.stmts(body[1], penv, again, nested_return),
                                  lambda: f"Comp.ok {tup(penv)}")
            self.aux.append(f"def {name} (fuel : Nat) {plist} : Comp ({rty}) :=\n match fuel with\n | 0 => Comp.panic\n | fuel + 1 =>\n {body_code}\n")
            r = self.fresh("r")
            env2 = dict(env)
            if len(muts) == 1:
                env2[muts[0]] = r
            else:
                for j, m in enumerate(muts):
                    env2[m] = f"{r}" + "".join(".2" for _ in range(j)) + (".1" if j < len(muts) - 1 else "")
            return f"(Comp.bind ({name} fuel {' '.join(env[v] for v in params)}) fun {r} =>\n {cont(env2)})"
        raise Unsupported(f"imperative statement {s[0]}")

    def function(self, ns, f):
        _, name, params, ret, body, impl_of = f
        if ret != "()":
            raise Unsupported("imperative function with a return value")
        self.fname = f"{ns}.{name}"
        self.types, env, outs, lparams = {}, {}, [], []
        for pn, pt, mut in params:
            if pt == "Env":
                continue
            ty = "List Nat" if pt.startswith("slice<") else "Nat"
            self.types[pn] = ty
            env[pn] = pn
            lparams.append(f"({pn} : {ty})")
            if mut:
                outs.append(pn)
        if body[2] is not None:
            if self.strip(body[2])[0] != "if":
                raise Unsupported("imperative function with a tail value")
            body = ("block", body[1] + [("expr", body[2])], None)
        # types of locals: `let mut x: usize = …` / `let x = …` are numbers
        def decl(ss):
            for s in ss:
                if s[0] == "let":
                    self.types[s[1]] = "Nat"
                elif s[0] == "while":
                    decl(s[2][1])
                elif s[0] == "expr" and self.strip(s[1])[0] == "if":
                    e = self.strip(s[1])
                    decl(e[2][1])
        decl(body[1])
        out = lambda en: "Comp.ok " + ("(" + ", ".join(en[o] for o in outs) + ")" if len(outs) != 1 else en[outs[0]])
        code = self.stmts(body[1], env, out, out)
        rty = " × ".join(self.types[o] for o in outs) if outs else "Unit"
        main = f"def {ns}.{name} (fuel : Nat) {' '.join(lparams)} : Comp ({rty}) :=\n {code}\n"
        return "\n".join(self.aux) + "\n" + main


IMP_FILES = [
    ("B64", "packages/accounts/src/verifiers/utils/base64_url.rs", ["base64_url_encode"], "lean/OZ/Gen/Base64.lean"),
]


def translate_imp(repo, ns, rel, only):
    out = ["-- GENERATED by /verif/tools/rs2lean.py from /repo's current sources. DO NOT EDIT.",
           "import OZ.Model.RustSem", "set_option linter.unusedVariables false", "namespace OZ.Gen", "open OZ.Rs", "",
           f"/-! ## {rel} -/"]
    items = Parser(tokenize(open(os.path.join(repo, rel)).read())).items()
    consts = {}
    for it in items:
        if it[0] == "const":
            e = it[3]
            while e[0] in ("ref", "paren"):
                e = e[1]
            if e[0] == "bytes":
                out.append(f"def {ns}.{it[1]} : List Nat := [{', '.join(str(b) for b in e[1])}]\n")
                consts[it[1]] = f"{ns}.{it[1]}"
            elif e[0] == "num":
                consts[it[1]] = f"({e[1]} : Nat)"
            else:
                raise Unsupported(f"constant {it[1]}")
    for it in items:
        if it[0] == "fn" and it[1] in only:
            out.append(ImpGen(consts).function(ns, it))
    out.append("end OZ.Gen")
    return "\n".join(out) + "\n"


def main():
    repo, outp = "/repo", None
    a = sys.argv[1:]
    while a:
        if a[0] == "--repo":
            repo = a[1]; a = a[2:]
        elif a[0] == "--out":
            outp = a[1]; a = a[2:]
        elif a[0] == "--write":
            outp = "-"; a = a[1:]
        else:
            a = a[1:]
    if "--imp" in sys.argv:
        # the imperative files: one output each
        rc = 0
        for ns, rel, only, dst in IMP_FILES:
            try:
                txt = translate_imp(repo, ns, rel, only)
            except Unsupported as ex:
                print(f"rs2lean: unsupported ({rel}): {ex}", file=sys.stderr)
                sys.exit(3)
            if outp:
                path = os.path.join(os.path.dirname(os.path.abspath(__file__)), "..", dst)
                old = open(path).read() if os.path.exists(path) else None
                if old != txt:
                    os.makedirs(os.path.dirname(path), exist_ok=True)
                    open(path, "w").write(txt)
                print("rs2lean: ok" + (" (unchanged)" if old == txt else " (regenerated)"))
            else:
                sys.stdout.write(txt)
        sys.exit(rc)
    try:
        if "--blocklist" in sys.argv:
            txt = translate(repo, FILES_BL, reads={"BlockTok": READS_FUNGIBLE["Fungible"]}, structs=STRUCTS_FUNGIBLE, store=STORE_BL,
                            impl_types={"Base": "BlockTok", "BlockList": ("BlockTok", "bl_")},
                            fn_prefix={"packages/tokens/src/fungible/extensions/blocklist/storage.rs": "bl_"},
                            rename_types={"AllowanceData": "BlockTok.AllowanceData", "AllowanceKey": "BlockTok.AllowanceKey"})
        elif "--upgradeable" in sys.argv:
            txt = translate(repo, FILES_UP, reads={"Upgradeable": {}}, store=STORE_UP)
        elif "--allowlist" in sys.argv:
            txt = translate(repo, FILES_AL, reads=READS_AL, structs=STRUCTS_FUNGIBLE, store=STORE_AL,
                            impl_types={"Base": "AllowTok", "AllowList": ("AllowTok", "al_")},
                            fn_prefix={"packages/tokens/src/fungible/extensions/allowlist/storage.rs": "al_"},
                            rename_types={"AllowanceData": "AllowTok.AllowanceData", "AllowanceKey": "AllowTok.AllowanceKey"})
        elif "--nft-full" in sys.argv:
            txt = translate(repo, FILES_NFTF, imports=("OZ.Model.RustSemHost",), reads=READS_NFTF, structs=STRUCTS_NFT, store=STORE_NFTF,
                            impl_types={"Base": "NftF"}, rename_types={"ApprovalData": "NftF.ApprovalData"})
        elif "--nft-ttl" in sys.argv:
            txt = translate(repo, FILES_NFTT, imports=("OZ.Model.RustSemHost",), reads=READS_NFTT, structs=STRUCTS_NFT, store=STORE_NFTT,
                            impl_types={"Base": "NftT"}, rename_types={"ApprovalData": "NftT.ApprovalData"})
        elif "--fungible-full" in sys.argv:
            txt = translate(repo, FILES_FF, imports=("OZ.Model.RustSemHost",), reads=READS_FF, structs=STRUCTS_FUNGIBLE, store=STORE_FF,
                            impl_types={"Base": "FungibleF"},
                            rename_types={"AllowanceData": "FungibleF.AllowanceData", "AllowanceKey": "FungibleF.AllowanceKey"})
        elif "--fungible-ttl" in sys.argv:
            txt = translate(repo, FILES_FT, imports=("OZ.Model.RustSemHost",), reads=READS_FT, structs=STRUCTS_FUNGIBLE, store=STORE_FT,
                            impl_types={"Base": "FungibleT"},
                            rename_types={"AllowanceData": "FungibleT.AllowanceData", "AllowanceKey": "FungibleT.AllowanceKey"})
        elif "--vault-st" in sys.argv:
            # the ASSET token is another contract: its state is a value of the hand-written Base-token model
            # (OZ/Model/Fungible.lean) and `token::Client` calls are declared stand-ins on it (trusted base of C05)
            txt = translate(repo, FILES_VST, DEPS=FILES, imports=("OZ.Gen.Math", "OZ.Model.RustSemHost", "OZ.Model.Fungible"),
                            reads=READS_VST, structs=STRUCTS_FUNGIBLE, store=STORE_VST, impl_types={"Base": "VaultSt", "Vault": "VaultSt"},
                            stubs=STUBS_VST, writer_stubs=("Client_transfer", "Client_transfer_from"),
                            rename_types={"AllowanceData": "VaultSt.AllowanceData", "AllowanceKey": "VaultSt.AllowanceKey"})
        elif "--fee-st" in sys.argv:
            txt = translate(repo, FILES_FEEST, reads=READS_FEEST, store=STORE_FEEST,
                            tymaps={"packages/fee-abstraction/src/storage.rs": {"Vec<Val>": "Val"}})
        elif "--smart-account" in sys.argv:
            # HOLE (declared): the candidate list `context_rules` of `get_validated_context` (the `match` on the host's
            # Context object and `get_valid_context_rules`) is the function `valid_context_rules` of the reads record
            txt = translate(repo, FILES_SA, reads=READS_SA, structs=STRUCTS_SA,
                            tymaps={"packages/accounts/src/smart_account/storage.rs": {"Context": "Ctx"}},
                            let_stubs={("get_validated_context", "context_rules"): ("valid_context_rules", ["e", "context"])},
                            rename_types={"ContextRule": "SmartAccount.ContextRule"})
        elif "--controller" in sys.argv:
            txt = translate(repo, FILES_CTL, reads=READS_CTL, structs=STRUCTS_CTL, penums=PENUMS_CTL, store=STORE_CTL, tymaps=TYMAPS_CTL,
                            allow_traits=("CustomAccountInterface",),
                            rename_types={"OperationState": "Controller.OperationState", "Operation": "Controller.Operation",
                                          "OperationMeta": "Controller.OperationMeta", "ContractContext": "Controller.ContractContext",
                                          "Context": "Controller.Context"})
        elif "--issuer" in sys.argv:
            txt = translate(repo, FILES_ISS, reads=READS_ISS, store=STORE_ISS)
        elif "--votes-full" in sys.argv:
            txt = translate(repo, FILES_VOTESF, reads=READS_VOTESF, structs=STRUCTS_VOTES, store=STORE_VOTESF,
                            spec_enums={"CheckpointType": {"TotalSupply": [], "Account": ["Address"]}, "CheckpointOp": {"Add": [], "Sub": []}},
                            key_fns=("checkpoint_storage_key",), rename_types={"Checkpoint": "VotesF.Checkpoint"})
        elif "--topics-full" in sys.argv:
            txt = translate(repo, FILES_CTIF, reads={"TopicsF": {}}, store=STORE_CTIF)
        elif "--topics" in sys.argv:
            txt = translate(repo, FILES_CTI, reads={"Topics": {}}, store=STORE_CTI)
        elif "--check-auth" in sys.argv:
            TENUMS["Signer"] = [("Delegated", ["Address"]), ("External", ["Address", "Bytes"])]
            txt = translate(repo, FILES_CA, reads=READS_CA, structs=STRUCTS_CA,
                            tymaps={"packages/accounts/src/smart_account/storage.rs":
                                    {"Hash<32>": "Bytes32", "Context": "Ctx", "Signatures": "Map<Signer,Bytes>", "ContextRuleType": "Val", "String": "Val"}},
                            rename_types={"ContextRule": "CheckAuth.ContextRule"})
        elif "--authenticate" in sys.argv:
            TENUMS["Signer"] = [("Delegated", ["Address"]), ("External", ["Address", "Bytes"])]
            VTUPLE_ENUMS.add("Signer")
            txt = translate(repo, FILES_AU, reads=READS_AU,
                            tymaps={"packages/accounts/src/smart_account/storage.rs": {"Hash<32>": "Bytes32"}})
        elif "--docs" in sys.argv:
            HELPER_GETTERS.add("get_persistent_entry")
            txt = translate(repo, FILES_DM, reads={"Docs": {"ledger_timestamp": "u64"}}, structs=STRUCTS_DM, store=STORE_DM,
                            tymaps={"packages/tokens/src/rwa/extensions/doc_manager/storage.rs": {"BytesN<32>": "Bytes32", "String": "Bytes"}},
                            rename_types={"Document": "Docs.Document"})
        elif "--compliance" in sys.argv:
            txt = translate(repo, FILES_CP, reads=READS_CP, store=STORE_CP)
        elif "--irs" in sys.argv:
            HELPER_GETTERS.add("get_persistent_entry")
            STRUCT_ALIAS["IdentityProfile"] = "IrsProfile"
            txt = translate(repo, FILES_IRS, reads=READS_IRS, structs=STRUCTS_IRS, store=STORE_IRS,
                            tymaps={"packages/tokens/src/rwa/identity_registry_storage/storage.rs": {"CountryData": "Val", "IdentityType": "Val", "IdentityProfile": "IrsProfile"}})
        elif "--keys" in sys.argv:
            txt = translate(repo, FILES_KR, reads=READS_KR, structs=STRUCTS_KR, store=STORE_KR,
                            rename_types={"SigningKey": "Keys.SigningKey"})
        elif "--binder" in sys.argv:
            HELPER_GETTERS.add("get_persistent_entry")
            txt = translate(repo, FILES_TB, reads={"Binder": {}}, store=STORE_TB)
        elif "--context-rules" in sys.argv:
            # `ContextRuleType` (Default / CallContract(addr) / CreateContract(hash)) is an opaque identifier; the
            # identifier of `Default` is 0 (no other rule type has it)
            HELPER_GETTERS.add("get_persistent_entry")
            OPAQUE_CONSTS[("ContextRuleType", "Default")] = (0, "Val")
            txt = translate(repo, FILES_CR, reads=READS_CR, structs=STRUCTS_CR, store=STORE_CR,
                            tymaps={"packages/accounts/src/smart_account/storage.rs": {"ContextRuleType": "Val", "String": "Val", "Meta": "MetaS"}},
                            rename_types={"ContextRule": "Rules.ContextRule"})
        elif "--rules-w" in sys.argv:
            # the writers of the context-rule registry that do not call a policy contract; `compute_fingerprint` (sha256 over
            # the sorted XDR of the rule's parts) is a function of the reads record
            HELPER_GETTERS.add("get_persistent_entry")
            OPAQUE_CONSTS[("ContextRuleType", "Default")] = (0, "Val")
            STRUCT_ALIAS["Meta"] = "MetaS"
            LET_TYPES[("add_context_rule", "unique_signers")] = "Vec<Signer>"
            txt = translate(repo, FILES_CRW, reads=READS_CRW, structs=STRUCTS_CR, store=STORE_CRW,
                            tymaps={"packages/accounts/src/smart_account/storage.rs": {"ContextRuleType": "Val", "String": "Val", "Meta": "MetaS", "BytesN<32>": "Bytes32"}},
                            rename_types={"ContextRule": "RulesW.ContextRule", "MetaS": "RulesW.MetaS"})
        elif "--claims" in sys.argv:
            STRUCT_ALIAS["Claim"] = "IdClaim"
            txt = translate(repo, FILES_CLM, reads=READS_CLM, structs=STRUCTS_CLM, store=STORE_CLM,
                            tymaps={"packages/tokens/src/rwa/identity_claims/storage.rs": {"BytesN<32>": "Bytes32", "String": "Val", "Claim": "IdClaim"}})
        elif "--sequential" in sys.argv:
            txt = translate(repo, FILES_SEQ, reads={"Sequential": {}}, store=STORE_SEQ)
        elif "--access-admin" in sys.argv:
            txt = translate(repo, FILES_ADM, imports=("OZ.Model.RustSemHost",), reads=READS_ADM, store=STORE_ADM,
                            tymaps={"packages/access/src/role_transfer/storage.rs": {"T": "Key!", "U": "Key!"}},
                            key_params={"pending_key": "PendingAdmin", "active_key": "Admin"})
        elif "--ownable" in sys.argv:
            txt = translate(repo, FILES_OWN, imports=("OZ.Model.RustSemHost",), reads=READS_OWN, store=STORE_OWN,
                            tymaps={"packages/access/src/role_transfer/storage.rs": {"T": "Key!", "U": "Key!"}},
                            key_params={"pending_key": "PendingOwner", "active_key": "Owner"})
        elif "--role-transfer" in sys.argv:
            txt = translate(repo, FILES_RT, imports=("OZ.Model.RustSemHost",), reads=READS_RT, store=STORE_RT,
                            tymaps={"packages/access/src/role_transfer/storage.rs": {"T": "Key!", "U": "Key!"}},
                            key_params={"pending_key": "Pending", "active_key": "Active"})
        elif "--nft" in sys.argv:
            txt = translate(repo, FILES_NFT, reads=READS_NFT, structs=STRUCTS_NFT, store=STORE_NFT, impl_types={"Base": "Nft"},
                            rename_types={"ApprovalData": "Nft.ApprovalData"})
        elif "--spending-limit" in sys.argv:
            txt = translate(repo, FILES_SL, reads=READS_SL, structs=STRUCTS_SL, penums=PENUMS_SL, store=STORE_SL, penum_params=True,
                            rename_types={"ContextRule": "SpendingLimit.ContextRule", "Context": "SpendingLimit.Context",
                                          "ContractContext": "SpendingLimit.ContractContext"})
        elif "--verifier" in sys.argv:
            txt = translate(repo, FILES_IV, reads=READS_IV, structs=STRUCTS_IV, store=STORE_IV,
                            tymaps={"packages/tokens/src/rwa/identity_verifier/storage.rs": {"BytesN<32>": "Bytes32"}},
                            rename_types={"Claim": "Verifier.Claim"})
        elif "--weighted-threshold" in sys.argv:
            txt = translate(repo, FILES_WT, reads=READS_WT, structs=STRUCTS_WT, store=STORE_WT,
                            rename_types={"ContextRule": "WeightedThreshold.ContextRule"})
        elif "--simple-threshold" in sys.argv:
            txt = translate(repo, FILES_ST, reads=READS_ST, structs=STRUCTS_ST, store=STORE_ST)
        elif "--access-full" in sys.argv:
            txt = translate(repo, FILES_ACF, reads=READS_ACF, structs=STRUCTS_ACF, store=STORE_ACF,
                            rename_types={"RoleAccountKey": "AccessF.RoleAccountKey"})
        elif "--access" in sys.argv:
            txt = translate(repo, FILES_AC, reads={"Access": {}}, store=STORE_AC)
        elif "--rwa" in sys.argv:
            txt = translate(repo, FILES_RWA, reads=READS_RWA, structs=STRUCTS_FUNGIBLE, store=STORE_RWA, impl_types={"Base": "Rwa", "RWA": "Rwa"},
                            rename_types={"AllowanceData": "Rwa.AllowanceData", "AllowanceKey": "Rwa.AllowanceKey"})
        elif "--timelock-st" in sys.argv:
            txt = translate(repo, FILES_TL, reads=READS_TL, structs=STRUCTS_TL, store=STORE_TL,
                            tymaps={"packages/governance/src/timelock/storage.rs": {"BytesN<32>": "Bytes32"}},
                            rename_types={"OperationState": "TimelockSt.OperationState", "Operation": "TimelockSt.Operation"})
        elif "--dist" in sys.argv:
            txt = translate(repo, FILES_DIST, DEPS=FILES_MERKLE, imports=("OZ.Gen.Merkle",), reads=READS_DIST, store=STORE_DIST,
                            tymaps=TYMAPS_DIST, impl_types={"Verifier": "Merkle", "MerkleDistributor": "Distributor"}, stubs=STUBS_DIST)
        elif "--pausable" in sys.argv:
            txt = translate(repo, FILES_PAUSABLE, reads={"Pausable": {}}, store=STORE_PAUSABLE)
        elif "--fungible" in sys.argv:
            txt = translate(repo, FILES_FUNGIBLE, reads=READS_FUNGIBLE, structs=STRUCTS_FUNGIBLE, store=STORE_FUNGIBLE,
                            impl_types={"Base": "Fungible"})
        elif "--cons" in sys.argv:
            txt = translate(repo, FILES_CONS)
        elif "--merkle" in sys.argv:
            txt = translate(repo, FILES_MERKLE, reads=READS_MERKLE, tymaps=TYMAPS_MERKLE)
        elif "--votes" in sys.argv:
            txt = translate(repo, FILES_VOTES, reads=READS_VOTES, structs=STRUCTS_VOTES)
        elif "--cap" in sys.argv:
            txt = translate(repo, FILES_CAP, reads=READS_CAP)
        elif "--fee" in sys.argv:
            txt = translate(repo, FILES_FEE, reads=READS_FEE)
        elif "--timelock" in sys.argv:
            txt = translate(repo, FILES_TIMELOCK, reads=READS_TIMELOCK)
        elif "--vault" in sys.argv:
            txt = translate(repo, FILES_VAULT, DEPS=FILES, imports=("OZ.Gen.Math",), reads=READS_VAULT)
        else:
            known = {"--webauthn", "--repo", "--out", "--write"}
            for a_ in sys.argv[1:]:
                if a_.startswith("--") and a_ not in known:
                    print(f"rs2lean: unknown mode {a_}", file=sys.stderr)
                    sys.exit(2)
            txt = translate(repo, FILES_WEBAUTHN if "--webauthn" in sys.argv else FILES)
    except Unsupported as ex:
        print(f"rs2lean: unsupported: {ex}", file=sys.stderr)
        sys.exit(3)
    if outp:
        old = open(outp).read() if os.path.exists(outp) else None
        if old != txt:
            os.makedirs(os.path.dirname(outp), exist_ok=True)
            with open(outp, "w") as f:
                f.write(txt)
        print("rs2lean: ok" + (" (unchanged)" if old == txt else " (regenerated)"))
    else:
        sys.stdout.write(txt)


if __name__ == "__main__":
    main()
