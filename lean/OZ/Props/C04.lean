import OZ.Lemmas.RwaModules
/-
C04 — RWA tokens never move past the compliance, identity, freeze and pause gates.

Property theorems only. The model (OZ/Model/Rwa.lean) mirrors `impl RWA` of
packages/tokens/src/rwa/storage.rs (after the `fix:` commit that makes `transfer_from` call
`validate_transfer`), the pause flag of contract-utils/pausable, and the wiring of the harness
token (operator = admin + `require_auth`). The compliance contract is the library's modular
compliance (packages/tokens/src/rwa/compliance/storage.rs): per hook an ordered registry of
modules, `can_transfer` / `can_create` = the loop over the registered modules that stops at the
first rejection, `transferred` / `created` / `destroyed` = fan-out to the registered modules for a
bound token. The identity verifier and the compliance MODULES are oracles: arbitrary functions in
the state, replaced at will by `env*` operations, so every statement holds for every behaviour
of those contracts. `s` is always the state BEFORE the
call, `s'` the state after; amounts are arbitrary integers; `auth` is an arbitrary set of
authorizing addresses; histories are arbitrary finite lists of operations.
-/
namespace OZ.Rwa
open OZ.Host OZ.Fungible

/-! ### the gates -/

/-! ### the compliance contract approves iff every registered module approves -/

/-- **compliance_approves_iff_all_modules**: `compliance::can_transfer` answers `true` iff EVERY
module registered for the CanTransfer hook approves this (from, to, amount) — a rejection by any
module, wherever it sits in the registration order, is a rejection; likewise `can_create`. -/
theorem compliance_approves_iff_all_modules (s : State) (f t : Nat) (amt : Int) :
    ((compCanTransfer s f t amt).2 = true ↔ ∀ m ∈ s.mods .canTransfer, s.modCanTransfer m f t amt = true) ∧
    ((compCanCreate s t amt).2 = true ↔ ∀ m ∈ s.mods .canCreate, s.modCanCreate m t amt = true) :=
  ⟨consult_true_iff _ _, consult_true_iff _ _⟩

/-- which modules the verdict loop calls: all of them, in registration order, when it approves;
otherwise exactly the approving prefix followed by the FIRST rejecting module (short-circuit) -/
theorem compliance_consults (s : State) (f t : Nat) (amt : Int) :
    ((compCanTransfer s f t amt).2 = true → (compCanTransfer s f t amt).1 = s.mods .canTransfer) ∧
    ((compCanTransfer s f t amt).2 = false → ∃ pre m post, s.mods .canTransfer = pre ++ m :: post ∧
      (∀ x ∈ pre, s.modCanTransfer x f t amt = true) ∧ s.modCanTransfer m f t amt = false ∧
      (compCanTransfer s f t amt).1 = pre ++ [m]) :=
  ⟨consult_called_all _ _, consult_called_until_veto _ _⟩

/-- **holder_move_gated**: a successful `transfer` OR `transfer_from` of `amt` from `f` to `t`
implies: not paused, neither party's address frozen, `amt` within the unfrozen balance of `f`,
both parties verified, and EVERY compliance module registered for CanTransfer approved it
(and the token is bound to the compliance contract). -/
theorem holder_move_gated (c : Cfg) (s s' : State) (auth : List Nat) (op : Op) (f t : Nat) (amt : Int)
    (hop : op.holderMove = some (f, t, amt)) (h : apply c s auth op = .ok s') :
    s.paused = false ∧ s.addrFrozen f = false ∧ s.addrFrozen t = false ∧
    amt ≤ s.base.bal f - s.frozen f ∧ s.idOk f = true ∧ s.idOk t = true ∧
    (∀ m ∈ s.mods .canTransfer, s.modCanTransfer m f t amt = true) ∧ s.bound = true := by
  cases op with
  | transfer f' t' a' =>
    simp only [Op.holderMove, Option.some.injEq, Prod.mk.injEq] at hop
    obtain ⟨rfl, rfl, rfl⟩ := hop
    have p := (transfer_ok (apply_transfer h)).2
    have g := p.gates
    exact ⟨g.notPaused, g.fromNotFrozen, g.toNotFrozen, g.free, g.fromVerified, g.toVerified,
      (consult_true_iff _ _).mp g.compliant, p.bound⟩
  | transferFrom sp f' t' a' =>
    simp only [Op.holderMove, Option.some.injEq, Prod.mk.injEq] at hop
    obtain ⟨rfl, rfl, rfl⟩ := hop
    have p := (transferFrom_ok (apply_transferFrom h)).2.2
    have g := p.gates
    exact ⟨g.notPaused, g.fromNotFrozen, g.toNotFrozen, g.free, g.fromVerified, g.toVerified,
      (consult_true_iff _ _).mp g.compliant, p.bound⟩
  | _ => simp [Op.holderMove] at hop

/-- who stands behind a holder move: the holder itself, or a spender with a sufficient
unexpired allowance -/
theorem holder_move_authorized (c : Cfg) (s s' : State) (auth : List Nat) (sp f t : Nat) (amt : Int) :
    (apply c s auth (.transfer f t amt) = .ok s' → f ∈ auth) ∧
    (apply c s auth (.transferFrom sp f t amt) = .ok s' →
      sp ∈ auth ∧ amt ≤ Fungible.allowance s.base f sp) :=
  ⟨fun h => (transfer_ok (apply_transfer h)).1,
   fun h => ⟨(transferFrom_ok (apply_transferFrom h)).1, (transferFrom_ok (apply_transferFrom h)).2.1⟩⟩

/-- a holder move moves exactly `amt` from `f` to `t`, nothing else, and leaves the freeze
bookkeeping and the pause flag alone -/
theorem holder_move_effect (c : Cfg) (s s' : State) (auth : List Nat) (op : Op) (f t : Nat) (amt : Int)
    (hop : op.holderMove = some (f, t, amt)) (h : apply c s auth op = .ok s') :
    0 ≤ amt ∧ s'.base.supply = s.base.supply ∧
    (f ≠ t → s'.base.bal f = s.base.bal f - amt ∧ s'.base.bal t = s.base.bal t + amt) ∧
    (f = t → s'.base.bal f = s.base.bal f) ∧
    (∀ x, x ≠ f → x ≠ t → s'.base.bal x = s.base.bal x) ∧
    s'.frozen = s.frozen ∧ s'.addrFrozen = s.addrFrozen ∧ s'.paused = s.paused := by
  have key : ∀ p : MovePost s s' f t amt, _ := fun p =>
    show 0 ≤ amt ∧ s'.base.supply = s.base.supply ∧
      (f ≠ t → s'.base.bal f = s.base.bal f - amt ∧ s'.base.bal t = s.base.bal t + amt) ∧
      (f = t → s'.base.bal f = s.base.bal f) ∧
      (∀ x, x ≠ f → x ≠ t → s'.base.bal x = s.base.bal x) ∧
      s'.frozen = s.frozen ∧ s'.addrFrozen = s.addrFrozen ∧ s'.paused = s.paused from by
    refine ⟨p.nonneg, p.supply, ?_, ?_, ?_, p.frozen, p.addrFrozen, p.paused⟩
    · intro hft
      constructor
      · rw [p.bal f, if_neg hft, if_pos rfl]
      · rw [p.bal t, if_pos rfl, if_neg (Ne.symm hft)]
    · intro hft; subst hft; rw [p.bal f, if_pos rfl, if_pos rfl]; omega
    · intro x hxf hxt; rw [p.bal x, if_neg hxt, if_neg hxf]
  cases op with
  | transfer f' t' a' =>
    simp only [Op.holderMove, Option.some.injEq, Prod.mk.injEq] at hop
    obtain ⟨rfl, rfl, rfl⟩ := hop
    exact key (transfer_ok (apply_transfer h)).2
  | transferFrom sp f' t' a' =>
    simp only [Op.holderMove, Option.some.injEq, Prod.mk.injEq] at hop
    obtain ⟨rfl, rfl, rfl⟩ := hop
    exact key (transferFrom_ok (apply_transferFrom h)).2.2
  | _ => simp [Op.holderMove] at hop

/-- **mint_gated**: a successful mint implies a verified recipient, the approval of EVERY module
registered for CanCreate, and (harness policy) an authorizing operator who is the admin -/
theorem mint_gated (c : Cfg) (s s' : State) (auth : List Nat) (t op : Nat) (amt : Int)
    (h : apply c s auth (.mint t amt op) = .ok s') :
    s.idOk t = true ∧ (∀ m ∈ s.mods .canCreate, s.modCanCreate m t amt = true) ∧
    op ∈ auth ∧ op = s.admin := by
  obtain ⟨⟨ha, hb⟩, hm⟩ := apply_mint h
  have p := mint_ok hm
  exact ⟨p.verified, (consult_true_iff _ _).mp p.compliant, ha, hb⟩

/-- every supervisory entry point of the harness token needs the admin's authorization -/
theorem supervisory_needs_admin (c : Cfg) (s s' : State) (auth : List Nat) (op : Op)
    (hs : op.required ≠ [] ∧ op.holderMove = none ∧ (∀ o sp a lu, op ≠ .approve o sp a lu))
    (h : apply c s auth op = .ok s') : op.required = [s.admin] ∧ s.admin ∈ auth := by
  cases op with
  | transfer f t a => simp [Op.holderMove] at hs
  | transferFrom sp f t a => simp [Op.holderMove] at hs
  | approve o sp a lu => exact absurd rfl (hs.2.2 o sp a lu)
  | mint t a op => obtain ⟨⟨ha, hb⟩, -⟩ := apply_mint h; subst hb; exact ⟨rfl, ha⟩
  | burn x a op => obtain ⟨⟨ha, hb⟩, -⟩ := apply_burn h; subst hb; exact ⟨rfl, ha⟩
  | forcedTransfer f t a op => obtain ⟨⟨ha, hb⟩, -⟩ := apply_forcedTransfer h; subst hb; exact ⟨rfl, ha⟩
  | recover old new op => obtain ⟨⟨ha, hb⟩, -⟩ := apply_recover h; subst hb; exact ⟨rfl, ha⟩
  | freezePartial x a op => obtain ⟨⟨ha, hb⟩, -⟩ := apply_freezePartial h; subst hb; exact ⟨rfl, ha⟩
  | unfreezePartial x a op => obtain ⟨⟨ha, hb⟩, -⟩ := apply_unfreezePartial h; subst hb; exact ⟨rfl, ha⟩
  | setAddressFrozen x b op => obtain ⟨⟨ha, hb⟩, -⟩ := apply_setAddressFrozen h; subst hb; exact ⟨rfl, ha⟩
  | pause op => obtain ⟨⟨ha, hb⟩, -⟩ := apply_pause h; subst hb; exact ⟨rfl, ha⟩
  | unpause op => obtain ⟨⟨ha, hb⟩, -⟩ := apply_unpause h; subst hb; exact ⟨rfl, ha⟩
  | advance n => simp [Op.required] at hs
  | envIdOk a ok => simp [Op.required] at hs
  | envRecTarget a t => simp [Op.required] at hs
  | envModule m ct cc => simp [Op.required] at hs
  | addModule hk m op => obtain ⟨⟨ha, hb⟩, -⟩ := apply_addModule h; subst hb; exact ⟨rfl, ha⟩
  | removeModule hk m op => obtain ⟨⟨ha, hb⟩, -⟩ := apply_removeModule h; subst hb; exact ⟨rfl, ha⟩
  | bindToken op => obtain ⟨⟨ha, hb⟩, -⟩ := apply_bindToken h; subst hb; exact ⟨rfl, ha⟩
  | unbindToken op => obtain ⟨⟨ha, hb⟩, -⟩ := apply_unbindToken h; subst hb; exact ⟨rfl, ha⟩

/-! ### 0 ≤ frozen ≤ balance -/

/-- one successful invocation (any operation, any oracle answers) keeps `0 ≤ frozen ≤ balance` -/
theorem apply_frozenInv (c : Cfg) {s s' : State} (hi : FrozenInv s) (auth : List Nat) (op : Op)
    (h : apply c s auth op = .ok s') : FrozenInv s' := apply_frozenInv_aux c hi auth op h

/-- **frozen_le_balance**: in every reachable state — after any finite history of mint /
transfer / transfer_from / approve / forced_transfer / burn / recover_balance / freeze /
unfreeze / set_address_frozen / pause / unpause calls, ledger movement and arbitrary changes of
the identity verifier's and the compliance contract's answers, with arbitrary amounts and
authorizing sets — every account has `0 ≤ frozen tokens ≤ balance`. -/
theorem frozen_le_balance (c : Cfg) (now admin : Nat) (ops : List (List Nat × Op)) (a : Nat) :
    0 ≤ (run c (init now admin) ops).frozen a ∧
    (run c (init now admin) ops).frozen a ≤ (run c (init now admin) ops).base.bal a := by
  suffices ∀ s, FrozenInv s → FrozenInv (run c s ops) from
    this _ (by intro x; simp [init, Fungible.init]) a
  induction ops with
  | nil => intro s hs; exact hs
  | cons x xs ih =>
    intro s hs
    simp only [run, List.foldl_cons]
    apply ih
    unfold step
    cases hx : apply c s x.1 x.2 with
    | error e => exact hs
    | ok s' => exact apply_frozenInv c hs x.1 x.2 hx

/-- consequently the free balance `balance − frozen` that `validate_transfer` compares against is
never negative and its subtraction never overflows -/
theorem free_tokens_nonneg (c : Cfg) (now admin : Nat) (ops : List (List Nat × Op)) (a : Nat) :
    0 ≤ (run c (init now admin) ops).base.bal a - (run c (init now admin) ops).frozen a := by
  have := frozen_le_balance c now admin ops a; omega

/-- the code's comment "frozen tokens cannot be greater than total balance" is true, so the
unchecked `total_balance - frozen_tokens` of `get_free_tokens` is a non-negative i128 and never
panics (given the invariants, which hold in every reachable state) -/
theorem free_tokens_no_panic {U : List Nat} (hn : U.Nodup) {s : State} (hi : Inv U s.base)
    (hf : FrozenInv s) (a : Nat) : getFreeTokens s a = .ok (s.base.bal a - s.frozen a) := by
  unfold getFreeTokens
  apply chk_in
  have h1 := hf a; have h2 := bal_le_supply hn hi a; have h3 := hi.supHi
  unfold in128 I128_MIN; constructor <;> omega

/-- the "unfreeze if needed" block of `forced_transfer` / `burn` never panics in its unchecked
subtractions once the balance check `amount ≤ balance` has passed -/
theorem supervisory_unfreeze_no_panic {U : List Nat} (hn : U.Nodup) {s : State} (hi : Inv U s.base)
    (hf : FrozenInv s) (a : Nat) (amt : Int) (hle : amt ≤ s.base.bal a) :
    ∃ s', unfreezeFor s a amt = .ok s' := by
  unfold unfreezeFor
  rw [free_tokens_no_panic hn hi hf a, ok_bind]
  have h1 := hf a; have h2 := bal_le_supply hn hi a; have h3 := hi.supHi
  split
  · rename_i hlt
    have r1 : in128 (amt - (s.base.bal a - s.frozen a)) := by
      unfold in128 I128_MIN; constructor <;> omega
    rw [chk_in r1, ok_bind]
    have r2 : in128 (s.frozen a - (amt - (s.base.bal a - s.frozen a))) := by
      unfold in128 I128_MIN; constructor <;> omega
    rw [chk_in r2, ok_bind]
    exact ⟨_, rfl⟩
  · exact ⟨_, rfl⟩

/-! ### supervisory operations unfreeze only the minimum -/

/-- **forced_unfreezes_minimum**: after a forced transfer of `amt` out of `f`,
`frozen' f = min (frozen f) (balance f − amt)`; nobody else's frozen amount changes -/
theorem forced_unfreezes_minimum (c : Cfg) (s s' : State) (auth : List Nat) (f t op : Nat) (amt : Int)
    (h : apply c s auth (.forcedTransfer f t amt op) = .ok s') :
    s'.frozen f = min (s.frozen f) (s.base.bal f - amt) ∧ (∀ x, x ≠ f → s'.frozen x = s.frozen x) ∧
    s'.addrFrozen = s.addrFrozen ∧ s'.paused = s.paused := by
  have p := forcedTransfer_ok (apply_forcedTransfer h).2
  refine ⟨?_, ?_, p.addrFrozen, p.paused⟩
  · rw [p.frozen f, if_pos rfl]; unfold frozenAfter; split <;> omega
  · intro x hx; rw [p.frozen x, if_neg hx]

/-- **burn_unfreezes_minimum**: likewise for `burn` -/
theorem burn_unfreezes_minimum (c : Cfg) (s s' : State) (auth : List Nat) (a op : Nat) (amt : Int)
    (h : apply c s auth (.burn a amt op) = .ok s') :
    s'.frozen a = min (s.frozen a) (s.base.bal a - amt) ∧ (∀ x, x ≠ a → s'.frozen x = s.frozen x) ∧
    s'.addrFrozen = s.addrFrozen ∧ s'.paused = s.paused := by
  have p := burn_ok (apply_burn h).2
  refine ⟨?_, ?_, p.addrFrozen, p.paused⟩
  · rw [p.frozen a, if_pos rfl]; unfold frozenAfter; split <;> omega
  · intro x hx; rw [p.frozen x, if_neg hx]

/-- the balances a forced transfer / burn leaves: exactly `amt` moved / destroyed, only if the
holder had that much -/
theorem supervisory_move_effect (c : Cfg) (s s' : State) (auth : List Nat) (f t op : Nat) (amt : Int) :
    (apply c s auth (.forcedTransfer f t amt op) = .ok s' →
      0 ≤ amt ∧ amt ≤ s.base.bal f ∧ s'.base.supply = s.base.supply ∧
      (f ≠ t → s'.base.bal f = s.base.bal f - amt ∧ s'.base.bal t = s.base.bal t + amt) ∧
      (∀ x, x ≠ f → x ≠ t → s'.base.bal x = s.base.bal x)) ∧
    (apply c s auth (.burn f amt op) = .ok s' →
      0 ≤ amt ∧ amt ≤ s.base.bal f ∧ s'.base.supply = s.base.supply - amt ∧
      s'.base.bal f = s.base.bal f - amt ∧ (∀ x, x ≠ f → s'.base.bal x = s.base.bal x)) := by
  constructor
  · intro h
    have p := forcedTransfer_ok (apply_forcedTransfer h).2
    obtain ⟨h0, hle, hs, -, -, hb⟩ := update_move p.update
    refine ⟨h0, hle, hs, ?_, ?_⟩
    · intro hft
      constructor
      · rw [hb f, if_neg hft, if_pos rfl]
      · rw [hb t, if_pos rfl, if_neg (Ne.symm hft)]
    · intro x hxf hxt; rw [hb x, if_neg hxt, if_neg hxf]
  · intro h
    have p := burn_ok (apply_burn h).2
    obtain ⟨h0, hle, hs, -, -, hb⟩ := update_burn p.update
    refine ⟨h0, hle, hs, ?_, ?_⟩
    · rw [hb f, if_pos rfl]
    · intro x hx; rw [hb x, if_neg hx]

/-! ### recovery -/

/-- recovery is possible only towards the verified, registered recovery target of the old
account, and only for the admin -/
theorem recover_only_to_target (c : Cfg) (s s' : State) (auth : List Nat) (old new op : Nat)
    (h : apply c s auth (.recover old new op) = .ok s') :
    s.recTarget old = some new ∧ s.idOk new = true ∧ op ∈ auth ∧ op = s.admin := by
  obtain ⟨⟨ha, hb⟩, r, hr⟩ := apply_recover h
  obtain ⟨h1, h2, -⟩ := recoverBalance_ok hr
  exact ⟨h2, h1, ha, hb⟩

/-- **recover_moves_everything**: a recovery that returns `true` (there was something to recover)
moves the WHOLE balance, the partially frozen amount and the address-freeze status of the old
account to the new one and changes nothing else: no other balance, no other frozen amount, no
other address flag, not the supply. (`0 ≤ frozen old` holds in every reachable state.) -/
theorem recover_moves_everything (c : Cfg) (s s' : State) (auth : List Nat) (old new op : Nat)
    (hne : old ≠ new) (hf : 0 ≤ s.frozen old)
    (h : applyRet c s auth (.recover old new op) = .ok (s', true)) :
    s.base.bal old ≠ 0 ∧
    s'.base.bal old = 0 ∧ s'.base.bal new = s.base.bal new + s.base.bal old ∧
    (∀ x, x ≠ old → x ≠ new → s'.base.bal x = s.base.bal x) ∧ s'.base.supply = s.base.supply ∧
    s'.frozen old = 0 ∧ s'.frozen new = s.frozen new + s.frozen old ∧
    (∀ x, x ≠ old → x ≠ new → s'.frozen x = s.frozen x) ∧
    s'.addrFrozen new = (s.addrFrozen new || s.addrFrozen old) ∧
    (∀ x, x ≠ new → s'.addrFrozen x = s.addrFrozen x) ∧ s'.paused = s.paused := by
  obtain ⟨_, -, hr⟩ := bind_eq_ok h
  obtain ⟨-, -, hcase⟩ := recoverBalance_ok hr
  rcases hcase with ⟨hfalse, -, -⟩ | ⟨-, hnz, p⟩
  · cases hfalse
  · obtain ⟨h0, hle, hs, -, -, hb⟩ := update_move p.update
    have hfa := frozenAfter_all hf
    refine ⟨hnz, ?_, ?_, ?_, hs, ?_, ?_, ?_, ?_, ?_, p.paused⟩
    · have := hb old; rw [if_neg hne, if_pos rfl] at this; omega
    · have := hb new; rw [if_pos rfl, if_neg (Ne.symm hne)] at this; omega
    · intro x hxo hxn; rw [hb x, if_neg hxn, if_neg hxo]
    · rw [p.frozen old, hfa]
      by_cases hpos : s.frozen old > 0
      · rw [if_pos hpos, if_neg hne, if_pos rfl]
      · rw [if_neg hpos, if_pos rfl]
    · have := p.frozen new
      by_cases hpos : s.frozen old > 0
      · rw [if_pos hpos, if_pos rfl, if_neg (Ne.symm hne)] at this; exact this
      · rw [if_neg hpos, if_neg (Ne.symm hne)] at this; omega
    · intro x hxo hxn
      rw [p.frozen x]
      by_cases hpos : s.frozen old > 0
      · rw [if_pos hpos, if_neg hxn, if_neg hxo]
      · rw [if_neg hpos, if_neg hxo]
    · rw [p.addrFrozen new, if_pos rfl]
    · intro x hx; rw [p.addrFrozen x, if_neg hx]

/-- a recovery onto the same account, or one that returns `false` (nothing to recover), changes
no balance, no frozen amount, no address flag -/
theorem recover_degenerate (c : Cfg) (s s' : State) (auth : List Nat) (old new op : Nat) (r : Bool)
    (hf : 0 ≤ s.frozen old ∧ s.frozen old ≤ s.base.bal old) (hd : old = new ∨ r = false)
    (h : applyRet c s auth (.recover old new op) = .ok (s', r)) :
    (r = false ↔ s.base.bal old = 0) ∧
    (∀ x, s'.base.bal x = s.base.bal x) ∧ (∀ x, s'.frozen x = s.frozen x) ∧
    (∀ x, s'.addrFrozen x = s.addrFrozen x) := by
  obtain ⟨_, -, hr⟩ := bind_eq_ok h
  obtain ⟨-, -, hcase⟩ := recoverBalance_ok hr
  rcases hcase with ⟨hfalse, hz, e⟩ | ⟨htrue, hnz, p⟩
  · subst e
    exact ⟨⟨fun _ => hz, fun _ => hfalse⟩, fun _ => rfl, fun _ => rfl, fun _ => rfl⟩
  · subst htrue
    rcases hd with hon | hd
    · subst hon
      obtain ⟨h0, hle, hs, -, -, hb⟩ := update_move p.update
      have hfa := frozenAfter_all hf.1
      refine ⟨⟨fun h => (by cases h), fun h => absurd h hnz⟩, ?_, ?_, ?_⟩
      · intro x; rw [hb x]; split
        · rename_i hx; subst hx; rw [if_pos rfl]; omega
        · rfl
      · intro x; rw [p.frozen x, hfa]
        by_cases hpos : s.frozen old > 0
        · rw [if_pos hpos]; split
          · rename_i hx; subst hx; rw [if_pos rfl]; omega
          · rfl
        · rw [if_neg hpos]; split
          · rename_i hx; subst hx; omega
          · rfl
      · intro x; rw [p.addrFrozen x]; split
        · rename_i hx; subst hx; simp
        · rfl
    · cases hd

/-! ### the compliance contract is notified exactly once -/

/-- **compliance_notified_once**: a successful invocation appends to the compliance
notification log exactly what it owes — one `transferred(from, to, amount)` for transfer /
transfer_from / forced_transfer / recovery (whole balance), one `created(to, amount)` for mint,
one `destroyed(from, amount)` for burn — and nothing for any other operation -/
theorem compliance_notified_once (c : Cfg) (s s' : State) (auth : List Nat) (op : Op)
    (h : apply c s auth op = .ok s') : s'.notes = s.notes ++ op.owedNotes s :=
  apply_notes_aux c auth op h

/-- a failed invocation notifies nobody (it is rolled back as a whole) -/
theorem failed_not_notified (c : Cfg) (s : State) (auth : List Nat) (op : Op) (e : Err)
    (h : apply c s auth op = .error e) : (step c s (auth, op)).notes = s.notes := by
  simp [step, h]

/-- over a whole history: the notification log is exactly the list of owed notifications of the
accepted operations, in order — none missing, none duplicated, none invented -/
theorem notifications_of_history (c : Cfg) (s : State) (ops : List (List Nat × Op)) :
    (run c s ops).notes = s.notes ++ owedRun c s ops := by
  induction ops generalizing s with
  | nil => simp [run, owedRun]
  | cons x xs ih =>
    have hrun : run c s (x :: xs) = run c (step c s x) xs := rfl
    have e1 : owedRun c s (x :: xs) = (match apply c s x.1 x.2 with
      | .ok s' => x.2.owedNotes s ++ owedRun c s' xs
      | .error _ => owedRun c s xs) := rfl
    rw [hrun, ih (step c s x), e1]
    unfold step
    cases hx : apply c s x.1 x.2 with
    | error e => rfl
    | ok s' =>
      show s'.notes ++ owedRun c s' xs = s.notes ++ (x.2.owedNotes s ++ owedRun c s' xs)
      rw [compliance_notified_once c s s' x.1 x.2 hx, List.append_assoc]

/-! ### the notification hooks fan out to the registered modules, exactly once each -/

/-- the module registry never holds a module twice for a hook, after any history of
`add_module_to` / `remove_module_from` (and everything else) -/
theorem registry_nodup (c : Cfg) (now admin : Nat) (ops : List (List Nat × Op)) (h : Hook) :
    ((run c (init now admin) ops).mods h).Nodup := by
  suffices ∀ s, ModsNodup s → ModsNodup (run c s ops) from this _ (by intro k; simp [init]) h
  induction ops with
  | nil => intro s hs; exact hs
  | cons x xs ih =>
    intro s hs
    simp only [run, List.foldl_cons]
    apply ih
    unfold step
    cases hx : apply c s x.1 x.2 with
    | error e => exact hs
    | ok s' => exact apply_modsNodup_aux c hs x.1 x.2 hx

/-- what the registry operations do: `add_module_to` appends (refusing a registered module and
the 21st one), `remove_module_from` removes exactly that module and keeps the order of the rest;
both need the admin and touch no other hook -/
theorem registry_ops (c : Cfg) (s s' : State) (auth : List Nat) (hk : Hook) (m op : Nat) :
    (apply c s auth (.addModule hk m op) = .ok s' →
      m ∉ s.mods hk ∧ (s.mods hk).length < MAX_MODULES ∧ s'.mods hk = s.mods hk ++ [m] ∧
      (∀ k, k ≠ hk → s'.mods k = s.mods k) ∧ op ∈ auth ∧ op = s.admin) ∧
    (apply c s auth (.removeModule hk m op) = .ok s' →
      m ∈ s.mods hk ∧ s'.mods hk = (s.mods hk).erase m ∧
      (∀ k, k ≠ hk → s'.mods k = s.mods k) ∧ op ∈ auth ∧ op = s.admin) := by
  constructor
  · intro h
    obtain ⟨⟨ha, hb⟩, hm⟩ := apply_addModule h
    obtain ⟨h1, h2, e⟩ := addModule_ok hm
    subst e
    exact ⟨h1, h2, by simp [emit], fun k hk' => by simp [emit, hk'], ha, hb⟩
  · intro h
    obtain ⟨⟨ha, hb⟩, hm⟩ := apply_removeModule h
    obtain ⟨h1, e⟩ := removeModule_ok hm
    subst e
    exact ⟨h1, by simp [emit], fun k hk' => by simp [emit, hk'], ha, hb⟩

/-- **hooks_fan_out_exactly_once**: a successful invocation delivers to the compliance modules
exactly `op.owedModCalls`: for transfer / transfer_from the `can_transfer` query to the consulted
verdict modules, then ONE `on_transfer(from, to, amount)` to every module registered for the
Transferred hook, in registration order; forced_transfer / recovery: one `on_transfer` each;
mint: the `can_create` queries, then one `on_created` per Created module; burn: one
`on_destroyed` per Destroyed module; every other operation: nothing. -/
theorem hooks_fan_out_exactly_once (c : Cfg) (s s' : State) (auth : List Nat) (op : Op)
    (h : apply c s auth op = .ok s') : s'.modCalls = s.modCalls ++ op.owedModCalls s :=
  apply_modCalls_aux c auth op h

/-- ... so that, the registry being duplicate-free, module `m` receives from a successful holder
move exactly: one `can_transfer` query iff it is registered for CanTransfer, then one
`on_transfer` iff it is registered for Transferred — never two, never one it is not registered
for -/
theorem holder_move_module_view (c : Cfg) (s s' : State) (auth : List Nat) (op : Op) (f t : Nat) (amt : Int)
    (hn : ModsNodup s) (hop : op.holderMove = some (f, t, amt)) (h : apply c s auth op = .ok s') (m : Nat) :
    (op.owedModCalls s).filter (fun x => x.1 = m) =
      (if m ∈ s.mods .canTransfer then [(m, ModCall.canTransfer f t amt)] else []) ++
      (if m ∈ s.mods .transferred then [(m, ModCall.onTransfer f t amt)] else []) := by
  have key : ∀ p : MovePost s s' f t amt,
      (callsTo (compCanTransfer s f t amt).1 (.canTransfer f t amt) ++
        callsTo (s.mods .transferred) (.onTransfer f t amt)).filter (fun x => x.1 = m) =
      (if m ∈ s.mods .canTransfer then [(m, ModCall.canTransfer f t amt)] else []) ++
      (if m ∈ s.mods .transferred then [(m, ModCall.onTransfer f t amt)] else []) := by
    intro p
    have hall : (compCanTransfer s f t amt).1 = s.mods .canTransfer := consult_called_all _ _ p.gates.compliant
    rw [hall, List.filter_append, callsTo_filter _ _ _ (hn _), callsTo_filter _ _ _ (hn _)]
  cases op with
  | transfer f' t' a' =>
    simp only [Op.holderMove, Option.some.injEq, Prod.mk.injEq] at hop
    obtain ⟨rfl, rfl, rfl⟩ := hop
    exact key (transfer_ok (apply_transfer h)).2
  | transferFrom sp f' t' a' =>
    simp only [Op.holderMove, Option.some.injEq, Prod.mk.injEq] at hop
    obtain ⟨rfl, rfl, rfl⟩ := hop
    exact key (transferFrom_ok (apply_transferFrom h)).2.2
  | _ => simp [Op.holderMove] at hop

/-- the notification of a forced transfer / burn reaches each registered module exactly once and
nobody else (the same shape holds for mint's `on_created`, see `hooks_fan_out_exactly_once`) -/
theorem supervisory_module_view (s : State) (hn : ModsNodup s) (f t x op m : Nat) (amt : Int) :
    ((Op.forcedTransfer f t amt op).owedModCalls s).filter (fun y => y.1 = m) =
      (if m ∈ s.mods .transferred then [(m, ModCall.onTransfer f t amt)] else []) ∧
    ((Op.burn x amt op).owedModCalls s).filter (fun y => y.1 = m) =
      (if m ∈ s.mods .destroyed then [(m, ModCall.onDestroyed x amt)] else []) :=
  ⟨callsTo_filter _ _ _ (hn _), callsTo_filter _ _ _ (hn _)⟩

/-- a token that is not bound to the compliance contract cannot notify it, hence cannot move,
mint or burn at all -/
theorem moves_need_bound_token (c : Cfg) (s s' : State) (auth : List Nat) (op : Op)
    (hop : op.owedNotes s ≠ []) (h : apply c s auth op = .ok s') : s.bound = true := by
  cases op with
  | transfer f t a => exact (transfer_ok (apply_transfer h)).2.bound
  | transferFrom sp f t a => exact (transferFrom_ok (apply_transferFrom h)).2.2.bound
  | mint t a op => exact (mint_ok (apply_mint h).2).bound
  | burn x a op => exact (burn_ok (apply_burn h).2).bound
  | forcedTransfer f t a op => exact (forcedTransfer_ok (apply_forcedTransfer h).2).bound
  | recover old new op =>
    obtain ⟨-, r, hr⟩ := apply_recover h
    obtain ⟨-, -, hcase⟩ := recoverBalance_ok hr
    rcases hcase with ⟨-, hz, -⟩ | ⟨-, -, p⟩
    · simp [Op.owedNotes, hz] at hop
    · exact p.bound
  | _ => simp [Op.owedNotes] at hop

/-! ### C01 for this flavour: conservation and replay -/

/-- one successful invocation preserves "supply = Σ balances, balances ≥ 0, supply a
non-negative i128" and changes the supply by exactly `+amount` (mint), `−amount` (burn), `0`
(everything else, including forced transfers and recovery) -/
theorem apply_inv {U : List Nat} (hn : U.Nodup) (c : Cfg) {s s' : State} (hi : Inv U s.base)
    (auth : List Nat) (op : Op) (hU : ∀ a ∈ op.addrs, a ∈ U) (h : apply c s auth op = .ok s') :
    Inv U s'.base ∧ s'.base.supply = s.base.supply + supplyDelta op :=
  apply_inv_aux hn c hi auth op hU h

/-- conservation in every reachable state of the RWA token -/
theorem inv_reachable (c : Cfg) (now admin : Nat) (U : List Nat) (hn : U.Nodup)
    (ops : List (List Nat × Op)) (hU : ∀ x ∈ ops, ∀ a ∈ x.2.addrs, a ∈ U) :
    Inv U (run c (init now admin) ops).base := by
  suffices ∀ s, Inv U s.base → Inv U (run c s ops).base from this _ (base_init_inv U now)
  induction ops with
  | nil => intro s hs; exact hs
  | cons x xs ih =>
    intro s hs
    simp only [run, List.foldl_cons]
    apply ih (fun y hy => hU y (List.mem_cons_of_mem _ hy))
    unfold step
    cases hx : apply c s x.1 x.2 with
    | error e => exact hs
    | ok s' => exact (apply_inv hn c hs x.1 x.2 (hU x (List.mem_cons_self)) hx).1

/-- replaying the mint / burn / transfer events the token emitted (including those of forced
transfers and recoveries) from the empty map reproduces every balance, after any history -/
theorem replay_events (c : Cfg) (now admin : Nat) (ops : List (List Nat × Op)) :
    replay (run c (init now admin) ops).events = (run c (init now admin) ops).base.bal := by
  suffices ∀ s, ReplayOK s → ReplayOK (run c s ops) from this _ (by simp [ReplayOK, init, Fungible.init, replay])
  induction ops with
  | nil => intro s hs; exact hs
  | cons x xs ih =>
    intro s hs
    simp only [run, List.foldl_cons]
    apply ih
    unfold step
    cases hx : apply c s x.1 x.2 with
    | error e => exact hs
    | ok s' => exact apply_replay_aux c hs x.1 x.2 hx

/-! ### the defect that was repaired (regression, against the legacy transition) -/

/-- DESIGN §8-1: mint 100 to account 1, approve 80 to spender 3, freeze 90 of them, freeze the
address, fail its identity, register a CanTransfer module that denies, pause — then
`transfer_from(3, 1, 2, 50)`. -/
def defectOps : List (List Nat × Op) :=
  [([0], .mint 1 100 0), ([1], .approve 1 3 80 5000), ([0], .freezePartial 1 90 0),
   ([0], .setAddressFrozen 1 true 0), ([], .envIdOk 1 false),
   ([0], .addModule .canTransfer 0 0), ([], .envModule 0 (fun _ _ _ => false) (fun _ _ => true)),
   ([0], .pause 0), ([3], .transferFrom 3 1 2 50)]

/-- with `RWA::transfer_from` as it was before the fix, the history above moves 50 tokens
through five closed gates and leaves balance 50 < frozen 90 -/
theorem legacy_transferFrom_counterexample :
    (legacyRun ⟨1, 200000⟩ (init 100 0) defectOps).paused = true ∧
    (legacyRun ⟨1, 200000⟩ (init 100 0) defectOps).addrFrozen 1 = true ∧
    (legacyRun ⟨1, 200000⟩ (init 100 0) defectOps).idOk 1 = false ∧
    (legacyRun ⟨1, 200000⟩ (init 100 0) defectOps).base.bal 1 = 50 ∧
    (legacyRun ⟨1, 200000⟩ (init 100 0) defectOps).base.bal 2 = 50 ∧
    (legacyRun ⟨1, 200000⟩ (init 100 0) defectOps).frozen 1 = 90 ∧
    (legacyRun ⟨1, 200000⟩ (init 100 0) defectOps).notes =
      [.created 1 100, .transferred 1 2 50] := by decide

/-- the repaired transition rejects that call: nothing moves -/
theorem fixed_transferFrom_rejects :
    (run ⟨1, 200000⟩ (init 100 0) defectOps).base.bal 1 = 100 ∧
    (run ⟨1, 200000⟩ (init 100 0) defectOps).base.bal 2 = 0 ∧
    (run ⟨1, 200000⟩ (init 100 0) defectOps).notes = [.created 1 100] := by decide

/-! ### non-vacuity (tests, labelled as such): concrete histories meet the hypotheses -/

/-- all gates open: holder transfer, allowance transfer at the exact free balance, forced transfer
that has to unfreeze, burn, recovery with a partial freeze and an address freeze -/
def demoOps : List (List Nat × Op) :=
  [([0], .mint 1 1000 0), ([0], .mint 2 10 0), ([1], .approve 1 3 500 5000),
   ([0], .freezePartial 1 700 0), ([1], .transfer 1 2 100), ([3], .transferFrom 3 1 2 200),
   ([3], .transferFrom 3 1 2 1), ([0], .forcedTransfer 1 4 300 0), ([0], .burn 1 50 0),
   ([0], .setAddressFrozen 1 true 0), ([], .envRecTarget 1 (some 2)), ([0], .recover 1 2 0),
   ([2], .transfer 2 4 1)]

example :
    (run ⟨1, 200000⟩ (init 100 0) demoOps).base.bal 1 = 0 ∧
    (run ⟨1, 200000⟩ (init 100 0) demoOps).base.bal 2 = 660 ∧
    (run ⟨1, 200000⟩ (init 100 0) demoOps).base.bal 4 = 300 ∧
    (run ⟨1, 200000⟩ (init 100 0) demoOps).base.supply = 960 ∧
    (run ⟨1, 200000⟩ (init 100 0) demoOps).frozen 1 = 0 ∧
    (run ⟨1, 200000⟩ (init 100 0) demoOps).frozen 2 = 350 ∧
    (run ⟨1, 200000⟩ (init 100 0) demoOps).addrFrozen 2 = true ∧
    (run ⟨1, 200000⟩ (init 100 0) demoOps).notes =
      [.created 1 1000, .created 2 10, .transferred 1 2 100, .transferred 1 2 200,
       .transferred 1 4 300, .destroyed 1 50, .transferred 1 2 350] := by decide

/-- the hypotheses of `holder_move_gated` / `forced_unfreezes_minimum` / `recover_moves_everything`
are met by prefixes of that history -/
example : isOk (apply ⟨1, 200000⟩ (run ⟨1, 200000⟩ (init 100 0) (demoOps.take 5)) [3] (.transferFrom 3 1 2 200)) = true := by
  decide
example : isOk (apply ⟨1, 200000⟩ (run ⟨1, 200000⟩ (init 100 0) (demoOps.take 7)) [0] (.forcedTransfer 1 4 300 0)) = true ∧
    (run ⟨1, 200000⟩ (init 100 0) (demoOps.take 7)).frozen 1 = 700 ∧
    (run ⟨1, 200000⟩ (init 100 0) (demoOps.take 8)).frozen 1 = 400 := by decide
example : (match applyRet ⟨1, 200000⟩ (run ⟨1, 200000⟩ (init 100 0) (demoOps.take 11)) [0] (.recover 1 2 0) with
    | .ok (_, r) => r | .error _ => false) = true := by decide
example : ∀ x ∈ demoOps, ∀ a ∈ x.2.addrs, a ∈ [0, 1, 2, 3, 4] := by decide

/-- three CanTransfer modules [0, 1, 2], Transferred modules [1, 2]: a veto of the MIDDLE module
(flat, then by an amount cap) blocks transfer and transfer_from although the last module approves;
an approved transfer consults all three and notifies modules 1 and 2 once each -/
def moduleOps : List (List Nat × Op) :=
  [([0], .mint 1 1000 0), ([1], .approve 1 3 500 5000),
   ([0], .addModule .canTransfer 0 0), ([0], .addModule .canTransfer 1 0), ([0], .addModule .canTransfer 1 0),
   ([0], .addModule .canTransfer 2 0), ([0], .addModule .transferred 1 0), ([0], .addModule .transferred 2 0),
   ([], .envModule 1 (fun _ _ _ => false) (fun _ _ => true)),
   ([1], .transfer 1 2 10), ([3], .transferFrom 3 1 2 10),
   ([], .envModule 1 (fun _ _ a => decide (a ≤ 10)) (fun _ _ => true)),
   ([1], .transfer 1 2 11), ([1], .transfer 1 2 10),
   ([0], .removeModule .canTransfer 0 0), ([0], .unbindToken 0), ([1], .transfer 1 2 1)]

example :
    (run ⟨1, 200000⟩ (init 100 0) moduleOps).base.bal 1 = 990 ∧
    (run ⟨1, 200000⟩ (init 100 0) moduleOps).base.bal 2 = 10 ∧
    (run ⟨1, 200000⟩ (init 100 0) moduleOps).mods .canTransfer = [1, 2] ∧
    (run ⟨1, 200000⟩ (init 100 0) moduleOps).bound = false ∧
    (run ⟨1, 200000⟩ (init 100 0) moduleOps).notes = [.created 1 1000, .transferred 1 2 10] ∧
    (run ⟨1, 200000⟩ (init 100 0) moduleOps).modCalls =
      [(0, .canTransfer 1 2 10), (1, .canTransfer 1 2 10), (2, .canTransfer 1 2 10),
       (1, .onTransfer 1 2 10), (2, .onTransfer 1 2 10)] := by decide

/-- the verdict loop on [allow, deny, allow]: rejected, and the third module is never asked -/
example : consult (fun m => m != 1) [0, 1, 2] = ([0, 1], false) ∧
    consult (fun _ => true) [0, 1, 2] = ([0, 1, 2], true) ∧ consult (fun _ => false) [] = ([], true) := by decide

end OZ.Rwa
