import OZ.Lemmas.RoleTransfer
/-
C07 — Admin and ownership change hands only through a live two-step handshake.

Property theorems only. The model (OZ/Model/RoleTransfer.lean) mirrors `transfer_role` /
`accept_transfer` (role_transfer/storage.rs) and their two users, `Ownable`
(`Flavor.owner`) and the admin of `AccessControl` (`Flavor.admin`), after the commit
"fix: drop the previous pending entry before storing a new role transfer offer".

All statements hold for both flavours, every host configuration `c` (minimum temporary
lifetime, maximum lifetime), every initial holder and start ledger, and EVERY finite history
`ops` of offer / cancel / accept / renounce / holder-only calls / ledger advances, each issued
with an arbitrary authorizing subset. `runG` runs the model and, beside it, the ghost log
`ghostStep` of the open offer (latest accepted offer, dropped when a cancellation or an
accept is accepted), which looks at calls and their outcomes only.
-/
namespace OZ.RoleTransfer
open OZ.Host

/-- **C07, core (general form)**: whenever `accept` succeeds — after any history — the log
holds an open offer `o` (made, and not since cancelled, replaced or accepted) such that: the
invited account authorizes this accept and is the one who becomes holder; the offer was made
by the account that was holder then, with its authorization; that account is still the
holder (nobody else got control in between); and the current ledger is not past
`max o.lu (o.madeAt + minTempTtl - 1)` — the offer's `live_until_ledger`, or the end of the
minimum lifetime of a fresh temporary entry where that is later (the documented caveat, exact). -/
theorem accept_requires_live_offer (c : Cfg) (f : Flavor) (h0 : Option Nat) (start : Nat)
    (ops : List (List Nat × Op)) (auth : List Nat) (s' : State)
    (h : accept f (runG c f (initG h0 start) ops).s auth = .ok s') :
    ∃ o hd, (runG c f (initG h0 start) ops).g = some o ∧
      o.acct ∈ auth ∧ s'.holder = some o.acct ∧ s'.pending = none ∧
      o.lu ≠ 0 ∧ o.holderThen = some hd ∧ hd ∈ o.auth ∧
      (runG c f (initG h0 start) ops).s.holder = some hd ∧
      o.madeAt ≤ (runG c f (initG h0 start) ops).s.now ∧
      (runG c f (initG h0 start) ops).s.now ≤ max o.lu (o.madeAt + c.minTempTtl - 1) := by
  have hi := reachable_inv c f h0 start ops
  obtain ⟨p, hg, hp, hh, hpe, -, -⟩ := accept_ok h
  obtain ⟨o, ho, ha, hl⟩ := inv_get?_some hi hg
  obtain ⟨w1, -, w3, ⟨hd, w4, w5⟩, w6⟩ := hi.wf o ho
  subst ha
  exact ⟨o, hd, ho, hp, hh, hpe, w1, w4, w5, by rw [w6 hl, w4], w3, hl⟩

/-- **C07, core (the property's observation regime, minimum temporary lifetime 1)**: an
accepted `accept` happens at a ledger `≤ live_until_ledger` of the open offer: an offer whose
`live_until_ledger` has passed can never be accepted. -/
theorem accept_requires_live_offer_min1 (c : Cfg) (hmin : c.minTempTtl = 1) (f : Flavor)
    (h0 : Option Nat) (start : Nat) (ops : List (List Nat × Op)) (auth : List Nat) (s' : State)
    (h : accept f (runG c f (initG h0 start) ops).s auth = .ok s') :
    ∃ o hd, (runG c f (initG h0 start) ops).g = some o ∧
      o.acct ∈ auth ∧ s'.holder = some o.acct ∧ o.holderThen = some hd ∧ hd ∈ o.auth ∧
      (runG c f (initG h0 start) ops).s.holder = some hd ∧
      (runG c f (initG h0 start) ops).s.now ≤ o.lu := by
  obtain ⟨o, hd, h1, h2, h3, -, -, h6, h7, h8, -, h10⟩ :=
    accept_requires_live_offer c f h0 start ops auth s' h
  have hi := reachable_inv c f h0 start ops
  obtain ⟨-, w2, -, -, -⟩ := hi.wf o h1
  exact ⟨o, hd, h1, h2, h3, h6, h7, h8, by rw [hmin] at h10; omega⟩

/-- **C07, exactness**: `accept` succeeds if and only if the log holds an open offer whose
invited account authorizes the call and whose acceptance window has not passed. -/
theorem accept_iff (c : Cfg) (f : Flavor) (h0 : Option Nat) (start : Nat)
    (ops : List (List Nat × Op)) (auth : List Nat) :
    (∃ s', accept f (runG c f (initG h0 start) ops).s auth = .ok s') ↔
    ∃ o, (runG c f (initG h0 start) ops).g = some o ∧ o.acct ∈ auth ∧
      (runG c f (initG h0 start) ops).s.now ≤ deadline c o := by
  have hi := reachable_inv c f h0 start ops
  constructor
  · rintro ⟨s', h⟩
    obtain ⟨o, hd, h1, h2, -, -, -, -, -, -, -, h10⟩ :=
      accept_requires_live_offer c f h0 start ops auth s' h
    exact ⟨o, h1, h2, h10⟩
  · rintro ⟨o, ho, ha, hl⟩
    obtain ⟨-, -, -, ⟨hd, w4, -⟩, w6⟩ := hi.wf o ho
    exact accept_of_live (inv_get?_of_open hi ho hl) ha (fun _ => by rw [w6 hl, w4]; simp)

/-- **C07**: an accepted offer cannot be accepted again, nor can a cancelled one: after a
successful accept (or cancellation), however many calls follow — cancellations, accepts,
renounces, holder-only calls, ledger advances by anyone — every further `accept` fails until
a new offer is made. -/
theorem no_double_accept (c : Cfg) (f : Flavor) (s s' : State) (auth : List Nat)
    (h : accept f s auth = .ok s' ∨ ∃ new, offer c s auth new 0 = .ok s')
    (rest : List (List Nat × Op)) (hr : ∀ a ∈ rest, a.2.isOffer = false) (auth2 : List Nat) :
    ∃ e, accept f (run c f s' rest) auth2 = .error e := by
  have hp : s'.pending = none := by
    rcases h with h | ⟨new, h⟩
    · obtain ⟨p, -, -, -, hp, -⟩ := accept_ok h; exact hp
    · obtain ⟨hd, -, -, -, -, h5⟩ := offer_ok h
      rcases h5 with ⟨-, -, hp⟩ | ⟨h0, -⟩
      · exact hp
      · exact absurd rfl h0
  suffices ∀ s : State, s.pending = none → (run c f s rest).pending = none from
    accept_none_fails f (this s' hp) auth2
  induction rest with
  | nil => intro s hs; exact hs
  | cons a as ih =>
    intro s hs
    simp only [run, List.foldl_cons]
    exact ih (fun b hb => hr b (List.mem_cons_of_mem a hb)) _
      (step_no_offer_pending hs a (hr a List.mem_cons_self))

/-- **C07**: the holder changes only through `accept` (to the live pending account, which
authorizes) or through `renounce` (to nobody, authorized by the holder, refused while a
pending entry is live). No other call, by anyone, with any authorization, moves it. -/
theorem holder_changes_only_by_handshake (c : Cfg) (f : Flavor) (s s' : State) (auth : List Nat)
    (op : Op) (h : apply c f s auth op = .ok s') (hne : s'.holder ≠ s.holder) :
    (op = .accept ∧ ∃ p, Temp.get? s.pending s.now = some p ∧ p ∈ auth ∧ s'.holder = some p) ∨
    (op = .renounce ∧ s'.holder = none ∧ Temp.get? s.pending s.now = none ∧
      ∃ hd, s.holder = some hd ∧ hd ∈ auth) :=
  holder_change h hne

/-- **C07**: until acceptance the current holder keeps full control. Over any history without
an accepted accept / renounce the holder is unchanged, a holder-only function passes exactly
with the holder's authorization (whatever is pending), and the holder can replace the pending
offer by any offer within the lifetime bounds (after which exactly the new account, with the
new lifetime, is pending). -/
theorem holder_keeps_control_until_accept (c : Cfg) (f : Flavor) (s : State)
    (ops : List (List Nat × Op)) (hno : ∀ a ∈ ops, a.2.isHandover = false) :
    (run c f s ops).holder = s.holder ∧
    (∀ auth, (∃ s', guarded (run c f s ops) auth = .ok s') ↔ ∃ hd, s.holder = some hd ∧ hd ∈ auth) ∧
    (∀ auth hd new lu, s.holder = some hd → hd ∈ auth → lu ≠ 0 → (run c f s ops).now ≤ lu →
      lu ≤ c.maxLiveUntil (run c f s ops).now →
      ∃ s', offer c (run c f s ops) auth new lu = .ok s' ∧ s'.holder = s.holder ∧
        s'.pending = some ⟨new, max lu ((run c f s ops).now + c.minTempTtl - 1)⟩) := by
  have hh : (run c f s ops).holder = s.holder := by
    induction ops generalizing s with
    | nil => rfl
    | cons a as ih =>
      simp only [run, List.foldl_cons]
      have := ih (step c f s a) (fun b hb => hno b (List.mem_cons_of_mem a hb))
      simp only [run] at this
      rw [this]
      unfold step
      cases hx : apply c f s a.1 a.2 with
      | error e => rfl
      | ok s' =>
        simp only
        apply Classical.byContradiction
        intro hne
        have ha := hno a List.mem_cons_self
        rcases holder_changes_only_by_handshake c f s s' a.1 a.2 hx hne with ⟨e, -⟩ | ⟨e, -⟩ <;>
          rw [e] at ha <;> cases ha
  refine ⟨hh, ?_, ?_⟩
  · intro auth
    rw [← hh]
    constructor
    · rintro ⟨s', h⟩; exact (guarded_ok h).2
    · rintro ⟨hd, h1, h2⟩
      obtain ⟨hd', he⟩ := (enforceHolderAuth_iff _ auth).mpr ⟨hd, h1, h2⟩
      exact ⟨_, by unfold guarded; rw [he]; rfl⟩
  · intro auth hd new lu h1 h2 h3 h4 h5
    obtain ⟨hd', he⟩ := (enforceHolderAuth_iff (run c f s ops) auth).mpr ⟨hd, by rw [hh]; exact h1, h2⟩
    have ho : offer c (run c f s ops) auth new lu = .ok (emit { (run c f s ops) with
        pending := some ⟨new, max lu ((run c f s ops).now + c.minTempTtl - 1)⟩ } (.initiated hd' new lu)) := by
      unfold offer transferRole
      rw [he, if_neg h3, storePending_fresh_of_bounds c _ new lu h4 h5]
      rfl
    exact ⟨_, ho, hh, rfl⟩

/-- **C07**: renouncing is refused while an offer is pending: with an open offer whose
acceptance window has not passed (in particular: whose `live_until_ledger` has not passed),
`renounce` fails for every authorizing set. -/
theorem renounce_refused_while_pending (c : Cfg) (f : Flavor) (h0 : Option Nat) (start : Nat)
    (ops : List (List Nat × Op)) (o : Offer)
    (ho : (runG c f (initG h0 start) ops).g = some o)
    (hl : (runG c f (initG h0 start) ops).s.now ≤ o.lu) (auth : List Nat) :
    ∃ e, renounce (runG c f (initG h0 start) ops).s auth = .error e := by
  have hi := reachable_inv c f h0 start ops
  cases h : renounce (runG c f (initG h0 start) ops).s auth with
  | error e => exact ⟨e, rfl⟩
  | ok s' =>
    obtain ⟨hd, -, -, hg, -⟩ := renounce_ok h
    have hd : (runG c f (initG h0 start) ops).s.now ≤ deadline c o := by
      unfold deadline; omega
    rw [inv_get?_of_open hi ho hd] at hg
    cases hg

/-- **C07**: after the holder renounced nobody ever holds the role again: no offer, accept or
other call in any later history installs a holder. -/
theorem renounced_is_final (c : Cfg) (f : Flavor) (h0 : Option Nat) (start : Nat)
    (ops rest : List (List Nat × Op))
    (hn : (runG c f (initG h0 start) ops).s.holder = none) :
    (runG c f (initG h0 start) (ops ++ rest)).s.holder = none := by
  have hi := reachable_inv c f h0 start ops
  simp only [runG, List.foldl_append]
  exact holder_none_final c f rest _ hi hn

/-- **C07, offers**: an accepted offer is authorized by the current holder, its
`live_until_ledger` lies between the current ledger and the maximum lifetime, it leaves the
holder in place, and afterwards exactly the offered account is pending with the lifetime
`max lu (now + minTempTtl - 1)` — whatever was pending before (a replaced offer leaves no
trace). An accepted cancellation names the live pending account and clears it. -/
theorem offer_bounds (c : Cfg) (s s' : State) (auth : List Nat) (new lu : Nat)
    (h : offer c s auth new lu = .ok s') :
    (∃ hd, s.holder = some hd ∧ hd ∈ auth) ∧ s'.holder = s.holder ∧ s'.now = s.now ∧
    (lu ≠ 0 → s.now ≤ lu ∧ lu ≤ s.now + c.maxTtl - 1 ∧
      s'.pending = some ⟨new, max lu (s.now + c.minTempTtl - 1)⟩) ∧
    (lu = 0 → Temp.get? s.pending s.now = some new ∧ s'.pending = none) := by
  obtain ⟨hd, h1, h2, h3, h4, h5⟩ := offer_ok h
  refine ⟨⟨hd, h1, h2⟩, h3, h4, ?_, ?_⟩
  · intro hlu
    rcases h5 with ⟨h0, -⟩ | ⟨-, b1, b2, hp⟩
    · exact absurd h0 hlu
    · exact ⟨b1, b2, hp⟩
  · intro hlu
    rcases h5 with ⟨-, hg, hp⟩ | ⟨h0, -⟩
    · exact ⟨hg, hp⟩
    · exact absurd hlu h0

/-- with the minimum temporary lifetime 1 the pending entry of an accepted offer lives
exactly until the offer's `live_until_ledger` -/
theorem offer_liveUntil_min1 (c : Cfg) (hmin : c.minTempTtl = 1) (s s' : State) (auth : List Nat)
    (new lu : Nat) (hlu : lu ≠ 0) (h : offer c s auth new lu = .ok s') :
    s'.pending = some ⟨new, lu⟩ := by
  obtain ⟨-, -, -, hb, -⟩ := offer_bounds c s s' auth new lu h
  obtain ⟨b1, -, hp⟩ := hb hlu
  rw [hp, hmin]
  have : max lu (s.now + 1 - 1) = lu := by omega
  rw [this]

/-- a rejected call changes nothing (the host rolls it back) -/
theorem failed_no_effect (c : Cfg) (f : Flavor) (s : State) (auth : List Nat) (op : Op) (e : Err)
    (h : apply c f s auth op = .error e) : step c f s (auth, op) = s := by
  unfold step; simp only [h]

/-! ### the defect of the pinned tree (DESIGN.md section 8, defect 2), as a regression witness

`transfer_role` used to `set` on top of the live pending entry. Minimum temporary lifetime 1,
ledger 100: the owner 0 offers to 1 until 1100, then to 2 until 110; at ledger 500 account 2
accepts and becomes the owner, 390 ledgers after its offer expired. The fixed transition
refuses the same history. -/

def overrideOps : List (List Nat × Op) :=
  [([0], .offer 1 1100), ([0], .offer 2 110), ([], .advance 400), ([2], .accept)]

theorem transfer_role_override_counterexample :
    (runLegacy ⟨1, 200000⟩ .owner (init (some 0) 100) overrideOps).holder = some 2 ∧
    (runLegacy ⟨1, 200000⟩ .owner (init (some 0) 100) overrideOps).now = 500 ∧
    (runLegacy ⟨1, 200000⟩ .admin (init (some 0) 100) overrideOps).holder = some 2 := by decide

theorem transfer_role_override_fixed :
    (run ⟨1, 200000⟩ .owner (init (some 0) 100) overrideOps).holder = some 0 ∧
    (run ⟨1, 200000⟩ .admin (init (some 0) 100) overrideOps).holder = some 0 := by decide

/-! ### non-vacuity (tests, labelled as such) -/

/-- a non-trivial history: offer, replacement by a shorter offer, a refused renounce, a
rejected accept by the replaced account, accept by the invited one at the last ledger -/
def demoOps : List (List Nat × Op) :=
  [([0], .offer 1 1100), ([0], .offer 2 110), ([0], .renounce), ([], .advance 10), ([1], .accept)]

example : (runG ⟨1, 200000⟩ .owner (initG (some 0) 100) demoOps).g = some ⟨2, 110, 100, some 0, [0]⟩ ∧
    (runG ⟨1, 200000⟩ .owner (initG (some 0) 100) demoOps).s.holder = some 0 ∧
    (runG ⟨1, 200000⟩ .owner (initG (some 0) 100) demoOps).s.now = 110 := by decide

-- the hypothesis of `accept_requires_live_offer` is met at ledger 110 (and not at 111)
example : (accept .owner (runG ⟨1, 200000⟩ .owner (initG (some 0) 100) demoOps).s [2]).toOption.map (·.holder)
    = some (some 2) := by decide
example : (accept .admin (runG ⟨1, 200000⟩ .admin (initG (some 0) 100) (demoOps ++ [([], .advance 1)])).s [2]).toOption.map (·.holder)
    = none := by decide

-- minimum lifetime 16: an offer until 103 made at 100 is acceptable through 115, not at 116
example : (run ⟨16, 200000⟩ .owner (init (some 0) 100) [([0], .offer 1 103), ([], .advance 15), ([1], .accept)]).holder = some 1 ∧
    (run ⟨16, 200000⟩ .owner (init (some 0) 100) [([0], .offer 1 103), ([], .advance 16), ([1], .accept)]).holder = some 0 := by decide

-- hypotheses of `no_double_accept` / `renounce_refused_while_pending` / `renounced_is_final`
example : ∀ a ∈ [([0], Op.offer 1 0), ([1], Op.accept), ([], Op.advance 3)], a.2.isOffer = false := by decide
example : (runG ⟨1, 200000⟩ .owner (initG (some 0) 100) [([0], .renounce)]).s.holder = none := by decide

end OZ.RoleTransfer
