import OZ.Lemmas.RoleTransfer
import OZ.Model.RoleTransferMon
/-
C07 — soundness of the MONITOR that decides the property on implementation traces.

`./check C07` reports a concrete violation exactly when `OZ.RoleTransfer.Mon.checkCore` (the
driver's monitor on parsed values) returns a message on the implementation's observations.
Here it is proved that on the observations of the MODEL the monitor never returns a message,
for every configuration, flavour, start state and finite history
(`monitor_accepts_every_model_trace`).  Consequences:

  * an implementation whose observations agree with the model's (the correspondence the
    check establishes by differential testing) can never raise a monitor alarm — a monitor
    failure is never a false alarm of the monitor itself;
  * every conclusion the monitor evaluates (accept only for the open, live, authorized offer
    of the then-holder; no accept window beyond the deadline, also through the probe;
    renounce refused while an offer is live; holder-only calls; rollback of rejected calls;
    nothing changes by the passage of time) is a THEOREM about the model, in the monitor's
    own executable wording.

Property theorems only; helper facts come from OZ/Lemmas/RoleTransfer.lean.
-/
namespace OZ.RoleTransfer.Mon
open OZ.Host OZ.RoleTransfer

/-- the observation line the harness / the model driver print for a state -/
def modelObs (f : Flavor) (s : State) (ok : Bool) : Obs := ⟨ok, s.holder, pendNow f s, s.now⟩

/-- monitor state and (model state + ghost log) describe the same point of a history -/
structure Agree (c : Cfg) (f : Flavor) (m : Mon) (x : GS) : Prop where
  cfg : m.cfg = c
  g : m.g = x.g
  holder : m.holder = x.s.holder
  now : m.now = x.s.now
  pend : m.pend = pendNow f x.s

/-- whether the model accepts the call -/
def accepted (c : Cfg) (f : Flavor) (s : State) (a : List Nat × Op) : Bool :=
  match apply c f s a.1 a.2 with
  | .ok _ => true
  | .error _ => false

theorem stepG_s_of_ok {c : Cfg} {f : Flavor} {x : GS} {a : List Nat × Op} {s' : State}
    (h : apply c f x.s a.1 a.2 = .ok s') :
    stepG c f x a = ⟨s', ghostStep x.g x.s.holder x.s.now a.1 a.2 true⟩ ∧ accepted c f x.s a = true := by
  simp [stepG, accepted, h]

theorem stepG_s_of_err {c : Cfg} {f : Flavor} {x : GS} {a : List Nat × Op} {e : Err}
    (h : apply c f x.s a.1 a.2 = .error e) :
    stepG c f x a = ⟨x.s, ghostStep x.g x.s.holder x.s.now a.1 a.2 false⟩ ∧ accepted c f x.s a = false := by
  simp [stepG, accepted, h]

/-- the probe part of the monitor never fires on a state satisfying the invariant -/
theorem probe_quiet {c : Cfg} {f : Flavor} {x : GS} (hi : Inv c x) (p : Nat)
    (hp : pendNow f x.s = some p) :
    ∃ off, x.g = some off ∧ off.acct = p ∧ x.s.now ≤ deadline c off := by
  have : Temp.get? x.s.pending x.s.now = some p := by
    unfold pendNow at hp
    split at hp
    · cases hp
    · exact hp
  exact inv_get?_some hi this

/-- **one call**: fed with the model's own observation of any call (accepted or rejected), the
monitor reports nothing and its state keeps describing the model's -/
theorem monitor_sound_step (c : Cfg) (f : Flavor) {m : Mon} {x : GS} (hi : Inv c x)
    (ha : Agree c f m x) (a : List Nat × Op) :
    (checkCore m a.1 a.2 (modelObs f (stepG c f x a).s (accepted c f x.s a))).2 = none ∧
    Agree c f (checkCore m a.1 a.2 (modelObs f (stepG c f x a).s (accepted c f x.s a))).1 (stepG c f x a) := by
  obtain ⟨auth, op⟩ := a
  have hi' : Inv c (stepG c f x (auth, op)) := stepG_inv c f hi (auth, op)
  obtain ⟨hc, hg, hh, hn, hpd⟩ := ha
  -- the new monitor state agrees whatever the verdict
  have hagree : Agree c f (checkCore m auth op (modelObs f (stepG c f x (auth, op)).s (accepted c f x.s (auth, op)))).1
      (stepG c f x (auth, op)) := by
    refine ⟨hc, ?_, rfl, rfl, rfl⟩
    show ghostStep m.g m.holder m.now auth op (accepted c f x.s (auth, op)) = (stepG c f x (auth, op)).g
    rw [hg, hh, hn]
    unfold stepG accepted
    cases apply c f x.s auth op <;> rfl
  refine ⟨?_, hagree⟩
  -- the probe
  have hprobe : ∀ p, pendNow f (stepG c f x (auth, op)).s = some p →
      ∃ off, ghostStep m.g m.holder m.now auth op (accepted c f x.s (auth, op)) = some off ∧ off.acct = p ∧
        (stepG c f x (auth, op)).s.now ≤ deadline m.cfg off := by
    intro p hp
    obtain ⟨off, h1, h2, h3⟩ := probe_quiet hi' p hp
    exact ⟨off, by rw [hagree.g.symm] at h1; exact h1, h2, by rw [hc]; exact h3⟩
  have hprobe_none : probe m.cfg (ghostStep m.g m.holder m.now auth op (accepted c f x.s (auth, op)))
      (pendNow f (stepG c f x (auth, op)).s) (stepG c f x (auth, op)).s.now = none := by
    cases hp : pendNow f (stepG c f x (auth, op)).s with
    | none => rfl
    | some p =>
      obtain ⟨off, h1, h2, h3⟩ := hprobe p hp
      unfold probe
      simp only [h1]
      rw [if_neg (by simp [h2]), if_neg (by omega)]
  -- the verdict
  suffices hv : verdict m auth op (modelObs f (stepG c f x (auth, op)).s (accepted c f x.s (auth, op))) = none by
    show firstSome (verdict m auth op _) (probe m.cfg _ _ _) = none
    rw [hv]
    exact hprobe_none
  cases hx : apply c f x.s auth op with
  | error e =>
    obtain ⟨hs, hacc⟩ := stepG_s_of_err (a := (auth, op)) hx
    rw [hs, hacc]
    have hrej : verdict m auth op (modelObs f x.s false) = verdictRejected m auth op (modelObs f x.s false) := by
      unfold verdict; rw [if_pos (by simp [modelObs])]
    rw [hrej]
    unfold verdictRejected
    rw [if_neg (by simp [modelObs, hh]), if_neg (by simp [modelObs, hpd])]
    cases op with
    | guarded =>
      have : holderIn m.holder auth = false := by
        rw [hh]
        cases hhd : x.s.holder with
        | none => rfl
        | some h =>
          simp only [holderIn]
          cases hc' : auth.contains h with
          | false => rfl
          | true =>
            exfalso
            have hm : h ∈ auth := by simpa using hc'
            have : apply c f x.s auth .guarded = .ok x.s := by
              simp [apply, guarded, enforceHolderAuth, hhd, hm, bind, Except.bind, pure, Except.pure]
            rw [this] at hx; cases hx
      simp only [this]; rfl
    | offer n l =>
      simp only
      rw [if_neg]
      rintro ⟨hl, hin, hp⟩
      subst hl
      rw [hh] at hin
      rw [hpd] at hp
      cases hhd : x.s.holder with
      | none => rw [hhd] at hin; simp [holderIn] at hin
      | some h =>
        rw [hhd] at hin
        have hm : h ∈ auth := by simpa [holderIn] using hin
        have hget : Temp.get? x.s.pending x.s.now = some n := by
          unfold pendNow at hp
          rw [hhd] at hp
          cases f <;> exact hp
        have : apply c f x.s auth (.offer n 0) = .ok (emit { x.s with pending := none } (.initiated h n 0)) := by
          simp [apply, offer, enforceHolderAuth, hhd, hm, transferRole, cancelPending, hget, bind, Except.bind, pure, Except.pure]
        rw [this] at hx; cases hx
    | accept => rfl
    | renounce => rfl
    | advance n => rfl
  | ok s' =>
    obtain ⟨hs, hacc⟩ := stepG_s_of_ok (a := (auth, op)) hx
    rw [hs, hacc]
    have hok : verdict m auth op (modelObs f s' true) = verdictAccepted m auth op (modelObs f s' true) := by
      unfold verdict; rw [if_neg (by simp [modelObs])]
    rw [hok]
    cases op with
    | accept =>
      obtain ⟨p, hget, hpa, hh', -, -, -⟩ := accept_ok hx
      obtain ⟨off, hgo, hacct, hdl⟩ := inv_get?_some hi hget
      obtain ⟨-, -, -, ⟨h0, hth, hin⟩, hkeep⟩ := hi.wf off hgo
      subst hacct
      have e2 : holderIn off.holderThen off.auth = true := by
        rw [hth]; simpa [holderIn] using hin
      show verdictAccept m auth _ = none
      unfold verdictAccept
      rw [hg, hgo]
      simp only
      rw [if_neg (by simpa using hpa), if_neg (by simp [modelObs, hh']), if_neg (by simp [e2]),
        if_neg (by rw [hh, hkeep hdl]; simp), if_neg (by rw [hn, hc]; omega)]
    | renounce =>
      obtain ⟨hd, hhd, hin, hgp, -, -, hnow⟩ := renounce_ok hx
      have e1 : holderIn m.holder auth = true := by
        rw [hh, hhd]; simpa [holderIn] using hin
      have e3 : liveAt m.g m.now = false := by
        rw [hg, hn]
        cases hgo : x.g with
        | none => rfl
        | some off =>
          simp only [liveAt, decide_eq_false_iff_not]
          intro hl
          have hdl : x.s.now ≤ deadline c off := by unfold deadline; omega
          rw [inv_get?_of_open hi hgo hdl] at hgp
          cases hgp
      have hnone : s'.holder = none := by
        obtain ⟨_, _, h⟩ := bind_eq_ok hx
        obtain ⟨_, _, h⟩ := bind_eq_ok h
        injection h with h; subst h; rfl
      show verdictRenounce m auth _ = none
      unfold verdictRenounce
      rw [if_neg (by simp [e1]), if_neg (by simp [modelObs, hnone]), if_neg (by simp [e3])]
    | offer new lu =>
      obtain ⟨hd, hhd, hin, hsame, -, h5⟩ := offer_ok hx
      have e1 : holderIn m.holder auth = true := by
        rw [hh, hhd]; simpa [holderIn] using hin
      show verdictOffer m auth new lu _ = none
      unfold verdictOffer
      rw [if_neg (by simp [modelObs, hh, hsame]), if_neg (by simp [e1])]
      rcases h5 with ⟨h0, hcan, -⟩ | ⟨h0, b1, b2, -⟩
      · rw [if_pos h0]
        obtain ⟨off, hgo, hacct, -⟩ := inv_get?_some hi hcan
        unfold verdictCancel
        rw [hg, hgo]
        simp only
        rw [if_neg (by simp [hacct])]
      · rw [if_neg h0, if_neg (by rw [hn, hc]; omega)]
    | guarded =>
      obtain ⟨he, hd, hhd, hin⟩ := guarded_ok hx
      subst he
      have e1 : holderIn m.holder auth = true := by
        rw [hh, hhd]; simpa [holderIn] using hin
      show verdictGuarded m auth _ = none
      unfold verdictGuarded
      rw [if_neg (by simp [modelObs, hh]), if_neg (by simp [e1])]
    | advance n =>
      simp only [apply] at hx
      injection hx with hx; subst hx
      show verdictAdvance m _ = none
      unfold verdictAdvance
      rw [if_neg (by simp [modelObs, hh])]

/-- the monitor run over a whole history of model observations: first message, if any -/
def monitorRun (c : Cfg) (f : Flavor) : Mon → GS → List (List Nat × Op) → Option String
  | _, _, [] => none
  | m, x, a :: as =>
    match (checkCore m a.1 a.2 (modelObs f (stepG c f x a).s (accepted c f x.s a))).2 with
    | some msg => some msg
    | none => monitorRun c f (checkCore m a.1 a.2 (modelObs f (stepG c f x a).s (accepted c f x.s a))).1
        (stepG c f x a) as

/-- the monitor's initial state for a sequence (what `minit` builds from the label) -/
def monInit (c : Cfg) (holder : Option Nat) (start : Nat) : Mon :=
  { cfg := c, g := none, holder := holder, now := start, pend := none }

/-- **monitor soundness**: for every configuration, flavour, initial holder, start ledger and
finite history — any callers, any authorizing subsets, any offers, any ledger movement — the
monitor reports nothing on the model's observations -/
theorem monitor_accepts_every_model_trace (c : Cfg) (f : Flavor) (holder : Option Nat) (start : Nat)
    (ops : List (List Nat × Op)) :
    monitorRun c f (monInit c holder start) (initG holder start) ops = none := by
  suffices ∀ m x, Inv c x → Agree c f m x → monitorRun c f m x ops = none from
    this _ _ (init_inv c holder start)
      ⟨rfl, rfl, rfl, rfl, by
        show none = pendNow f (init holder start)
        unfold pendNow init
        cases f <;> cases holder <;> rfl⟩
  induction ops with
  | nil => intro m x _ _; rfl
  | cons a as ih =>
    intro m x hi ha
    obtain ⟨h1, h2⟩ := monitor_sound_step c f hi ha a
    unfold monitorRun
    rw [h1]
    exact ih _ _ (stepG_inv c f hi a) h2

/-! ### non-vacuity (tests, labelled as such): the monitor is not trivially silent — on the
observation the legacy transition produced (offer(1, 1100); offer(2, 110) at ledger 100; account 2
accepts at ledger 500 — `transfer_role_override_counterexample` in OZ/Props/C07.lean) it reports
the expired accept -/

example :
    (checkCore { cfg := ⟨1, 200000⟩, g := some ⟨2, 110, 100, some 0, [0]⟩, holder := some 0, now := 500,
                 pend := some 2 } [2] .accept ⟨true, some 2, none, 500⟩).2.isSome = true := by
  simp [checkCore, firstSome, verdict, verdictAccepted, verdictAccept, deadline, holderIn]

end OZ.RoleTransfer.Mon
