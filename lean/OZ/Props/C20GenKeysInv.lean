import OZ.Props.C20GenKeys
/-
C20 — the claim issuer's signing-key registry (continued): `remove_key` exactly, and the two-way relation between the
per-topic key lists and the per-key (topic, registry) lists over EVERY history, on the code regenerated from
/repo's current `rwa/claim_issuer/storage.rs` (`lean/OZ/Gen/Keys.lean`).

`gen_remove_key_iff`: `remove_key` is accepted exactly when the (topic, registry) pair is listed for the key (and, when
no other pair of the key carries the topic, the key is in the topic's list); it removes that pair — deleting the key's
entry when it was the last — and removes the key from the topic's list exactly when no other pair of the key carries
the topic — deleting the topic's entry when it was the last key.
`Inv` (a key is in a topic's list iff the key has some pair for that topic; both kinds of list duplicate-free) holds
after every finite history of allow_key / remove_key calls, accepted or not, from the empty store (`run_inv`), hence
`gen_key_allowed_iff_authorized`: the getter `is_key_allowed_for_topic` answers true exactly when some authorisation
(topic, registry) of the key is currently recorded. `run_bounded`: over every history no topic lists more than 50 keys
and no key holds more than 20 pairs. `run_noEmpty`: no stored entry is ever an empty list (the writers delete instead), hence
`gen_get_keys_for_topic`: the getter answers the topic's list when a key is allowed for it and traps exactly when none is.
Property theorems only.
-/
namespace OZ.Gen.Keys
open OZ.Rs

theorem findIdx_erase {α : Type} [DecidableEq α] [BEq α] [LawfulBEq α] (l : List α) (x : α) (i : Nat)
    (hi : List.findIdx? (fun y => decide (y = x)) l = some i) :
    l.eraseIdx i = l.erase x ∧ i < l.length ∧ x ∈ l := by
  induction l generalizing i with
  | nil => simp at hi
  | cons a r ih =>
    by_cases ha : a = x
    · simp only [List.findIdx?_cons, ha, decide_true, ↓reduceIte, Option.some.injEq] at hi
      subst hi; subst ha
      simp
    · simp only [List.findIdx?_cons, ha, decide_false, Bool.false_eq_true, ↓reduceIte, Option.map_eq_some_iff] at hi
      obtain ⟨j, hj, rfl⟩ := hi
      obtain ⟨h1, h2, h3⟩ := ih j hj
      refine ⟨?_, ?_, ?_⟩
      · rw [List.eraseIdx_cons_succ, h1, List.erase_cons_tail]
        simpa using ha
      · simp only [List.length_cons]; omega
      · exact List.mem_cons_of_mem _ h3

theorem findIdx_none {α : Type} [DecidableEq α] (l : List α) (x : α)
    (h : List.findIdx? (fun y => decide (y = x)) l = none) : x ∉ l := by
  induction l with
  | nil => simp
  | cons a r ih =>
    by_cases ha : a = x
    · simp [List.findIdx?_cons, ha] at h
    · simp only [List.findIdx?_cons, ha, decide_false, Bool.false_eq_true, ↓reduceIte, Option.map_eq_none_iff] at h
      simp only [List.mem_cons, not_or]
      exact ⟨fun e => ha e.symm, ih h⟩

/-- the store after an accepted `remove_key` -/
def removed (st : Keys.Store) (pk : List Nat) (reg sc t : Nat) : Keys.Store :=
  let ps := (pairsOf st ⟨pk, sc⟩).erase (t, reg)
  let st1 := if ps.isEmpty then Keys.Store.del_Pairs st ⟨pk, sc⟩ else Keys.Store.set_Pairs st ⟨pk, sc⟩ ps
  if ps.any (fun p => decide (p.1 = t)) then st1
  else
    let ks := (topicKeys st t).erase ⟨pk, sc⟩
    if ks.isEmpty then Keys.Store.del_Topics st1 t else Keys.Store.set_Topics st1 t ks

/-- **`remove_key`, exactly** -/
theorem gen_remove_key_iff (envr : Keys.Reads) (st : Keys.Store) (pk : List Nat) (reg sc t : Nat) :
    Keys.remove_key envr st pk reg sc t =
      if (t, reg) ∈ pairsOf st ⟨pk, sc⟩ ∧
          ((((pairsOf st ⟨pk, sc⟩).erase (t, reg)).any (fun p => decide (p.1 = t)) = true) ∨
            (⟨pk, sc⟩ : Keys.SigningKey) ∈ topicKeys st t)
      then .ok ((), removed st pk reg sc t) else .panic := by
  unfold Keys.remove_key removed
  cases hp : st.Pairs ⟨pk, sc⟩ with
  | none => simp [pairsOf, hp, Comp.unwrap]
  | some v1 =>
    have hpo : pairsOf st ⟨pk, sc⟩ = v1 := by simp [pairsOf, hp]
    simp only [Comp.unwrap, hpo]
    cases hf : List.findIdx? (fun y => decide (y = (t, reg))) v1 with
    | none =>
      have := findIdx_none _ _ hf
      simp [this]
    | some pos =>
      obtain ⟨he, hlt, hm⟩ := findIdx_erase _ _ _ hf
      simp only [optCase_some, hlt, ↓reduceIte, he, hm, true_and]
      have hT1 : (Keys.Store.del_Pairs st ⟨pk, sc⟩).Topics t = st.Topics t := rfl
      have hT2 : (Keys.Store.set_Pairs st ⟨pk, sc⟩ (v1.erase (t, reg))).Topics t = st.Topics t := rfl
      simp only [hT1, hT2]
      by_cases hany : (v1.erase (t, reg)).any (fun p => decide (p.1 = t)) = true
      · simp only [hany, ↓reduceIte, true_or]
        by_cases hem : (v1.erase (t, reg)).isEmpty = true <;> simp only [hem, ↓reduceIte] <;> rfl
      · simp only [hany, Bool.false_eq_true, ↓reduceIte, false_or]
        cases ht : st.Topics t with
        | none =>
          have : topicKeys st t = [] := by simp [topicKeys, ht]
          simp [this]
        | some v5 =>
          have hto : topicKeys st t = v5 := by simp [topicKeys, ht]
          simp only [hto]
          cases hf2 : List.findIdx? (fun y => decide (y = (⟨pk, sc⟩ : Keys.SigningKey))) v5 with
          | none =>
            have := findIdx_none _ _ hf2
            simp [this]
          | some i =>
            obtain ⟨he2, hlt2, hm2⟩ := findIdx_erase _ _ _ hf2
            simp only [hlt2, ↓reduceIte, he2, hm2]
            by_cases hem : (v1.erase (t, reg)).isEmpty = true <;>
              by_cases hem2 : (v5.erase (⟨pk, sc⟩ : Keys.SigningKey)).isEmpty = true <;>
              simp only [hem, hem2, ↓reduceIte, Bool.false_eq_true] <;> rfl

/-! ### what the two writers do to the two families of lists -/

theorem pairsOf_allowed (st : Keys.Store) (pk : List Nat) (reg sc t : Nat) (k' : Keys.SigningKey) :
    pairsOf (allowed st pk reg sc t) k' =
      if k' = ⟨pk, sc⟩ then pairsOf st ⟨pk, sc⟩ ++ [(t, reg)] else pairsOf st k' := by
  unfold allowed pairsOf
  by_cases hk : k' = ⟨pk, sc⟩
  · simp [hk, Keys.Store.set_Pairs]
  · by_cases hm : (⟨pk, sc⟩ : Keys.SigningKey) ∈ topicKeys st t <;>
      simp [hk, hm, Keys.Store.set_Pairs, Keys.Store.set_Topics]

theorem topicKeys_allowed (st : Keys.Store) (pk : List Nat) (reg sc t t' : Nat) :
    topicKeys (allowed st pk reg sc t) t' =
      if t' = t ∧ (⟨pk, sc⟩ : Keys.SigningKey) ∉ topicKeys st t then topicKeys st t ++ [⟨pk, sc⟩]
      else topicKeys st t' := by
  unfold allowed topicKeys
  by_cases hm : (⟨pk, sc⟩ : Keys.SigningKey) ∈ (st.Topics t).getD []
  · simp [hm, Keys.Store.set_Pairs]
  · by_cases ht : t' = t
    · subst ht; simp [hm, Keys.Store.set_Pairs, Keys.Store.set_Topics]
    · simp [hm, ht, Keys.Store.set_Pairs, Keys.Store.set_Topics]

theorem pairsOf_removed (st : Keys.Store) (pk : List Nat) (reg sc t : Nat) (k' : Keys.SigningKey) :
    pairsOf (removed st pk reg sc t) k' =
      if k' = ⟨pk, sc⟩ then (pairsOf st ⟨pk, sc⟩).erase (t, reg) else pairsOf st k' := by
  unfold removed pairsOf topicKeys
  generalize ((st.Pairs ⟨pk, sc⟩).getD []).erase (t, reg) = ps
  generalize ((st.Topics t).getD []).erase (⟨pk, sc⟩ : Keys.SigningKey) = ks
  by_cases hk : k' = ⟨pk, sc⟩
  · subst hk
    cases ps <;> cases ks <;>
      simp only [List.isEmpty_nil, List.isEmpty_cons, List.any_nil, ↓reduceIte, Bool.false_eq_true] <;>
      (try split) <;>
      simp [Keys.Store.set_Pairs, Keys.Store.del_Pairs, Keys.Store.del_Topics, Keys.Store.set_Topics]
  · cases ps <;> cases ks <;>
      simp only [List.isEmpty_nil, List.isEmpty_cons, List.any_nil, ↓reduceIte, Bool.false_eq_true] <;>
      (try split) <;>
      simp [hk, Keys.Store.set_Pairs, Keys.Store.del_Pairs, Keys.Store.del_Topics, Keys.Store.set_Topics] <;>
      (try (exact absurd ‹k' = _› hk))

theorem topicKeys_removed (st : Keys.Store) (pk : List Nat) (reg sc t t' : Nat) :
    topicKeys (removed st pk reg sc t) t' =
      if t' = t ∧ ¬ (((pairsOf st ⟨pk, sc⟩).erase (t, reg)).any (fun p => decide (p.1 = t)) = true)
      then (topicKeys st t).erase ⟨pk, sc⟩ else topicKeys st t' := by
  unfold removed pairsOf topicKeys
  generalize ((st.Pairs ⟨pk, sc⟩).getD []).erase (t, reg) = ps
  generalize ((st.Topics t).getD []).erase (⟨pk, sc⟩ : Keys.SigningKey) = ks
  by_cases hany : ps.any (fun p => decide (p.1 = t)) = true
  · simp only [hany, ↓reduceIte, not_true_eq_false, and_false]
    split <;> simp [Keys.Store.set_Pairs, Keys.Store.del_Pairs]
  · simp only [hany, Bool.false_eq_true, ↓reduceIte, not_false_eq_true, and_true]
    by_cases ht : t' = t
    · subst ht
      cases ps <;> cases ks <;>
        simp [Keys.Store.set_Pairs, Keys.Store.del_Pairs, Keys.Store.del_Topics, Keys.Store.set_Topics]
    · cases ps <;> cases ks <;>
        simp [ht, Keys.Store.set_Pairs, Keys.Store.del_Pairs, Keys.Store.del_Topics, Keys.Store.set_Topics]

/-! ### the two-way relation over every history -/

/-- a key is in a topic's list exactly when the key holds some (topic, registry) pair for that topic; no list holds
an entry twice -/
structure Inv (st : Keys.Store) : Prop where
  two_way : ∀ k t, k ∈ topicKeys st t ↔ ∃ r, (t, r) ∈ pairsOf st k
  nd_pairs : ∀ k, (pairsOf st k).Nodup
  nd_topics : ∀ t, (topicKeys st t).Nodup

theorem any_topic_iff (l : List (Nat × Nat)) (t : Nat) :
    (l.any (fun p => decide (p.1 = t)) = true) ↔ ∃ r, (t, r) ∈ l := by
  simp only [List.any_eq_true, decide_eq_true_eq]
  constructor
  · rintro ⟨⟨a, b⟩, hm, rfl⟩; exact ⟨b, hm⟩
  · rintro ⟨r, hm⟩; exact ⟨(t, r), hm, rfl⟩

theorem allowed_inv {st : Keys.Store} (h : Inv st) (pk : List Nat) (reg sc t : Nat)
    (hnew : (t, reg) ∉ pairsOf st ⟨pk, sc⟩) : Inv (allowed st pk reg sc t) := by
  refine ⟨?_, ?_, ?_⟩
  · intro k' t'
    rw [pairsOf_allowed, topicKeys_allowed]
    by_cases hk : k' = ⟨pk, sc⟩
    · subst hk
      simp only [↓reduceIte, List.mem_append, List.mem_singleton]
      by_cases ht : t' = t
      · subst ht
        by_cases hm : (⟨pk, sc⟩ : Keys.SigningKey) ∈ topicKeys st t'
        · simp only [hm, not_true_eq_false, and_false, ↓reduceIte, true_iff]
          exact ⟨reg, Or.inr rfl⟩
        · simp only [hm, not_false_eq_true, and_self, ↓reduceIte, List.mem_append, List.mem_singleton, or_true, true_iff]
          exact ⟨reg, Or.inr rfl⟩
      · simp only [ht, false_and, ↓reduceIte]
        rw [h.two_way]
        constructor
        · rintro ⟨r, hr⟩; exact ⟨r, Or.inl hr⟩
        · rintro ⟨r, hr | hr⟩
          · exact ⟨r, hr⟩
          · exact absurd (Prod.mk.inj hr).1 ht
    · simp only [hk, ↓reduceIte]
      split
      · rename_i hc
        simp only [List.mem_append, List.mem_singleton, hk, or_false]
        rw [hc.1]; exact h.two_way k' t
      · exact h.two_way k' t'
  · intro k'
    rw [pairsOf_allowed]
    split
    · rename_i hk
      refine List.nodup_append.mpr ⟨h.nd_pairs _, by simp, ?_⟩
      intro a ha b hb
      simp only [List.mem_singleton] at hb
      subst hb
      intro e; subst e; exact hnew ha
    · exact h.nd_pairs k'
  · intro t'
    rw [topicKeys_allowed]
    split
    · rename_i hc
      refine List.nodup_append.mpr ⟨h.nd_topics _, by simp, ?_⟩
      intro a ha b hb
      simp only [List.mem_singleton] at hb
      subst hb
      intro e; subst e; exact hc.2 ha
    · exact h.nd_topics t'

theorem removed_inv {st : Keys.Store} (h : Inv st) (pk : List Nat) (reg sc t : Nat) :
    Inv (removed st pk reg sc t) := by
  have hmem : ∀ x, x ∈ (pairsOf st ⟨pk, sc⟩).erase (t, reg) ↔ (x ≠ (t, reg) ∧ x ∈ pairsOf st ⟨pk, sc⟩) :=
    fun x => (h.nd_pairs _).mem_erase_iff
  have hmemk : ∀ (t' : Nat) (x : Keys.SigningKey),
      x ∈ (topicKeys st t').erase ⟨pk, sc⟩ ↔ (x ≠ ⟨pk, sc⟩ ∧ x ∈ topicKeys st t') :=
    fun t' x => (h.nd_topics _).mem_erase_iff
  refine ⟨?_, ?_, ?_⟩
  · intro k' t'
    simp only [pairsOf_removed, topicKeys_removed]
    by_cases hk : k' = ⟨pk, sc⟩
    · subst hk
      simp only [↓reduceIte]
      by_cases ht : t' = t
      · subst ht
        by_cases hany : ((pairsOf st ⟨pk, sc⟩).erase (t', reg)).any (fun p => decide (p.1 = t')) = true
        · simp only [hany, not_true_eq_false, and_false, ↓reduceIte]
          have hex := (any_topic_iff _ _).mp hany
          refine ⟨fun _ => hex, fun _ => ?_⟩
          obtain ⟨r, hr⟩ := hex
          exact (h.two_way _ _).mpr ⟨r, ((hmem _).mp hr).2⟩
        · simp only [hany, Bool.false_eq_true, not_false_eq_true, and_self, ↓reduceIte]
          rw [hmemk]
          constructor
          · intro hc; exact absurd rfl hc.1
          · intro hex; exact absurd ((any_topic_iff _ _).mpr hex) hany
      · simp only [ht, false_and, ↓reduceIte]
        rw [h.two_way]
        constructor
        · rintro ⟨r, hr⟩
          refine ⟨r, (hmem _).mpr ⟨?_, hr⟩⟩
          intro e; exact ht (Prod.mk.inj e).1
        · rintro ⟨r, hr⟩; exact ⟨r, ((hmem _).mp hr).2⟩
    · simp only [hk, ↓reduceIte]
      split
      · rename_i hc
        rw [hmemk, hc.1]
        simp only [ne_eq, hk, not_false_eq_true, true_and]
        exact h.two_way k' t
      · exact h.two_way k' t'
  · intro k'
    rw [pairsOf_removed]
    split
    · exact (h.nd_pairs _).erase _
    · exact h.nd_pairs k'
  · intro t'
    rw [topicKeys_removed]
    split
    · exact (h.nd_topics _).erase _
    · exact h.nd_topics t'

inductive Op where
  | allow (pk : List Nat) (reg sc t : Nat)
  | remove (pk : List Nat) (reg sc t : Nat)

/-- one call of the generated code; a refused call (panic) is rolled back by the host -/
def step (envr : Keys.Reads) (st : Keys.Store) : Op → Keys.Store
  | .allow pk reg sc t => match Keys.allow_key envr st pk reg sc t with
      | .ok (_, st') => st'
      | .panic => st
  | .remove pk reg sc t => match Keys.remove_key envr st pk reg sc t with
      | .ok (_, st') => st'
      | .panic => st

theorem step_allow_eq (envr : Keys.Reads) (st : Keys.Store) (pk : List Nat) (reg sc t : Nat) :
    step envr st (.allow pk reg sc t) =
      if pk ≠ [] ∧ envr.ClaimTopicsAndIssuersClient_has_claim_topic reg envr.current_contract_address t = .ok true ∧
          ((⟨pk, sc⟩ : Keys.SigningKey) ∈ topicKeys st t ∨ (topicKeys st t).length < 50) ∧
          (t, reg) ∉ pairsOf st ⟨pk, sc⟩ ∧ (pairsOf st ⟨pk, sc⟩).length < 20
      then allowed st pk reg sc t else st := by
  simp only [step, gen_allow_key_iff]
  split <;> rename_i heq <;> split <;> rename_i hc <;>
    first
    | (rw [if_pos hc] at heq; cases heq; rfl)
    | (rw [if_neg hc] at heq; cases heq)
    | (rw [if_pos hc] at heq; cases heq)
    | rfl

theorem step_remove_eq (envr : Keys.Reads) (st : Keys.Store) (pk : List Nat) (reg sc t : Nat) :
    step envr st (.remove pk reg sc t) =
      if (t, reg) ∈ pairsOf st ⟨pk, sc⟩ ∧
          ((((pairsOf st ⟨pk, sc⟩).erase (t, reg)).any (fun p => decide (p.1 = t)) = true) ∨
            (⟨pk, sc⟩ : Keys.SigningKey) ∈ topicKeys st t)
      then removed st pk reg sc t else st := by
  simp only [step, gen_remove_key_iff]
  split <;> rename_i heq <;> split <;> rename_i hc <;>
    first
    | (rw [if_pos hc] at heq; cases heq; rfl)
    | (rw [if_neg hc] at heq; cases heq)
    | (rw [if_pos hc] at heq; cases heq)
    | rfl

theorem step_inv (envr : Keys.Reads) {st : Keys.Store} (h : Inv st) (op : Op) : Inv (step envr st op) := by
  cases op with
  | allow pk reg sc t =>
    rw [step_allow_eq]
    split
    · rename_i hc; exact allowed_inv h pk reg sc t hc.2.2.2.1
    · exact h
  | remove pk reg sc t =>
    rw [step_remove_eq]
    split
    · exact removed_inv h pk reg sc t
    · exact h

def emptyStore : Keys.Store := ⟨fun _ => none, fun _ => none⟩

theorem empty_inv : Inv emptyStore :=
  ⟨fun k t => by simp [topicKeys, pairsOf, emptyStore], fun k => by simp [pairsOf, emptyStore],
   fun t => by simp [topicKeys, emptyStore]⟩

/-- **every history**: after any finite sequence of allow_key / remove_key calls (accepted or refused, any arguments,
any behaviour of the registry) from a fresh issuer the two families of lists agree -/
theorem run_inv (envr : Keys.Reads) (ops : List Op) : Inv (ops.foldl (step envr) emptyStore) := by
  suffices ∀ st, Inv st → Inv (ops.foldl (step envr) st) from this _ empty_inv
  induction ops with
  | nil => intro st h; exact h
  | cons op r ih => intro st h; exact ih _ (step_inv envr h op)

/-- **both directions of the key/topic relation, on the generated code**: after every history the getter
`is_key_allowed_for_topic` answers true exactly when some (topic, registry) authorisation of that key is recorded
(granted by an accepted `allow_key` and not yet removed) -/
theorem gen_key_allowed_iff_authorized (envr : Keys.Reads) (ops : List Op) (pk : List Nat) (sc t : Nat) :
    Keys.is_key_allowed_for_topic envr (ops.foldl (step envr) emptyStore) pk sc t = .ok true ↔
      ∃ r, (t, r) ∈ pairsOf (ops.foldl (step envr) emptyStore) ⟨pk, sc⟩ := by
  rw [is_key_allowed_for_topic_eq, ← (run_inv envr ops).two_way]
  simp

/-! ### the documented limits over every history -/

/-- at most `MAX_KEYS_PER_TOPIC` (50) keys per topic and `MAX_REGISTRIES_PER_KEY` (20) pairs per key -/
def Bounded (st : Keys.Store) : Prop :=
  (∀ t, (topicKeys st t).length ≤ 50) ∧ (∀ k, (pairsOf st k).length ≤ 20)

theorem step_bounded (envr : Keys.Reads) {st : Keys.Store} (h : Bounded st) (op : Op) : Bounded (step envr st op) := by
  cases op with
  | allow pk reg sc t =>
    rw [step_allow_eq]
    split
    · rename_i hc
      refine ⟨fun t' => ?_, fun k' => ?_⟩
      · rw [topicKeys_allowed]
        split
        · rename_i hn
          have := hc.2.2.1
          rcases this with hm | hl
          · exact absurd hm hn.2
          · simp only [List.length_append, List.length_cons, List.length_nil]; omega
        · exact h.1 t'
      · rw [pairsOf_allowed]
        split
        · have := hc.2.2.2.2
          simp only [List.length_append, List.length_cons, List.length_nil]; omega
        · exact h.2 k'
    · exact h
  | remove pk reg sc t =>
    rw [step_remove_eq]
    split
    · refine ⟨fun t' => ?_, fun k' => ?_⟩
      · rw [topicKeys_removed]
        split
        · exact Nat.le_trans (List.length_erase_le) (h.1 t)
        · exact h.1 t'
      · rw [pairsOf_removed]
        split
        · exact Nat.le_trans (List.length_erase_le) (h.2 _)
        · exact h.2 k'
    · exact h

/-- **limits, every history**: no topic ever lists more than 50 keys, no key ever holds more than 20 pairs -/
theorem run_bounded (envr : Keys.Reads) (ops : List Op) : Bounded (ops.foldl (step envr) emptyStore) := by
  suffices ∀ st, Bounded st → Bounded (ops.foldl (step envr) st) from
    this _ ⟨fun t => by simp [topicKeys, emptyStore], fun k => by simp [pairsOf, emptyStore]⟩
  induction ops with
  | nil => intro st h; exact h
  | cons op r ih => intro st h; exact ih _ (step_bounded envr h op)

/-! ### no empty entry lingers -/

/-- storage hygiene: an entry that exists is never an empty list (the writers delete instead of storing `[]`) -/
def NoEmpty (st : Keys.Store) : Prop :=
  (∀ t, st.Topics t ≠ some []) ∧ (∀ k, st.Pairs k ≠ some [])

theorem allowed_noEmpty {st : Keys.Store} (h : NoEmpty st) (pk : List Nat) (reg sc t : Nat) :
    NoEmpty (allowed st pk reg sc t) := by
  unfold allowed
  refine ⟨fun t' => ?_, fun k' => ?_⟩
  · by_cases hm : (⟨pk, sc⟩ : Keys.SigningKey) ∈ topicKeys st t
    · simp only [hm, ↓reduceIte, Keys.Store.set_Pairs]; exact h.1 t'
    · simp only [hm, ↓reduceIte, Keys.Store.set_Pairs, Keys.Store.set_Topics]
      by_cases ht : t' = t
      · simp [ht]
      · simp only [ht, ↓reduceIte]; exact h.1 t'
  · by_cases hk : k' = ⟨pk, sc⟩
    · simp [hk, Keys.Store.set_Pairs]
    · by_cases hm : (⟨pk, sc⟩ : Keys.SigningKey) ∈ topicKeys st t <;>
        simp only [hm, ↓reduceIte, Keys.Store.set_Pairs, Keys.Store.set_Topics, hk] <;> exact h.2 k'

theorem removed_noEmpty {st : Keys.Store} (h : NoEmpty st) (pk : List Nat) (reg sc t : Nat) :
    NoEmpty (removed st pk reg sc t) := by
  unfold removed
  generalize (pairsOf st ⟨pk, sc⟩).erase (t, reg) = ps
  generalize (topicKeys st t).erase (⟨pk, sc⟩ : Keys.SigningKey) = ks
  refine ⟨fun t' => ?_, fun k' => ?_⟩
  · by_cases ht : t' = t
    · cases ps <;> cases ks <;>
        simp only [List.isEmpty_nil, List.isEmpty_cons, List.any_nil, ↓reduceIte, Bool.false_eq_true] <;>
        (try split) <;>
        simp [ht, Keys.Store.set_Pairs, Keys.Store.del_Pairs, Keys.Store.del_Topics, Keys.Store.set_Topics] <;>
        exact h.1 t
    · cases ps <;> cases ks <;>
        simp only [List.isEmpty_nil, List.isEmpty_cons, List.any_nil, ↓reduceIte, Bool.false_eq_true] <;>
        (try split) <;>
        simp [ht, Keys.Store.set_Pairs, Keys.Store.del_Pairs, Keys.Store.del_Topics, Keys.Store.set_Topics] <;>
        exact h.1 t'
  · by_cases hk : k' = ⟨pk, sc⟩
    · cases ps <;> cases ks <;>
        simp only [List.isEmpty_nil, List.isEmpty_cons, List.any_nil, ↓reduceIte, Bool.false_eq_true] <;>
        (try split) <;>
        simp [hk, Keys.Store.set_Pairs, Keys.Store.del_Pairs, Keys.Store.del_Topics, Keys.Store.set_Topics]
    · cases ps <;> cases ks <;>
        simp only [List.isEmpty_nil, List.isEmpty_cons, List.any_nil, ↓reduceIte, Bool.false_eq_true] <;>
        (try split) <;>
        simp [hk, Keys.Store.set_Pairs, Keys.Store.del_Pairs, Keys.Store.del_Topics, Keys.Store.set_Topics] <;>
        exact h.2 k'

theorem step_noEmpty (envr : Keys.Reads) {st : Keys.Store} (h : NoEmpty st) (op : Op) : NoEmpty (step envr st op) := by
  cases op with
  | allow pk reg sc t => rw [step_allow_eq]; split; exact allowed_noEmpty h pk reg sc t; exact h
  | remove pk reg sc t => rw [step_remove_eq]; split; exact removed_noEmpty h pk reg sc t; exact h

theorem run_noEmpty (envr : Keys.Reads) (ops : List Op) : NoEmpty (ops.foldl (step envr) emptyStore) := by
  suffices ∀ st, NoEmpty st → NoEmpty (ops.foldl (step envr) st) from
    this _ ⟨fun t => by simp [emptyStore], fun k => by simp [emptyStore]⟩
  induction ops with
  | nil => intro st h; exact h
  | cons op r ih => intro st h; exact ih _ (step_noEmpty envr h op)

/-- **`get_keys_for_topic` over every history**: it answers the topic's key list when some key is allowed for the topic
and traps (`KeysNotFound`) exactly when none is -/
theorem gen_get_keys_for_topic (envr : Keys.Reads) (ops : List Op) (t : Nat) :
    let st := ops.foldl (step envr) emptyStore
    (topicKeys st t ≠ [] → Keys.get_keys_for_topic envr st t = .ok (topicKeys st t)) ∧
    (topicKeys st t = [] → Keys.get_keys_for_topic envr st t = .panic) := by
  intro st
  have hne := (run_noEmpty envr ops).1 t
  unfold Keys.get_keys_for_topic topicKeys
  cases hT : st.Topics t with
  | none => simp [Comp.unwrap]
  | some l =>
    have : l ≠ [] := fun e => hne (by rw [hT, e])
    simp [Comp.unwrap, this]

/-- non-vacuity: allow then remove on the witness environment of C20GenKeys returns to the empty lists -/
example : let st := [Op.allow [7] 4 0 1, Op.remove [7] 4 0 1].foldl (step envr0) emptyStore
    topicKeys st 1 = [] ∧ pairsOf st ⟨[7], 0⟩ = [] := by decide
example : let st := [Op.allow [7] 4 0 1].foldl (step envr0) emptyStore
    topicKeys st 1 = [⟨[7], 0⟩] ∧ pairsOf st ⟨[7], 0⟩ = [(1, 4)] := by decide

end OZ.Gen.Keys
