import OZ.Lemmas.MulDiv
/-
C12 — Fixed-point mul-div is exact for every input and fails only when it must.

Property theorems only (helper lemmas live in OZ/Lemmas). All statements quantify over
every `x y d` in the i128 (resp. I256) range; no bound, no sampling.

`spec128 err rd x y d` (OZ/Model/MulDiv.lean) is the property's right-hand side: the
exactly rounded quotient `Int.fdiv / Int.cdiv / Int.tdiv (x*y) d` when `d ≠ 0` and it fits
in i128, and the error outcome `err` otherwise.
-/
namespace OZ.MulDiv

theorem in128_in256 {v : Int} (h : in128 v) : in256 v := by
  unfold in128 in256 I128_MIN I128_MAX I256_MIN I256_MAX at *; omega

/-- the exactly rounded quotient of a product of two i128 values always fits in 256 bits -/
theorem exactQ_in256 (rd : Rounding) (x y d : Int) (hx : in128 x) (hy : in128 y) (hd0 : d ≠ 0) :
    in256 (exactQ rd x y d) := by
  have hb := mul_in128_bound x y hx hy
  unfold exactQ
  generalize x * y = r at *
  obtain ⟨h1, h2, h3, h4, t1, t2, t3, f1, f2, c1, c2, b1, b2, z0⟩ := div_lin r d hd0
  generalize Int.tdiv r d = t at *
  generalize Int.fdiv r d = f at *
  generalize Int.cdiv r d = c at *
  generalize r % d = m at *
  generalize r / d = q at *
  unfold in256 I256_MIN I256_MAX
  cases rd
  · show _ ≤ f ∧ f ≤ _
    clear h1 h3 h4 c1 c2 z0; omega
  · show _ ≤ c ∧ c ≤ _
    clear h1 h3 h4 f1 f2 z0; omega
  · show _ ≤ t ∧ t ≤ _
    clear h1 h3 h4 f1 f2 c1 c2 z0 t1 t2 t3; omega

/-- **C12, i128 plain variants** (`mul_div_i128`, `mul_div_floor/ceil`, `mul_div`):
exact rounded quotient whenever `d ≠ 0` and it fits — also when `x*y` overflows i128 —
and a panic exactly otherwise. -/
theorem mul_div_i128_spec (rd : Rounding) (x y d : Int)
    (hx : in128 x) (hy : in128 y) (_hd : in128 d) :
    mulDiv128 rd x y d = spec128 .panic rd x y d := by
  unfold mulDiv128 spec128
  by_cases hd0 : d = 0
  · simp only [hd0, if_true]
  simp only [hd0, if_false]
  unfold checkedMul128 chk128
  by_cases hp : in128 (x * y)
  · rw [if_pos hp]
    cases rd
    · show (divFloor128 (x * y) d).orPanic = _
      rw [divFloor128_spec _ _ hp hd0]; unfold exactQ
      by_cases h : in128 (Int.fdiv (x * y) d)
      · rw [if_pos h, if_pos h]; rfl
      · rw [if_neg h, if_neg h]; rfl
    · show (divCeil128 (x * y) d).orPanic = _
      rw [divCeil128_spec _ _ hp hd0]; unfold exactQ
      by_cases h : in128 (Int.cdiv (x * y) d)
      · rw [if_pos h, if_pos h]; rfl
      · rw [if_neg h, if_neg h]; rfl
    · show (ofOpt (checkedDiv128 (x * y) d)).orPanic = _
      rw [checkedDiv128_spec _ _ hd0]; unfold exactQ
      by_cases h : in128 (Int.tdiv (x * y) d)
      · rw [if_pos h, if_pos h]; rfl
      · rw [if_neg h, if_neg h]; rfl
  · rw [if_neg hp]
    have hb := mul_in128_bound x y hx hy
    have hp256 : in256 (x * y) := by
      unfold in256 I256_MIN I256_MAX; omega
    have hq := exactQ_in256 rd x y d hx hy hd0
    unfold mulDiv256 mul256 chk256
    rw [if_neg hd0, if_pos hp256]
    cases rd
    · show narrowPlain (divFloor256 (x * y) d).orPanic = _
      rw [divFloor256_spec _ _ hp256 hd0]
      unfold exactQ at *
      rw [if_pos hq]
      by_cases h : in128 (Int.fdiv (x * y) d)
      · rw [if_pos h]; simp only [Res.orPanic, narrowPlain, chk128, if_pos h, ofOpt]
      · rw [if_neg h]; simp only [Res.orPanic, narrowPlain, chk128, if_neg h, ofOpt]
    · show narrowPlain (divCeil256 (x * y) d).orPanic = _
      rw [divCeil256_spec _ _ hp256 hd0]
      unfold exactQ at *
      rw [if_pos hq]
      by_cases h : in128 (Int.cdiv (x * y) d)
      · rw [if_pos h]; simp only [Res.orPanic, narrowPlain, chk128, if_pos h, ofOpt]
      · rw [if_neg h]; simp only [Res.orPanic, narrowPlain, chk128, if_neg h, ofOpt]
    · show narrowPlain (trap (div256 (x * y) d)) = _
      rw [div256_spec _ _ hd0]
      unfold exactQ at *
      rw [if_pos hq]
      by_cases h : in128 (Int.tdiv (x * y) d)
      · rw [if_pos h]; simp only [narrowPlain, chk128, if_pos h, ofOpt, Res.orPanic]
      · rw [if_neg h]; simp only [narrowPlain, chk128, if_neg h, ofOpt, Res.orPanic]

/-- **C12, i128 checked variants**: same value, `None` exactly when the plain variant panics,
and never a panic. -/
theorem checked_mul_div_i128_spec (rd : Rounding) (x y d : Int)
    (hx : in128 x) (hy : in128 y) (_hd : in128 d) :
    checkedMulDiv128 rd x y d = spec128 .none rd x y d := by
  unfold checkedMulDiv128 spec128
  unfold checkedMul128 chk128
  by_cases hd0 : d = 0
  · subst hd0
    simp only [if_true]
    by_cases hp : in128 (x * y)
    · rw [if_pos hp]
      cases rd <;> simp [divFloor128, divCeil128, checkedDiv128, checkedRemEuclid128, ofOpt]
    · rw [if_neg hp]
      cases rd <;> simp [checkedMulDiv256, narrowChecked]
  simp only [hd0, if_false]
  by_cases hp : in128 (x * y)
  · rw [if_pos hp]
    cases rd
    · show divFloor128 (x * y) d = _
      rw [divFloor128_spec _ _ hp hd0]; rfl
    · show divCeil128 (x * y) d = _
      rw [divCeil128_spec _ _ hp hd0]; rfl
    · show ofOpt (checkedDiv128 (x * y) d) = _
      rw [checkedDiv128_spec _ _ hd0]; rfl
  · rw [if_neg hp]
    have hb := mul_in128_bound x y hx hy
    have hp256 : in256 (x * y) := by
      unfold in256 I256_MIN I256_MAX; omega
    have hq := exactQ_in256 rd x y d hx hy hd0
    unfold checkedMulDiv256 mul256 chk256
    rw [if_neg hd0, if_pos hp256]
    cases rd
    · show narrowChecked (divFloor256 (x * y) d) = _
      rw [divFloor256_spec _ _ hp256 hd0]
      unfold exactQ at *
      rw [if_pos hq]
      by_cases h : in128 (Int.fdiv (x * y) d)
      · rw [if_pos h]; simp only [narrowChecked, chk128, if_pos h, ofOpt]
      · rw [if_neg h]; simp only [narrowChecked, chk128, if_neg h, ofOpt]
    · show narrowChecked (divCeil256 (x * y) d) = _
      rw [divCeil256_spec _ _ hp256 hd0]
      unfold exactQ at *
      rw [if_pos hq]
      by_cases h : in128 (Int.cdiv (x * y) d)
      · rw [if_pos h]; simp only [narrowChecked, chk128, if_pos h, ofOpt]
      · rw [if_neg h]; simp only [narrowChecked, chk128, if_neg h, ofOpt]
    · show narrowChecked (trap (div256 (x * y) d)) = _
      rw [div256_spec _ _ hd0]
      unfold exactQ at *
      rw [if_pos hq]
      by_cases h : in128 (Int.tdiv (x * y) d)
      · rw [if_pos h]; simp only [narrowChecked, chk128, if_pos h, ofOpt]
      · rw [if_neg h]; simp only [narrowChecked, chk128, if_neg h, ofOpt]

/-- checked and plain variants agree: same value, `None` ⇔ panic -/
theorem checked_eq_plain (rd : Rounding) (x y d : Int)
    (hx : in128 x) (hy : in128 y) (hd : in128 d) :
    (∀ v, checkedMulDiv128 rd x y d = .ok v ↔ mulDiv128 rd x y d = .ok v) ∧
    (checkedMulDiv128 rd x y d = .none ↔ mulDiv128 rd x y d = .panic) ∧
    checkedMulDiv128 rd x y d ≠ .panic ∧ mulDiv128 rd x y d ≠ .none := by
  rw [checked_mul_div_i128_spec rd x y d hx hy hd, mul_div_i128_spec rd x y d hx hy hd]
  unfold spec128
  by_cases hd0 : d = 0
  · simp [hd0]
  · by_cases h : in128 (exactQ rd x y d)
    · rw [if_neg hd0, if_neg hd0, if_pos h, if_pos h]; simp
    · rw [if_neg hd0, if_neg hd0, if_neg h, if_neg h]; simp

/-- the error outcome occurs exactly when `d = 0` or the rounded quotient does not fit -/
theorem fails_only_when_it_must (rd : Rounding) (x y d : Int)
    (hx : in128 x) (hy : in128 y) (hd : in128 d) :
    mulDiv128 rd x y d = .panic ↔ (d = 0 ∨ ¬ in128 (exactQ rd x y d)) := by
  rw [mul_div_i128_spec rd x y d hx hy hd]
  unfold spec128
  by_cases hd0 : d = 0
  · simp [hd0]
  · by_cases h : in128 (exactQ rd x y d) <;> simp [hd0, h]

/-- **C12, I256 variants**: exact whenever the product fits in 256 bits (the quotient then
fails to fit only for `MIN / -1`, where the host traps). -/
theorem mul_div_i256_spec (rd : Rounding) (x y d : Int) (hp : in256 (x * y)) :
    mulDiv256 rd x y d =
      if d = 0 then .panic
      else if in256 (exactQ rd x y d) then .ok (exactQ rd x y d) else .panic := by
  unfold mulDiv256 mul256 chk256
  by_cases hd0 : d = 0
  · rw [if_pos hd0, if_pos hd0]
  rw [if_neg hd0, if_neg hd0, if_pos hp]
  cases rd
  · show (divFloor256 (x * y) d).orPanic = _
    rw [divFloor256_spec _ _ hp hd0]; unfold exactQ
    by_cases h : in256 (Int.fdiv (x * y) d)
    · simp only [if_pos h]; rfl
    · simp only [if_neg h]; rfl
  · show (divCeil256 (x * y) d).orPanic = _
    rw [divCeil256_spec _ _ hp hd0]; unfold exactQ
    by_cases h : in256 (Int.cdiv (x * y) d)
    · simp only [if_pos h]; rfl
    · simp only [if_neg h]; rfl
  · show trap (div256 (x * y) d) = _
    rw [div256_spec _ _ hd0]; rfl

theorem checked_mul_div_i256_spec (rd : Rounding) (x y d : Int) (hp : in256 (x * y)) :
    checkedMulDiv256 rd x y d =
      if d = 0 then .none
      else if in256 (exactQ rd x y d) then .ok (exactQ rd x y d) else .panic := by
  unfold checkedMulDiv256 mul256 chk256
  by_cases hd0 : d = 0
  · rw [if_pos hd0, if_pos hd0]
  rw [if_neg hd0, if_neg hd0, if_pos hp]
  cases rd
  · show divFloor256 (x * y) d = _
    rw [divFloor256_spec _ _ hp hd0]; rfl
  · show divCeil256 (x * y) d = _
    rw [divCeil256_spec _ _ hp hd0]; rfl
  · show trap (div256 (x * y) d) = _
    rw [div256_spec _ _ hd0]; rfl

/-! ### the rounded quotients are what they are called
(so that `spec128` visibly is "the mathematically rounded quotient") -/

theorem floor_is_floor (r d : Int) (hd : 0 < d) :
    d * Int.fdiv r d ≤ r ∧ r < d * (Int.fdiv r d + 1) := by
  obtain ⟨h1, h2, h3, -, -, -, -, f1, -, -, -, -, -, -⟩ := div_lin r d (by omega)
  rw [f1 (Or.inl hd), Int.mul_add]; omega

theorem ceil_is_ceil (r d : Int) (hd : 0 < d) :
    d * (Int.cdiv r d - 1) < r ∧ r ≤ d * Int.cdiv r d := by
  obtain ⟨h1, h2, h3, -, -, -, -, -, -, c1, c2, -, -, -⟩ := div_lin r d (by omega)
  by_cases hm : r % d = 0
  · rw [c1 (Or.inr hm), Int.mul_sub]; omega
  · rw [c2 ⟨hd, hm⟩]
    have : d * (r / d + 1 - 1) = d * (r / d) := by congr 1; omega
    rw [this, Int.mul_add]; omega

/-! ### Wad -/

theorem in128_WAD : in128 WAD := by decide

/-- `Wad::checked_mul`: the exact product `a·b / 10^18` truncated toward zero, or `None`
exactly when it does not fit -/
theorem wad_checked_mul_exact (a b : Int) (ha : in128 a) (hb : in128 b) :
    wadCheckedMul a b = spec128 .none .trunc a b WAD :=
  checked_mul_div_i128_spec .trunc a b WAD ha hb in128_WAD

/-- `Wad::checked_div`: `a·10^18 / b` truncated toward zero; `None` iff `b = 0` or no fit -/
theorem wad_checked_div_exact (a b : Int) (ha : in128 a) (hb : in128 b) :
    wadCheckedDiv a b = spec128 .none .trunc a WAD b := by
  unfold wadCheckedDiv
  by_cases h : b = 0
  · rw [if_pos h]; unfold spec128; rw [if_pos h]
  · rw [if_neg h]; exact checked_mul_div_i128_spec .trunc a WAD b ha in128_WAD hb

/-- `Wad::from_ratio`: `num·10^18 / den` truncated toward zero; panics iff `den = 0` or no fit -/
theorem wad_from_ratio_exact (n d : Int) (hn : in128 n) (hd : in128 d) :
    wadFromRatio n d = spec128 .panic .trunc n WAD d := by
  unfold wadFromRatio
  by_cases h : d = 0
  · rw [if_pos h]; unfold spec128; rw [if_pos h]
  · rw [if_neg h, checked_mul_div_i128_spec .trunc n WAD d hn in128_WAD hd]
    unfold spec128; rw [if_neg h, if_neg h]
    by_cases hq : in128 (exactQ .trunc n WAD d)
    · rw [if_pos hq, if_pos hq]; rfl
    · rw [if_neg hq, if_neg hq]; rfl

/-- a checked i128 mul-div result is `ok v` with `v` in range, or `none` — never a panic -/
theorem checked_result_shape (rd : Rounding) (x y d : Int)
    (hx : in128 x) (hy : in128 y) (hd : in128 d) :
    (∃ v, in128 v ∧ checkedMulDiv128 rd x y d = .ok v) ∨ checkedMulDiv128 rd x y d = .none := by
  rw [checked_mul_div_i128_spec rd x y d hx hy hd]
  unfold spec128
  by_cases hd0 : d = 0
  · right; rw [if_pos hd0]
  · rw [if_neg hd0]
    by_cases h : in128 (exactQ rd x y d)
    · left; exact ⟨_, h, by rw [if_pos h]⟩
    · right; rw [if_neg h]

theorem powLoop_shape (fuel e : Nat) (base result : Int) (hb : in128 base) (hr : in128 result) :
    (∃ v, in128 v ∧ powLoop fuel e base result = .ok v) ∨ powLoop fuel e base result = .none := by
  induction fuel generalizing e base result with
  | zero => left; exact ⟨result, hr, rfl⟩
  | succ n ih =>
    unfold powLoop
    by_cases he : e = 0
    · rw [if_pos he]; left; exact ⟨result, hr, rfl⟩
    rw [if_neg he]
    by_cases hodd : e % 2 = 1
    · simp only [hodd, if_true]
      rcases checked_result_shape .trunc result base WAD hr hb in128_WAD with ⟨v, hv, h1⟩ | h1
      · rw [h1]
        by_cases he2 : e / 2 > 0
        · simp only [he2, if_true]
          rcases checked_result_shape .trunc base base WAD hb hb in128_WAD with ⟨w, hw, h2⟩ | h2
          · rw [h2]; exact ih _ _ _ hw hv
          · rw [h2]; right; rfl
        · simp only [he2, if_false]; exact ih _ _ _ hb hv
      · rw [h1]; right; rfl
    · simp only [hodd, if_false]
      by_cases he2 : e / 2 > 0
      · simp only [he2, if_true]
        rcases checked_result_shape .trunc base base WAD hb hb in128_WAD with ⟨w, hw, h2⟩ | h2
        · rw [h2]; exact ih _ _ _ hw hr
        · rw [h2]; right; rfl
      · simp only [he2, if_false]; exact ih _ _ _ hb hr

/-- `checked_pow` returns a value or `None`, never panics -/
theorem wad_checked_pow_shape (a : Int) (n : Nat) (ha : in128 a) :
    (∃ v, in128 v ∧ wadCheckedPow a n = .ok v) ∨ wadCheckedPow a n = .none := by
  unfold wadCheckedPow
  by_cases h0 : n = 0
  · rw [if_pos h0]; left; exact ⟨WAD, in128_WAD, rfl⟩
  rw [if_neg h0]
  by_cases h1 : n = 1
  · rw [if_pos h1]; left; exact ⟨a, ha, rfl⟩
  rw [if_neg h1]
  by_cases h2 : a = 0
  · rw [if_pos h2]; left; exact ⟨0, by decide, rfl⟩
  rw [if_neg h2]
  by_cases h3 : a = WAD
  · rw [if_pos h3]; left; exact ⟨a, ha, rfl⟩
  rw [if_neg h3]
  exact powLoop_shape 33 n a WAD ha in128_WAD

/-- **`pow` fails exactly when `checked_pow` returns no value**, and otherwise returns the
same value -/
theorem wad_pow_iff_checked_pow (a : Int) (n : Nat) (ha : in128 a) :
    (wadPow a n = .panic ↔ wadCheckedPow a n = .none) ∧
    (∀ v, wadPow a n = .ok v ↔ wadCheckedPow a n = .ok v) := by
  unfold wadPow
  rcases wad_checked_pow_shape a n ha with ⟨v, -, h⟩ | h <;> rw [h] <;> simp [Res.orPanic]

/-! ### non-vacuity and witnesses (tests, labelled as such) -/

/-- phantom overflow: `x*y` exceeds i128, the quotient fits, and the operation succeeds -/
example : ¬ in128 (I128_MAX * 4) ∧ mulDiv128 .floor I128_MAX 4 8 = .ok 85070591730234615865843651857942052863 := by
  decide
/-- `MIN * 1 / -1` does not fit: plain panics, checked returns `None` (all three roundings) -/
example : mulDiv128 .floor I128_MIN 1 (-1) = .panic ∧ checkedMulDiv128 .floor I128_MIN 1 (-1) = .none ∧
    mulDiv128 .ceil I128_MIN 1 (-1) = .panic ∧ checkedMulDiv128 .ceil I128_MIN 1 (-1) = .none ∧
    mulDiv128 .trunc I128_MIN 1 (-1) = .panic ∧ checkedMulDiv128 .trunc I128_MIN 1 (-1) = .none := by
  decide
example : mulDiv128 .floor (-7) 3 2 = .ok (-11) ∧ mulDiv128 .ceil (-7) 3 2 = .ok (-10) ∧
    mulDiv128 .trunc (-7) 3 2 = .ok (-10) ∧ mulDiv128 .ceil 7 3 2 = .ok 11 := by decide
example : wadCheckedPow (2 * WAD) 10 = .ok (1024 * WAD) := by decide

end OZ.MulDiv
