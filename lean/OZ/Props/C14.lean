import OZ.Lemmas.Policies
/-
C14 — Account policies enforce exactly their threshold, weight and spending rules.

Property theorems only. The model (OZ/Model/Policies.lean) mirrors
packages/accounts/src/policies/{simple_threshold,weighted_threshold,spending_limit}.rs.
Everything is universally quantified: all thresholds, weight maps, signer lists, authorizing
subsets, contexts, limits, periods, amounts (any `Int`, also negative and beyond i128) and all
finite operation lists. "Reachable" means `run init ops` for an arbitrary `ops`.

The ghost log of the spending policy (`Spend.runG`, OZ/Lemmas/Policies.lean) is computed
beside the model and never read by it: per (account, rule id) it lists, newest first, the
transfers `enforce` accepted since the current installation, each with its ledger and the
limit / period in force at that moment.
-/
namespace OZ.Policies
open OZ.Host

/-! ## simple threshold -/
namespace Simple

/-- **accepts exactly when the number of authenticated signers reaches the threshold**
(and the policy is installed and the account itself authorized the call); the context plays
no role -/
theorem simple_accepts_iff (s : State) (auth : List Nat) (ctx : Ctx) (sg : List Nat) (rule : Rule) (acct : Nat) :
    (∃ s', enforce s auth ctx sg rule acct = .ok s') ↔
      acct ∈ auth ∧ ∃ t, s.thr acct rule.id = some t ∧ t ≤ sg.length := by
  constructor
  · rintro ⟨s', h⟩
    obtain ⟨ha, t, ht, hle, _⟩ := enforce_ok h
    exact ⟨ha, t, ht, hle⟩
  · rintro ⟨ha, t, ht, hle⟩
    exact ⟨_, enforce_of ctx ha ht hle⟩

/-- the read-only answer: `true` exactly when installed and the count reaches the threshold -/
theorem simple_can_enforce_iff (s : State) (ctx : Ctx) (sg : List Nat) (rule : Rule) (acct : Nat) :
    canEnforce s ctx sg rule acct = true ↔ ∃ t, s.thr acct rule.id = some t ∧ t ≤ sg.length := by
  unfold canEnforce
  cases h : s.thr acct rule.id with
  | none => simp
  | some t => simp

/-- **can_enforce agrees with enforce** in the same state, for every context and signer list -/
theorem simple_can_enforce_agrees (s : State) (auth : List Nat) (ctx : Ctx) (sg : List Nat) (rule : Rule)
    (acct : Nat) (ha : acct ∈ auth) :
    canEnforce s ctx sg rule acct = true ↔ ∃ s', enforce s auth ctx sg rule acct = .ok s' := by
  rw [simple_can_enforce_iff, simple_accepts_iff]
  exact ⟨fun h => ⟨ha, h⟩, fun h => h.2⟩

/-- **a zero or unreachable threshold is refused at install and at every change**: whenever
`install` or `set_threshold` succeeds, `1 ≤ threshold ≤ number of signers of the rule`, and
that value is what is stored -/
theorem simple_threshold_config_valid (s s' : State) (auth : List Nat) (t : Nat) (rule : Rule) (acct : Nat)
    (h : install s auth t rule acct = .ok s' ∨ setThreshold s auth t rule acct = .ok s') :
    1 ≤ t ∧ t ≤ rule.signers.length ∧ s'.thr acct rule.id = some t := by
  have key : validateAndSet s t rule acct = .ok s' := by
    cases h with
    | inl h =>
      unfold install at h
      obtain ⟨_, _, h⟩ := bind_ok h
      split at h
      · cases h
      · exact h
    | inr h =>
      unfold setThreshold at h
      obtain ⟨_, _, h⟩ := bind_ok h
      exact h
  obtain ⟨h1, h2, rfl⟩ := validateAndSet_ok key
  exact ⟨h1, h2, by simp [upd2]⟩

/-- a successful operation never stores a zero threshold … -/
theorem simple_apply_pos {s s' : State} (hi : ∀ a r t, s.thr a r = some t → 1 ≤ t) (auth : List Nat) (op : Op)
    (h : apply s auth op = .ok s') : ∀ a r t, s'.thr a r = some t → 1 ≤ t := by
  intro a r t ht
  cases op with
  | install a0 r0 t0 =>
    obtain ⟨h1, _, _⟩ := simple_threshold_config_valid s s' auth t0 r0 a0 (.inl h)
    simp only [apply] at h
    unfold install at h
    obtain ⟨_, _, h⟩ := bind_ok h
    split at h
    · cases h
    · obtain ⟨_, _, rfl⟩ := validateAndSet_ok h
      dsimp only at ht
      by_cases hk : a = a0 ∧ r = r0.id
      · obtain ⟨rfl, rfl⟩ := hk; rw [upd2_same] at ht; injection ht with ht; omega
      · rw [upd2_other _ _ _ _ _ _ hk] at ht; exact hi a r t ht
  | setThreshold a0 r0 t0 =>
    simp only [apply] at h
    unfold setThreshold at h
    obtain ⟨_, _, h⟩ := bind_ok h
    obtain ⟨h1, _, rfl⟩ := validateAndSet_ok h
    dsimp only at ht
    by_cases hk : a = a0 ∧ r = r0.id
    · obtain ⟨rfl, rfl⟩ := hk; rw [upd2_same] at ht; injection ht with ht; omega
    · rw [upd2_other _ _ _ _ _ _ hk] at ht; exact hi a r t ht
  | uninstall a0 r0 =>
    simp only [apply] at h
    unfold uninstall at h
    obtain ⟨_, _, h⟩ := bind_ok h
    injection h with h; subst h
    dsimp only at ht
    by_cases hk : a = a0 ∧ r = r0.id
    · obtain ⟨rfl, rfl⟩ := hk; rw [upd2_same] at ht; cases ht
    · rw [upd2_other _ _ _ _ _ _ hk] at ht; exact hi a r t ht
  | enforce a0 r0 c sg =>
    simp only [apply] at h
    obtain ⟨_, _, _, _, rfl⟩ := enforce_ok h
    exact hi a r t ht

/-- … so the property "no stored threshold is 0" survives every history from any state that has it … -/
theorem simple_threshold_pos_run (ops : List (List Nat × Op)) :
    ∀ s : State, (∀ a r t, s.thr a r = some t → 1 ≤ t) → ∀ a r t, (run s ops).thr a r = some t → 1 ≤ t := by
  induction ops with
  | nil => intro s hs; exact hs
  | cons x xs ih =>
    intro s hs
    simp only [run, List.foldl_cons]
    apply ih
    unfold step
    cases hx : apply s x.1 x.2 with
    | error e => exact hs
    | ok s' => exact simple_apply_pos hs x.1 x.2 hx

/-- … hence in every reachable state every stored threshold is at least 1 -/
theorem simple_threshold_pos_reachable (ops : List (List Nat × Op)) (a r t : Nat)
    (h : (run init ops).thr a r = some t) : 1 ≤ t :=
  simple_threshold_pos_run ops init (by intro a r t h; cases h) a r t h

/-- **only with the account's own authorization**: every state-changing entry point fails
with the authorization error when the smart account is not among the authorizers -/
theorem simple_needs_account_auth (s : State) (auth : List Nat) (op : Op) (h : op.acct ∉ auth) :
    apply s auth op = .error .auth := by
  cases op <;> simp only [apply, install, setThreshold, uninstall, enforce, Op.acct] at * <;>
    rw [requireAuth_not h] <;> rfl

/-- **a rejected attempt leaves no trace**: thresholds and event log are exactly as before -/
theorem simple_rejected_no_trace (s : State) (auth : List Nat) (op : Op) (e : Err)
    (h : apply s auth op = .error e) : step s (auth, op) = s := by
  simp [step, h]

end Simple

/-! ## weighted threshold -/
namespace Weighted

/-- **acceptance as coded, any state, any signer list** (duplicates counted with
multiplicity): `enforce` succeeds exactly when the account authorized it, the policy is
installed, the checked u32 sum of the signers' weights does not overflow, and it reaches the
threshold. On overflow the call traps (`MathOverflow`), i.e. it is rejected. -/
theorem weighted_accepts_as_coded (s : State) (auth : List Nat) (ctx : Ctx) (sg : List Nat) (rule : Rule)
    (acct : Nat) :
    (∃ s', enforce s auth ctx sg rule acct = .ok s') ↔
      acct ∈ auth ∧ ∃ p, s.par acct rule.id = some p ∧ wsum p.weights sg ≤ U32_MAX ∧
        p.threshold ≤ wsum p.weights sg :=
  enforce_iff s auth ctx sg rule acct

/-- **in every reachable state the configuration is valid**: 1 ≤ threshold ≤ total
configured weight ≤ u32::MAX (zero, unreachable or overflowing configurations were refused at
install, `set_threshold` and `set_signer_weight`) -/
theorem weighted_threshold_config_valid (ops : List (List Nat × Op)) (a r : Nat) (p : Params)
    (h : (run init ops).par a r = some p) :
    1 ≤ p.threshold ∧ p.threshold ≤ total p.weights ∧ total p.weights ≤ U32_MAX :=
  run_inv ops init init_inv a r p h

/-- the refusals themselves: `install` fails for a zero threshold, for a threshold above the
total weight, and for weights summing past u32::MAX -/
theorem weighted_install_refuses (s : State) (auth : List Nat) (pairs : List (Nat × Nat)) (t : Nat) (rule : Rule)
    (acct : Nat) (hbad : t = 0 ∨ total (mkMap pairs) < t ∨ U32_MAX < total (mkMap pairs)) :
    ¬ ∃ s', install s auth pairs t rule acct = .ok s' := by
  rintro ⟨s', h⟩
  unfold install at h
  obtain ⟨_, _, h⟩ := bind_ok h
  split at h
  · cases h
  · obtain ⟨h1, h2, h3, _⟩ := checkInstall_ok h
    omega

/-- `set_threshold` and `set_signer_weight` refuse what would leave the threshold zero,
unreachable, or the total past u32::MAX -/
theorem weighted_change_refuses (s s' : State) (auth : List Nat) (rule : Rule) (acct : Nat) (p : Params)
    (hp : s.par acct rule.id = some p) :
    (∀ t, setThreshold s auth t rule acct = .ok s' → 1 ≤ t ∧ t ≤ total p.weights) ∧
    (∀ sgn w, setSignerWeight s auth sgn w rule acct = .ok s' →
      p.threshold ≤ total (mset p.weights sgn w) ∧ total (mset p.weights sgn w) ≤ U32_MAX) := by
  constructor
  · intro t h
    unfold setThreshold at h
    obtain ⟨_, _, h⟩ := bind_ok h
    split at h
    · cases h
    · obtain ⟨q, hq, h⟩ := bind_ok h
      have := ofOpt_ok hq; rw [hp] at this; injection this with this; subst this
      obtain ⟨h2, _, _⟩ := checkAndStore_ok h
      exact ⟨by omega, h2⟩
  · intro sgn w h
    unfold setSignerWeight at h
    obtain ⟨_, _, h⟩ := bind_ok h
    obtain ⟨q, hq, h⟩ := bind_ok h
    have := ofOpt_ok hq; rw [hp] at this; injection this with this; subst this
    obtain ⟨h2, h3, _⟩ := checkAndStore_ok h
    exact ⟨h2, h3⟩

/-- **accepts exactly when the sum of the configured weights of the authenticated signers
reaches the threshold**, for duplicate-free signer lists, in every reachable state: the
checked sum cannot overflow there, because it is bounded by the total weight -/
theorem weighted_accepts_iff (ops : List (List Nat × Op)) (auth : List Nat) (ctx : Ctx) (sg : List Nat)
    (hnd : sg.Nodup) (rule : Rule) (acct : Nat) :
    (∃ s', enforce (run init ops) auth ctx sg rule acct = .ok s') ↔
      acct ∈ auth ∧ ∃ p, (run init ops).par acct rule.id = some p ∧ p.threshold ≤ wsum p.weights sg := by
  rw [enforce_iff]
  constructor
  · rintro ⟨ha, p, hp, _, ht⟩; exact ⟨ha, p, hp, ht⟩
  · rintro ⟨ha, p, hp, ht⟩
    have hi := weighted_threshold_config_valid ops acct rule.id p hp
    have := wsum_le_total p.weights sg hnd
    exact ⟨ha, p, hp, by omega, ht⟩

/-- **can_enforce agrees with enforce**, any state, any context, any signer list (when the
weight sum overflows, `can_enforce` traps instead of answering, and `enforce` fails too) -/
theorem weighted_can_enforce_agrees (s : State) (auth : List Nat) (ctx : Ctx) (sg : List Nat) (rule : Rule)
    (acct : Nat) (ha : acct ∈ auth) :
    canEnforce s ctx sg rule acct = .ok true ↔ ∃ s', enforce s auth ctx sg rule acct = .ok s' := by
  rw [canEnforce_true_iff, enforce_iff]
  exact ⟨fun h => ⟨ha, h⟩, fun h => h.2⟩

/-- on reachable states and duplicate-free signer lists `can_enforce` never traps -/
theorem weighted_can_enforce_total (ops : List (List Nat × Op)) (ctx : Ctx) (sg : List Nat) (hnd : sg.Nodup)
    (rule : Rule) (acct : Nat) : ∃ b, canEnforce (run init ops) ctx sg rule acct = .ok b := by
  unfold canEnforce
  cases hp : (run init ops).par acct rule.id with
  | none => exact ⟨false, rfl⟩
  | some p =>
    have hi := weighted_threshold_config_valid ops acct rule.id p hp
    have := wsum_le_total p.weights sg hnd
    show ∃ b, meets p sg = .ok b
    unfold meets
    rw [calcWeight_eq, if_pos (by omega)]
    exact ⟨_, rfl⟩

theorem weighted_needs_account_auth (s : State) (auth : List Nat) (op : Op) (h : op.acct ∉ auth) :
    apply s auth op = .error .auth := by
  cases op <;> simp only [apply, install, setThreshold, setSignerWeight, uninstall, enforce, Op.acct] at * <;>
    rw [requireAuth_not h] <;> rfl

theorem weighted_rejected_no_trace (s : State) (auth : List Nat) (op : Op) (e : Err)
    (h : apply s auth op = .error e) : step s (auth, op) = s := by
  simp [step, h]

end Weighted

/-! ## spending limit -/
namespace Spend

/-- every history starting at a ledger ≥ 1 with nothing installed, with its ghost log -/
def reach (now0 : Nat) (ops : List (List Nat × Op)) : State × Log := runG (init now0, fun _ _ => []) ops

theorem reach_fst (now0 : Nat) (ops : List (List Nat × Op)) : (reach now0 ops).1 = run (init now0) ops :=
  runG_fst ops _

theorem reach_inv (now0 : Nat) (h0 : 1 ≤ now0) (ops : List (List Nat × Op)) :
    GInv (reach now0 ops).1 (reach now0 ops).2 :=
  runG_inv ops _ (init_ginv now0 h0)

/-- **the cached total is the sum of the history** in every reachable state -/
theorem cached_eq_sum_history (now0 : Nat) (h0 : 1 ≤ now0) (ops : List (List Nat × Op)) (a r : Nat) (d : Data)
    (h : (run (init now0) ops).store a r = some d) : d.cached = isum d.history := by
  rw [← reach_fst] at h
  exact ((reach_inv now0 h0 ops).dinv a r d h).cached

/-- **the history is sorted by ledger**, never from the future, and never longer than 1000 -/
theorem history_sorted (now0 : Nat) (h0 : 1 ≤ now0) (ops : List (List Nat × Op)) (a r : Nat) (d : Data)
    (h : (run (init now0) ops).store a r = some d) :
    d.history.Pairwise (fun x y => x.ledger ≤ y.ledger) ∧
    (∀ e ∈ d.history, e.ledger ≤ (run (init now0) ops).now) ∧
    d.history.length ≤ MAX_HISTORY_ENTRIES := by
  rw [← reach_fst] at h ⊢
  have := (reach_inv now0 h0 ops).dinv a r d h
  exact ⟨this.sorted, this.le_now, this.bound⟩

/-- limit and period of every installation are positive in every reachable state -/
theorem spend_config_valid (now0 : Nat) (h0 : 1 ≤ now0) (ops : List (List Nat × Op)) (a r : Nat) (d : Data)
    (h : (run (init now0) ops).store a r = some d) : 0 < d.limit ∧ 0 < d.period := by
  rw [← reach_fst] at h
  have := (reach_inv now0 h0 ops).dinv a r d h
  exact ⟨this.limit_pos, this.period_pos⟩

/-- the ghost log is faithful: per key it is ordered (newest first), not from the future,
and its entries are exactly the stored history followed by entries that left the window for
good; with nothing installed it is empty -/
theorem log_faithful (now0 : Nat) (h0 : 1 ≤ now0) (ops : List (List Nat × Op)) (a r : Nat) :
    let sg := reach now0 ops
    (sg.2 a r).Pairwise (fun x y => y.ledger ≤ x.ledger) ∧ (∀ t ∈ sg.2 a r, t.ledger ≤ sg.1.now) ∧
    (∀ d, sg.1.store a r = some d →
      ∃ old, (sg.2 a r).map proj = d.history.reverse ++ old ∧ ∀ e ∈ old, e.ledger + d.period ≤ sg.1.now) ∧
    (sg.1.store a r = none → sg.2 a r = []) := by
  intro sg
  have hr := (reach_inv now0 h0 ops).rel a r
  cases hs : sg.1.store a r with
  | none =>
    rw [show (reach now0 ops).1.store a r = none from hs] at hr
    have : sg.2 a r = [] := hr
    rw [this]
    exact ⟨List.Pairwise.nil, by simp, (by intro d hd; cases hd), fun _ => rfl⟩
  | some d =>
    rw [show (reach now0 ops).1.store a r = some d from hs] at hr
    obtain ⟨old, h1, h2, _, h4, h5, _⟩ := hr
    refine ⟨h4, h5, ?_, by intro h; cases h⟩
    intro d' hd'; injection hd' with hd'; subst hd'
    exact ⟨old, h1, h2⟩

/-- **window_bound**: after any history (any order and timing of attempts, several per ledger,
limit changes, ledger gaps, rejected attempts in between, any amounts), for every authorized
transfer `t` of a key — at ledger `t.ledger`, under the limit `t.limit` in force at that
moment — the amounts of `t` and of all transfers authorized before it (since the installation)
whose ledger lies in `(t.ledger − period, t.ledger]` sum to at most `t.limit`. -/
theorem window_bound (now0 : Nat) (h0 : 1 ≤ now0) (ops : List (List Nat × Op)) (a r : Nat)
    (newer older : List Authd) (t : Authd) (hl : (reach now0 ops).2 a r = newer ++ t :: older) :
    winSum (t :: older) t.ledger t.period ≤ t.limit := by
  have hr := (reach_inv now0 h0 ops).rel a r
  have hg : GoodR ((reach now0 ops).2 a r) := by
    cases hs : (reach now0 ops).1.store a r with
    | none => rw [hs] at hr; have : (reach now0 ops).2 a r = [] := hr; rw [this]; trivial
    | some d => rw [hs] at hr; obtain ⟨_, _, _, h3, _⟩ := hr; exact h3
  rw [hl] at hg
  exact (goodR_suffix newer hg).1

/-- **any window of `period` consecutive ledgers**: take any window `[w, w + P)` and let `t` be
the last transfer authorized before its end (`t.ledger < w + P`, everything logged after `t`
lies beyond the window; the log is ordered by `log_faithful`). If the amounts are
non-negative, ALL transfers authorized in the window sum to at most the limit in force when
`t` was authorized. -/
theorem window_any (now0 : Nat) (h0 : 1 ≤ now0) (ops : List (List Nat × Op)) (a r : Nat)
    (newer older : List Authd) (t : Authd) (hl : (reach now0 ops).2 a r = newer ++ t :: older)
    (w : Nat) (hw2 : t.ledger < w + t.period)
    (hnewer : ∀ e ∈ newer, w + t.period ≤ e.ledger)
    (hnn : ∀ e ∈ (reach now0 ops).2 a r, 0 ≤ e.amount) :
    isum ((((reach now0 ops).2 a r).map proj).filter
      (fun e => decide (w ≤ e.ledger ∧ e.ledger < w + t.period))) ≤ t.limit := by
  have hb := window_bound now0 h0 ops a r newer older t hl
  rw [hl, List.map_append, List.filter_append, isum_append]
  have h1 : isum ((newer.map proj).filter (fun e => decide (w ≤ e.ledger ∧ e.ledger < w + t.period))) = 0 := by
    apply isum_filter_none
    intro e he
    obtain ⟨x, hx, rfl⟩ := List.mem_map.mp he
    have := hnewer x hx
    show decide (w ≤ x.ledger ∧ x.ledger < w + t.period) = false
    rw [decide_eq_false_iff_not]
    omega
  have h2 : isum (((t :: older).map proj).filter (fun e => decide (w ≤ e.ledger ∧ e.ledger < w + t.period)))
      ≤ isum (((t :: older).map proj).filter (inWin t.ledger t.period)) := by
    apply isum_filter_mono
    · intro e he
      obtain ⟨x, hx, rfl⟩ := List.mem_map.mp he
      exact hnn x (by rw [hl]; exact List.mem_append_right _ hx)
    · intro e _ hp
      simp only [decide_eq_true_eq] at hp
      simp only [inWin, decide_eq_true_eq]
      omega
  unfold winSum winSumE at hb
  omega

/-- **can_enforce agrees with enforce** in the same state: for every context (transfer,
malformed transfer, other call, create-contract), every signer list, every history length
(including the 1000-entry bound) and every amount, `can_enforce` answers `true` exactly when
`enforce`, authorized by the account, would succeed. (When an i128 operation overflows,
`can_enforce` panics instead of answering and `enforce` fails as well.) -/
theorem spend_can_enforce_agrees (s : State) (auth : List Nat) (ctx : Ctx) (sg : List Nat) (rule : Rule)
    (acct : Nat) (ha : acct ∈ auth) :
    canEnforce s ctx sg rule acct = .ok true ↔ ∃ s', enforce s auth ctx sg rule acct = .ok s' := by
  rw [canEnforce_true_iff, enforce_iff]
  exact ⟨fun h => ⟨ha, h⟩, fun h => h.2⟩

/-- non-transfer and malformed contexts are never accepted, nor is an empty signer list -/
theorem spend_only_wellformed_transfers (s s' : State) (auth : List Nat) (ctx : Ctx) (sg : List Nat) (rule : Rule)
    (acct : Nat) (h : enforce s auth ctx sg rule acct = .ok s') :
    (∃ amt, ctx = .transfer amt) ∧ sg ≠ [] := by
  obtain ⟨_, hsg, _, _, amt, hc, _⟩ := (enforce_iff s auth ctx sg rule acct).mp ⟨s', h⟩
  refine ⟨⟨amt, hc⟩, ?_⟩
  intro he; subst he; simp at hsg

/-- the 1000-entry bound, as both functions see it: if after eviction 1000 entries remain,
`can_enforce` answers `false` and `enforce` fails -/
theorem spend_capacity_refused (s : State) (auth : List Nat) (amt : Int) (sg : List Nat) (rule : Rule) (acct : Nat)
    (d : Data) (hd : s.store acct rule.id = some d) (h' : List Entry) (r : Int)
    (hc : cleanup (s.now - d.period) d.history 0 = .ok (h', r)) (hfull : MAX_HISTORY_ENTRIES ≤ h'.length) :
    canEnforce s (.transfer amt) sg rule acct ≠ .ok true ∧
    ¬ ∃ s', enforce s auth (.transfer amt) sg rule acct = .ok s' := by
  have key : ¬ Accepts s.now d amt := by
    rintro ⟨h'', r', hc', _, _, _, hlen⟩
    rw [hc] at hc'; injection hc' with hc'; injection hc' with e1 e2; subst e1
    omega
  constructor
  · intro h
    obtain ⟨_, d', hd', amt', he, hacc⟩ := (canEnforce_true_iff _ _ _ _ _).mp h
    rw [hd] at hd'; injection hd' with hd'; subst hd'
    injection he with he; subst he
    exact key hacc
  · intro h
    obtain ⟨_, _, d', hd', amt', he, hacc⟩ := (enforce_iff _ _ _ _ _ _).mp h
    rw [hd] at hd'; injection hd' with hd'; subst hd'
    injection he with he; subst he
    exact key hacc

/-- **only with the account's own authorization** -/
theorem spend_needs_account_auth (s : State) (auth : List Nat) (acct : Nat) (rule : Rule) (h : acct ∉ auth) :
    (∀ ctx sg, enforce s auth ctx sg rule acct = .error .auth) ∧
    (∀ l p, install s auth l p rule acct = .error .auth) ∧
    (∀ l, setSpendingLimit s auth l rule acct = .error .auth) ∧
    uninstall s auth rule acct = .error .auth := by
  refine ⟨?_, ?_, ?_, ?_⟩
  · intro ctx sg; unfold enforce; rw [requireAuth_not h]; rfl
  · intro l p; unfold install; rw [requireAuth_not h]; rfl
  · intro l; unfold setSpendingLimit; rw [requireAuth_not h]; rfl
  · unfold uninstall; rw [requireAuth_not h]; rfl

/-- **a rejected attempt leaves no trace**: limit, period, history, cached total, events and
the ghost log are exactly as before (so a rejected attempt can never consume allowance) -/
theorem spend_rejected_no_trace (s : State) (g : Log) (auth : List Nat) (op : Op) (e : Err)
    (h : apply s auth op = .error e) : stepG (s, g) (auth, op) = (s, g) := by
  unfold stepG
  rw [step_eq_err h, logStep_err h]

/-! ### non-vacuity (tests, labelled as such) -/

def demoRule : Rule := ⟨0, [0, 1, 2]⟩

/-- install 100 per 10 ledgers at ledger 100; 60 + 40 accepted, 1 rejected; still rejected at
109; at 110 the window has moved past ledger 100; limit lowered below what is spent;
a malformed context and an unauthorized call in between -/
def demoOps : List (List Nat × Op) :=
  [([7], .install 7 demoRule 100 10), ([7], .enforce 7 demoRule (.transfer 60) [1]),
   ([7], .enforce 7 demoRule (.transfer 40) [1]), ([7], .enforce 7 demoRule (.transfer 1) [1]),
   ([], .advance 9), ([7], .enforce 7 demoRule (.transfer 1) [1]), ([], .advance 1),
   ([7], .enforce 7 demoRule (.transfer 70) [1, 2]), ([7], .enforce 7 demoRule .malformed [1]),
   ([3], .enforce 7 demoRule (.transfer 1) [1]), ([7], .setLimit 7 demoRule 80),
   ([7], .enforce 7 demoRule (.transfer 11) [1]), ([7], .enforce 7 demoRule (.transfer 10) [1])]

example : (run (init 100) demoOps).store 7 0 = some ⟨80, 10, [⟨70, 110⟩, ⟨10, 110⟩], 80⟩ := by decide

example : (reach 100 demoOps).2 7 0 =
    [⟨10, 110, 80, 10⟩, ⟨70, 110, 100, 10⟩, ⟨40, 100, 100, 10⟩, ⟨60, 100, 100, 10⟩] := by decide

-- hypotheses of `window_any` for the window [101, 111) whose last transfer is the newest one
example : ∀ e ∈ (reach 100 demoOps).2 7 0, 0 ≤ e.amount := by decide

-- can_enforce / enforce agree on a concrete state at the limit
example : canEnforce (run (init 100) demoOps) (.transfer 0) [1] demoRule 7 = .ok true ∧
    canEnforce (run (init 100) demoOps) (.transfer 1) [1] demoRule 7 = .ok false ∧
    canEnforce (run (init 100) demoOps) .otherCall [1] demoRule 7 = .ok false := by decide

-- i128 overflow is a trap, not an acceptance
example : canEnforce (run (init 5) [([1], .install 1 demoRule I128_MAX 10),
      ([1], .enforce 1 demoRule (.transfer (I128_MAX - 1)) [0])]) (.transfer 5) [0] demoRule 1
    = .error .overflowPanic := by decide

-- why the property quantifies over ledgers >= 1: at ledger 0 the saturating cutoff is 0, an
-- entry of ledger 0 is evicted at once, and the same allowance is granted again
example : (reach 0 [([1], .install 1 demoRule 10 5), ([1], .enforce 1 demoRule (.transfer 10) [0]),
    ([1], .enforce 1 demoRule (.transfer 10) [0])]).2 1 0 = [⟨10, 0, 10, 5⟩, ⟨10, 0, 10, 5⟩] := by decide

end Spend

/-! ### non-vacuity for the threshold policies -/

example : (Simple.run Simple.init [([4], .install 4 ⟨1, [0, 1, 2]⟩ 2), ([4], .install 4 ⟨2, [0, 1, 2]⟩ 0),
    ([4], .setThreshold 4 ⟨1, [0, 1, 2]⟩ 4), ([4], .setThreshold 4 ⟨1, [0, 1, 2]⟩ 3)]).thr 4 1 = some 3 := by decide

example : Simple.canEnforce (Simple.run Simple.init [([4], .install 4 ⟨1, [0, 1, 2]⟩ 2)]) .otherCall [0, 2] ⟨1, []⟩ 4 = true ∧
    Simple.canEnforce (Simple.run Simple.init [([4], .install 4 ⟨1, [0, 1, 2]⟩ 2)]) .otherCall [0] ⟨1, []⟩ 4 = false := by
  decide

/-- weights summing past u32::MAX are refused; a valid configuration with total = u32::MAX is
accepted; a duplicated signer then overflows the checked sum -/
example : (Weighted.run Weighted.init [([4], .install 4 ⟨0, []⟩ [(0, U32_MAX), (1, 1)] 1)]).par 4 0 = none ∧
    (Weighted.run Weighted.init [([4], .install 4 ⟨0, []⟩ [(0, U32_MAX - 1), (1, 1)] 5)]).par 4 0
      = some ⟨[(0, U32_MAX - 1), (1, 1)], 5⟩ ∧
    Weighted.canEnforce (Weighted.run Weighted.init [([4], .install 4 ⟨0, []⟩ [(0, U32_MAX - 1), (1, 1)] 5)])
      .otherCall [0, 0] ⟨0, []⟩ 4 = .error .mathOverflow ∧
    Weighted.canEnforce (Weighted.run Weighted.init [([4], .install 4 ⟨0, []⟩ [(0, U32_MAX - 1), (1, 1)] 5)])
      .otherCall [1, 0] ⟨0, []⟩ 4 = .ok true := by decide

end OZ.Policies
