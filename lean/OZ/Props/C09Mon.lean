import OZ.Props.C09
import OZ.Lemmas.TimelockControllerMonStep
/-
C09 — soundness of the MONITOR that decides the property on implementation traces.

`./check C09` reports a concrete violation exactly when `OZ.TimelockController.Mon.checkCore` (the
driver's monitor on parsed values, OZ/Model/TimelockControllerMon.lean) returns a message on the
implementation's observations (or when an observation line cannot be parsed at all). `./check C08`
counts the `site=controller.views` / `site=controller.state` messages of the same monitor. Here it is
proved that on the observations of the MODEL the monitor never returns a message, for every label
(start ledger of the property's regime 2 ≤ start ≤ u32::MAX, minimum delay, proposers, executors,
external admin or self-administration) and every finite history of trace lines — definitions of
operation tuples, schedule / cancel / execute, the seven entry points the controller guards with a
`require_auth` that may be its own (update_delay, grant_role, revoke_role, renounce_role,
set_role_admin, transfer_admin_role, renounce_admin) with arbitrary signature payloads and
authorization tokens, accept_admin_transfer, `__check_auth` driven directly with arbitrary descriptor
and context vectors, ledger advances; accepted or rejected; accounts and roles also outside the
displayed universe (`monitor_accepts_every_model_trace`). Consequences:

  * an implementation whose observations agree with the model's (the correspondence the check
    establishes by differential testing) can never raise a monitor alarm — a monitor failure is
    never a false alarm of the monitor itself;
  * every conclusion the monitor evaluates is a THEOREM about the model, in the monitor's own
    executable wording: every reported operation state and ready ledger is the one the accepted
    history prescribes (`monitor_state_check_sound`: the ghost log of accepted schedule / cancel /
    execute calls AND of the operations consumed by admin calls and by `__check_auth`); an accepted
    admin-only call on a self-administered controller, an accepted role call by the controller and
    every context of an accepted `__check_auth` consumed a defined operation for exactly that call,
    pending with its delay elapsed, Ready before and Done after, with the configured executor's role
    and signature for exactly that context; role and signature conditions of schedule / cancel /
    execute / accept / role calls / admin calls by an external admin; the exact membership effect;
    effects need a cause; Done stays Done; rollback; nothing but Waiting → Ready over an idle gap;
    id-equality ⇔ tuple-equality.

The model side (`MS`, `modelStep`, `resolveCall`, in OZ/Lemmas/TimelockControllerMon.lean; `modelObs`
in OZ/Model/TimelockControllerMon.lean) is the structured content of what the driver's `op`
(`OZ.Drv.C09.stepLine` / `showState`) does and prints for the model: `now`, the minimum delay, the
admin, per role 0..3 the members among the accounts 0..5 (sorted), per role 0..3 its admin role, per
defined operation the state letter and `get_operation_ledger`, the target's call counter; the text
after `now=…` (`showRaw`, the very function `showState` prints); on a definition line the indices of
the earlier definitions with the same id; `err` with the unchanged state for a rejected call. Lines
for which the model driver prints `bad-op` (unknown kind, index / reference that does not resolve)
have no model observation and are skipped by `monitorRun`.

While proving this, the monitor as it was turned out to be STRICTER than the model outside the
harness's small universe; the false alarms are exhibited below (`legacy_monitor_false_alarm_*`) and
the conditions were corrected in OZ/Model/TimelockControllerMon.lean (verdicts unchanged within the
universe; all `site=` tokens and messages unchanged).

Property theorems only; helper facts come from OZ/Lemmas/TimelockControllerMon*.lean.
-/
namespace OZ.TimelockController.Mon
open OZ.Host OZ.Timelock OZ.TimelockController

/-- **the state check** (`site=controller.state`, `site=controller.views` — the part `./check C08`
counts): in every model state satisfying the reachable-state invariant, whatever operations are
defined, the pair (state letter, ledger value) the model reports for every defined operation is
exactly what the monitor derives from its own ghost log, and the letter is never `X` -/
theorem monitor_state_check_sound (m : Mon) (x : MS) (hi : MInv x) (ha : Agree m x) (ok : Bool)
    (eq : Option (List Nat)) :
    checkStates m (modelObs x.c x.defs ok eq) = none ∧
    ∀ id, expectedSt (m.get (some id)) x.c.tl.now =
      (codeOf (getOperationState x.c.tl id), getOperationLedger x.c.tl id) :=
  ⟨checkStates_quiet m x.c x.defs ok eq hi.tl ha.defs ha.ghost,
   fun id => by rw [ha.ghost]; exact expectedSt_toG hi.tl id⟩

/-- **one line**: fed with the model's own observation of any trace line (a definition, or a call
the model accepts or rejects), the monitor reports nothing, its state keeps describing the
model's, and the model state stays inside the invariant -/
theorem monitor_sound_step (m : Mon) (x : MS) (hi : MInv x) (ha : Agree m x) (ln : Line) (x' : MS) (o : Obs)
    (h : modelStep x ln = some (x', o)) :
    (checkCore m ln o).2 = none ∧ Agree (checkCore m ln o).1 x' ∧ MInv x' := by
  cases ln with
  | badDef => cases h
  | defn t f args p s =>
    cases hp : refKey x.defs p with
    | none => simp [modelStep, hp] at h
    | some pid =>
      simp only [modelStep, hp, Option.map_some, Option.some.injEq] at h
      have h1 : x' = (modelDef x ⟨t, f, args, pid, s⟩).1 := by rw [h]
      have h2 : o = (modelDef x ⟨t, f, args, pid, s⟩).2 := by rw [h]
      subst h1; subst h2
      exact def_sound m x hi ha t f args p s pid hp
  | call cl =>
    cases hr : resolveCall x cl with
    | none => simp [modelStep, hr] at h
    | some ea =>
      obtain ⟨e, auth⟩ := ea
      simp only [modelStep, hr, Option.map_some, Option.some.injEq] at h
      unfold modelCall at h
      cases hx : applyE x.c auth (resolveSig x.defs cl.sig) e with
      | error err =>
        rw [hx] at h
        injection h with h1 h2; subst h1; subst h2
        obtain ⟨a, b⟩ := rejected_sound m x hi ha cl
        exact ⟨a, b, hi⟩
      | ok c' =>
        rw [hx] at h
        injection h with h1 h2; subst h1; subst h2
        exact accepted_sound m x hi ha cl e auth hr c' hx

/-- the monitor run over a whole history of model observations: first message, if any (lines the
model driver answers with `bad-op` carry no model observation and are skipped) -/
def monitorRun : Mon → MS → List Line → Option String
  | _, _, [] => none
  | m, x, ln :: rest =>
    match modelStep x ln with
    | none => monitorRun m x rest
    | some (x', o) =>
      match (checkCore m ln o).2 with
      | some msg => some msg
      | none => monitorRun (checkCore m ln o).1 x' rest

/-- **monitor soundness**: for every label — start ledger of the regime, minimum delay, proposers,
executors, external admin or none (`monInit` is what the driver's `minit` builds, `initMS` what its
`init` builds from the label: `construct start MAX_TTL 0 min prop exec admin`) — and every finite
history of trace lines, the monitor reports nothing on the model's observations -/
theorem monitor_accepts_every_model_trace (start min : Nat) (prop exec : List Nat) (admin : Option Nat)
    (h2 : 2 ≤ start) (hm : start ≤ U32_MAX) (lines : List Line) :
    monitorRun monInit (initMS start min prop exec admin) lines = none := by
  suffices ∀ m x, MInv x → Agree m x → monitorRun m x lines = none by
    apply this
    · obtain ⟨a, b⟩ := construct_inv (now := start) (maxTtl := MAX_TTL) (self := 0) (minDelay := min)
        (ps := prop) (es := exec) (admin := admin) h2 hm
      exact ⟨a, b, rfl, fun id hne => absurd rfl hne⟩
    · exact ⟨rfl, fun _ => rfl, fun p hp => (by cases hp), fun _ => ⟨rfl, construct_roleAdmin_none _ _ _ _ _ _ _⟩⟩
  induction lines with
  | nil => intro m x _ _; rfl
  | cons ln rest ih =>
    intro m x hi ha
    unfold monitorRun
    cases hs : modelStep x ln with
    | none => exact ih m x hi ha
    | some r =>
      obtain ⟨x', o⟩ := r
      obtain ⟨h1, h2, h3⟩ := monitor_sound_step m x hi ha ln x' o hs
      simp only [h1]
      exact ih _ _ h3 h2

/-! ### findings: the monitor as it was before this proof raised false alarms on model traces

Each theorem runs the MODEL on a short history that leaves the harness's universe (accounts 0..5,
roles 0..3, readable contexts), builds the model's own observation, and shows that the former
condition of the monitor (kept as `legacy…` in OZ/Model/TimelockControllerMon.lean, or the call
without `liveCtxs`) fires on it although the observation is the model's; the corrected condition is
silent on the same input (by the theorem above; shown again concretely). The harness never leaves
the universe, so none of these could occur in a check run. -/

/-- model trace: a controller whose only proposer is account 7 (label `prop=7`); one operation is
defined; account 7 schedules it with its own signature. The model accepts (7 holds the proposer
role) — the former `site=controller.schedule.role` condition fired because 7 is not among the
displayed accounts 0..5. The same pattern: `controller.cancel.role`, `controller.execute.role`, the
executor clause of `consumed`, `controller.role.renounce`. -/
theorem legacy_monitor_false_alarm_schedule_role :
    (applyE (initMS 100 0 [7] [] none).c [.call 7] none (.scheduleOp ⟨9, 10, [3], Id.zero, 0⟩ 0 7)).toBool = true ∧
    (legacyVerdictSched (modelObs (initMS 100 0 [7] [] none).c [⟨9, 10, [3], Id.zero, 0⟩] true none) 0 7
      [.call 7]).isSome = true ∧
    verdictSched (modelObs (initMS 100 0 [7] [] none).c [⟨9, 10, [3], Id.zero, 0⟩] true none) 0 7
      [.call 7] = none := by
  have hb : belowMin (modelObs (initMS 100 0 [7] [] none).c [⟨9, 10, [3], Id.zero, 0⟩] true none).min 0 = false := by
    decide
  refine ⟨by decide, ?_, ?_⟩
  · unfold legacyVerdictSched
    rw [if_neg (by rw [hb]; simp), if_pos]
    · rfl
    · rw [members_model, if_pos (by decide)]
      intro h
      have := (mem_heldBy.mp (by simpa using h)).1
      revert this; decide
  · unfold verdictSched
    rw [if_neg (by rw [hb]; simp), if_neg (by decide), if_neg (by decide)]

/-- model trace: on a controller with the external admin 1, the admin grants the proposer role to
account 7 with its own signature. The model accepts and the displayed membership is unchanged (7 is
not displayed) — the former `site=controller.role.effect` condition expected 7 to show up among the
members of role 0 (the corrected `expdRoles` is what the model shows, `expdRoles_grant`). -/
theorem legacy_monitor_false_alarm_role_effect :
    (∃ c', applyE (initMS 100 0 [2] [] (some 1)).c [.call 1] none (.grantRole 7 0 1) = .ok c' ∧
      modelRoles c' = modelRoles (initMS 100 0 [2] [] (some 1)).c) ∧
    modelRoles (initMS 100 0 [2] [] (some 1)).c ≠
      legacyExpdRoles (modelObs (initMS 100 0 [2] [] (some 1)).c [] true none) (.grant 7 0 1) 7 0 := by
  have hroles : ∀ c : CState, modelRoles c = (List.range NROLES).map (heldBy c) := by
    intro c; unfold modelRoles; simp only [sortNat_heldBy]
  constructor
  · cases h : applyE (initMS 100 0 [2] [] (some 1)).c [.call 1] none (.grantRole 7 0 1) with
    | error e =>
      have : (applyE (initMS 100 0 [2] [] (some 1)).c [.call 1] none (.grantRole 7 0 1)).toBool = true := by decide
      rw [h] at this; cases this
    | ok c' =>
      refine ⟨c', rfl, ?_⟩
      have : ((applyE (initMS 100 0 [2] [] (some 1)).c [.call 1] none (.grantRole 7 0 1)).toOption.map
          (fun c' => (List.range NROLES).map (heldBy c'))) =
          some ((List.range NROLES).map (heldBy (initMS 100 0 [2] [] (some 1)).c)) := by decide
      rw [h] at this
      rw [hroles, hroles]
      simpa [Except.toOption] using this
  · intro h
    have h0 : (modelRoles (initMS 100 0 [2] [] (some 1)).c)[0]? =
        (legacyExpdRoles (modelObs (initMS 100 0 [2] [] (some 1)).c [] true none) (.grant 7 0 1) 7 0)[0]? := by rw [← h]
    rw [modelRoles_get, if_pos (by decide)] at h0
    unfold legacyExpdRoles at h0
    rw [prev_roles_length, List.getElem?_map, List.getElem?_range (by decide)] at h0
    simp only [Option.map_some, ne_eq, not_true_eq_false, if_false, Option.some.injEq] at h0
    have h7 : 7 ∈ legacyExpdMembers (modelObs (initMS 100 0 [2] [] (some 1)).c [] true none) (.grant 7 0 1) 7 0 := by
      unfold legacyExpdMembers
      simp only
      split
      · rename_i hc; simpa using hc
      · unfold sortNat; rw [List.mem_mergeSort]; simp
    rw [← h0] at h7
    have := (mem_heldBy.mp h7).1
    revert this; decide

/-- model trace: `tc check metas=e ctxs=zz auth=-` on a fresh controller: the model driver drops the
unreadable context and `__check_auth` with no descriptors and no contexts returns Ok — the former
monitor counted the unreadable token as a context (`site=controller.checkauth.length`). -/
theorem legacy_monitor_false_alarm_unreadable_context :
    (applyE (initMS 100 0 [1] [] none).c [] none
      (.checkAuth ((resolveMetas [] []).getD []) (resolveCtxs [] [.bad]))).toBool = true ∧
    (verdictCheck monInit (modelObs (initMS 100 0 [1] [] none).c [] true none)
      (modelObs (initMS 100 0 [1] [] none).c [] true none) [] [.bad] []).isSome = true ∧
    verdictCheck monInit (modelObs (initMS 100 0 [1] [] none).c [] true none)
      (modelObs (initMS 100 0 [1] [] none).c [] true none) [] (liveCtxs [] [.bad]) [] = none := by
  decide

/-! ### non-vacuity (tests, labelled as such): the monitor is not trivially silent -/

/-- the defect of the unfixed code: `update_delay(42)` accepted on a self-administered controller
with the EMPTY descriptor vector — reported as `site=controller.admin.unconsumed` -/
example :
    ((checkCore { defs := [], ghost := [],
                  prev := some { ok := true, eq := none, now := 100, min := some 5, admin := some 0,
                                 roles := [[1], [], [1], []], radm := [none, none, none, none], st := [],
                                 raw := "a", calls := "0:-:-" } }
        (.call { call := .update 42, sig := some [], auth := [] })
        { ok := true, eq := none, now := 100, min := some 42, admin := some 0,
          roles := [[1], [], [1], []], radm := [none, none, none, none], st := [],
          raw := "b", calls := "0:-:-" }).2.getD "").startsWith "site=controller.admin.unconsumed" = true := by
  simp [checkCore, checkCall, fin, firstSome, verdictCall, verdictOk, idle, undoneCheck, effect, verdictAccepted,
    verdictAdmin, setradmEffect, adminAuth, adminSelf, isUpdateK, isCallerK, isCallerKind, isSetradmK, isAcceptK,
    isRenounceK, newlyDone, Call.kind, showArgsT, argsOf, showTyped, vU32]
  decide

/-- a state reported Ready one ledger early (scheduled at 100 with delay 10), and a view that
disagrees with `get_operation_state` (`X`) -/
example :
    (checkStates { defs := [⟨0, 0, [126], Id.zero, 0⟩],
                   ghost := [(some (Operation.id ⟨0, 0, [126], Id.zero, 0⟩), .pending 100 10)], prev := none }
        { ok := true, eq := none, now := 109, min := some 10, admin := some 0, roles := [], radm := [],
          st := [("R", 110)], raw := "", calls := "" }).isSome = true ∧
    (checkStates { defs := [⟨0, 0, [126], Id.zero, 0⟩],
                   ghost := [(some (Operation.id ⟨0, 0, [126], Id.zero, 0⟩), .pending 100 10)], prev := none }
        { ok := true, eq := none, now := 109, min := some 10, admin := some 0, roles := [], radm := [],
          st := [("X", 110)], raw := "", calls := "" }).isSome = true := by
  constructor <;>
    simp [checkStates, stateBad, expectedSt, elapsedM, satU32, Mon.get, Operation.id, Id.zero]

/-- and on the model's own observations of a concrete history (self-administered controller with
proposer 1: define `update_delay(42)`, schedule it with delay 5, wait, call it with the right
descriptor, call it again) it is silent -/
example :
    monitorRun monInit (initMS 100 5 [1] [] none)
      [.defn 0 0 [vU32 42] .z 0,
       .call ⟨.sched 0 5 1, none, [.call 1]⟩,
       .call ⟨.update 42, some [⟨.z, 0, none⟩], []⟩,
       .call ⟨.advance 5, none, []⟩,
       .call ⟨.update 42, some [⟨.z, 0, none⟩], []⟩,
       .call ⟨.update 42, some [⟨.z, 0, none⟩], []⟩] = none :=
  monitor_accepts_every_model_trace 100 5 [1] [] none (by decide) (by decide) _

end OZ.TimelockController.Mon
