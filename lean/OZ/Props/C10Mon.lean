import OZ.Lemmas.NftMonOwn
/-
C10 — soundness of the MONITOR that decides the property on implementation traces.

`./check C10` reports a concrete violation exactly when `OZ.NftMon.Own.checkCore` (the driver's
monitor on parsed values, OZ/Model/NftMon.lean) returns a message on the implementation's
observations (apart from the string-level alarm `site=nft.parse` of the driver). Here it is proved
that on the observations of the MODELS the monitor never returns a message — for all three flavours
(base incl. explicit ids, enumerable, consecutive at the bit level), every host configuration, every
`flavour=` label, every start ledger and every finite history of op lines, with any windows `q=` and
observed ids `qa=` (`monitor_accepts_every_model_trace`; no hypothesis on the history). Consequences:

  * an implementation whose observations agree with the model's (the correspondence the check
    establishes by differential testing) can never raise a monitor alarm — a monitor failure is
    never a false alarm of the monitor itself;
  * every conclusion the monitor evaluates — every reported `owner_of` (runs over windows and direct
    reads) is the plain map's; an accepted transfer / burn names the current owner; sequential and
    batch ids lie above everything issued before and a batch of n returns the last of n consecutive
    ids; balances are the plain map's counts; `token_uri` exists iff owned; `total_supply` is the
    number of existing tokens, the global list and every owner's list hold exactly the existing /
    owned tokens once and the index one past the end is unreadable; a rejected call and idle time
    change nothing — is a THEOREM about the models, in the monitor's own executable wording.

The model observation `OZ.NftMon.stepObs` used here IS the data the driver's model side prints:
`NftIO.stepLine` is `showObs (stepObs cfg s l op)` after parsing the op line into `l` with `l.op = some
op`; a history item is such a pair `(l, op)`.

The monitor judges mints under the property's fresh-id hypothesis: when a mint hits an id the plain
map gives an owner it sets `disabled` and is silent from then on; `Agree` below is "disabled, or the
monitor's plain map / balances / counters describe the model state (`Live`)".

Property theorems only; helper facts come from OZ/Lemmas/NftMon.lean, OZ/Lemmas/NftMonOwn.lean.
-/
namespace OZ.NftMon.Own
open OZ.Host OZ.Nft OZ.NftMon

/-- the monitor has stopped judging (fresh-id hypothesis failed), or its state describes the model's -/
def Agree (m : Mon) (ms : MState) : Prop := m.disabled = true ∨ ∃ spec, Live m ms spec

/-- the observation the monitor saw last is kept for nothing but debugging -/
theorem live_prev {m : Mon} {ms : MState} {spec : Nat → Option Nat} (h : Live m ms spec) (p : Option Obs) :
    Live { m with prev := p } ms spec :=
  ⟨h.good, h.owner, h.bal, h.next, h.over, h.enumOK, h.live, h.flav⟩

/-- **one call**: fed with the model's own observation of any call (accepted or rejected, any
flavour), the monitor reports nothing and its state keeps describing the model's -/
theorem monitor_sound_step (cfg : Cfg) {m : Mon} {ms : MState} (ha : Agree m ms) (l : Line) (op : Op)
    (hl : l.op = some op) :
    (checkCore m l (stepObs cfg ms l op).2).2 = none ∧
    Agree (checkCore m l (stepObs cfg ms l op).2).1 (stepObs cfg ms l op).1 := by
  unfold checkCore
  by_cases hdis : m.disabled = true
  · rw [if_pos hdis]; exact ⟨rfl, Or.inl hdis⟩
  · rw [if_neg hdis]
    rcases ha with h | ⟨spec, ha⟩
    · exact absurd h hdis
    have hidle : idleWrap l none = none := by unfold idleWrap; split <;> rfl
    unfold stepObs
    cases hx : ms.apply cfg l.auth op with
    | error e =>
      show verdict (track m l (obsOf false none ms l (probeOf op l.a) [])) l (obsOf false none ms l (probeOf op l.a) []) = none ∧
        Agree { (track m l (obsOf false none ms l (probeOf op l.a) [])).1 with prev := _ } ms
      have htr : track m l (obsOf false none ms l (probeOf op l.a) []) = (m, none) := by
        unfold track; rw [if_pos (by simp [obsOf])]
      rw [htr]
      refine ⟨?_, Or.inr ⟨spec, live_prev ha _⟩⟩
      unfold verdict
      rw [if_neg hdis]
      simp only
      rw [answers_none ha l false none _ _ (probe_flag hl)]
      exact hidle
    | ok p =>
      obtain ⟨ms', r⟩ := p
      show verdict (track m l (obsOf true r ms' l (probeOf op l.a) (demOf op))) l (obsOf true r ms' l (probeOf op l.a) (demOf op)) = none ∧
        Agree { (track m l (obsOf true r ms' l (probeOf op l.a) (demOf op))).1 with prev := _ } ms'
      obtain ⟨_, hcase⟩ := track_accepted ha hl hx (obsOf true r ms' l (probeOf op l.a) (demOf op)) rfl rfl
      unfold verdict
      by_cases hd' : (track m l (obsOf true r ms' l (probeOf op l.a) (demOf op))).1.disabled = true
      · rw [if_pos hd']; exact ⟨rfl, Or.inl hd'⟩
      · rw [if_neg hd']
        rcases hcase with h | ⟨h1, h2⟩
        · exact absurd h hd'
        rw [h1]
        simp only
        rw [answers_none h2 l true r _ _ (probe_flag hl)]
        exact ⟨hidle, Or.inr ⟨_, live_prev h2 _⟩⟩

/-- the monitor run over a whole history of model observations: first message, if any. A history
item is an op line with the operation it denotes. -/
def monitorRun (cfg : Cfg) : Mon → MState → List (Line × Op) → Option String
  | _, _, [] => none
  | m, ms, x :: xs =>
    match (checkCore m x.1 (stepObs cfg ms x.1 x.2).2).2 with
    | some msg => some msg
    | none => monitorRun cfg (checkCore m x.1 (stepObs cfg ms x.1 x.2).2).1 (stepObs cfg ms x.1 x.2).1 xs

/-- **monitor soundness**: for every host configuration, flavour label (`initState flavour`: what
the driver's `init` builds; `Own.init flavour`: what its `minit` builds), start ledger and finite
history — any accounts, ids, batch sizes, authorizing subsets, windows and observed ids, any ledger
movement, explicit mints over owned ids included — the monitor reports nothing on the models'
observations -/
theorem monitor_accepts_every_model_trace (cfg : Cfg) (flavour : String) (start : Nat)
    (hist : List (Line × Op)) (hL : ∀ x ∈ hist, x.1.op = some x.2) :
    monitorRun cfg (Own.init flavour) (initState flavour start) hist = none := by
  suffices ∀ m ms, Agree m ms → monitorRun cfg m ms hist = none by
    obtain ⟨hg, hc, he, ht, hfl⟩ := init_good flavour start
    refine this _ _ (Or.inr ⟨_, ⟨hg, fun _ => rfl, ?_, Nat.zero_le _, (fun _ p hp => by cases hp), he,
      fun _ => ht.symm, fun h => hfl.mpr h⟩⟩)
    show List.replicate N 0 = _
    rw [hc]; rfl
  induction hist with
  | nil => intro m ms _; rfl
  | cons x xs ih =>
    intro m ms ha
    obtain ⟨h1, h2⟩ := monitor_sound_step cfg ha x.1 x.2 (hL x List.mem_cons_self)
    unfold monitorRun
    rw [h1]
    exact ih (fun y hy => hL y (List.mem_cons_of_mem _ hy)) _ _ h2

/-! ### the repaired sequential-mint rule (tests, labelled as such) -/

/-- a history line: only the fields the kind uses matter -/
def ln (kind : Kind) (a : List Nat) (id n : Nat) (q : List (Nat × Nat)) (qa : List Nat) : Line :=
  { kind, a, id, n, lu := 0, auth := [], q, qa }

/-- the sequential-mint rule as it was before this proof: a returned id at or above the counter
that the plain map gives an owner was excused (fresh-id hypothesis) only under the label
`flavour=exp` and reported as a reuse under every other label -/
def legacyTrackMint (m : Mon) (l : Line) (o : Obs) : Mon × Option String :=
  match o.ret with
  | none => (m, some "site=nft.mint.ret a sequential mint returned no id")
  | some id =>
    if id < m.next then (m, some s!"site={if m.gap then "nft.idle.id_reused" else "nft.mint.reused"} sequential mint issued {id}, already issued before (counter was {m.next})")
    else if (ghostOwner m id).isSome then
      if m.flavour = "exp" then ({ m with disabled := true }, none)
      else (m, some s!"site=nft.mint.reused sequential mint issued the owned id {id}")
    else ({ setOwner m id (some (l.arg 0)) with next := id + 1, bal := addBal m.bal (l.arg 0) 1, live := m.live + 1 }, none)

/-- FINDING (false alarm of the monitor as it was before this proof): the base model (like
`Base::mint` + `Base::sequential_mint`) accepts an explicit mint under any label. On the model trace
mint_id(to 1, id 0); mint(to 2)  under the label `flavour=seq` the sequential mint issues the id 0
that the explicit mint gave an owner — the fresh-id hypothesis of the property fails, the property
says nothing — and the old rule reported `site=nft.mint.reused` on the model's own observation;
the repaired rule stops judging, as it always did under `flavour=exp`: -/
theorem legacy_sequential_mint_rule_false_alarm :
    let l1 := ln .mintId [1] 0 0 [(0, 3)] [0]
    let l2 := ln .mint [2] 0 0 [(0, 3)] [0]
    let s1 := stepObs ⟨1, 200000⟩ (initState "seq" 100) l1 (.mint 1 0)
    let m1 := checkCore (Own.init "seq") l1 s1.2
    let s2 := stepObs ⟨1, 200000⟩ s1.1 l2 (.mintSeq 2)
    m1.2 = none ∧ s2.2.ok = true ∧ s2.2.ret = some 0 ∧
    (legacyTrackMint m1.1 l2 s2.2).2.isSome = true ∧
    (checkCore m1.1 l2 s2.2).2 = none ∧ (checkCore m1.1 l2 s2.2).1.disabled = true := by
  decide

/-- `Below m`: every id the plain map gives an owner was issued by a counter (lies below `next`) -/
def Below (m : Mon) : Prop := ∀ id, (ghostOwner m id).isSome = true → id < m.next

/-- the two rules differ only where an id at or above the counter has an owner; that never happens
unless an explicit mint (`mint_id`) was accepted: on ANY observations (the implementation's), every
tracking step of another kind keeps all owned ids below the counter. So under the labels whose
contracts have no explicit mint (`seq`, `enum`, `cons`) the repaired rule demands exactly what the
old one demanded, and under `exp` the two rules are the same. -/
theorem explicit_ids_only_above_counter (m : Mon) (l : Line) (o : Obs) (hb : Below m) (hk : l.kind ≠ .mintId) :
    Below (track m l o).1 := by
  -- a point override of the plain map: the id gets an owner below the new counter, or loses it
  have hset : ∀ (m' : Mon) (id : Nat) (v : Option Nat), m'.batches = m.batches → m'.over = setOver m.over id v →
      m.next ≤ m'.next → (v.isSome = true → id < m'.next) → Below m' := by
    intro m' id v h1 h2 h3 h4 x hx
    unfold ghostOwner at hx
    rw [h1, h2, plainOwner_setOver] at hx
    by_cases e : x = id
    · subst e; rw [upd_same] at hx; exact h4 hx
    · rw [upd_other _ _ _ _ e] at hx
      have := hb x hx
      omega
  unfold track
  split
  · exact hb
  · unfold trackAccepted
    split
    · -- mint
      unfold trackMint
      split
      · exact hb
      · rename_i id _
        split
        · exact hb
        · rename_i hge
          split
          · exact hb
          · exact hset _ id (some (l.arg 0)) rfl rfl (by show m.next ≤ id + 1; omega) (fun _ => Nat.lt_succ_self id)
    · rename_i hk'; exact absurd hk' hk
    · -- batch
      unfold trackBatch
      split
      · exact hb
      · rename_i last _
        split
        · exact hb
        · split
          · exact hb
          · rename_i h1 h2
            intro x hx
            show x < last + 1
            by_cases hin : last + 1 - l.n ≤ x ∧ x ≤ last
            · omega
            · have hx' : (ghostOwner m x).isSome = true := by
                unfold ghostOwner plainOwner at hx ⊢
                cases hf : List.find? (fun p => decide (p.1 = x)) m.over with
                | some p => simp only [hf] at hx ⊢; exact hx
                | none =>
                  simp only [hf, List.find?_cons] at hx ⊢
                  rw [show decide (last + 1 - l.n ≤ x ∧ x ≤ last) = false from decide_eq_false hin] at hx
                  exact hx
              have := hb x hx'
              omega
    · -- transfer
      unfold trackMove
      split
      · exact hb
      · rename_i hown
        have : ghostOwner m l.id = some (l.arg 0) := Classical.not_not.mp hown
        exact hset _ l.id (some (l.arg 1)) rfl rfl (Nat.le_refl _) (fun _ => hb _ (by rw [this]; rfl))
    · -- transfer_from
      unfold trackMove
      split
      · exact hb
      · rename_i hown
        have : ghostOwner m l.id = some (l.arg 1) := Classical.not_not.mp hown
        exact hset _ l.id (some (l.arg 2)) rfl rfl (Nat.le_refl _) (fun _ => hb _ (by rw [this]; rfl))
    · -- burn
      unfold trackBurn
      split
      · exact hb
      · exact hset _ l.id none rfl rfl (Nat.le_refl _) (fun h => by cases h)
    · -- burn_from
      unfold trackBurn
      split
      · exact hb
      · exact hset _ l.id none rfl rfl (Nat.le_refl _) (fun h => by cases h)
    · exact hb
    · exact hb

/-- … and a sequence starts with nothing owned -/
theorem below_init (flavour : String) : Below (Own.init flavour) := by
  intro id h; cases h

/-! ### non-vacuity (tests, labelled as such): the monitor is not trivially silent -/

/-- a wrong owner inside a window after an idle ledger: `site=nft.idle.changed … was-site=nft.owner_of id=5` -/
example :
    (checkCore { (Own.init "cons") with batches := [(0, 9, 1)], next := 10, bal := [0, 10, 0, 0, 0, 0], live := 10 }
      { kind := .advance, a := [], id := 0, n := 1, lu := 0, auth := [], q := [(0, 12)], qa := [] }
      ⟨true, none, [(0, 4, some 1), (5, 5, some 2), (6, 9, some 1), (10, 12, none)], [], [0, 10, 0, 0, 0, 0], [], [], [],
        none, [], [], 101, []⟩).2.isSome = true := by
  decide

/-- an owner list that keeps a burned token: `site=nft.enum.owner1` -/
example :
    (checkCore { (Own.init "enum") with over := [(0, some 1), (1, some 1)], next := 2, bal := [0, 2, 0, 0, 0, 0], live := 2 }
      { kind := .burn, a := [1], id := 0, n := 0, lu := 0, auth := [1], q := [(0, 2)], qa := [0] }
      ⟨true, none, [(0, 0, none), (1, 1, some 1), (2, 2, none)], [(0, none)], [0, 1, 0, 0, 0, 0], [], [], [],
        some 1, [some 1, none], [[none], [some 0, none], [], [], [], []], 100, [1]⟩).2.isSome = true := by
  decide

end OZ.NftMon.Own
