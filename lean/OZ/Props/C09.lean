import OZ.Lemmas.TimelockController
/-
C09 — A self-administered timelock controller cannot be driven around its own delay.

Property theorems only. The model (OZ/Model/TimelockController.lean) mirrors
examples/timelock-controller/src/contract.rs after the `fix:` commit (`__check_auth` rejects a
descriptor vector whose length differs from the number of authorized contexts), on top of the
C08 timelock model and a plain-set model of the access-control roles.

All statements are universally quantified over every controller state, every set of
authorizations (`auth`), every signature payload attached for the controller's own address
(`sig`: none, empty, short, long, arbitrary predecessor / salt / executor fields) and every
argument of every entry point. `check_auth_short_payload_counterexample` documents the defect
of the unfixed code on the `checkAuthLegacy` transition.
-/
namespace OZ.TimelockController
open OZ.Host OZ.Timelock

/-! ### `__check_auth` consumes one ready operation per authorized context -/

/-- `__check_auth` returns Ok ⇒ there are exactly as many descriptors as contexts and, for every
context `i`: it is a call on the controller itself; the operation
`(self, fn_i, args_i, pred_i, salt_i)` was Ready before and is Done after (its predecessor zero or
Done); and if executors are configured `executor_i` holds the role and authorized the tuple
("execute_op", self, fn_i, args_i, pred_i, salt_i). -/
theorem check_auth_consumes {c c' : CState} {auth : List AuthTok} {metas : List Meta}
    {ctxs : List Context} (h : checkAuth c auth metas ctxs = .ok c') :
    metas.length = ctxs.length ∧
    ∀ i (hc : i < ctxs.length) (hm : i < metas.length),
      ∃ fn args, ctxs[i] = .contract c.self fn args ∧ Consumed c c' auth fn args metas[i] := by
  obtain ⟨hl, hp⟩ := checkAuth_ok h
  refine ⟨hl, ?_⟩
  intro i hc hm
  obtain ⟨_, hall⟩ := checkPairs_ok hp
  have hmem : (ctxs[i], metas[i]) ∈ ctxs.zip metas := by
    have hz : i < (ctxs.zip metas).length := by simp [List.length_zip]; omega
    have := List.getElem_mem hz
    rw [List.getElem_zip] at this
    exact this
  exact hall _ hmem

/-- … and it changes nothing else: roles, admin, pending admin, minimum delay, clock and target
calls are untouched, a Done operation stays Done, and an operation whose ledger changed was Ready
and is now Done -/
theorem check_auth_frame {c c' : CState} {auth : List AuthTok} {metas : List Meta}
    {ctxs : List Context} (h : checkAuth c auth metas ctxs = .ok c') : Frame c c' :=
  (checkPairs_ok (checkAuth_ok h).2).1

/-- no payload of the wrong length is accepted: empty, short or long -/
theorem check_auth_rejects_length_mismatch (c : CState) (auth : List AuthTok) (metas : List Meta)
    (ctxs : List Context) (h : metas.length ≠ ctxs.length) :
    checkAuth c auth metas ctxs = .error .lengthMismatch := by
  unfold checkAuth; rw [if_pos h]

/-- a context that is not a call on the controller itself (another contract, contract creation)
is never authorized -/
theorem check_auth_only_self_calls {c c' : CState} {auth : List AuthTok} {metas : List Meta}
    {ctxs : List Context} (h : checkAuth c auth metas ctxs = .ok c') :
    ∀ ctx ∈ ctxs, ∃ fn args, ctx = .contract c.self fn args := by
  intro ctx hin
  obtain ⟨i, hi, rfl⟩ := List.getElem_of_mem hin
  obtain ⟨hl, hall⟩ := check_auth_consumes h
  obtain ⟨fn, args, hc, _⟩ := hall i hi (by omega)
  exact ⟨fn, args, hc⟩

/-- non-vacuity: a scheduled, ready `update_delay(42)` is consumed by the right descriptor … -/
example : (checkAuth
    (match applyE (construct 100 200000 0 0 [1] [] none) [.call 1] none
        (.scheduleOp ⟨0, FN_UPDATE_DELAY, [vU32 42], Id.zero, 0⟩ 0 1) with
      | .ok c => c | .error _ => construct 100 200000 0 0 [1] [] none)
    [] [⟨Id.zero, 0, none⟩] [.contract 0 FN_UPDATE_DELAY [vU32 42]]).toBool = true := by decide
/-- … and not by a descriptor with another salt -/
example : (checkAuth
    (match applyE (construct 100 200000 0 0 [1] [] none) [.call 1] none
        (.scheduleOp ⟨0, FN_UPDATE_DELAY, [vU32 42], Id.zero, 0⟩ 0 1) with
      | .ok c => c | .error _ => construct 100 200000 0 0 [1] [] none)
    [] [⟨Id.zero, 1, none⟩] [.contract 0 FN_UPDATE_DELAY [vU32 42]]).toBool = false := by decide

/-! ### admin-only entry points on a self-administered controller -/

/-- On a controller whose admin is the contract itself, an accepted admin-only call
(`update_delay`, `grant_role`, `revoke_role`, `transfer_admin_role`, `renounce_admin`) was
authorized by a payload of exactly one descriptor `m`, and the operation
`(self, that function, exactly those arguments, m.pred, m.salt)` was Ready before the call and is
Done after it (executor conditions as in `Consumed`). Whatever payload is attached — none, empty,
short, long, mismatched — nothing else gets the call through. -/
theorem admin_call_consumes_ready_op {c c' : CState} {auth : List AuthTok} {sig : Option (List Meta)}
    {x : Entry} {fn : Nat} {args : List Nat} (hself : c.admin = some c.self)
    (hx : x.adminCall = some (fn, args)) (h : applyE c auth sig x = .ok c') :
    ∃ m, sig = some [m] ∧ Consumed c c' auth fn args m := by
  -- the two ways the controller's own `require_auth` is reached
  have viaAdmin : ∀ {c1 : CState}, enforceAdminAuth checkAuth c auth sig fn args = .ok c1 →
      Frame c c1 ∧ ∃ m, sig = some [m] ∧ Consumed c c1 auth fn args m := by
    intro c1 h1
    unfold enforceAdminAuth at h1
    rw [hself] at h1
    rcases requireAuth_ok h1 with ⟨_, metas, hs, hc⟩ | ⟨hne, _, _⟩
    · obtain ⟨fr, m, hm, hcons⟩ := self_auth_consumes hc
      exact ⟨fr, m, by rw [hs, hm], hcons⟩
    · exact absurd rfl hne
  have viaCaller : ∀ {c1 : CState} {caller : Nat},
      requireAuth checkAuth c auth sig caller fn args = .ok c1 → ensureAdmin c1 caller = .ok () →
      Frame c c1 ∧ ∃ m, sig = some [m] ∧ Consumed c c1 auth fn args m := by
    intro c1 caller h1 h2
    rcases requireAuth_ok h1 with ⟨_, metas, hs, hc⟩ | ⟨hne, _, rfl⟩
    · obtain ⟨fr, m, hm, hcons⟩ := self_auth_consumes hc
      exact ⟨fr, m, by rw [hs, hm], hcons⟩
    · unfold ensureAdmin at h2
      rw [hself] at h2
      split at h2
      · rename_i he; injection he with he; exact absurd he.symm hne
      · cases h2
  cases x with
  | updateDelay d =>
    simp only [Entry.adminCall, Option.some.injEq, Prod.mk.injEq] at hx
    obtain ⟨rfl, rfl⟩ := hx
    simp only [applyE, applyW, updateDelayW] at h
    cases h1 : enforceAdminAuth checkAuth c auth sig FN_UPDATE_DELAY [vU32 d] with
    | error e => rw [h1] at h; cases h
    | ok c1 =>
      rw [h1] at h; injection h with h; subst h
      obtain ⟨_, m, hm, hcons⟩ := viaAdmin h1
      exact ⟨m, hm, hcons.congr rfl rfl⟩
  | grantRole a r k =>
    simp only [Entry.adminCall, Option.some.injEq, Prod.mk.injEq] at hx
    obtain ⟨rfl, rfl⟩ := hx
    simp only [applyE, applyW, grantRoleW] at h
    cases h1 : requireAuth checkAuth c auth sig k FN_GRANT_ROLE [vAddr a, vSym r, vAddr k] with
    | error e => rw [h1] at h; cases h
    | ok c1 =>
      rw [h1] at h; simp only at h
      cases h2 : ensureAdmin c1 k with
      | error e => rw [h2] at h; cases h
      | ok u =>
        rw [h2] at h; simp only at h
        obtain ⟨_, m, hm, hcons⟩ := viaCaller h1 (by cases u; exact h2)
        split at h
        · injection h with h; subst h; exact ⟨m, hm, hcons⟩
        · injection h with h; subst h; exact ⟨m, hm, hcons.congr rfl rfl⟩
  | revokeRole a r k =>
    simp only [Entry.adminCall, Option.some.injEq, Prod.mk.injEq] at hx
    obtain ⟨rfl, rfl⟩ := hx
    simp only [applyE, applyW, revokeRoleW] at h
    cases h1 : requireAuth checkAuth c auth sig k FN_REVOKE_ROLE [vAddr a, vSym r, vAddr k] with
    | error e => rw [h1] at h; cases h
    | ok c1 =>
      rw [h1] at h; simp only at h
      cases h2 : ensureAdmin c1 k with
      | error e => rw [h2] at h; cases h
      | ok u =>
        rw [h2] at h; simp only at h
        obtain ⟨_, m, hm, hcons⟩ := viaCaller h1 (by cases u; exact h2)
        split at h
        · cases h
        · injection h with h; subst h; exact ⟨m, hm, hcons.congr rfl rfl⟩
  | transferAdmin a lu =>
    simp only [Entry.adminCall, Option.some.injEq, Prod.mk.injEq] at hx
    obtain ⟨rfl, rfl⟩ := hx
    simp only [applyE, applyW, transferAdminW] at h
    cases h1 : enforceAdminAuth checkAuth c auth sig FN_TRANSFER_ADMIN [vAddr a, vU32 lu] with
    | error e => rw [h1] at h; cases h
    | ok c1 =>
      rw [h1] at h; simp only at h
      obtain ⟨_, m, hm, hcons⟩ := viaAdmin h1
      refine ⟨m, hm, ?_⟩
      unfold transferRole at h
      split at h
      · cases hp : livePending c1 with
        | none => rw [hp] at h; cases h
        | some p =>
          rw [hp] at h; simp only at h
          split at h
          · cases h
          · injection h with h; subst h; exact hcons.congr rfl rfl
      · split at h
        · cases h
        · injection h with h; subst h; exact hcons.congr rfl rfl
  | renounceAdmin =>
    simp only [Entry.adminCall, Option.some.injEq, Prod.mk.injEq] at hx
    obtain ⟨rfl, rfl⟩ := hx
    simp only [applyE, applyW, renounceAdminW] at h
    cases h1 : enforceAdminAuth checkAuth c auth sig FN_RENOUNCE_ADMIN [] with
    | error e => rw [h1] at h; cases h
    | ok c1 =>
      rw [h1] at h; simp only at h
      obtain ⟨_, m, hm, hcons⟩ := viaAdmin h1
      split at h
      · cases h
      · injection h with h; subst h; exact ⟨m, hm, hcons.congr rfl rfl⟩
  | scheduleOp op d p => simp [Entry.adminCall] at hx
  | cancelOp id k => simp [Entry.adminCall] at hx
  | executeOp op ex ok => simp [Entry.adminCall] at hx
  | acceptAdmin => simp [Entry.adminCall] at hx
  | checkAuth metas ctxs => simp [Entry.adminCall] at hx
  | advance n => simp [Entry.adminCall] at hx

/-- Every change of the minimum delay, of role membership, of the pending admin or of the admin of
a self-administered controller is the effect of an admin-only call that consumed a ready operation
for exactly that call — or, for the admin alone, of `accept_admin_transfer` by the live pending
admin (who was installed as pending by a timelocked `transfer_admin_role`) with its authorization. -/
theorem admin_effect_requires_ready_op {c c' : CState} {auth : List AuthTok} {sig : Option (List Meta)}
    {x : Entry} (hself : c.admin = some c.self) (h : applyE c auth sig x = .ok c')
    (heff : c'.tl.minDelay ≠ c.tl.minDelay ∨ c'.roles ≠ c.roles ∨ c'.pending ≠ c.pending ∨ c'.admin ≠ c.admin) :
    (∃ fn args m, x.adminCall = some (fn, args) ∧ sig = some [m] ∧ Consumed c c' auth fn args m) ∨
    (x = .acceptAdmin ∧ ∃ p, livePending c = some p ∧ AuthTok.call p ∈ auth ∧ c'.admin = some p) := by
  cases hx : x.adminCall with
  | some fa =>
    obtain ⟨fn, args⟩ := fa
    obtain ⟨m, hm, hcons⟩ := admin_call_consumes_ready_op hself hx h
    exact Or.inl ⟨fn, args, m, rfl, hm, hcons⟩
  | none =>
    cases x with
    | updateDelay d => simp [Entry.adminCall] at hx
    | grantRole a r k => simp [Entry.adminCall] at hx
    | revokeRole a r k => simp [Entry.adminCall] at hx
    | transferAdmin a lu => simp [Entry.adminCall] at hx
    | renounceAdmin => simp [Entry.adminCall] at hx
    | scheduleOp op d p =>
      exfalso
      simp only [applyE, applyW, scheduleOp] at h
      split at h
      · cases h
      · cases h1 : requireAuthPlain c auth p with
        | error e => rw [h1] at h; cases h
        | ok u =>
          rw [h1] at h; simp only at h
          obtain ⟨tl', hs, rfl⟩ := liftTl_ok h
          obtain ⟨_, _, _, _, rfl⟩ := schedule_ok hs
          rcases heff with e | e | e | e <;> exact e rfl
    | cancelOp id k =>
      exfalso
      simp only [applyE, applyW, cancelOp] at h
      split at h
      · cases h
      · cases h1 : requireAuthPlain c auth k with
        | error e => rw [h1] at h; cases h
        | ok u =>
          rw [h1] at h; simp only at h
          obtain ⟨tl', hs, rfl⟩ := liftTl_ok h
          obtain ⟨_, rfl⟩ := cancel_ok hs
          rcases heff with e | e | e | e <;> exact e rfl
    | executeOp op ex ok =>
      exfalso
      simp only [applyE, applyW, executeOp] at h
      cases h1 : executorGate c auth ex with
      | error e => rw [h1] at h; cases h
      | ok u =>
        rw [h1] at h; simp only at h
        obtain ⟨tl', hs, rfl⟩ := liftTl_ok h
        obtain ⟨s1, hs1, _, rfl⟩ := execute_ok hs
        obtain ⟨_, _, _, rfl⟩ := setExecute_ok hs1
        rcases heff with e | e | e | e <;> exact e rfl
    | acceptAdmin =>
      right
      refine ⟨rfl, ?_⟩
      simp only [applyE, applyW, acceptAdmin] at h
      rw [hself] at h
      simp only at h
      cases hp : livePending c with
      | none => rw [hp] at h; cases h
      | some p =>
        rw [hp] at h; simp only at h
        cases h1 : requireAuthPlain c auth p with
        | error e => rw [h1] at h; cases h
        | ok u =>
          rw [h1] at h; simp only at h
          injection h with h; subst h
          exact ⟨p, rfl, (requireAuthPlain_ok (by cases u; exact h1)).2, rfl⟩
    | checkAuth metas ctxs =>
      exfalso
      have fr := check_auth_frame (show checkAuth c auth metas ctxs = .ok c' from h)
      rcases heff with e | e | e | e
      · exact e fr.minDelay
      · exact e fr.roles
      · exact e fr.pending
      · exact e fr.admin
    | advance n =>
      exfalso
      simp only [applyE, applyW] at h
      obtain ⟨tl', hs, rfl⟩ := liftTl_ok h
      obtain ⟨_, rfl⟩ := advance_ok hs
      rcases heff with e | e | e | e <;> exact e rfl

/-- the consumed operation really went through the timelock: in a reachable state it was scheduled
(an accepted `schedule_operation` of exactly this id is in the log) with a delay not below the
minimum delay then in force, that delay has elapsed, and nothing about it was accepted since -/
theorem consumed_op_was_scheduled {c c' : CState} {auth : List AuthTok} {fn : Nat} {args : List Nat}
    {m : Meta} (hi : Inv c.tl) (h : Consumed c c' auth fn args m) :
    ∃ newer older l d md, c.tl.log = newer ++ Ev.sched (opOf c.self fn args m).id l d md :: older ∧
      (∀ e ∈ newer, e.id ≠ (opOf c.self fn args m).id) ∧ md ≤ d ∧ elapsed l d c.tl.now :=
  ready_was_scheduled hi h.1

/-- the timelock invariant (C08) holds in every state of the controller reachable at ledgers ≥ 2 -/
theorem controller_inv {c c' : CState} {auth : List AuthTok} {sig : Option (List Meta)} {x : Entry}
    (hi : Inv c.tl) (h : applyE c auth sig x = .ok c') : Inv c'.tl := by
  have viaReq : ∀ {c1 : CState} {who fn : Nat} {args : List Nat},
      requireAuth checkAuth c auth sig who fn args = .ok c1 → Inv c1.tl := by
    intro c1 who fn args h1
    rcases requireAuth_ok h1 with ⟨_, metas, _, hc⟩ | ⟨_, _, rfl⟩
    · exact checkPairs_inv hi (checkAuth_ok hc).2
    · exact hi
  have viaAdmin : ∀ {c1 : CState} {fn : Nat} {args : List Nat},
      enforceAdminAuth checkAuth c auth sig fn args = .ok c1 → Inv c1.tl := by
    intro c1 fn args h1
    unfold enforceAdminAuth at h1
    cases ha : c.admin with
    | none => rw [ha] at h1; cases h1
    | some a => rw [ha] at h1; exact viaReq h1
  have keep : ∀ {s s' : Timelock.State}, Inv s → s'.ledger = s.ledger → s'.now = s.now → s'.log = s.log → Inv s' := by
    intro s s' hs h1 h2 h3
    exact ⟨by rw [h2]; exact hs.nowLo, by rw [h2]; exact hs.nowHi,
      fun id => by rw [h1, h2, h3]; exact hs.coh id, fun id => by rw [h1, h3]; exact hs.cnt id⟩
  cases x with
  | scheduleOp op d p =>
    simp only [applyE, applyW, scheduleOp] at h
    split at h
    · cases h
    · cases h1 : requireAuthPlain c auth p with
      | error e => rw [h1] at h; cases h
      | ok u =>
        rw [h1] at h; simp only at h
        obtain ⟨tl', hs, rfl⟩ := liftTl_ok h
        exact schedule_inv hi hs
  | cancelOp id k =>
    simp only [applyE, applyW, cancelOp] at h
    split at h
    · cases h
    · cases h1 : requireAuthPlain c auth k with
      | error e => rw [h1] at h; cases h
      | ok u =>
        rw [h1] at h; simp only at h
        obtain ⟨tl', hs, rfl⟩ := liftTl_ok h
        exact cancel_inv hi hs
  | executeOp op ex ok =>
    simp only [applyE, applyW, executeOp] at h
    cases h1 : executorGate c auth ex with
    | error e => rw [h1] at h; cases h
    | ok u =>
      rw [h1] at h; simp only at h
      obtain ⟨tl', hs, rfl⟩ := liftTl_ok h
      exact apply_inv hi (x := .execute op ok) hs
  | updateDelay d =>
    simp only [applyE, applyW, updateDelayW] at h
    cases h1 : enforceAdminAuth checkAuth c auth sig FN_UPDATE_DELAY [vU32 d] with
    | error e => rw [h1] at h; cases h
    | ok c1 =>
      rw [h1] at h; injection h with h; subst h
      exact keep (viaAdmin h1) rfl rfl rfl
  | grantRole a r k =>
    simp only [applyE, applyW, grantRoleW] at h
    cases h1 : requireAuth checkAuth c auth sig k FN_GRANT_ROLE [vAddr a, vSym r, vAddr k] with
    | error e => rw [h1] at h; cases h
    | ok c1 =>
      rw [h1] at h; simp only at h
      cases h2 : ensureAdmin c1 k with
      | error e => rw [h2] at h; cases h
      | ok u =>
        rw [h2] at h; simp only at h
        split at h
        · injection h with h; subst h; exact (viaReq h1 : Inv c1.tl)
        · injection h with h; subst h; exact (viaReq h1 : Inv c1.tl)
  | revokeRole a r k =>
    simp only [applyE, applyW, revokeRoleW] at h
    cases h1 : requireAuth checkAuth c auth sig k FN_REVOKE_ROLE [vAddr a, vSym r, vAddr k] with
    | error e => rw [h1] at h; cases h
    | ok c1 =>
      rw [h1] at h; simp only at h
      cases h2 : ensureAdmin c1 k with
      | error e => rw [h2] at h; cases h
      | ok u =>
        rw [h2] at h; simp only at h
        split at h
        · cases h
        · injection h with h; subst h; exact (viaReq h1 : Inv c1.tl)
  | transferAdmin a lu =>
    simp only [applyE, applyW, transferAdminW] at h
    cases h1 : enforceAdminAuth checkAuth c auth sig FN_TRANSFER_ADMIN [vAddr a, vU32 lu] with
    | error e => rw [h1] at h; cases h
    | ok c1 =>
      rw [h1] at h; simp only at h
      unfold transferRole at h
      split at h
      · cases hp : livePending c1 with
        | none => rw [hp] at h; cases h
        | some p =>
          rw [hp] at h; simp only at h
          split at h
          · cases h
          · injection h with h; subst h; exact (viaAdmin h1 : Inv c1.tl)
      · split at h
        · cases h
        · injection h with h; subst h; exact (viaAdmin h1 : Inv c1.tl)
  | acceptAdmin =>
    simp only [applyE, applyW, acceptAdmin] at h
    cases ha : c.admin with
    | none => rw [ha] at h; cases h
    | some a =>
      rw [ha] at h; simp only at h
      cases hp : livePending c with
      | none => rw [hp] at h; cases h
      | some p =>
        rw [hp] at h; simp only at h
        cases h1 : requireAuthPlain c auth p with
        | error e => rw [h1] at h; cases h
        | ok u => rw [h1] at h; simp only at h; injection h with h; subst h; exact hi
  | renounceAdmin =>
    simp only [applyE, applyW, renounceAdminW] at h
    cases h1 : enforceAdminAuth checkAuth c auth sig FN_RENOUNCE_ADMIN [] with
    | error e => rw [h1] at h; cases h
    | ok c1 =>
      rw [h1] at h; simp only at h
      split at h
      · cases h
      · injection h with h; subst h; exact (viaAdmin h1 : Inv c1.tl)
  | checkAuth metas ctxs =>
    exact checkPairs_inv hi (checkAuth_ok (show checkAuth c auth metas ctxs = .ok c' from h)).2
  | advance n =>
    simp only [applyE, applyW] at h
    obtain ⟨tl', hs, rfl⟩ := liftTl_ok h
    exact apply_inv hi (x := .advance n) hs

/-- the constructor establishes the invariant at ledgers ≥ 2 -/
theorem construct_inv {now maxTtl self minDelay : Nat} {ps es : List Nat} {admin : Option Nat}
    (h2 : 2 ≤ now) (hm : now ≤ U32_MAX) : Inv (construct now maxTtl self minDelay ps es admin).tl := by
  have := init_inv h2 hm
  exact ⟨this.nowLo, this.nowHi, this.coh, this.cnt⟩

/-! ### roles and authorization of schedule / cancel / execute -/

/-- scheduling requires the proposer role and that account's authorization -/
theorem schedule_role_and_auth {c c' : CState} {auth : List AuthTok} {sig : Option (List Meta)}
    {op : Operation} {d p : Nat} (h : applyE c auth sig (.scheduleOp op d p) = .ok c') :
    c.hasRole PROPOSER p = true ∧ AuthTok.call p ∈ auth ∧
      ∃ tl', schedule c.tl op d = .ok tl' ∧ c' = { c with tl := tl' } := by
  simp only [applyE, applyW, scheduleOp] at h
  split at h
  · cases h
  · rename_i hr
    cases h1 : requireAuthPlain c auth p with
    | error e => rw [h1] at h; cases h
    | ok u =>
      rw [h1] at h; simp only at h
      exact ⟨by simpa using hr, (requireAuthPlain_ok (by cases u; exact h1)).2, liftTl_ok h⟩

/-- cancelling requires the canceller role and that account's authorization -/
theorem cancel_role_and_auth {c c' : CState} {auth : List AuthTok} {sig : Option (List Meta)}
    {id : Id} {k : Nat} (h : applyE c auth sig (.cancelOp id k) = .ok c') :
    c.hasRole CANCELLER k = true ∧ AuthTok.call k ∈ auth ∧
      ∃ tl', cancel c.tl id = .ok tl' ∧ c' = { c with tl := tl' } := by
  simp only [applyE, applyW, cancelOp] at h
  split at h
  · cases h
  · rename_i hr
    cases h1 : requireAuthPlain c auth k with
    | error e => rw [h1] at h; cases h
    | ok u =>
      rw [h1] at h; simp only at h
      exact ⟨by simpa using hr, (requireAuthPlain_ok (by cases u; exact h1)).2, liftTl_ok h⟩

/-- whenever any executor is configured, executing requires the executor role and that
account's authorization -/
theorem execute_role_and_auth {c c' : CState} {auth : List AuthTok} {sig : Option (List Meta)}
    {op : Operation} {ex : Option Nat} {ok : Bool} (h : applyE c auth sig (.executeOp op ex ok) = .ok c') :
    ((c.roles EXECUTOR).length ≠ 0 →
      ∃ e, ex = some e ∧ c.hasRole EXECUTOR e = true ∧ AuthTok.call e ∈ auth) ∧
    ∃ tl', execute c.tl op ok = .ok tl' ∧ c' = { c with tl := tl' } := by
  simp only [applyE, applyW, executeOp] at h
  cases h1 : executorGate c auth ex with
  | error e => rw [h1] at h; cases h
  | ok u =>
    rw [h1] at h; simp only at h
    refine ⟨?_, liftTl_ok h⟩
    intro hne
    unfold executorGate at h1
    rw [if_neg hne] at h1
    cases ex with
    | none => cases h1
    | some e =>
      simp only at h1
      split at h1
      · cases h1
      · rename_i hr
        exact ⟨e, rfl, by simpa using hr, (requireAuthPlain_ok (by cases u; exact h1)).2⟩

/-- operations enter the timelock only through `schedule_op`: any other accepted entry point
leaves the set of schedule records of the log unchanged -/
theorem schedule_only_by_proposer {c c' : CState} {auth : List AuthTok} {sig : Option (List Meta)}
    {x : Entry} (h : applyE c auth sig x = .ok c') (id : Id) (l d m : Nat)
    (hnew : Ev.sched id l d m ∈ c'.tl.log) (hold : Ev.sched id l d m ∉ c.tl.log) :
    ∃ op p, x = .scheduleOp op d p ∧ op.id = id ∧ c.hasRole PROPOSER p = true ∧ AuthTok.call p ∈ auth := by
  -- `__check_auth` only appends execution records
  have viaPairs : ∀ {pairs : List (Context × Meta)} {a b : CState}, checkPairs a auth pairs = .ok b →
      Ev.sched id l d m ∈ b.tl.log → Ev.sched id l d m ∈ a.tl.log := by
    intro pairs
    induction pairs with
    | nil => intro a b hp hin; injection hp with hp; subst hp; exact hin
    | cons hd rest ih =>
      intro a b hp hin
      obtain ⟨ctx, mm⟩ := hd
      unfold checkPairs at hp
      cases h1 : checkOne a auth ctx mm with
      | error e => rw [h1] at hp; cases hp
      | ok a1 =>
        rw [h1] at hp; simp only at hp
        have := ih hp hin
        obtain ⟨fn, args, tl', _, _, hs, rfl⟩ := checkOne_ok h1
        obtain ⟨_, _, _, rfl⟩ := setExecute_ok hs
        cases this with
        | tail _ h' => exact h'
  have viaReq : ∀ {c1 : CState} {who fn : Nat} {args : List Nat},
      requireAuth checkAuth c auth sig who fn args = .ok c1 → Ev.sched id l d m ∈ c1.tl.log → False := by
    intro c1 who fn args h1 hin
    rcases requireAuth_ok h1 with ⟨_, metas, _, hc⟩ | ⟨_, _, rfl⟩
    · exact hold (viaPairs (checkAuth_ok hc).2 hin)
    · exact hold hin
  have viaAdmin : ∀ {c1 : CState} {fn : Nat} {args : List Nat},
      enforceAdminAuth checkAuth c auth sig fn args = .ok c1 → Ev.sched id l d m ∈ c1.tl.log → False := by
    intro c1 fn args h1 hin
    unfold enforceAdminAuth at h1
    cases ha : c.admin with
    | none => rw [ha] at h1; cases h1
    | some a => rw [ha] at h1; exact viaReq h1 hin
  cases x with
  | scheduleOp op d' p =>
    obtain ⟨hr, ha, tl', hs, rfl⟩ := schedule_role_and_auth h
    obtain ⟨m', _, _, _, rfl⟩ := schedule_ok hs
    cases hnew with
    | head => exact ⟨op, p, rfl, rfl, hr, ha⟩
    | tail _ h' => exact absurd h' hold
  | cancelOp i k =>
    obtain ⟨_, _, tl', hs, rfl⟩ := cancel_role_and_auth h
    obtain ⟨_, rfl⟩ := cancel_ok hs
    cases hnew with
    | tail _ h' => exact absurd h' hold
  | executeOp op ex ok =>
    obtain ⟨_, tl', hs, rfl⟩ := execute_role_and_auth h
    obtain ⟨s1, hs1, _, rfl⟩ := execute_ok hs
    obtain ⟨_, _, _, rfl⟩ := setExecute_ok hs1
    cases hnew with
    | tail _ h' => exact absurd h' hold
  | updateDelay dd =>
    exfalso
    simp only [applyE, applyW, updateDelayW] at h
    cases h1 : enforceAdminAuth checkAuth c auth sig FN_UPDATE_DELAY [vU32 dd] with
    | error e => rw [h1] at h; cases h
    | ok c1 => rw [h1] at h; injection h with h; subst h; exact viaAdmin h1 hnew
  | grantRole a r k =>
    exfalso
    simp only [applyE, applyW, grantRoleW] at h
    cases h1 : requireAuth checkAuth c auth sig k FN_GRANT_ROLE [vAddr a, vSym r, vAddr k] with
    | error e => rw [h1] at h; cases h
    | ok c1 =>
      rw [h1] at h; simp only at h
      cases h2 : ensureAdmin c1 k with
      | error e => rw [h2] at h; cases h
      | ok u =>
        rw [h2] at h; simp only at h
        split at h
        · injection h with h; subst h; exact viaReq h1 hnew
        · injection h with h; subst h; exact viaReq h1 hnew
  | revokeRole a r k =>
    exfalso
    simp only [applyE, applyW, revokeRoleW] at h
    cases h1 : requireAuth checkAuth c auth sig k FN_REVOKE_ROLE [vAddr a, vSym r, vAddr k] with
    | error e => rw [h1] at h; cases h
    | ok c1 =>
      rw [h1] at h; simp only at h
      cases h2 : ensureAdmin c1 k with
      | error e => rw [h2] at h; cases h
      | ok u =>
        rw [h2] at h; simp only at h
        split at h
        · cases h
        · injection h with h; subst h; exact viaReq h1 hnew
  | transferAdmin a lu =>
    exfalso
    simp only [applyE, applyW, transferAdminW] at h
    cases h1 : enforceAdminAuth checkAuth c auth sig FN_TRANSFER_ADMIN [vAddr a, vU32 lu] with
    | error e => rw [h1] at h; cases h
    | ok c1 =>
      rw [h1] at h; simp only at h
      unfold transferRole at h
      split at h
      · cases hp : livePending c1 with
        | none => rw [hp] at h; cases h
        | some p =>
          rw [hp] at h; simp only at h
          split at h
          · cases h
          · injection h with h; subst h; exact viaAdmin h1 hnew
      · split at h
        · cases h
        · injection h with h; subst h; exact viaAdmin h1 hnew
  | acceptAdmin =>
    exfalso
    simp only [applyE, applyW, acceptAdmin] at h
    cases ha : c.admin with
    | none => rw [ha] at h; cases h
    | some a =>
      rw [ha] at h; simp only at h
      cases hp : livePending c with
      | none => rw [hp] at h; cases h
      | some p =>
        rw [hp] at h; simp only at h
        cases h1 : requireAuthPlain c auth p with
        | error e => rw [h1] at h; cases h
        | ok u => rw [h1] at h; simp only at h; injection h with h; subst h; exact hold hnew
  | renounceAdmin =>
    exfalso
    simp only [applyE, applyW, renounceAdminW] at h
    cases h1 : enforceAdminAuth checkAuth c auth sig FN_RENOUNCE_ADMIN [] with
    | error e => rw [h1] at h; cases h
    | ok c1 =>
      rw [h1] at h; simp only at h
      split at h
      · cases h
      · injection h with h; subst h; exact viaAdmin h1 hnew
  | checkAuth metas ctxs =>
    exfalso
    exact hold (viaPairs (checkAuth_ok (show checkAuth c auth metas ctxs = .ok c' from h)).2 hnew)
  | advance n =>
    exfalso
    simp only [applyE, applyW] at h
    obtain ⟨tl', hs, rfl⟩ := liftTl_ok h
    obtain ⟨_, rfl⟩ := advance_ok hs
    exact hold hnew

/-! ### the defect of the unfixed code (regression documentation) -/

/-- Before the fix (`checkAuthLegacy`, `applyLegacy`): on a freshly constructed self-administered
controller (minimum delay 5, one proposer, nothing ever scheduled — the log is empty) `__check_auth`
returns Ok for an `update_delay(42)` context with the EMPTY descriptor vector, and likewise for two
contexts with one descriptor short; so `update_delay(42)` called by anybody with an empty payload
sets the minimum delay to 42 and `grant_role` makes account 3 a proposer, with executors
configured or not — nothing is consumed. The fixed transition rejects all of these. -/
theorem check_auth_short_payload_counterexample :
    (construct 100 200000 0 5 [1] [] none).tl.log = [] ∧
    (checkAuthLegacy (construct 100 200000 0 5 [1] [] none) [] []
        [.contract 0 FN_UPDATE_DELAY [vU32 42]]).toBool = true ∧
    (checkAuthLegacy (construct 100 200000 0 5 [1] [3] none) [] []
        [.contract 0 FN_UPDATE_DELAY [vU32 42], .contract 0 FN_RENOUNCE_ADMIN []]).toBool = true ∧
    ((applyLegacy (construct 100 200000 0 5 [1] [] none) [] (some []) (.updateDelay 42)).toOption.bind
        (·.tl.minDelay)) = some 42 ∧
    ((applyLegacy (construct 100 200000 0 5 [1] [3] none) [] (some []) (.grantRole 3 PROPOSER 0)).toOption.map
        (·.hasRole PROPOSER 3)) = some true ∧
    (applyE (construct 100 200000 0 5 [1] [] none) [] (some []) (.updateDelay 42)).toBool = false ∧
    (applyE (construct 100 200000 0 5 [1] [3] none) [] (some []) (.grantRole 3 PROPOSER 0)).toBool = false ∧
    (checkAuth (construct 100 200000 0 5 [1] [] none) [] []
        [.contract 0 FN_UPDATE_DELAY [vU32 42]]).toBool = false := by
  decide

end OZ.TimelockController
