import OZ.Lemmas.TimelockController
/-
C09 — A self-administered timelock controller cannot be driven around its own delay.

Property theorems only. The model (OZ/Model/TimelockController.lean) mirrors
examples/timelock-controller/src/contract.rs after the `fix:` commit (`__check_auth` rejects a
descriptor vector whose length differs from the number of authorized contexts), on top of the
C08 timelock model and of C06's access-control model (OZ/Model/Access.lean): the controller's whole
exposed `AccessControl` surface is covered — `grant_role` / `revoke_role` by the admin and by holders
of a role's admin role, `set_role_admin`, `renounce_role`, `transfer_admin_role`,
`accept_admin_transfer`, `renounce_admin`.

All statements are universally quantified over every controller state, every set of
authorizations (`auth`), every signature payload attached for the controller's own address
(`sig`: none, empty, short, long, arbitrary predecessor / salt / executor fields) and every
argument of every entry point. `check_auth_short_payload_counterexample` documents the defect
of the unfixed code on the `checkAuthLegacy` transition.
-/
namespace OZ.TimelockController
open OZ.Host OZ.Timelock

/-! ### `__check_auth` consumes one ready operation per authorized context -/

/-- `__check_auth` returns Ok ⇒ there are exactly as many descriptors as contexts and, for every
context `i`: it is a call on the controller itself; the operation
`(self, fn_i, args_i, pred_i, salt_i)` was Ready before and is Done after (its predecessor zero or
Done); and if executors are configured `executor_i` holds the role and authorized the tuple
("execute_op", self, fn_i, args_i, pred_i, salt_i). -/
theorem check_auth_consumes {c c' : CState} {auth : List AuthTok} {metas : List Meta}
    {ctxs : List Context} (h : checkAuth c auth metas ctxs = .ok c') :
    metas.length = ctxs.length ∧
    ∀ i (hc : i < ctxs.length) (hm : i < metas.length),
      ∃ fn args, ctxs[i] = .contract c.self fn args ∧ Consumed c c' auth fn args metas[i] := by
  obtain ⟨hl, hp⟩ := checkAuth_ok h
  refine ⟨hl, ?_⟩
  intro i hc hm
  obtain ⟨_, hall⟩ := checkPairs_ok hp
  have hmem : (ctxs[i], metas[i]) ∈ ctxs.zip metas := by
    have hz : i < (ctxs.zip metas).length := by simp [List.length_zip]; omega
    have := List.getElem_mem hz
    rw [List.getElem_zip] at this
    exact this
  exact hall _ hmem

/-- … and it changes nothing else: roles, admin, pending admin, minimum delay, clock and target
calls are untouched, a Done operation stays Done, and an operation whose ledger changed was Ready
and is now Done -/
theorem check_auth_frame {c c' : CState} {auth : List AuthTok} {metas : List Meta}
    {ctxs : List Context} (h : checkAuth c auth metas ctxs = .ok c') : Frame c c' :=
  (checkPairs_ok (checkAuth_ok h).2).1

/-- no payload of the wrong length is accepted: empty, short or long -/
theorem check_auth_rejects_length_mismatch (c : CState) (auth : List AuthTok) (metas : List Meta)
    (ctxs : List Context) (h : metas.length ≠ ctxs.length) :
    checkAuth c auth metas ctxs = .error .lengthMismatch := by
  unfold checkAuth; rw [if_pos h]

/-- a context that is not a call on the controller itself (another contract, contract creation)
is never authorized -/
theorem check_auth_only_self_calls {c c' : CState} {auth : List AuthTok} {metas : List Meta}
    {ctxs : List Context} (h : checkAuth c auth metas ctxs = .ok c') :
    ∀ ctx ∈ ctxs, ∃ fn args, ctx = .contract c.self fn args := by
  intro ctx hin
  obtain ⟨i, hi, rfl⟩ := List.getElem_of_mem hin
  obtain ⟨hl, hall⟩ := check_auth_consumes h
  obtain ⟨fn, args, hc, _⟩ := hall i hi (by omega)
  exact ⟨fn, args, hc⟩

/-- non-vacuity: a scheduled, ready `update_delay(42)` is consumed by the right descriptor … -/
example : (checkAuth
    (match applyE (construct 100 200000 0 0 [1] [] none) [.call 1] none
        (.scheduleOp ⟨0, FN_UPDATE_DELAY, [vU32 42], Id.zero, 0⟩ 0 1) with
      | .ok c => c | .error _ => construct 100 200000 0 0 [1] [] none)
    [] [⟨Id.zero, 0, none⟩] [.contract 0 FN_UPDATE_DELAY [vU32 42]]).toBool = true := by decide
/-- … and not by a descriptor with another salt -/
example : (checkAuth
    (match applyE (construct 100 200000 0 0 [1] [] none) [.call 1] none
        (.scheduleOp ⟨0, FN_UPDATE_DELAY, [vU32 42], Id.zero, 0⟩ 0 1) with
      | .ok c => c | .error _ => construct 100 200000 0 0 [1] [] none)
    [] [⟨Id.zero, 1, none⟩] [.contract 0 FN_UPDATE_DELAY [vU32 42]]).toBool = false := by decide

/-! ### admin-only entry points on a self-administered controller -/

/-- On a controller whose admin is the contract itself, an accepted admin-only call
(`update_delay`, `set_role_admin`, `transfer_admin_role`, `renounce_admin`) was authorized by a
payload of exactly one descriptor `m`, and the operation
`(self, that function, exactly those arguments, m.pred, m.salt)` was Ready before the call and is
Done after it (executor conditions as in `Consumed`). Whatever payload is attached — none, empty,
short, long, mismatched — nothing else gets the call through. -/
theorem admin_call_consumes_ready_op {c c' : CState} {auth : List AuthTok} {sig : Option (List Meta)}
    {x : Entry} {fn : Nat} {args : List Nat} (hself : c.admin = some c.self)
    (hx : x.adminCall = some (fn, args)) (h : applyE c auth sig x = .ok c') :
    ∃ m, sig = some [m] ∧ Consumed c c' auth fn args m := by
  have viaAdmin : ∀ {c1 : CState}, enforceAdminAuth checkAuth c auth sig fn args = .ok c1 →
      ∃ m, sig = some [m] ∧ Consumed c c1 auth fn args m := by
    intro c1 h1
    obtain ⟨a, ha, h2⟩ := admin_step h1
    rw [hself] at ha; injection ha with ha; subst ha
    rcases (auth_step h2).2 with ⟨_, m, hm, hcons⟩ | ⟨hne, _, _⟩
    · exact ⟨m, hm, hcons⟩
    · exact absurd rfl hne
  cases x with
  | updateDelay d =>
    simp only [Entry.adminCall, Option.some.injEq, Prod.mk.injEq] at hx
    obtain ⟨rfl, rfl⟩ := hx
    simp only [applyE, applyW, updateDelayW] at h
    cases h1 : enforceAdminAuth checkAuth c auth sig FN_UPDATE_DELAY [vU32 d] with
    | error e => rw [h1] at h; cases h
    | ok c1 =>
      rw [h1] at h; injection h with h; subst h
      obtain ⟨m, hm, hcons⟩ := viaAdmin h1
      exact ⟨m, hm, hcons.congr rfl rfl⟩
  | setRoleAdmin r ar =>
    simp only [Entry.adminCall, Option.some.injEq, Prod.mk.injEq] at hx
    obtain ⟨rfl, rfl⟩ := hx
    simp only [applyE, applyW, setRoleAdminW] at h
    cases h1 : enforceAdminAuth checkAuth c auth sig FN_SET_ROLE_ADMIN [vSym r, vSym ar] with
    | error e => rw [h1] at h; cases h
    | ok c1 =>
      rw [h1] at h; injection h with h; subst h
      obtain ⟨m, hm, hcons⟩ := viaAdmin h1
      exact ⟨m, hm, hcons.congr rfl rfl⟩
  | transferAdmin a lu =>
    simp only [Entry.adminCall, Option.some.injEq, Prod.mk.injEq] at hx
    obtain ⟨rfl, rfl⟩ := hx
    simp only [applyE, applyW, transferAdminW] at h
    cases h1 : enforceAdminAuth checkAuth c auth sig FN_TRANSFER_ADMIN [vAddr a, vU32 lu] with
    | error e => rw [h1] at h; cases h
    | ok c1 =>
      rw [h1] at h; simp only at h
      obtain ⟨t, _, rfl⟩ := withAdm_ok h
      obtain ⟨m, hm, hcons⟩ := viaAdmin h1
      exact ⟨m, hm, hcons.congr rfl rfl⟩
  | renounceAdmin =>
    simp only [Entry.adminCall, Option.some.injEq, Prod.mk.injEq] at hx
    obtain ⟨rfl, rfl⟩ := hx
    simp only [applyE, applyW, renounceAdminW] at h
    cases h1 : enforceAdminAuth checkAuth c auth sig FN_RENOUNCE_ADMIN [] with
    | error e => rw [h1] at h; cases h
    | ok c1 =>
      rw [h1] at h; simp only [dropAdmin] at h
      cases h2 : OZ.RoleTransfer.refuseIfPending c1.ac.adm with
      | error e => rw [h2] at h; cases h
      | ok u =>
        rw [h2] at h; injection h with h; subst h
        obtain ⟨m, hm, hcons⟩ := viaAdmin h1
        exact ⟨m, hm, hcons.congr rfl rfl⟩
  | scheduleOp op d p => simp [Entry.adminCall] at hx
  | cancelOp id k => simp [Entry.adminCall] at hx
  | executeOp op ex ok => simp [Entry.adminCall] at hx
  | grantRole a r k => simp [Entry.adminCall] at hx
  | revokeRole a r k => simp [Entry.adminCall] at hx
  | renounceRole r k => simp [Entry.adminCall] at hx
  | acceptAdmin => simp [Entry.adminCall] at hx
  | checkAuth metas ctxs => simp [Entry.adminCall] at hx
  | advance n => simp [Entry.adminCall] at hx

/-- `grant_role` / `revoke_role` / `renounce_role` are authorized by the caller named in the
arguments: if that is the controller itself, exactly one descriptor and the operation for exactly
that call was consumed; otherwise that account signed the call (and `__check_auth` did not run:
the timelock state is untouched). Moreover a grant / revoke was permitted: the caller is the admin
or holds the admin role of the role concerned. -/
theorem caller_call_authorized {c c' : CState} {auth : List AuthTok} {sig : Option (List Meta)}
    {x : Entry} {k fn : Nat} {args : List Nat} (hx : x.callerCall = some (k, fn, args))
    (h : applyE c auth sig x = .ok c') :
    ((k = c.self ∧ ∃ m, sig = some [m] ∧ Consumed c c' auth fn args m) ∨
     (k ≠ c.self ∧ AuthTok.call k ∈ auth ∧ c'.tl = c.tl)) ∧
    (∀ a r, (x = .grantRole a r k ∨ x = .revokeRole a r k) →
      OZ.Access.isAdmin c.ac k = true ∨ OZ.Access.isAdminRole c.ac r k = true) := by
  have fin : ∀ {c1 : CState}, requireAuth checkAuth c auth sig k fn args = .ok c1 →
      c'.tl = c1.tl →
      ((k = c.self ∧ ∃ m, sig = some [m] ∧ Consumed c c' auth fn args m) ∨
       (k ≠ c.self ∧ AuthTok.call k ∈ auth ∧ c'.tl = c.tl)) := by
    intro c1 h1 htl
    rcases (auth_step h1).2 with ⟨hk, m, hm, hcons⟩ | ⟨hne, hin, rfl⟩
    · exact Or.inl ⟨hk, m, hm, hcons.congr (by rw [htl]) (by rw [htl])⟩
    · exact Or.inr ⟨hne, hin, htl⟩
  have perm : ∀ {c1 : CState} {r : Nat} {u : Unit}, Frame c c1 →
      OZ.Access.ensureIfAdminOrAdminRole c1.ac r k = .ok u →
      OZ.Access.isAdmin c.ac k = true ∨ OZ.Access.isAdminRole c.ac r k = true := by
    intro c1 r u fr he
    rw [fr.ac] at he
    unfold OZ.Access.ensureIfAdminOrAdminRole at he
    have := OZ.Access.require_ok he
    simpa using this
  cases x with
  | grantRole a r k' =>
    simp only [Entry.callerCall, Option.some.injEq, Prod.mk.injEq] at hx
    obtain ⟨rfl, rfl, rfl⟩ := hx
    simp only [applyE, applyW, grantRoleW] at h
    cases h1 : requireAuth checkAuth c auth sig k' FN_GRANT_ROLE [vAddr a, vSym r, vAddr k'] with
    | error e => rw [h1] at h; cases h
    | ok c1 =>
      rw [h1] at h; simp only [guardedRoleChange] at h
      cases h2 : OZ.Access.ensureIfAdminOrAdminRole c1.ac r k' with
      | error e => rw [h2] at h; cases h
      | ok u =>
        rw [h2] at h; simp only at h
        obtain ⟨a', _, rfl⟩ := withAc_ok h
        refine ⟨fin h1 rfl, ?_⟩
        intro a0 r0 hx0
        rcases hx0 with e | e
        · injection e with _ e2 _; subst e2; exact perm (auth_step h1).1 h2
        · cases e
  | revokeRole a r k' =>
    simp only [Entry.callerCall, Option.some.injEq, Prod.mk.injEq] at hx
    obtain ⟨rfl, rfl, rfl⟩ := hx
    simp only [applyE, applyW, revokeRoleW] at h
    cases h1 : requireAuth checkAuth c auth sig k' FN_REVOKE_ROLE [vAddr a, vSym r, vAddr k'] with
    | error e => rw [h1] at h; cases h
    | ok c1 =>
      rw [h1] at h; simp only [guardedRoleChange] at h
      cases h2 : OZ.Access.ensureIfAdminOrAdminRole c1.ac r k' with
      | error e => rw [h2] at h; cases h
      | ok u =>
        rw [h2] at h; simp only at h
        obtain ⟨a', _, rfl⟩ := withAc_ok h
        refine ⟨fin h1 rfl, ?_⟩
        intro a0 r0 hx0
        rcases hx0 with e | e
        · cases e
        · injection e with _ e2 _; subst e2; exact perm (auth_step h1).1 h2
  | renounceRole r k' =>
    simp only [Entry.callerCall, Option.some.injEq, Prod.mk.injEq] at hx
    obtain ⟨rfl, rfl, rfl⟩ := hx
    simp only [applyE, applyW, renounceRoleW] at h
    cases h1 : requireAuth checkAuth c auth sig k' FN_RENOUNCE_ROLE [vSym r, vAddr k'] with
    | error e => rw [h1] at h; cases h
    | ok c1 =>
      rw [h1] at h; simp only at h
      obtain ⟨a', _, rfl⟩ := withAc_ok h
      refine ⟨fin h1 rfl, ?_⟩
      intro a0 r0 hx0
      rcases hx0 with e | e <;> cases e
  | scheduleOp op d p => simp [Entry.callerCall] at hx
  | cancelOp id k' => simp [Entry.callerCall] at hx
  | executeOp op ex ok => simp [Entry.callerCall] at hx
  | updateDelay d => simp [Entry.callerCall] at hx
  | setRoleAdmin r ar => simp [Entry.callerCall] at hx
  | transferAdmin a lu => simp [Entry.callerCall] at hx
  | acceptAdmin => simp [Entry.callerCall] at hx
  | renounceAdmin => simp [Entry.callerCall] at hx
  | checkAuth metas ctxs => simp [Entry.callerCall] at hx
  | advance n => simp [Entry.callerCall] at hx

/-- exact effect of the three membership-changing entry points on the access-control state (in a
state satisfying C06's invariant): one (account, role) pair is switched on / off, role admins and
the admin machine are untouched; the timelock part is what `__check_auth` left -/
theorem membership_effect {c c' : CState} {auth : List AuthTok} {sig : Option (List Meta)}
    (hinv : OZ.Access.Inv c.ac) :
    (∀ a r k, applyE c auth sig (.grantRole a r k) = .ok c' →
      OZ.Access.memb c'.ac = upd2 (OZ.Access.memb c.ac) a r true ∧ OZ.Access.SameRest c.ac c'.ac ∧
        c'.tl.minDelay = c.tl.minDelay) ∧
    (∀ a r k, applyE c auth sig (.revokeRole a r k) = .ok c' →
      OZ.Access.memb c'.ac = upd2 (OZ.Access.memb c.ac) a r false ∧ OZ.Access.memb c.ac a r = true ∧
        OZ.Access.SameRest c.ac c'.ac ∧ c'.tl.minDelay = c.tl.minDelay) ∧
    (∀ r k, applyE c auth sig (.renounceRole r k) = .ok c' →
      OZ.Access.memb c'.ac = upd2 (OZ.Access.memb c.ac) k r false ∧ OZ.Access.memb c.ac k r = true ∧
        OZ.Access.SameRest c.ac c'.ac ∧ c'.tl.minDelay = c.tl.minDelay) := by
  refine ⟨?_, ?_, ?_⟩
  · intro a r k h
    simp only [applyE, applyW, grantRoleW] at h
    cases h1 : requireAuth checkAuth c auth sig k FN_GRANT_ROLE [vAddr a, vSym r, vAddr k] with
    | error e => rw [h1] at h; cases h
    | ok c1 =>
      rw [h1] at h; simp only [guardedRoleChange] at h
      cases h2 : OZ.Access.ensureIfAdminOrAdminRole c1.ac r k with
      | error e => rw [h2] at h; cases h
      | ok u =>
        rw [h2] at h; simp only at h
        obtain ⟨a', ha, rfl⟩ := withAc_ok h
        have fr := (auth_step h1).1
        rw [fr.ac] at ha
        obtain ⟨_, hm, hr⟩ := OZ.Access.grantRoleNoAuth_effect hinv ha
        exact ⟨hm, hr, fr.minDelay⟩
  · intro a r k h
    simp only [applyE, applyW, revokeRoleW] at h
    cases h1 : requireAuth checkAuth c auth sig k FN_REVOKE_ROLE [vAddr a, vSym r, vAddr k] with
    | error e => rw [h1] at h; cases h
    | ok c1 =>
      rw [h1] at h; simp only [guardedRoleChange] at h
      cases h2 : OZ.Access.ensureIfAdminOrAdminRole c1.ac r k with
      | error e => rw [h2] at h; cases h
      | ok u =>
        rw [h2] at h; simp only at h
        obtain ⟨a', ha, rfl⟩ := withAc_ok h
        have fr := (auth_step h1).1
        rw [fr.ac] at ha
        obtain ⟨_, hm, hb, hr⟩ := OZ.Access.revokeRoleNoAuth_effect hinv ha
        exact ⟨hm, hb, hr, fr.minDelay⟩
  · intro r k h
    simp only [applyE, applyW, renounceRoleW] at h
    cases h1 : requireAuth checkAuth c auth sig k FN_RENOUNCE_ROLE [vSym r, vAddr k] with
    | error e => rw [h1] at h; cases h
    | ok c1 =>
      rw [h1] at h; simp only at h
      obtain ⟨a', ha, rfl⟩ := withAc_ok h
      have fr := (auth_step h1).1
      rw [fr.ac] at ha
      obtain ⟨_, hm, hb, hr⟩ := OZ.Access.revokeRoleNoAuth_effect hinv ha
      exact ⟨hm, hb, hr, fr.minDelay⟩

/-- **Every change of the governance state of a self-administered controller has one of four
causes.** If an accepted invocation changes the minimum delay, role membership, a role's admin
role, the admin or the pending admin (`¬ SameGov`), then
* (A) the controller's own `require_auth` was passed: the call is an admin-only entry point
  (`update_delay`, `set_role_admin`, `transfer_admin_role`, `renounce_admin`) or a `grant_role` /
  `revoke_role` / `renounce_role` whose caller is the controller, the payload was exactly one
  descriptor and the Ready operation for exactly that function and those arguments was consumed; or
* (B) it is a `grant_role` / `revoke_role` of role `r` by an ordinary account `k` that holds the
  admin role of `r` (`set_role_admin` — itself an admin-only, timelocked call — made it so) and
  signed the call; or
* (C) it is a `renounce_role` by the holder `k` itself, who signed the call; or
* (D) it is `accept_admin_transfer` by the live pending admin (installed by a timelocked
  `transfer_admin_role`), who signed the call.
In (B)–(D) `__check_auth` did not run (`c'.tl = c.tl`). -/
theorem admin_effect_requires_ready_op {c c' : CState} {auth : List AuthTok} {sig : Option (List Meta)}
    {x : Entry} (hself : c.admin = some c.self) (h : applyE c auth sig x = .ok c')
    (heff : ¬ SameGov c c') :
    (∃ fn args m, (x.adminCall = some (fn, args) ∨ x.callerCall = some (c.self, fn, args)) ∧
        sig = some [m] ∧ Consumed c c' auth fn args m) ∨
    (∃ a r k, (x = .grantRole a r k ∨ x = .revokeRole a r k) ∧ k ≠ c.self ∧ AuthTok.call k ∈ auth ∧
        OZ.Access.isAdminRole c.ac r k = true ∧ c'.tl = c.tl) ∨
    (∃ r k, x = .renounceRole r k ∧ k ≠ c.self ∧ AuthTok.call k ∈ auth ∧ c'.tl = c.tl) ∨
    (x = .acceptAdmin ∧ ∃ p, Temp.get? c.ac.adm.pending c.ac.adm.now = some p ∧ p ≠ c.self ∧
        AuthTok.call p ∈ auth ∧ c'.admin = some p ∧ c'.tl = c.tl) := by
  cases hx : x.adminCall with
  | some fa =>
    obtain ⟨fn, args⟩ := fa
    obtain ⟨m, hm, hcons⟩ := admin_call_consumes_ready_op hself hx h
    exact Or.inl ⟨fn, args, m, Or.inl rfl, hm, hcons⟩
  | none =>
    cases hy : x.callerCall with
    | some kfa =>
      obtain ⟨k, fn, args⟩ := kfa
      obtain ⟨hauth, hperm⟩ := caller_call_authorized hy h
      rcases hauth with ⟨hk, m, hm, hcons⟩ | ⟨hne, hin, htl⟩
      · subst hk
        exact Or.inl ⟨fn, args, m, Or.inr rfl, hm, hcons⟩
      · have notAdmin : OZ.Access.isAdmin c.ac k = false := by
          unfold OZ.Access.isAdmin
          have : OZ.Access.getAdmin c.ac = some c.self := hself
          rw [this]
          simp only [beq_eq_false_iff_ne, ne_eq]
          exact hne
        cases x with
        | grantRole a r k' =>
          simp only [Entry.callerCall, Option.some.injEq, Prod.mk.injEq] at hy
          obtain ⟨rfl, _, _⟩ := hy
          rcases hperm a r (Or.inl rfl) with hp | hp
          · rw [notAdmin] at hp; cases hp
          · exact Or.inr (Or.inl ⟨a, r, k', Or.inl rfl, hne, hin, hp, htl⟩)
        | revokeRole a r k' =>
          simp only [Entry.callerCall, Option.some.injEq, Prod.mk.injEq] at hy
          obtain ⟨rfl, _, _⟩ := hy
          rcases hperm a r (Or.inr rfl) with hp | hp
          · rw [notAdmin] at hp; cases hp
          · exact Or.inr (Or.inl ⟨a, r, k', Or.inr rfl, hne, hin, hp, htl⟩)
        | renounceRole r k' =>
          simp only [Entry.callerCall, Option.some.injEq, Prod.mk.injEq] at hy
          obtain ⟨rfl, _, _⟩ := hy
          exact Or.inr (Or.inr (Or.inl ⟨r, k', rfl, hne, hin, htl⟩))
        | scheduleOp op d p => simp [Entry.callerCall] at hy
        | cancelOp id k' => simp [Entry.callerCall] at hy
        | executeOp op ex ok => simp [Entry.callerCall] at hy
        | updateDelay d => simp [Entry.callerCall] at hy
        | setRoleAdmin r ar => simp [Entry.callerCall] at hy
        | transferAdmin a lu => simp [Entry.callerCall] at hy
        | acceptAdmin => simp [Entry.callerCall] at hy
        | renounceAdmin => simp [Entry.callerCall] at hy
        | checkAuth metas ctxs => simp [Entry.callerCall] at hy
        | advance n => simp [Entry.callerCall] at hy
    | none =>
      cases x with
      | updateDelay d => simp [Entry.adminCall] at hx
      | setRoleAdmin r ar => simp [Entry.adminCall] at hx
      | transferAdmin a lu => simp [Entry.adminCall] at hx
      | renounceAdmin => simp [Entry.adminCall] at hx
      | grantRole a r k => simp [Entry.callerCall] at hy
      | revokeRole a r k => simp [Entry.callerCall] at hy
      | renounceRole r k => simp [Entry.callerCall] at hy
      | acceptAdmin =>
        right; right; right
        refine ⟨rfl, ?_⟩
        simp only [applyE, applyW, acceptAdmin] at h
        obtain ⟨t, ht, rfl⟩ := withAdm_ok h
        obtain ⟨p, hp, hin, hh, _, _, _⟩ := OZ.RoleTransfer.accept_ok (f := .admin) ht
        obtain ⟨hne, hcall⟩ := mem_plainAuth.mp hin
        exact ⟨p, hp, hne, hcall, hh, rfl⟩
      | scheduleOp op d p =>
        exfalso; apply heff
        obtain ⟨c1, _, _, _, hd⟩ := applyE_decomp h
        simp only [Entry.tlOp] at hd
        obtain ⟨rfl, hs⟩ := hd
        simp only [applyE, applyW, scheduleOp] at h
        split at h
        · cases h
        · cases h1 : requireAuthPlain c1 auth p with
          | error e => rw [h1] at h; cases h
          | ok u =>
            rw [h1] at h; simp only at h
            obtain ⟨tl', _, rfl⟩ := liftTl_ok h
            exact ⟨apply_minDelay_same hs (by intro d' e; cases e), rfl, rfl, rfl, rfl⟩
      | cancelOp id k =>
        exfalso; apply heff
        obtain ⟨c1, _, _, _, hd⟩ := applyE_decomp h
        simp only [Entry.tlOp] at hd
        obtain ⟨rfl, hs⟩ := hd
        simp only [applyE, applyW, cancelOp] at h
        split at h
        · cases h
        · cases h1 : requireAuthPlain c1 auth k with
          | error e => rw [h1] at h; cases h
          | ok u =>
            rw [h1] at h; simp only at h
            obtain ⟨tl', _, rfl⟩ := liftTl_ok h
            exact ⟨apply_minDelay_same hs (by intro d' e; cases e), rfl, rfl, rfl, rfl⟩
      | executeOp op ex ok =>
        exfalso; apply heff
        obtain ⟨c1, _, _, _, hd⟩ := applyE_decomp h
        simp only [Entry.tlOp] at hd
        obtain ⟨rfl, hs⟩ := hd
        simp only [applyE, applyW, executeOp] at h
        cases h1 : executorGate c1 auth ex with
        | error e => rw [h1] at h; cases h
        | ok u =>
          rw [h1] at h; simp only at h
          obtain ⟨tl', _, rfl⟩ := liftTl_ok h
          exact ⟨apply_minDelay_same hs (by intro d' e; cases e), rfl, rfl, rfl, rfl⟩
      | checkAuth metas ctxs =>
        exfalso; apply heff
        exact (check_auth_frame (show checkAuth c auth metas ctxs = .ok c' from h)).sameGov
      | advance n =>
        exfalso; apply heff
        simp only [applyE, applyW, advanceC] at h
        cases h1 : advance c.tl n with
        | error e => rw [h1] at h; cases h
        | ok tl' =>
          rw [h1] at h; injection h with h; subst h
          obtain ⟨_, rfl⟩ := advance_ok h1
          exact ⟨rfl, rfl, rfl, rfl, rfl⟩

/-- the consumed operation really went through the timelock: in a reachable state it was scheduled
(an accepted `schedule_operation` of exactly this id is in the log) with a delay not below the
minimum delay then in force, that delay has elapsed, and nothing about it was accepted since -/
theorem consumed_op_was_scheduled {c c' : CState} {auth : List AuthTok} {fn : Nat} {args : List Nat}
    {m : Meta} (hi : Inv c.tl) (h : Consumed c c' auth fn args m) :
    ∃ newer older l d md, c.tl.log = newer ++ Ev.sched (opOf c.self fn args m).id l d md :: older ∧
      (∀ e ∈ newer, e.id ≠ (opOf c.self fn args m).id) ∧ md ≤ d ∧ elapsed l d c.tl.now :=
  ready_was_scheduled hi h.1

/-- the timelock invariant (C08) and the access-control invariant (C06) hold in every state of the
controller reachable at ledgers ≥ 2 -/
theorem controller_inv {c c' : CState} {auth : List AuthTok} {sig : Option (List Meta)} {x : Entry}
    (hi : Inv c.tl) (ha : OZ.Access.Inv c.ac) (h : applyE c auth sig x = .ok c') :
    Inv c'.tl ∧ OZ.Access.Inv c'.ac := by
  obtain ⟨c1, hrel, _, hac, hd⟩ := applyE_decomp h
  have hi1 := hrel.inv hi
  have ha1 : OZ.Access.Inv c1.ac := by rw [hrel.frame.ac]; exact ha
  refine ⟨?_, hac.inv ha1⟩
  cases hy : x.tlOp with
  | some y =>
    rw [hy] at hd
    obtain ⟨rfl, hs⟩ := hd
    exact apply_inv hi hs
  | none =>
    rw [hy] at hd
    rcases hd with e | ⟨d, _, e⟩
    · rw [e]; exact hi1
    · rw [e]; exact ⟨hi1.nowLo, hi1.nowHi, hi1.coh, hi1.cnt⟩

/-- the constructor establishes both invariants at ledgers ≥ 2 -/
theorem construct_inv {now maxTtl self minDelay : Nat} {ps es : List Nat} {admin : Option Nat}
    (h2 : 2 ≤ now) (hm : now ≤ U32_MAX) :
    Inv (construct now maxTtl self minDelay ps es admin).tl ∧
    OZ.Access.Inv (construct now maxTtl self minDelay ps es admin).ac := by
  have keep : ∀ (s : AC) (a r k : Nat), OZ.Access.Inv s → OZ.Access.Inv (grantOrKeep s a r k) := by
    intro s a r k hs
    unfold grantOrKeep
    cases hg : OZ.Access.grantRoleNoAuth s a r k with
    | error e => exact hs
    | ok s' => exact (OZ.Access.grantRoleNoAuth_effect hs hg).1
  have fold1 : ∀ (l : List Nat) (k : Nat) (s : AC), OZ.Access.Inv s →
      OZ.Access.Inv (l.foldl (fun s p => grantOrKeep (grantOrKeep s p PROPOSER k) p CANCELLER k) s) := by
    intro l k
    induction l with
    | nil => intro s hs; exact hs
    | cons p rest ih => intro s hs; exact ih _ (keep _ _ _ _ (keep _ _ _ _ hs))
  have fold2 : ∀ (l : List Nat) (k : Nat) (s : AC), OZ.Access.Inv s →
      OZ.Access.Inv (l.foldl (fun s x => grantOrKeep s x EXECUTOR k) s) := by
    intro l k
    induction l with
    | nil => intro s hs; exact hs
    | cons p rest ih => intro s hs; exact ih _ (keep _ _ _ _ hs)
  have := init_inv h2 hm
  exact ⟨⟨this.nowLo, this.nowHi, this.coh, this.cnt⟩,
    fold2 _ _ _ (fold1 _ _ _ (OZ.Access.init_inv _ _ _))⟩

/-! ### roles and authorization of schedule / cancel / execute -/

/-- scheduling requires the proposer role and that account's authorization -/
theorem schedule_role_and_auth {c c' : CState} {auth : List AuthTok} {sig : Option (List Meta)}
    {op : Operation} {d p : Nat} (h : applyE c auth sig (.scheduleOp op d p) = .ok c') :
    c.hasRole PROPOSER p = true ∧ AuthTok.call p ∈ auth ∧
      ∃ tl', schedule c.tl op d = .ok tl' ∧ c' = { c with tl := tl' } := by
  simp only [applyE, applyW, scheduleOp] at h
  split at h
  · cases h
  · rename_i hr
    cases h1 : requireAuthPlain c auth p with
    | error e => rw [h1] at h; cases h
    | ok u =>
      rw [h1] at h; simp only at h
      exact ⟨by simpa using hr, (requireAuthPlain_ok (by cases u; exact h1)).2, liftTl_ok h⟩

/-- cancelling requires the canceller role and that account's authorization -/
theorem cancel_role_and_auth {c c' : CState} {auth : List AuthTok} {sig : Option (List Meta)}
    {id : Id} {k : Nat} (h : applyE c auth sig (.cancelOp id k) = .ok c') :
    c.hasRole CANCELLER k = true ∧ AuthTok.call k ∈ auth ∧
      ∃ tl', cancel c.tl id = .ok tl' ∧ c' = { c with tl := tl' } := by
  simp only [applyE, applyW, cancelOp] at h
  split at h
  · cases h
  · rename_i hr
    cases h1 : requireAuthPlain c auth k with
    | error e => rw [h1] at h; cases h
    | ok u =>
      rw [h1] at h; simp only at h
      exact ⟨by simpa using hr, (requireAuthPlain_ok (by cases u; exact h1)).2, liftTl_ok h⟩

/-- whenever any executor is configured, executing requires the executor role and that
account's authorization -/
theorem execute_role_and_auth {c c' : CState} {auth : List AuthTok} {sig : Option (List Meta)}
    {op : Operation} {ex : Option Nat} {ok : Bool} (h : applyE c auth sig (.executeOp op ex ok) = .ok c') :
    (c.executorCount ≠ 0 →
      ∃ e, ex = some e ∧ c.hasRole EXECUTOR e = true ∧ AuthTok.call e ∈ auth) ∧
    ∃ tl', execute c.tl op ok = .ok tl' ∧ c' = { c with tl := tl' } := by
  simp only [applyE, applyW, executeOp] at h
  cases h1 : executorGate c auth ex with
  | error e => rw [h1] at h; cases h
  | ok u =>
    rw [h1] at h; simp only at h
    refine ⟨?_, liftTl_ok h⟩
    intro hne
    unfold executorGate at h1
    rw [if_neg hne] at h1
    cases ex with
    | none => cases h1
    | some e =>
      simp only at h1
      split at h1
      · cases h1
      · rename_i hr
        exact ⟨e, rfl, by simpa using hr, (requireAuthPlain_ok (by cases u; exact h1)).2⟩

/-- operations enter the timelock only through `schedule_op`: a schedule record that is new in the
log was put there by `schedule_op`, called by a proposer who signed the call -/
theorem schedule_only_by_proposer {c c' : CState} {auth : List AuthTok} {sig : Option (List Meta)}
    {x : Entry} (h : applyE c auth sig x = .ok c') (id : Id) (l d m : Nat)
    (hnew : Ev.sched id l d m ∈ c'.tl.log) (hold : Ev.sched id l d m ∉ c.tl.log) :
    ∃ op p, x = .scheduleOp op d p ∧ op.id = id ∧ c.hasRole PROPOSER p = true ∧ AuthTok.call p ∈ auth := by
  -- `__check_auth` only appends execution records
  have viaPairs : ∀ {pairs : List (Context × Meta)} {a b : CState}, checkPairs a auth pairs = .ok b →
      Ev.sched id l d m ∈ b.tl.log → Ev.sched id l d m ∈ a.tl.log := by
    intro pairs
    induction pairs with
    | nil => intro a b hp hin; injection hp with hp; subst hp; exact hin
    | cons hd rest ih =>
      intro a b hp hin
      obtain ⟨ctx, mm⟩ := hd
      unfold checkPairs at hp
      cases h1 : checkOne a auth ctx mm with
      | error e => rw [h1] at hp; cases hp
      | ok a1 =>
        rw [h1] at hp; simp only at hp
        have := ih hp hin
        obtain ⟨fn, args, tl', _, _, hs, rfl⟩ := checkOne_ok h1
        obtain ⟨_, _, _, rfl⟩ := setExecute_ok hs
        cases this with
        | tail _ h' => exact h'
  obtain ⟨c1, hrel, _, _, hd⟩ := applyE_decomp h
  have hold1 : Ev.sched id l d m ∉ c1.tl.log := by
    rcases hrel with rfl | ⟨metas, ctxs, hc⟩
    · exact hold
    · exact fun hin => hold (viaPairs (checkAuth_ok hc).2 hin)
  cases x with
  | scheduleOp op d' p =>
    obtain ⟨hr, ha, tl', hs, rfl⟩ := schedule_role_and_auth h
    obtain ⟨m', _, _, _, rfl⟩ := schedule_ok hs
    cases hnew with
    | head => exact ⟨op, p, rfl, rfl, hr, ha⟩
    | tail _ h' => exact absurd h' hold
  | cancelOp i k =>
    exfalso
    simp only [Entry.tlOp] at hd
    obtain ⟨rfl, hs⟩ := hd
    obtain ⟨_, e⟩ := cancel_ok hs
    rw [e] at hnew
    cases hnew with
    | tail _ h' => exact hold h'
  | executeOp op ex ok =>
    exfalso
    simp only [Entry.tlOp] at hd
    obtain ⟨rfl, hs⟩ := hd
    obtain ⟨s1, hs1, _, e⟩ := execute_ok hs
    obtain ⟨_, _, _, rfl⟩ := setExecute_ok hs1
    rw [e] at hnew
    cases hnew with
    | tail _ h' => exact hold h'
  | advance n =>
    exfalso
    simp only [Entry.tlOp] at hd
    obtain ⟨rfl, hs⟩ := hd
    obtain ⟨_, e⟩ := advance_ok hs
    rw [e] at hnew
    exact hold hnew
  | updateDelay dd =>
    exfalso
    simp only [Entry.tlOp] at hd
    rcases hd with e | ⟨_, _, e⟩ <;> (rw [e] at hnew; exact hold1 hnew)
  | grantRole a r k =>
    exfalso; simp only [Entry.tlOp] at hd
    rcases hd with e | ⟨_, e0, _⟩
    · rw [e] at hnew; exact hold1 hnew
    · cases e0
  | revokeRole a r k =>
    exfalso; simp only [Entry.tlOp] at hd
    rcases hd with e | ⟨_, e0, _⟩
    · rw [e] at hnew; exact hold1 hnew
    · cases e0
  | renounceRole r k =>
    exfalso; simp only [Entry.tlOp] at hd
    rcases hd with e | ⟨_, e0, _⟩
    · rw [e] at hnew; exact hold1 hnew
    · cases e0
  | setRoleAdmin r ar =>
    exfalso; simp only [Entry.tlOp] at hd
    rcases hd with e | ⟨_, e0, _⟩
    · rw [e] at hnew; exact hold1 hnew
    · cases e0
  | transferAdmin a lu =>
    exfalso; simp only [Entry.tlOp] at hd
    rcases hd with e | ⟨_, e0, _⟩
    · rw [e] at hnew; exact hold1 hnew
    · cases e0
  | acceptAdmin =>
    exfalso; simp only [Entry.tlOp] at hd
    rcases hd with e | ⟨_, e0, _⟩
    · rw [e] at hnew; exact hold1 hnew
    · cases e0
  | renounceAdmin =>
    exfalso; simp only [Entry.tlOp] at hd
    rcases hd with e | ⟨_, e0, _⟩
    · rw [e] at hnew; exact hold1 hnew
    · cases e0
  | checkAuth metas ctxs =>
    exfalso; simp only [Entry.tlOp] at hd
    rcases hd with e | ⟨_, e0, _⟩
    · rw [e] at hnew; exact hold1 hnew
    · cases e0

/-- non-vacuity of case (B): once the admin role of PROPOSER is role 3 and account 4 holds role 3,
account 4 grants PROPOSER to account 5 with its own signature and no payload; account 2 (no holder of
role 3) cannot; and account 1 renounces its own proposer role (case (C)) -/
example :
    (applyE { (construct 100 200000 0 5 [1] [] none) with
        ac := OZ.Access.setRoleAdminNoAuth (grantOrKeep (construct 100 200000 0 5 [1] [] none).ac 4 3 0) PROPOSER 3 }
      [.call 4] none (.grantRole 5 PROPOSER 4)).toBool = true ∧
    (applyE { (construct 100 200000 0 5 [1] [] none) with
        ac := OZ.Access.setRoleAdminNoAuth (grantOrKeep (construct 100 200000 0 5 [1] [] none).ac 4 3 0) PROPOSER 3 }
      [.call 2] none (.grantRole 5 PROPOSER 2)).toBool = false ∧
    (applyE (construct 100 200000 0 5 [1] [] none) [.call 1] none (.renounceRole PROPOSER 1)).toBool = true ∧
    (applyE (construct 100 200000 0 5 [1] [] none) [.call 2] none (.renounceRole PROPOSER 1)).toBool = false := by
  decide

/-! ### the defect of the unfixed code (regression documentation) -/

/-- Before the fix (`checkAuthLegacy`, `applyLegacy`): on a freshly constructed self-administered
controller (minimum delay 5, one proposer, nothing ever scheduled — the log is empty) `__check_auth`
returns Ok for an `update_delay(42)` context with the EMPTY descriptor vector, and likewise for two
contexts with one descriptor short; so `update_delay(42)` called by anybody with an empty payload
sets the minimum delay to 42 and `grant_role` makes account 3 a proposer, with executors
configured or not — nothing is consumed. The fixed transition rejects all of these. -/
theorem check_auth_short_payload_counterexample :
    (construct 100 200000 0 5 [1] [] none).tl.log = [] ∧
    (checkAuthLegacy (construct 100 200000 0 5 [1] [] none) [] []
        [.contract 0 FN_UPDATE_DELAY [vU32 42]]).toBool = true ∧
    (checkAuthLegacy (construct 100 200000 0 5 [1] [3] none) [] []
        [.contract 0 FN_UPDATE_DELAY [vU32 42], .contract 0 FN_RENOUNCE_ADMIN []]).toBool = true ∧
    ((applyLegacy (construct 100 200000 0 5 [1] [] none) [] (some []) (.updateDelay 42)).toOption.bind
        (·.tl.minDelay)) = some 42 ∧
    ((applyLegacy (construct 100 200000 0 5 [1] [3] none) [] (some []) (.grantRole 3 PROPOSER 0)).toOption.map
        (·.hasRole PROPOSER 3)) = some true ∧
    (applyE (construct 100 200000 0 5 [1] [] none) [] (some []) (.updateDelay 42)).toBool = false ∧
    (applyE (construct 100 200000 0 5 [1] [3] none) [] (some []) (.grantRole 3 PROPOSER 0)).toBool = false ∧
    (checkAuth (construct 100 200000 0 5 [1] [] none) [] []
        [.contract 0 FN_UPDATE_DELAY [vU32 42]]).toBool = false := by
  decide

end OZ.TimelockController
