import OZ.Lemmas.RegKeysMon
/-
C20 (a) — soundness of the `keys` MONITOR that decides the property on implementation traces.

`./check C20` reports a concrete violation in a `keys` sequence exactly when
`OZ.RegKeys.Mon.checkCore` (the sub-driver's monitor on parsed values, OZ/Model/RegKeysMon.lean)
returns a message on the implementation's observations. Here it is proved that on the observations
of the MODEL (run with the harness's oracle `allowed r t := t ≠ 7`, as the driver does) the monitor
never returns a message, for all label parameters `nk`, `nt` and every finite history of
`allow_key` / `remove_key` with arbitrary arguments (`monitor_accepts_every_model_trace`).
Consequences: a monitor failure is never a false alarm of the monitor itself, and every conclusion
it evaluates (empty keys, unknown topics, duplicates and absent triples refused; the 20th pair of a
key and the 50th key of a topic accepted, the 21st and the 51st refused; `get_keys_for_topic` lists
the keys with a pair for the topic once each and fails exactly when there are none;
`get_registries` lists the registries of the key's pairs as a multiset and fails exactly when there
are none; the two membership getters are "exists a pair (topic, .)" / "exists a pair (., registry)")
is a THEOREM about the model, in the monitor's own executable wording.

`modelObs s nk nt ok` is the data the model driver prints for state `s` (`stepLine` / `showState` of
OZ/Drv/C20Keys.lean): the tag, `T=` the graph of `getKeysForTopic` over topics 0..nt-1 (only the
topics whose getter succeeds are printed), `R=` the graph of `getRegistries` over the universe
`keysU nk` (only the keys whose getter succeeds), `at=` the bits of `isKeyAllowedForTopic` over
keys x topics 0..nt-1, `ar=` the bits of `isKeyAllowedForRegistry` over keys x registries 0..2.

Property theorems only; helper facts come from OZ/Lemmas/RegKeysMon.lean.
-/
namespace OZ.RegKeys.Mon
open OZ.Reg OZ.RegMon OZ.RegKeys

/-- the observation the harness / the model driver print for a state -/
def modelObs (s : State) (nk nt : Nat) (ok : Bool) : Obs :=
  { ok := ok,
    T := (List.range nt).filterMap (fun t => (getKeysForTopic s t).map (fun l => (t, l))),
    R := (keysU nk).filterMap (fun k => (getRegistries s k).map (fun l => (k, l))),
    atB := bits ((keysU nk).flatMap (fun k => (List.range nt).map (fun t => isKeyAllowedForTopic s k t))),
    arB := bits ((keysU nk).flatMap (fun k => (List.range NR).map (fun r => isKeyAllowedForRegistry s k r))) }

/-- `get_keys_for_topic` of a state the plain relation describes passes the monitor's check, for
every displayed topic -/
theorem topic_getter_quiet {g : Mon} {s : State} {nk nt : Nat} (ha : Agree g s nk nt) (hI : Inv s) (ok : Bool)
    (t : Nat) (ht : t ∈ List.range nt) : topicCheck g (modelObs s nk nt ok).T t = none := by
  have hp := keysOf_perm ha hI t
  unfold topicCheck
  rw [show (modelObs s nk nt ok).T =
    (List.range nt).filterMap (fun t => (getKeysForTopic s t).map (fun l => (t, l))) from rfl]
  by_cases he : s.topics t = []
  · rw [find_graph_none _ _ t (show getKeysForTopic s t = none by unfold getKeysForTopic; rw [if_pos he])]
    show chk (decide _) _ = none
    refine chk_decide ?_ _
    rw [he] at hp; exact hp.eq_nil
  · rw [find_graph_some _ _ t (s.topics t) ht (by unfold getKeysForTopic; rw [if_neg he])]
    show chk (decide _) _ = none
    refine chk_decide ⟨?_, (nodupB_iff _).2 (hI.topicsNodup t), (sameSet_iff _ _).2 (fun k => hp.symm.mem_iff)⟩ _
    intro h; rw [h] at hp; exact he hp.symm.eq_nil

/-- `get_registries` of a state the plain relation describes passes the monitor's check, for every
displayed key -/
theorem registry_getter_quiet {g : Mon} {s : State} {nk nt : Nat} (ha : Agree g s nk nt) (hI : Inv s) (ok : Bool)
    (k : Key) (hk : k ∈ keysU nk) : registryCheck g (modelObs s nk nt ok).R k = none := by
  have hp := pairsOf_perm ha hI k
  unfold registryCheck
  rw [show (modelObs s nk nt ok).R =
    (keysU nk).filterMap (fun k => (getRegistries s k).map (fun l => (k, l))) from rfl]
  by_cases he : s.pairs k = []
  · rw [find_graph_none _ _ k (show getRegistries s k = none by unfold getRegistries; rw [if_pos he])]
    show chk (decide _) _ = none
    refine chk_decide ?_ _
    rw [he] at hp
    unfold regsWant; rw [hp.eq_nil]; exact sortN_eq_nil.2 rfl
  · rw [find_graph_some _ _ k ((s.pairs k).map (·.2)) hk (by unfold getRegistries; rw [if_neg he])]
    show chk (decide _) _ = none
    refine chk_decide ⟨?_, ?_⟩ _
    · unfold regsWant
      intro h
      have h' := sortN_eq_nil.1 h
      rw [List.map_eq_nil_iff] at h'
      rw [h'] at hp; exact he hp.symm.eq_nil
    · exact sortN_eq_of_perm (hp.symm.map _)

/-- the two membership getters of a state the plain relation describes print the bits the monitor
expects -/
theorem member_getters_quiet {g : Mon} {s : State} {nk nt : Nat} (ha : Agree g s nk nt) (hI : Inv s) (ok : Bool) :
    (modelObs s nk nt ok).atB = bits (atWant g) ∧ (modelObs s nk nt ok).arB = bits (arWant g) := by
  constructor
  · show bits _ = bits _
    congr 1
    unfold atWant
    rw [ha.nk, ha.nt]
    refine List.flatMap_congr (fun k _ => List.map_congr_left (fun t _ => ?_))
    unfold isKeyAllowedForTopic
    rw [Bool.eq_iff_iff, List.contains_iff_mem, hI.twoWay, List.any_eq_true]
    constructor
    · rintro ⟨r, h⟩; exact ⟨(k, t, r), (ha.mem k t r).2 h, by simp⟩
    · rintro ⟨⟨k', t', r⟩, hm, hx⟩
      simp only [beq_iff_eq, decide_eq_true_eq] at hx
      obtain ⟨rfl, rfl⟩ := hx
      exact ⟨r, (ha.mem _ _ r).1 hm⟩
  · show bits _ = bits _
    congr 1
    unfold arWant
    rw [ha.nk]
    refine List.flatMap_congr (fun k _ => List.map_congr_left (fun r _ => ?_))
    unfold isKeyAllowedForRegistry
    rw [Bool.eq_iff_iff, List.any_eq_true, List.any_eq_true]
    constructor
    · rintro ⟨⟨t, r'⟩, hm, hx⟩
      simp only [beq_iff_eq] at hx; subst hx
      exact ⟨(k, t, r'), (ha.mem k t r').2 hm, by simp⟩
    · rintro ⟨⟨k', t, r'⟩, hm, hx⟩
      simp only [beq_iff_eq, decide_eq_true_eq] at hx
      obtain ⟨rfl, rfl⟩ := hx
      exact ⟨(t, r'), (ha.mem _ t _).1 hm, by simp⟩

/-- **one call**: fed with the model's own observation of any call (accepted or refused), the
monitor reports nothing and its plain relation keeps describing the model's state -/
theorem monitor_sound_step {g : Mon} {s : State} {nk nt : Nat} (hI : Inv s) (ha : Agree g s nk nt) (op : Op) :
    (checkCore g op (modelObs (next allowed s op) nk nt (accepted s op))).2 = none ∧
    Agree (checkCore g op (modelObs (next allowed s op) nk nt (accepted s op))).1 (next allowed s op) nk nt := by
  obtain ⟨he, ha'⟩ := decision_agrees ha hI op
  have hI' := inv_next allowed hI op
  obtain ⟨q3, q4⟩ := member_getters_quiet ha' hI' (accepted s op)
  unfold checkCore
  rw [show (modelObs (next allowed s op) nk nt (accepted s op)).ok = accepted s op from rfl]
  refine ⟨firstFail_eq_none (fun x hx => ?_), ha'⟩
  simp only [List.mem_append, List.mem_map, List.mem_cons, List.not_mem_nil, or_false] at hx
  rcases hx with ((hx | ⟨t, ht, rfl⟩) | ⟨k, hk, rfl⟩) | hx | hx
  · subst hx; unfold acceptMsg; rw [if_pos he.symm]
  · rw [ha'.nt] at ht; exact topic_getter_quiet ha' hI' _ t ht
  · rw [ha'.nk] at hk; exact registry_getter_quiet ha' hI' _ k hk
  · subst hx; exact chk_decide q3 _
  · subst hx; exact chk_decide q4 _

/-- the monitor run over a whole history of model observations: first message, if any -/
def monitorRun (nk nt : Nat) : Mon → State → List Op → Option String
  | _, _, [] => none
  | g, s, op :: ops =>
    match (checkCore g op (modelObs (next allowed s op) nk nt (accepted s op))).2 with
    | some msg => some msg
    | none => monitorRun nk nt (checkCore g op (modelObs (next allowed s op) nk nt (accepted s op))).1 (next allowed s op) ops

/-- the monitor's initial state for a sequence (what `minit` builds from the label) -/
def monInit (nk nt : Nat) : Mon := { rel := [], nk := nk, nt := nt }

/-- **monitor soundness**: for all label parameters `nk`, `nt` and every finite history of
`allow_key` / `remove_key` — any keys (also the empty one), schemes, registries, topics (also the
topic the mock registries do not know), accepted or refused — the monitor that the sub-driver's
`minit` builds reports nothing on the observations of the model that the sub-driver's `initM` builds -/
theorem monitor_accepts_every_model_trace (nk nt : Nat) (ops : List Op) :
    monitorRun nk nt (monInit nk nt) init ops = none := by
  suffices ∀ g s, Inv s → Agree g s nk nt → monitorRun nk nt g s ops = none from
    this _ _ inv_init ⟨rfl, rfl, List.nodup_nil, fun k t r => by simp [monInit, init]⟩
  induction ops with
  | nil => intro g s _ _; rfl
  | cons op ops ih =>
    intro g s hI ha
    obtain ⟨h1, h2⟩ := monitor_sound_step hI ha op
    unfold monitorRun
    rw [h1]
    exact ih _ _ (inv_next allowed hI op) h2

/-! ### non-vacuity (tests, labelled as such): the monitor is not trivially silent -/

/-- a refused 20th pair, an accepted 21st pair, an accepted duplicate, an accepted unknown topic, a
key listed twice for a topic, a missing registry and a wrong membership bit are reported -/
example :
    (acceptMsg { rel := (List.range 19).map (fun i => ((1, 1), i / 3, i % 3)), nk := 1, nt := 1 }
      (.allow (1, 1) 1 6) false).isSome = true ∧
    (acceptMsg { rel := (List.range 20).map (fun i => ((1, 1), i / 3, i % 3)), nk := 1, nt := 1 }
      (.allow (1, 1) 2 6) true).isSome = true ∧
    (acceptMsg { rel := [((1, 1), 0, 0)], nk := 1, nt := 1 } (.allow (1, 1) 0 0) true).isSome = true ∧
    (acceptMsg { rel := [], nk := 1, nt := 8 } (.allow (1, 1) 0 7) true).isSome = true ∧
    (topicCheck { rel := [((1, 1), 0, 0)], nk := 1, nt := 1 } [(0, [(1, 1), (1, 1)])] 0).isSome = true ∧
    (registryCheck { rel := [((1, 1), 0, 0), ((1, 1), 1, 0)], nk := 1, nt := 2 } [((1, 1), [0])] (1, 1)).isSome = true ∧
    atWant { rel := [((1, 1), 0, 0)], nk := 1, nt := 1 } ≠ List.replicate 4 false := by
  refine ⟨by decide, by decide, by decide, by decide, by decide,
    by simp [registryCheck, regsWant, sortN, pairsOf, chk, List.mergeSort, List.MergeSort.Internal.splitInTwo],
    by decide⟩

end OZ.RegKeys.Mon
