import OZ.Lemmas.NftAuth
import OZ.Lemmas.NftBits
import OZ.Lemmas.NftLive
/-
C11 — An NFT moves only by its owner, its approved account or a live operator.

Property theorems only, for the three flavours (models: OZ/Model/Nft.lean, NftEnumerable.lean,
NftConsecutive.lean). All three flavours reach approvals through the same `Base` functions
(`check_spender_approval`, `approve_for_owner`, `approve_for_all`, `get_approved`,
`is_approved_for_all`) on the shared `Core`; the per-token approval of the consecutive flavour
lives under the identically encoded storage key (observed by the correspondence: after every
transfer / burn `get_approved` is none). `auth` is the set of addresses authorizing the call.

`Justified c auth f id op`:  for `transfer` / `burn`:  `f ∈ auth`;
  for `transfer_from` / `burn_from` with spender `sp`:  `sp ∈ auth` and
  `sp = f ∨ get_approved(id) = sp ∨ is_approved_for_all(f, sp)`, all read in the state BEFORE the call.
-/
namespace OZ.C11
open OZ.Host OZ.Nft

/-! ## a token moves only when justified -/

/-- base flavour: an accepted transfer / burn takes the token from its CURRENT owner `f` and is
justified by `f`'s authorization, or by an authorizing spender that is `f`, the live approved
account of that token, or a live operator of `f` -/
theorem move_authorized (cfg : Cfg) {s s' : Nft.State} {auth : List Nat} {op : Op} {r : Option Nat}
    (h : Nft.apply cfg s auth op = .ok (s', r)) {f id : Nat} (hm : op.moves = some (f, id)) :
    s.owner id = some f ∧ Justified s.toCore auth f id op :=
  let ⟨a, b, _⟩ := (Nft.apply_auth cfg h).1 f id hm; ⟨a, b⟩

/-- enumerable flavour -/
theorem move_authorized_enumerable (cfg : Cfg) {s s' : NftEnum.State} {auth : List Nat} {op : Op}
    {r : Option Nat} (h : NftEnum.apply cfg s auth op = .ok (s', r)) {f id : Nat}
    (hm : op.moves = some (f, id)) : s.owner id = some f ∧ Justified s.toCore auth f id op :=
  move_authorized cfg (NftEnum.apply_base cfg h) hm

/-- consecutive flavour (bit level): `owner_of` — which by C10 `consecutive_owner_of` is the
plain ownership map on every reachable state — names `f` -/
theorem move_authorized_consecutive (cfg : Cfg) {s s' : NftCons.BState} {auth : List Nat} {op : Op}
    {r : Option Nat} (h : NftCons.apply NftCons.bitOps cfg s auth op = .ok (s', r)) {f id : Nat}
    (hm : op.moves = some (f, id)) :
    NftCons.ownerOf NftCons.bitOps s id = .ok f ∧ Justified s.toCore auth f id op :=
  let ⟨a, b, _⟩ := (NftCons.apply_auth NftCons.bitOps cfg h).1 f id hm; ⟨a, b⟩

/-- … and on a reachable state of the consecutive flavour `f` is the owner in the plain map -/
theorem move_authorized_consecutive_spec (cfg : Cfg) {s s' : NftCons.BState} {spec : Nat → Option Nat}
    (hi : NftCons.GInv NftCons.bitOf NftCons.WFB s spec) {auth : List Nat} {op : Op} {r : Option Nat}
    (h : NftCons.apply NftCons.bitOps cfg s auth op = .ok (s', r)) {f id : Nat}
    (hm : op.moves = some (f, id)) : spec id = some f ∧ Justified s.toCore auth f id op := by
  obtain ⟨ho, hj⟩ := move_authorized_consecutive cfg h hm
  refine ⟨?_, hj⟩
  have := NftCons.ownerOf_impl_spec NftCons.bitOps_impl hi id
  rw [ho] at this; exact this.symm

/-! ## an approval is set only by the owner or a live operator of the owner -/

theorem approve_authorized (cfg : Cfg) {s s' : Nft.State} {auth : List Nat} {ap a id lu : Nat}
    {r : Option Nat} (h : Nft.apply cfg s auth (.approve ap a id lu) = .ok (s', r)) :
    ap ∈ auth ∧ ∃ o, s.owner id = some o ∧ (ap = o ∨ isApprovedForAll s.toCore o ap = true) :=
  (Nft.apply_auth cfg h).2.1 ap a id lu rfl

theorem approve_authorized_enumerable (cfg : Cfg) {s s' : NftEnum.State} {auth : List Nat}
    {ap a id lu : Nat} {r : Option Nat} (h : NftEnum.apply cfg s auth (.approve ap a id lu) = .ok (s', r)) :
    ap ∈ auth ∧ ∃ o, s.owner id = some o ∧ (ap = o ∨ isApprovedForAll s.toCore o ap = true) :=
  approve_authorized cfg (NftEnum.apply_base cfg h)

theorem approve_authorized_consecutive (cfg : Cfg) {s s' : NftCons.BState} {auth : List Nat}
    {ap a id lu : Nat} {r : Option Nat}
    (h : NftCons.apply NftCons.bitOps cfg s auth (.approve ap a id lu) = .ok (s', r)) :
    ap ∈ auth ∧ ∃ o, NftCons.ownerOf NftCons.bitOps s id = .ok o ∧
      (ap = o ∨ isApprovedForAll s.toCore o ap = true) :=
  (NftCons.apply_auth NftCons.bitOps cfg h).2.1 ap a id lu rfl

/-- operator approvals are granted only with the owner's own authorization -/
theorem approve_for_all_authorized (cfg : Cfg) {s s' : Nft.State} {auth : List Nat} {o p lu : Nat}
    {r : Option Nat} (h : Nft.apply cfg s auth (.approveForAll o p lu) = .ok (s', r)) : o ∈ auth :=
  (Nft.apply_auth cfg h).2.2 o p lu rfl

theorem approve_for_all_authorized_consecutive (cfg : Cfg) {s s' : NftCons.BState} {auth : List Nat}
    {o p lu : Nat} {r : Option Nat}
    (h : NftCons.apply NftCons.bitOps cfg s auth (.approveForAll o p lu) = .ok (s', r)) : o ∈ auth :=
  (NftCons.apply_auth NftCons.bitOps cfg h).2.2 o p lu rfl

/-! ## any transfer or burn clears the token's approval -/

theorem update_clears_approval (cfg : Cfg) {s s' : Nft.State} {auth : List Nat} {op : Op} {r : Option Nat}
    (h : Nft.apply cfg s auth op = .ok (s', r)) {f id : Nat} (hm : op.moves = some (f, id)) :
    s'.approval id = none ∧ getApproved s'.toCore id = none := by
  have := ((Nft.apply_auth cfg h).1 f id hm).2.2
  exact ⟨this, getApproved_none_of_entry_none this⟩

theorem update_clears_approval_enumerable (cfg : Cfg) {s s' : NftEnum.State} {auth : List Nat} {op : Op}
    {r : Option Nat} (h : NftEnum.apply cfg s auth op = .ok (s', r)) {f id : Nat}
    (hm : op.moves = some (f, id)) : s'.approval id = none ∧ getApproved s'.toCore id = none :=
  update_clears_approval cfg (NftEnum.apply_base cfg h) hm

/-- consecutive flavour: the entry deleted through `NFTConsecutiveStorageKey::Approval(id)` is the
one `Base::get_approved` reads -/
theorem update_clears_approval_consecutive (cfg : Cfg) {s s' : NftCons.BState} {auth : List Nat} {op : Op}
    {r : Option Nat} (h : NftCons.apply NftCons.bitOps cfg s auth op = .ok (s', r)) {f id : Nat}
    (hm : op.moves = some (f, id)) : s'.approval id = none ∧ getApproved s'.toCore id = none := by
  have := ((NftCons.apply_auth NftCons.bitOps cfg h).1 f id hm).2.2
  exact ⟨this, getApproved_none_of_entry_none this⟩

/-! ## approvals never carry over -/

/-- once a token has no approval entry (in particular right after any transfer or burn, see
`update_clears_approval`), `get_approved` stays none through every later history — whatever
the ledger does — until an `approve` for that very token is accepted, which by
`approve_authorized` takes the THEN-current owner or one of its live operators -/
theorem no_approval_carry_over (cfg : Cfg) (ops : List (List Nat × Op)) (s : Nft.State) (id : Nat)
    (hn : s.approval id = none) (hx : ∀ x ∈ ops, x.2.approves id = false) :
    getApproved (Nft.run cfg s ops).toCore id = none :=
  getApproved_none_of_entry_none (Nft.run_approval_none cfg ops s id hn hx)

theorem no_approval_carry_over_enumerable (cfg : Cfg) (ops : List (List Nat × Op)) (s : NftEnum.State)
    (id : Nat) (hn : s.approval id = none) (hx : ∀ x ∈ ops, x.2.approves id = false) :
    getApproved (NftEnum.run cfg s ops).toCore id = none :=
  getApproved_none_of_entry_none (NftEnum.run_approval_none cfg ops s id hn hx)

theorem no_approval_carry_over_consecutive (cfg : Cfg) (ops : List (List Nat × Op)) (s : NftCons.BState)
    (id : Nat) (hn : s.approval id = none) (hx : ∀ x ∈ ops, x.2.approves id = false) :
    getApproved (NftCons.run NftCons.bitOps cfg s ops).toCore id = none :=
  getApproved_none_of_entry_none (NftCons.run_approval_none NftCons.bitOps cfg ops s id hn hx)

/-! ## operator approvals concern only the approving owner's tokens -/

/-- a spender that is neither the owner nor the token's approved account moves a token only
through the operator entry of the token's CURRENT owner -/
theorem operator_scope (cfg : Cfg) {s s' : Nft.State} {auth : List Nat} {op : Op} {r : Option Nat}
    (h : Nft.apply cfg s auth op = .ok (s', r)) {f id sp : Nat} (hm : op.moves = some (f, id))
    (hsp : op.spender = some sp) (h1 : sp ≠ f) (h2 : getApproved s.toCore id ≠ some sp) :
    s.owner id = some f ∧ isApprovedForAll s.toCore f sp = true := by
  obtain ⟨ho, hj⟩ := move_authorized cfg h hm
  refine ⟨ho, ?_⟩
  unfold Justified at hj
  rw [hsp] at hj
  rcases hj.2 with e | e | e
  · exact absurd e h1
  · exact absurd e h2
  · exact e

theorem operator_scope_consecutive (cfg : Cfg) {s s' : NftCons.BState} {auth : List Nat} {op : Op}
    {r : Option Nat} (h : NftCons.apply NftCons.bitOps cfg s auth op = .ok (s', r)) {f id sp : Nat}
    (hm : op.moves = some (f, id)) (hsp : op.spender = some sp) (h1 : sp ≠ f)
    (h2 : getApproved s.toCore id ≠ some sp) :
    NftCons.ownerOf NftCons.bitOps s id = .ok f ∧ isApprovedForAll s.toCore f sp = true := by
  obtain ⟨ho, hj⟩ := move_authorized_consecutive cfg h hm
  refine ⟨ho, ?_⟩
  unfold Justified at hj
  rw [hsp] at hj
  rcases hj.2 with e | e | e
  · exact absurd e h1
  · exact absurd e h2
  · exact e

/-- `approve_for_all(o, p, ..)` touches exactly the entry `(o, p)`: no other operator pair, no
per-token approval (shared `Base::approve_for_all`, all flavours) -/
theorem operator_grant_is_local {cfg : Cfg} {c c' : Core} {auth : List Nat} {o p lu : Nat}
    (h : approveForAll cfg c auth o p lu = .ok c') :
    (∀ o' p', ¬ (o' = o ∧ p' = p) → isApprovedForAll c' o' p' = isApprovedForAll c o' p') ∧
    (∀ id, getApproved c' id = getApproved c id) := by
  obtain ⟨_, happ, _, _, hnow, hother, _⟩ := approveForAll_ok h
  refine ⟨?_, ?_⟩
  · intro o' p' hne
    unfold isApprovedForAll; rw [hother o' p' hne, hnow]
  · intro id
    unfold getApproved; rw [happ, hnow]

/-! ## expiry and revocation -/

/-- what counts is live: a reading of `get_approved` / `is_approved_for_all` comes from an entry
whose `live_until_ledger` has not passed -/
theorem expiry_and_revoke {c : Core} :
    (∀ id a, getApproved c id = some a →
      ∃ e, c.approval id = some e ∧ e.val.approved = a ∧ c.now ≤ e.val.liveUntilLedger) ∧
    (∀ o p, isApprovedForAll c o p = true → ∃ e, c.operator o p = some e ∧ c.now ≤ e.val) ∧
    (∀ id e, c.approval id = some e → e.val.liveUntilLedger < c.now → getApproved c id = none) ∧
    (∀ o p e, c.operator o p = some e → e.val < c.now → isApprovedForAll c o p = false) := by
  refine ⟨?_, ?_, ?_, ?_⟩
  · intro id a h
    obtain ⟨e, h1, h2, h3, _⟩ := getApproved_some h
    exact ⟨e, h1, h2, h3⟩
  · intro o p h
    obtain ⟨e, h1, h2, _⟩ := isApprovedForAll_true h
    exact ⟨e, h1, h2⟩
  · intro id e h1 h2; exact getApproved_expired h1 h2
  · intro o p e h1 h2; exact isApprovedForAll_expired h1 h2

/-- `approve_for_owner` (the body of `approve` in all flavours): `live_until_ledger = 0` revokes;
otherwise the approval is readable exactly up to and including `live_until_ledger`, at whatever
ledger later states are (as long as the entry is not rewritten) -/
theorem approve_sets_exact_expiry {cfg : Cfg} {c c' : Core} {o ap a id lu : Nat}
    (h : approveForOwner cfg c o ap a id lu = .ok c') :
    (lu = 0 → getApproved c' id = none) ∧
    (lu ≠ 0 → c.now ≤ lu ∧ ∀ c'' : Core, c''.approval id = c'.approval id →
      getApproved c'' id = if c''.now ≤ lu then some a else none) := by
  obtain ⟨_, _, _, _, _, h0, hpos⟩ := approveForOwner_ok h
  refine ⟨?_, ?_⟩
  · intro hl
    apply getApproved_none_of_entry_none
    rw [h0 hl]; exact upd_same _ _ _
  · intro hl
    obtain ⟨hnow, e, he, hv, hlive⟩ := hpos hl
    refine ⟨hnow, ?_⟩
    intro c'' hc
    have hent : c''.approval id = some e := by rw [hc, he]; exact upd_same _ _ _
    have := getApproved_entry (c := c'') hent (by rw [hv]; exact hlive)
    rw [this, hv]

/-- the same for operators: `approve_for_all(o, p, 0)` revokes; otherwise `p` is an operator of
`o` exactly up to and including `live_until_ledger` -/
theorem approve_for_all_sets_exact_expiry {cfg : Cfg} {c c' : Core} {auth : List Nat} {o p lu : Nat}
    (h : approveForAll cfg c auth o p lu = .ok c') :
    (lu = 0 → isApprovedForAll c' o p = false) ∧
    (lu ≠ 0 → c.now ≤ lu ∧ ∀ c'' : Core, c''.operator o p = c'.operator o p →
      isApprovedForAll c'' o p = decide (c''.now ≤ lu)) := by
  obtain ⟨_, _, _, _, _, _, h0, hpos⟩ := approveForAll_ok h
  refine ⟨fun hl => isApprovedForAll_none (h0 hl), ?_⟩
  intro hl
  obtain ⟨hnow, e, he, hv, hlive⟩ := hpos hl
  refine ⟨hnow, ?_⟩
  intro c'' hc
  have hent : c''.operator o p = some e := by rw [hc, he]
  have := isApprovedForAll_entry (c := c'') hent (by rw [hv]; exact hlive)
  rw [this, hv]

/-- the `approve` entry point of each flavour is `approve_for_owner` on the shared core, with the
flavour's own `owner_of` -/
theorem approve_is_approve_for_owner (cfg : Cfg) {auth : List Nat} {ap a id lu : Nat} {r : Option Nat} :
    (∀ {s s' : Nft.State}, Nft.apply cfg s auth (.approve ap a id lu) = .ok (s', r) →
      ∃ o, s.owner id = some o ∧ approveForOwner cfg s.toCore o ap a id lu = .ok s'.toCore) ∧
    (∀ {s s' : NftEnum.State}, NftEnum.apply cfg s auth (.approve ap a id lu) = .ok (s', r) →
      ∃ o, s.owner id = some o ∧ approveForOwner cfg s.toCore o ap a id lu = .ok s'.toCore) ∧
    (∀ {s s' : NftCons.BState}, NftCons.apply NftCons.bitOps cfg s auth (.approve ap a id lu) = .ok (s', r) →
      ∃ o, NftCons.ownerOf NftCons.bitOps s id = .ok o ∧
        approveForOwner cfg s.toCore o ap a id lu = .ok s'.toCore) := by
  refine ⟨?_, ?_, ?_⟩
  · intro s s' h
    obtain ⟨o, h1, h2, _⟩ := Nft.approve_core cfg h
    exact ⟨o, h1, h2⟩
  · intro s s' h
    obtain ⟨o, h1, h2, _⟩ := Nft.approve_core cfg (NftEnum.apply_base cfg h)
    exact ⟨o, h1, h2⟩
  · intro s s' h
    exact NftCons.approve_core NftCons.bitOps cfg h

/-! ## conversely: an authorized spender / approver is never refused -/

/-- base flavour: `transfer_from` succeeds iff the spender authorizes, is the owner, the live
approved account or a live operator of `from`, `from` owns the token, and the recipient's balance
`checked_add` does not overflow -/
theorem transfer_from_succeeds_iff (cfg : Cfg) {L : List Nat} {s : Nft.State} (hi : Inv L s)
    {auth : List Nat} {sp f t id : Nat} :
    (∃ p, Nft.apply cfg s auth (.transferFrom sp f t id) = .ok p) ↔
      (sp ∈ auth ∧ (sp = f ∨ getApproved s.toCore id = some sp ∨ isApprovedForAll s.toCore f sp = true) ∧
        s.owner id = some f ∧ upd s.bal f (s.bal f - 1) t + 1 ≤ U32_MAX) :=
  Nft.apply_move_iff cfg hi.owner_pos rfl

theorem transfer_from_succeeds_iff_enumerable (cfg : Cfg) {s : NftEnum.State} (hi : NftEnum.EInv s)
    {auth : List Nat} {sp f t id : Nat} :
    (∃ p, NftEnum.apply cfg s auth (.transferFrom sp f t id) = .ok p) ↔
      (sp ∈ auth ∧ (sp = f ∨ getApproved s.toCore id = some sp ∨ isApprovedForAll s.toCore f sp = true) ∧
        s.owner id = some f ∧ upd s.bal f (s.bal f - 1) t + 1 ≤ U32_MAX) :=
  (NftEnum.apply_move_iff_base cfg hi rfl).trans (Nft.apply_move_iff cfg hi.owner_pos rfl)

theorem transfer_from_succeeds_iff_consecutive (cfg : Cfg) {s : NftCons.BState} {spec : Nat → Option Nat}
    (hi : NftCons.GInv NftCons.bitOf NftCons.WFB s spec) {auth : List Nat} {sp f t id : Nat} :
    (∃ p, NftCons.apply NftCons.bitOps cfg s auth (.transferFrom sp f t id) = .ok p) ↔
      (sp ∈ auth ∧ (sp = f ∨ getApproved s.toCore id = some sp ∨ isApprovedForAll s.toCore f sp = true) ∧
        spec id = some f ∧ upd s.bal f (s.bal f - 1) t + 1 ≤ U32_MAX) :=
  NftCons.apply_move_iff NftCons.bitOps_impl cfg hi rfl

/-- `burn_from` likewise, without an overflow condition -/
theorem burn_from_succeeds_iff (cfg : Cfg) :
    (∀ {L : List Nat} {s : Nft.State}, Inv L s → ∀ {auth : List Nat} {sp f id : Nat},
      ((∃ p, Nft.apply cfg s auth (.burnFrom sp f id) = .ok p) ↔
        (sp ∈ auth ∧ SpenderOK s.toCore sp f id ∧ s.owner id = some f))) ∧
    (∀ {s : NftEnum.State}, NftEnum.EInv s → ∀ {auth : List Nat} {sp f id : Nat},
      ((∃ p, NftEnum.apply cfg s auth (.burnFrom sp f id) = .ok p) ↔
        (sp ∈ auth ∧ SpenderOK s.toCore sp f id ∧ s.owner id = some f))) ∧
    (∀ {s : NftCons.BState} {spec : Nat → Option Nat}, NftCons.GInv NftCons.bitOf NftCons.WFB s spec →
      ∀ {auth : List Nat} {sp f id : Nat},
      ((∃ p, NftCons.apply NftCons.bitOps cfg s auth (.burnFrom sp f id) = .ok p) ↔
        (sp ∈ auth ∧ SpenderOK s.toCore sp f id ∧ spec id = some f))) :=
  ⟨fun hi => Nft.apply_move_iff cfg hi.owner_pos rfl,
   fun hi => (NftEnum.apply_move_iff_base cfg hi rfl).trans (Nft.apply_move_iff cfg hi.owner_pos rfl),
   fun hi => NftCons.apply_move_iff NftCons.bitOps_impl cfg hi rfl⟩

/-- `approve` succeeds iff the approver authorizes, the token exists, the approver is its owner
or a live operator of the owner, and `live_until_ledger` is 0 or lies between the current
ledger and the host's `max_live_until_ledger` (base and enumerable flavour: no invariant needed) -/
theorem approve_succeeds_iff (cfg : Cfg) {s : Nft.State} {auth : List Nat} {ap a id lu : Nat} :
    (∃ p, Nft.apply cfg s auth (.approve ap a id lu) = .ok p) ↔
      (ap ∈ auth ∧ ∃ o, s.owner id = some o ∧ (ap = o ∨ isApprovedForAll s.toCore o ap = true) ∧
        LiveUntilOK cfg s.now lu) := by
  show (∃ p, (Nft.approve cfg s auth ap a id lu >>= fun x => pure (x, none)) = .ok p) ↔ _
  rw [pure_pair_iff]; exact Nft.approve_iff cfg

theorem approve_succeeds_iff_enumerable (cfg : Cfg) {s : NftEnum.State} {auth : List Nat} {ap a id lu : Nat} :
    (∃ p, NftEnum.apply cfg s auth (.approve ap a id lu) = .ok p) ↔
      (ap ∈ auth ∧ ∃ o, s.owner id = some o ∧ (ap = o ∨ isApprovedForAll s.toCore o ap = true) ∧
        LiveUntilOK cfg s.now lu) := by
  show (∃ p, (Nft.approve cfg s.toState auth ap a id lu >>= fun b => pure (({ s with toState := b } : NftEnum.State), (none : Option Nat))) = .ok p) ↔ _
  rw [bind_ok_iff, ← Nft.approve_iff cfg]
  constructor
  · rintro ⟨b, hb, _⟩; exact ⟨b, hb⟩
  · rintro ⟨b, hb⟩; exact ⟨b, hb, _, rfl⟩

theorem approve_succeeds_iff_consecutive (cfg : Cfg) {s : NftCons.BState} {spec : Nat → Option Nat}
    (hi : NftCons.GInv NftCons.bitOf NftCons.WFB s spec) {auth : List Nat} {ap a id lu : Nat} :
    (∃ p, NftCons.apply NftCons.bitOps cfg s auth (.approve ap a id lu) = .ok p) ↔
      (ap ∈ auth ∧ ∃ o, spec id = some o ∧ (ap = o ∨ isApprovedForAll s.toCore o ap = true) ∧
        LiveUntilOK cfg s.now lu) := by
  show (∃ p, (NftCons.approve NftCons.bitOps cfg s auth ap a id lu >>= fun x => pure (x, none)) = .ok p) ↔ _
  rw [pure_pair_iff]; exact NftCons.approve_iff NftCons.bitOps_impl cfg hi

/-- `approve_for_all` (shared by all flavours) succeeds iff the owner authorizes and
`live_until_ledger` is acceptable -/
theorem approve_for_all_succeeds_iff {cfg : Cfg} {c : Core} {auth : List Nat} {o p lu : Nat} :
    (∃ c', approveForAll cfg c auth o p lu = .ok c') ↔ (o ∈ auth ∧ LiveUntilOK cfg c.now lu) :=
  approveForAll_iff

/-! ## non-vacuity -/

/-- owner 1 approves 2 for token 0 until ledger 12; at ledger 12 account 2 moves it, the approval
is gone afterwards; at ledger 13 the same history is rejected -/
example : ((Nft.run ⟨1, 1000⟩ (Nft.init 10)
    [([], .mintSeq 1), ([1], .approve 1 2 0 12), ([], .advance 2), ([2], .transferFrom 2 1 3 0)]).owner 0,
    getApproved (Nft.run ⟨1, 1000⟩ (Nft.init 10)
    [([], .mintSeq 1), ([1], .approve 1 2 0 12), ([], .advance 2), ([2], .transferFrom 2 1 3 0)]).toCore 0)
    = (some 3, none) := by decide

example : (Nft.run ⟨1, 1000⟩ (Nft.init 10)
    [([], .mintSeq 1), ([1], .approve 1 2 0 12), ([], .advance 3), ([2], .transferFrom 2 1 3 0)]).owner 0
    = some 1 := by decide

set_option maxRecDepth 8000 in
/-- an operator of the previous owner cannot move the token after it changed hands -/
example : (NftCons.ownerOf NftCons.bitOps (NftCons.run NftCons.bitOps ⟨1, 1000⟩ (NftCons.init NftCons.noBuckets 10)
    [([], .batchMint 1 40), ([1], .approveForAll 1 4 50), ([1], .transfer 1 2 7),
     ([4], .transferFrom 4 2 4 7), ([4], .transferFrom 4 1 4 8)]) 7).toOption = some 2 := by decide

set_option maxRecDepth 8000 in
example : (NftCons.ownerOf NftCons.bitOps (NftCons.run NftCons.bitOps ⟨1, 1000⟩ (NftCons.init NftCons.noBuckets 10)
    [([], .batchMint 1 40), ([1], .approveForAll 1 4 50), ([1], .transfer 1 2 7),
     ([4], .transferFrom 4 2 4 7), ([4], .transferFrom 4 1 4 8)]) 8).toOption = some 4 := by decide

/-- `LiveUntilOK`: with max_entry_ttl 1000 at ledger 10, 1009 is the last acceptable ledger -/
example : LiveUntilOK ⟨1, 1000⟩ 10 1009 ∧ ¬ LiveUntilOK ⟨1, 1000⟩ 10 1010 ∧ LiveUntilOK ⟨1, 1000⟩ 10 0 ∧
    ¬ LiveUntilOK ⟨1, 1000⟩ 10 9 := by
  unfold LiveUntilOK Cfg.maxLiveUntil; decide

end OZ.C11
