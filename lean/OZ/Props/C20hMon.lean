import OZ.Lemmas.RegHooksMon
/-
C20 (h) — soundness of the `hooks` MONITOR that decides the property on implementation traces.

`./check C20` reports a concrete violation in a `hooks` sequence exactly when
`OZ.RegHooks.Mon.checkCore` (the sub-driver's monitor on parsed values, OZ/Model/RegHooksMon.lean)
returns a message on the implementation's observations. Here it is proved that on the observations
of the MODEL the monitor never returns a message, for every label parameter `nm` and every finite
history of `add_module_to` / `remove_module_from` with arbitrary arguments
(`monitor_accepts_every_model_trace`). Consequences: a monitor failure is never a false alarm of the
monitor itself, and every conclusion it evaluates (duplicates / absent modules refused, the 20th
module accepted and the 21st refused, `get_modules_for_hook` lists the plain set of each hook once,
`is_module_registered` is membership in the plain set) is a THEOREM about the model, in the
monitor's own executable wording.

`modelObs s nm ok` is the data the model driver prints for state `s` (`stepLine` / `showState` of
OZ/Drv/C20Hooks.lean): the tag, `H=` the graph of `getModulesForHook` over hooks 0..4 (`Hraw` its
printed form), `reg=` the bits of `isModuleRegistered` over hooks 0..4 x modules 0..nm-1.

Property theorems only; helper facts come from OZ/Lemmas/RegHooksMon.lean.
-/
namespace OZ.RegHooks.Mon
open OZ.Reg OZ.RegMon OZ.RegHooks

/-- the observation the harness / the model driver print for a state -/
def modelObs (s : State) (nm : Nat) (ok : Bool) : Obs :=
  { ok := ok,
    H := (List.range NH).map (fun h => (h, getModulesForHook s h)),
    Hraw := sepBy ";" ((List.range NH).map (fun h => s!"{h}:{nats (getModulesForHook s h)}")),
    reg := bits ((List.range NH).flatMap (fun h => (List.range nm).map (fun x => isModuleRegistered s h x))) }

/-- whether the model accepts the call -/
def accepted (s : State) (op : Op) : Bool :=
  match step s op with
  | .ok _ => true
  | .error _ => false

/-- the getter part of the monitor never fires on the observation of a state the plain relation
describes: every hook lists its plain set once, membership bits agree -/
theorem getters_quiet {g : Mon} {s : State} {nm : Nat} (ha : Agree g s nm) (hI : Inv s) (ok : Bool) :
    (List.range NH).all (hookOk g (modelObs s nm ok).H) = true ∧
    (modelObs s nm ok).reg = bits (regWant g) := by
  constructor
  · rw [List.all_eq_true]
    intro h hh
    unfold hookOk
    show (match ((List.range NH).map (fun h => (h, getModulesForHook s h))).find? (fun x => x.1 == h) with
      | some (_, l) => nodupB l && sameSet l (want g h)
      | none => false) = true
    rw [find_graph _ _ h hh]
    simp only [Bool.and_eq_true]
    exact ⟨(nodupB_iff _).2 (hI.nodup h), (sameSet_iff _ _).2 (fun m => by rw [mem_want, ha.mem]; rfl)⟩
  · show bits _ = bits _
    congr 1
    unfold regWant
    rw [ha.nm]
    refine List.flatMap_congr (fun h _ => List.map_congr_left (fun x _ => ?_))
    unfold isModuleRegistered
    rw [Bool.eq_iff_iff, any_eq_mem, List.contains_iff_mem, ha.mem]

/-- **one call**: fed with the model's own observation of any call (accepted or refused), the
monitor reports nothing and its plain relation keeps describing the model's state -/
theorem monitor_sound_step {g : Mon} {s : State} {nm : Nat} (hI : Inv s) (ha : Agree g s nm) (op : Op) :
    (checkCore g op (modelObs (next s op) nm (accepted s op))).2 = none ∧
    Agree (checkCore g op (modelObs (next s op) nm (accepted s op))).1 (next s op) nm := by
  have key : ∃ g', decide2 "hooks" g (plain g op) (accepted s op) (near g op) = (g', none) ∧ Agree g' (next s op) nm := by
    unfold next accepted
    cases hs : step s op with
    | ok s' =>
      obtain ⟨g', hp, ha'⟩ := plain_ok ha hI hs
      exact ⟨g', by rw [hp]; rfl, ha'⟩
    | error e =>
      obtain ⟨w, hp⟩ := plain_err ha hI hs
      exact ⟨g, by rw [hp]; rfl, ha⟩
  obtain ⟨g', hd, ha'⟩ := key
  obtain ⟨q1, q2⟩ := getters_quiet ha' (inv_next hI op) (accepted s op)
  unfold checkCore
  rw [show (modelObs (next s op) nm (accepted s op)).ok = accepted s op from rfl, hd]
  refine ⟨?_, ha'⟩
  show firstFail [none, chk _ _, chk (decide _) _] = none
  rw [firstFail_none_cons, chk_of q1, firstFail_none_cons, chk_decide q2]
  rfl

/-- the monitor run over a whole history of model observations: first message, if any -/
def monitorRun (nm : Nat) : Mon → State → List Op → Option String
  | _, _, [] => none
  | g, s, op :: ops =>
    match (checkCore g op (modelObs (next s op) nm (accepted s op))).2 with
    | some msg => some msg
    | none => monitorRun nm (checkCore g op (modelObs (next s op) nm (accepted s op))).1 (next s op) ops

/-- the monitor's initial state for a sequence (what `minit` builds from the label) -/
def monInit (nm : Nat) : Mon := { rel := [], nm := nm }

/-- **monitor soundness**: for every label parameter `nm` and every finite history of
`add_module_to` / `remove_module_from` — any hooks, any modules, accepted or refused — the monitor
that the sub-driver's `minit` builds reports nothing on the observations of the model that the
sub-driver's `initM` builds -/
theorem monitor_accepts_every_model_trace (nm : Nat) (ops : List Op) :
    monitorRun nm (monInit nm) init ops = none := by
  suffices ∀ g s, Inv s → Agree g s nm → monitorRun nm g s ops = none from
    this _ _ inv_init ⟨rfl, List.nodup_nil, fun h m => by simp [monInit, init]⟩
  induction ops with
  | nil => intro g s _ _; rfl
  | cons op ops ih =>
    intro g s hI ha
    obtain ⟨h1, h2⟩ := monitor_sound_step hI ha op
    unfold monitorRun
    rw [h1]
    exact ih _ _ (inv_next hI op) h2

/-! ### non-vacuity (tests, labelled as such): the monitor is not trivially silent -/

/-- a refused 20th module, an accepted duplicate, a module listed twice and a wrong membership bit
are reported -/
example :
    (checkCore { rel := (List.range 19).map (fun m => (3, m)), nm := 1 } (.add 3 19)
      ⟨false, [], "", ""⟩).2.isSome = true ∧
    (checkCore { rel := [(0, 1)], nm := 2 } (.add 0 1) ⟨true, [], "", ""⟩).2.isSome = true ∧
    (List.range NH).all (hookOk { rel := [(0, 1)], nm := 2 } [(0, [1, 1]), (1, []), (2, []), (3, []), (4, [])]) = false ∧
    regWant { rel := [(0, 1)], nm := 2 } ≠ List.replicate 10 false := by
  refine ⟨by decide, by decide, by decide, by decide⟩

end OZ.RegHooks.Mon
