import OZ.Lemmas.VotesTokens
import OZ.Props.C01
/-
C13 — Voting power equals delegated balances, now and at every past ledger.

Property theorems only. The model (OZ/Model/Votes.lean) mirrors
packages/governance/src/votes/storage.rs (`transfer_voting_units`, `delegate`,
`move_delegate_votes`, `push_checkpoint`, `lookup_checkpoint_at` with its binary search,
the getters) and the wrappers `FungibleVotes` / `NonFungibleVotes`.

Every statement is about ALL finite histories: arbitrary lists of operations with arbitrary
accounts, amounts (`Nat`, i.e. also beyond u128: the checked arithmetic of the code then
fails and the host rolls back), authorizing subsets, any number of operations inside one
ledger and arbitrary gaps between ledgers, from any start ledger. The statements about
sums range over a duplicate-free universe `U` that contains the accounts the operations
mention (as `total` in OZ.Fungible); the statements about checkpoints and past queries
need no universe at all.
-/
namespace OZ.Votes
open OZ.Host

/-! ### the binary search: termination and well-definedness

`bsearch` (Model/Votes.lean) is the `while low < high` loop with the code's midpoint
`low + (high - low).div_ceil(2)`; Lean accepted it only with the termination proof given
there (`termination_by high - low`). The facts that make it terminate, and make the `u32`
arithmetic of the loop safe, are: -/

/-- the midpoint lies strictly above `low` and not above `high`: both branches shrink the
interval (`low := mid`, `high := mid - 1`), `mid - 1` cannot wrap and `mid` cannot exceed a
valid index -/
theorem midpoint_progress (low high : Nat) (h : low < high) :
    low < mid low high ∧ mid low high ≤ high ∧ 1 ≤ mid low high ∧
    high - mid low high < high - low ∧ (mid low high - 1) - low < high - low := by
  have h1 := mid_gt h; have h2 := mid_le h
  refine ⟨h1, h2, by omega, by omega, by omega⟩

/-! ### voting power = delegated units, total = Σ units -/

/-- **C13, current votes**: after any history, `get_votes(a)` succeeds and equals the sum
of the voting units of all accounts currently delegating to `a` -/
theorem votes_eq_delegated_units (now0 : Nat) (U : List Nat) (hn : U.Nodup)
    (ops : List (List Nat × Op)) (hU : ∀ x ∈ ops, ∀ a ∈ x.2.addrs, a ∈ U) (a : Nat) :
    getVotes (run (init now0) ops) a = .ok (delegatedTo U (run (init now0) ops) a) := by
  have hi := run_inv hn (init_inv U now0) ops hU
  unfold getVotes
  rw [latest_present (hi.wf a)]
  exact congrArg _ (hi.votes a)

/-- **C13, total**: after any history, `get_total_supply()` succeeds and equals the sum of
all voting units; accounts outside the universe hold none -/
theorem total_eq_sum_units (now0 : Nat) (U : List Nat) (hn : U.Nodup)
    (ops : List (List Nat × Op)) (hU : ∀ x ∈ ops, ∀ a ∈ x.2.addrs, a ∈ U) :
    getTotalSupply (run (init now0) ops) = .ok (sumN U (run (init now0) ops).units) ∧
    ∀ a, a ∉ U → (run (init now0) ops).units a = 0 := by
  have hi := run_inv hn (init_inv U now0) ops hU
  unfold getTotalSupply
  rw [latest_present hi.wfT]
  exact ⟨congrArg _ hi.total, hi.outside⟩

/-- a delegate's voting power never exceeds the total supply of voting units -/
theorem votes_le_total (now0 : Nat) (U : List Nat) (hn : U.Nodup)
    (ops : List (List Nat × Op)) (hU : ∀ x ∈ ops, ∀ a ∈ x.2.addrs, a ∈ U) (a : Nat) :
    votesOf (run (init now0) ops) a ≤ latestVotes (run (init now0) ops).total := by
  have hi := run_inv hn (init_inv U now0) ops hU
  rw [hi.votes a, hi.total]
  unfold delegatedTo
  apply sumN_le_sumN
  intro d
  split <;> omega

/-! ### the checkpoint timelines -/

/-- **C13, checkpoints**: after any history every timeline (each delegate's and the total
supply's) has an entry at every index below its counter, with strictly increasing ledgers,
none after the current ledger; hence at most one checkpoint per ledger (same-ledger writes
coalesce) and the counter is at most `now + 1` -/
theorem checkpoints_sorted (now0 : Nat) (ops : List (List Nat × Op)) (a : Nat) :
    WF ((run (init now0) ops).tl a) (run (init now0) ops).now ∧
    WF (run (init now0) ops).total (run (init now0) ops).now ∧
    ((run (init now0) ops).tl a).num ≤ (run (init now0) ops).now + 1 := by
  have hw := run_wfAll (init_wfAll now0) ops
  exact ⟨hw.1 a, hw.2, (hw.1 a).num_le⟩

/-- the same as lists: strictly increasing ledgers, all `≤ now` -/
theorem checkpoints_sorted_list (now0 : Nat) (ops : List (List Nat × Op)) (a : Nat) :
    (((run (init now0) ops).tl a).toList.Pairwise (fun c d => c.ledger < d.ledger) ∧
     ∀ c ∈ ((run (init now0) ops).tl a).toList, c.ledger ≤ (run (init now0) ops).now) ∧
    ((run (init now0) ops).total.toList.Pairwise (fun c d => c.ledger < d.ledger) ∧
     ∀ c ∈ (run (init now0) ops).total.toList, c.ledger ≤ (run (init now0) ops).now) := by
  have hw := run_wfAll (init_wfAll now0) ops
  refine ⟨⟨entries_sorted (hw.1 a) _ (Nat.le_refl _), ?_⟩, ⟨entries_sorted hw.2 _ (Nat.le_refl _), ?_⟩⟩
  · intro c hc
    obtain ⟨i, hi, hci⟩ := (mem_entries _ _ _).mp hc
    exact (hw.1 a).bound i c hi hci
  · intro c hc
    obtain ⟨i, hi, hci⟩ := (mem_entries _ _ _).mp hc
    exact hw.2.bound i c hi hci

/-- the unchecked `u32` addition `num + 1` of `push_checkpoint` cannot overflow while the
ledger sequence number itself is below `u32::MAX`: a new entry is only appended when all
existing ones are from earlier ledgers, so there are at most `now` of them -/
theorem counter_never_overflows {t : Timeline} {now : Nat} (hw : WF t now) (hnow : now < U32_MAX)
    (v : Nat) : store t now v ≠ .error .overflowPanic := by
  intro h
  unfold store at h
  split at h
  · cases h
  · rename_i h0
    split at h
    · cases h
    · rename_i c hc
      split at h
      · cases h
      · rename_i hne
        split at h
        · cases h
        · rename_i hov
          have hb := hw.bound (t.num - 1) c (by omega) hc
          have hw' : WF t (now - 1) := by
            refine ⟨hw.present, hw.sorted, ?_⟩
            intro i ci hi hci
            by_cases hil : i = t.num - 1
            · subst hil; rw [hc] at hci; injection hci with hci; subst hci; omega
            · have := hw.sorted i (t.num - 1) ci c (by omega) (by omega) hci hc
              omega
          have := hw'.num_le
          omega

/-- **C13, lookup**: on a well-formed timeline `lookup_checkpoint_at` (early exits + binary
search) never fails; it returns 0 when no checkpoint lies at or before `q`, and otherwise the
votes of the last checkpoint at or before `q` -/
theorem lookup_correct {t : Timeline} {now : Nat} (hw : WF t now) (q : Nat) :
    ((∀ i c, i < t.num → t.cp i = some c → q < c.ledger) → lookupCheckpointAt t q = .ok 0) ∧
    (∀ i c, i < t.num → t.cp i = some c → c.ledger ≤ q →
      (∀ j cj, i < j → j < t.num → t.cp j = some cj → q < cj.ledger) →
      lookupCheckpointAt t q = .ok c.votes) := by
  rw [lookup_eq_valueAt hw q]
  exact ⟨fun h => by rw [valueAt, scan_none _ _ _ h],
    fun i c hi hc hle hgt => by rw [valueAt, scan_at _ _ _ i c hi hc hle hgt]⟩

/-- one of the two cases of `lookup_correct` always applies: the lookup is total -/
theorem lookup_total {t : Timeline} {now : Nat} (hw : WF t now) (q : Nat) :
    (∀ i c, i < t.num → t.cp i = some c → q < c.ledger) ∨
    ∃ i c, i < t.num ∧ t.cp i = some c ∧ c.ledger ≤ q ∧
      ∀ j cj, i < j → j < t.num → t.cp j = some cj → q < cj.ledger := by
  suffices ∀ n, n ≤ t.num →
      (∀ i c, i < n → t.cp i = some c → q < c.ledger) ∨
      ∃ i c, i < n ∧ t.cp i = some c ∧ c.ledger ≤ q ∧
        ∀ j cj, i < j → j < n → t.cp j = some cj → q < cj.ledger by
    rcases this t.num (Nat.le_refl _) with h | ⟨i, c, h⟩
    · exact .inl h
    · exact .inr ⟨i, c, h⟩
  intro n
  induction n with
  | zero => intro _; exact .inl (fun i c hi => by omega)
  | succ n ih =>
    intro hn
    obtain ⟨cn, hcn⟩ := hw.present n (by omega)
    by_cases hle : cn.ledger ≤ q
    · exact .inr ⟨n, cn, by omega, hcn, hle, fun j cj h1 h2 => by omega⟩
    · rcases ih (by omega) with h | ⟨i, c, hi, hc, hcle, hgt⟩
      · left
        intro i c hi hc
        by_cases hin : i = n
        · subst hin; rw [hcn] at hc; injection hc with hc; subst hc; omega
        · exact h i c (by omega) hc
      · right
        refine ⟨i, c, by omega, hc, hcle, ?_⟩
        intro j cj h1 h2 h3
        by_cases hjn : j = n
        · subst hjn; rw [hcn] at h3; injection h3 with h3; subst h3; omega
        · exact hgt j cj h1 (by omega) h3

/-! ### past queries -/

/-- **C13, future refused**: a query about the current or any later ledger is an error, in
every state -/
theorem future_refused (s : State) (a q : Nat) (h : q ≥ s.now) :
    getVotesAtCheckpoint s a q = .error .futureLookup ∧
    getTotalSupplyAtCheckpoint s q = .error .futureLookup := by
  unfold getVotesAtCheckpoint getTotalSupplyAtCheckpoint
  rw [if_pos h, if_pos h]; exact ⟨rfl, rfl⟩

/-- **C13, history**: run any history together with the ghost that records, whenever the
ledger moves on, the values `get_votes` / `get_total_supply` had at that moment for the
ledgers that thereby end. Then every past query (`q < now`) succeeds and returns exactly the
recorded value (0 for ledgers before the start) -/
theorem past_eq_history (now0 : Nat) (ops : List (List Nat × Op)) (a q : Nat)
    (hq : q < (grun (init now0, Ghost.empty) ops).1.now) :
    getVotesAtCheckpoint (grun (init now0, Ghost.empty) ops).1 a q =
      .ok ((grun (init now0, Ghost.empty) ops).2.votes q a) ∧
    getTotalSupplyAtCheckpoint (grun (init now0, Ghost.empty) ops).1 q =
      .ok ((grun (init now0, Ghost.empty) ops).2.total q) := by
  have hg0 : GInv (init now0, Ghost.empty) := by
    intro q _
    exact ⟨fun _ => rfl, rfl⟩
  have hg := grun_inv (x := (init now0, Ghost.empty)) (init_wfAll now0) hg0 ops
  have hw : WFAll (grun (init now0, Ghost.empty) ops).1 := by
    rw [grun_fst]; exact run_wfAll (init_wfAll now0) ops
  unfold getVotesAtCheckpoint getTotalSupplyAtCheckpoint
  rw [if_neg (by omega), if_neg (by omega), lookup_eq_valueAt (hw.1 a), lookup_eq_valueAt hw.2]
  obtain ⟨h1, h2⟩ := hg q hq
  rw [h1 a, h2]; exact ⟨rfl, rfl⟩

/-- **C13, past immutable**: from any state with well-formed timelines (in particular any
reachable one), no further history changes the answer of a query about a ledger before the
current one -/
theorem past_immutable (s : State) (hw : WFAll s) (ops : List (List Nat × Op)) (a q : Nat)
    (hq : q < s.now) :
    getVotesAtCheckpoint (run s ops) a q = getVotesAtCheckpoint s a q ∧
    getTotalSupplyAtCheckpoint (run s ops) q = getTotalSupplyAtCheckpoint s q := by
  obtain ⟨hn, hp, hpt⟩ := run_samePast s ops
  have hw' := run_wfAll hw ops
  unfold getVotesAtCheckpoint getTotalSupplyAtCheckpoint
  rw [if_neg (by omega), if_neg (by omega), if_neg (by omega), if_neg (by omega),
    lookup_eq_valueAt (hw'.1 a), lookup_eq_valueAt hw'.2, lookup_eq_valueAt (hw.1 a),
    lookup_eq_valueAt hw.2, hp a q hq, hpt q hq]
  exact ⟨rfl, rfl⟩

/-- **C13, history without a ghost**: split any history at a point where the ledger moves
from `L` to `L + n`. Whatever happens afterwards, a query for a ledger `q` in `[L, L + n)`
returns the value `get_votes` / `get_total_supply` had right before the ledger moved, i.e.
at the end of ledger `q` -/
theorem past_query_eq_end_of_ledger (now0 : Nat) (pre post : List (List Nat × Op)) (n a q : Nat)
    (auth : List Nat)
    (h1 : (run (init now0) pre).now ≤ q) (h2 : q < (run (init now0) pre).now + n) :
    getVotesAtCheckpoint (run (init now0) (pre ++ (auth, .advance n) :: post)) a q =
      getVotes (run (init now0) pre) a ∧
    getTotalSupplyAtCheckpoint (run (init now0) (pre ++ (auth, .advance n) :: post)) q =
      getTotalSupply (run (init now0) pre) := by
  have hw := run_wfAll (init_wfAll now0) pre
  rw [run_append]
  generalize run (init now0) pre = s at *
  have hs1 : run s ((auth, .advance n) :: post) = run { s with now := s.now + n } post := rfl
  rw [hs1]
  have hw1 : WFAll { s with now := s.now + n } :=
    ⟨fun x => (hw.1 x).mono (Nat.le_add_right _ _), hw.2.mono (Nat.le_add_right _ _)⟩
  have := past_immutable { s with now := s.now + n } hw1 post a q h2
  rw [this.1, this.2]
  unfold getVotesAtCheckpoint getTotalSupplyAtCheckpoint getVotes getTotalSupply
  simp only
  rw [if_neg (by omega), if_neg (by omega), lookup_eq_valueAt (hw.1 a), lookup_eq_valueAt hw.2,
    valueAt_recent (hw.1 a) h1, valueAt_recent hw.2 h1, latest_present (hw.1 a), latest_present hw.2]
  exact ⟨rfl, rfl⟩

/-- before anything was ever recorded, and for every ledger before the first checkpoint, the
answer is 0 -/
theorem past_before_start (now0 : Nat) (ops : List (List Nat × Op)) (a q : Nat) (hq : q < now0) :
    getVotesAtCheckpoint (run (init now0) ops) a q = .ok 0 := by
  have := (past_immutable (init now0) (init_wfAll now0) ops a q hq).1
  rw [this]
  unfold getVotesAtCheckpoint
  rw [if_neg (by simp [init]; omega)]
  rfl

/-! ### non-vacuity (tests, labelled as such): a concrete history with several operations
per ledger, gaps, a self-transfer, a full-balance transfer, delegation with zero units,
re-delegation, self-delegation, a failed call and a burn -/

def demoOps : List (List Nat × Op) :=
  [([0], .delegate 0 1),                               -- zero units
   ([], .transferUnits none (some 0) 1000),            -- mint at ledger 100
   ([], .transferUnits (some 0) (some 0) 1000),        -- self-transfer, full balance
   ([], .advance 5),
   ([], .transferUnits (some 0) (some 2) 400),         -- ledger 105
   ([2], .delegate 2 2),                               -- self-delegation, same ledger
   ([2], .delegate 2 2),                               -- fails: SameDelegate
   ([], .advance 1),
   ([0], .delegate 0 2),                               -- re-delegation at 106
   ([], .advance 10),
   ([], .transferUnits (some 2) none 150),             -- burn at 116
   ([], .transferUnits (some 3) (some 0) 1),           -- fails: no units
   ([], .advance 4)]

example : ∀ x ∈ demoOps, ∀ a ∈ x.2.addrs, a ∈ [0, 1, 2, 3] := by decide

example : (run (init 100) demoOps).now = 120 ∧
    votesOf (run (init 100) demoOps) 1 = 0 ∧ votesOf (run (init 100) demoOps) 2 = 850 ∧
    delegatedTo [0, 1, 2, 3] (run (init 100) demoOps) 2 = 850 ∧
    latestVotes (run (init 100) demoOps).total = 850 ∧
    ((run (init 100) demoOps).tl 1).num = 3 ∧ ((run (init 100) demoOps).tl 2).num = 3 := by decide

/-- the specification of past lookups on the demo state: before the start, at the first
checkpoint, between checkpoints, at the last one -/
example : valueAt ((run (init 100) demoOps).tl 1) 99 = 0 ∧
    valueAt ((run (init 100) demoOps).tl 1) 100 = 1000 ∧
    valueAt ((run (init 100) demoOps).tl 1) 104 = 1000 ∧
    valueAt ((run (init 100) demoOps).tl 1) 105 = 600 ∧
    valueAt ((run (init 100) demoOps).tl 1) 106 = 0 ∧
    valueAt ((run (init 100) demoOps).tl 2) 105 = 400 ∧
    valueAt ((run (init 100) demoOps).tl 2) 115 = 1000 ∧
    valueAt ((run (init 100) demoOps).tl 2) 119 = 850 ∧
    valueAt (run (init 100) demoOps).total 110 = 1000 := by decide

/-- and the coded binary search returns exactly these (here through the theorems) -/
example : getVotesAtCheckpoint (run (init 100) demoOps) 1 105 = .ok 600 ∧
    getVotesAtCheckpoint (run (init 100) demoOps) 2 115 = .ok 1000 := by
  have hw := run_wfAll (init_wfAll 100) demoOps
  unfold getVotesAtCheckpoint
  rw [if_neg (by decide), if_neg (by decide), lookup_eq_valueAt (hw.1 1), lookup_eq_valueAt (hw.1 2)]
  exact ⟨congrArg _ (by decide), congrArg _ (by decide)⟩

/-- the search itself on a four-entry timeline, unfolded step by step -/
example : lookupCheckpointAt ⟨4, fun i => if i = 0 then some ⟨10, 5⟩ else if i = 1 then some ⟨20, 7⟩
      else if i = 2 then some ⟨30, 9⟩ else if i = 3 then some ⟨40, 1⟩ else none⟩ 25 = .ok 7 := by
  simp [lookupCheckpointAt, lookupFirst, lookupSearch, bsearch, mid, divCeil2]

/-! ### regression documentation for the mutations the correspondence check is tried with:
the same theorems FAIL for a search that moves `low` only on `<` (not `<=`) -/

/-- `lookup_checkpoint_at` with `checkpoint.ledger < ledger` in the loop: the query at the
exact ledger of a middle checkpoint misses it -/
def bsearchStrict (cp : Nat → Option Checkpoint) (ledger : Nat) (low high : Nat) : Nat → Nat
  | 0 => low
  | fuel + 1 =>
    if low < high then
      match cp (mid low high) with
      | none => low
      | some c =>
        if c.ledger < ledger then bsearchStrict cp ledger (mid low high) high fuel
        else bsearchStrict cp ledger low (mid low high - 1) fuel
    else low

theorem strict_search_counterexample :
    bsearchStrict (fun i => if i = 0 then some ⟨10, 5⟩ else if i = 1 then some ⟨20, 7⟩
      else if i = 2 then some ⟨30, 9⟩ else none) 20 0 2 3 = 0 ∧
    valueAt ⟨3, fun i => if i = 0 then some ⟨10, 5⟩ else if i = 1 then some ⟨20, 7⟩
      else if i = 2 then some ⟨30, 9⟩ else none⟩ 20 = 7 := by decide

end OZ.Votes

/-! ## the fungible wrapper -/
namespace OZ.FungibleVotes
open OZ.Host OZ.Votes

/-- **C13, units = balance (fungible)**: after any history of `FungibleVotes` entry points
(mint, transfer, transfer_from, approve, burn, burn_from, delegate, ledger movement; any
amounts incl. zero / negative / self-transfer, any authorizing subsets) every account's
voting units equal its token balance -/
theorem units_eq_balance (c : Cfg) (now0 : Nat) (ops : List (List Nat × Op)) (a : Nat) :
    ((run c (init now0) ops).v.units a : Int) = (run c (init now0) ops).tok.bal a := by
  suffices ∀ s : State, (∀ x, (s.v.units x : Int) = s.tok.bal x) →
      ∀ x, ((run c s ops).v.units x : Int) = (run c s ops).tok.bal x from
    this (init now0) (fun _ => rfl) a
  induction ops with
  | nil => intro s hs; exact hs
  | cons x xs ih =>
    intro s hs
    simp only [run, List.foldl_cons]
    apply ih
    unfold step
    cases h : apply c s x.1 x.2 with
    | error e => exact hs
    | ok s' => exact apply_units hs h

/-- a wrapper history IS a library-level history on the votes state: every theorem of
`OZ.Votes` above carries over to the token -/
theorem refines_library (c : Cfg) (s : State) (ops : List (List Nat × Op)) :
    (run c s ops).v = OZ.Votes.run s.v (vtrace c s ops) := run_refines c s ops

/-- **C13 for the fungible token**: `get_votes(a)` equals the sum of the token balances of
the accounts delegating to `a`, and `get_total_supply()` the sum of all balances -/
theorem votes_eq_delegated_balances (c : Cfg) (now0 : Nat) (U : List Nat) (hn : U.Nodup)
    (ops : List (List Nat × Op)) (hU : ∀ x ∈ ops, ∀ a ∈ x.2.addrs, a ∈ U) (a : Nat) :
    getVotes (run c (init now0) ops).v a =
      .ok (sumN U (fun d => if (run c (init now0) ops).v.delegatee d = some a
        then ((run c (init now0) ops).tok.bal d).toNat else 0)) ∧
    getTotalSupply (run c (init now0) ops).v =
      .ok (sumN U (fun d => ((run c (init now0) ops).tok.bal d).toNat)) := by
  have hb := units_eq_balance c now0 ops
  have hr := run_refines c (init now0) ops
  have hU' := vtrace_addrs c U (init now0) ops hU
  have e0 : (init now0).v = OZ.Votes.init now0 := rfl
  rw [e0] at hr
  have h1 := OZ.Votes.votes_eq_delegated_units now0 U hn _ hU' a
  have h2 := (OZ.Votes.total_eq_sum_units now0 U hn _ hU').1
  rw [← hr] at h1 h2
  rw [h1, h2]
  constructor
  · apply congrArg
    unfold delegatedTo
    apply sumN_congr
    intro d
    have := hb d
    split <;> omega
  · apply congrArg
    apply sumN_congr
    intro d
    have := hb d
    omega

/-- past queries on the token: immutable and refused for the future, through the refinement -/
theorem token_past_immutable (c : Cfg) (now0 : Nat) (pre post : List (List Nat × Op)) (a q : Nat)
    (hq : q < (run c (init now0) pre).v.now) :
    getVotesAtCheckpoint (run c (init now0) (pre ++ post)).v a q =
      getVotesAtCheckpoint (run c (init now0) pre).v a q := by
  have e : run c (init now0) (pre ++ post) = run c (run c (init now0) pre) post := by
    simp [run, List.foldl_append]
  rw [e, run_refines c (run c (init now0) pre) post]
  have hw : WFAll (run c (init now0) pre).v := by
    rw [run_refines]; exact run_wfAll (init_wfAll now0) _
  exact (past_immutable _ hw _ a q hq).1

def demoOps : List (List Nat × Op) :=
  [([], .mint 0 1000), ([0], .delegate 0 1), ([0], .transfer 0 0 1000), ([0], .transfer 0 2 400),
   ([], .advance 3), ([2], .delegate 2 2), ([0], .approve 0 3 300 200), ([3], .transferFrom 3 0 2 100),
   ([2], .burn 2 50), ([0], .transfer 0 2 0), ([0], .transfer 0 2 (-1)), ([], .advance 2)]

example : (run ⟨1, 1000⟩ (init 100) demoOps).tok.bal 0 = 500 ∧
    (run ⟨1, 1000⟩ (init 100) demoOps).v.units 0 = 500 ∧
    (run ⟨1, 1000⟩ (init 100) demoOps).v.units 2 = 450 ∧
    votesOf (run ⟨1, 1000⟩ (init 100) demoOps).v 1 = 500 ∧
    votesOf (run ⟨1, 1000⟩ (init 100) demoOps).v 2 = 450 ∧
    valueAt ((run ⟨1, 1000⟩ (init 100) demoOps).v.tl 1) 101 = 600 := by decide

end OZ.FungibleVotes

/-! ## the non-fungible wrapper -/
namespace OZ.NonFungibleVotes
open OZ.Host OZ.Votes

/-- **C13, units = balance (non-fungible)**: after any history of `NonFungibleVotes` entry
points (mint, sequential_mint, transfer, transfer_from, burn, burn_from, approvals, delegate,
ledger movement) every account's voting units equal its token count `balance()` -/
theorem units_eq_balance (c : Cfg) (now0 : Nat) (ops : List (List Nat × Op)) (a : Nat) :
    (run c (init now0) ops).v.units a = (run c (init now0) ops).nft.bal a := by
  suffices ∀ s : State, (∀ x, s.v.units x = s.nft.bal x) →
      ∀ x, (run c s ops).v.units x = (run c s ops).nft.bal x from
    this (init now0) (fun _ => rfl) a
  induction ops with
  | nil => intro s hs; exact hs
  | cons x xs ih =>
    intro s hs
    simp only [run, List.foldl_cons]
    apply ih
    unfold step
    cases h : apply c s x.1 x.2 with
    | error e => exact hs
    | ok s' => exact apply_units hs h

theorem refines_library (c : Cfg) (s : State) (ops : List (List Nat × Op)) :
    (run c s ops).v = OZ.Votes.run s.v (vtrace c s ops) := run_refines c s ops

/-- **C13 for the non-fungible token**: `get_votes(a)` equals the number of tokens held by
the accounts delegating to `a`, `get_total_supply()` the number of tokens held -/
theorem votes_eq_delegated_balances (c : Cfg) (now0 : Nat) (U : List Nat) (hn : U.Nodup)
    (ops : List (List Nat × Op)) (hU : ∀ x ∈ ops, ∀ a ∈ x.2.addrs, a ∈ U) (a : Nat) :
    getVotes (run c (init now0) ops).v a =
      .ok (sumN U (fun d => if (run c (init now0) ops).v.delegatee d = some a
        then (run c (init now0) ops).nft.bal d else 0)) ∧
    getTotalSupply (run c (init now0) ops).v = .ok (sumN U (run c (init now0) ops).nft.bal) := by
  have hb := units_eq_balance c now0 ops
  have hr := run_refines c (init now0) ops
  have hU' := vtrace_addrs c U (init now0) ops hU
  have e0 : (init now0).v = OZ.Votes.init now0 := rfl
  rw [e0] at hr
  have h1 := OZ.Votes.votes_eq_delegated_units now0 U hn _ hU' a
  have h2 := (OZ.Votes.total_eq_sum_units now0 U hn _ hU').1
  rw [← hr] at h1 h2
  rw [h1, h2]
  constructor
  · apply congrArg
    unfold delegatedTo
    apply sumN_congr
    intro d
    rw [hb d]
  · apply congrArg
    apply sumN_congr
    intro d
    rw [hb d]

def demoOps : List (List Nat × Op) :=
  [([], .mint 0 7), ([], .sequentialMint 0), ([0], .delegate 0 1), ([0], .transfer 0 2 7),
   ([], .advance 2), ([2], .delegate 2 2), ([0], .approve 0 3 0 150), ([3], .transferFrom 3 0 2 0),
   ([2], .burn 2 7), ([1], .burn 0 0), ([], .advance 1)]

example : (run ⟨1, 1000⟩ (init 100) demoOps).nft.bal 2 = 1 ∧
    (run ⟨1, 1000⟩ (init 100) demoOps).v.units 2 = 1 ∧
    (run ⟨1, 1000⟩ (init 100) demoOps).nft.bal 0 = 0 ∧
    votesOf (run ⟨1, 1000⟩ (init 100) demoOps).v 2 = 1 ∧
    valueAt ((run ⟨1, 1000⟩ (init 100) demoOps).v.tl 1) 101 = 1 ∧
    valueAt ((run ⟨1, 1000⟩ (init 100) demoOps).v.tl 1) 102 = 0 := by decide

end OZ.NonFungibleVotes
