import OZ.Lemmas.RegClaimsMon
/-
C20 (g) — soundness of the `claims` MONITOR that decides the property on implementation traces.

`./check C20` reports a concrete violation in a `claims` sequence exactly when
`OZ.RegClaims.Mon.checkCore` (the sub-driver's monitor on parsed values, OZ/Model/RegClaimsMon.lean)
returns a message on the implementation's observations. Here it is proved that on the observations
of the MODEL (with the harness's oracle `valid`: the mock issuers reject exactly empty data) the
monitor never returns a message, for every finite history of `add_claim` / `remove_claim` with
arbitrary arguments and of removals of never-produced ids (`monitor_accepts_every_model_trace`).
Consequences: a monitor failure is never a false alarm of the monitor itself, and every conclusion
it evaluates (absent ids and invalid claims refused, the returned id, `get_claim` is the plain map,
`get_claim_ids_by_topic` lists the stored claims of each topic once) is a THEOREM about the model,
in the monitor's own executable wording.

`modelObs s c ok` is the data the model driver prints for state `s` after command `c` (`stepLine` /
`showState` of OZ/Drv/C20Claims.lean): the tag, `ret=` the id of an accepted add, `C=` the printed
graph of `getClaim` over the universe `ids`, `BT=` the graph of `getClaimIdsByTopic` over topics 0..3
with printed ids (`BTraw` its printed form).

Property theorems only; helper facts come from OZ/Lemmas/RegClaimsMon.lean.
-/
namespace OZ.RegClaims.Mon
open OZ.Reg OZ.RegMon OZ.RegClaims

/-- the observation the harness / the model driver print for a state -/
def modelObs (s : State) (c : Cmd) (ok : Bool) : Obs :=
  { ok := ok,
    ret := retWant c ok,
    C := sepBy "," (ids.filterMap (fun id => (getClaim s id).map (fun c => s!"{showId id}:{showClaim c}"))),
    BT := (List.range NT).map (fun t => (t, (getClaimIdsByTopic s t).map showId)),
    BTraw := sepBy "," ((List.range NT).map (fun t => s!"{t}:{sepBy "+" ((getClaimIdsByTopic s t).map showId)}")) }

/-- the model's transition for a command (a removal of a never-produced id is refused) -/
def stepC (s : State) : Cmd → Except RErr State
  | .op o => step valid s o
  | .removeRaw => .error .absent

def nextC (s : State) (c : Cmd) : State :=
  match stepC s c with
  | .ok s' => s'
  | .error _ => s

/-- whether the model accepts the command -/
def accepted (s : State) (c : Cmd) : Bool :=
  match stepC s c with
  | .ok _ => true
  | .error _ => false

theorem inv_nextC {s : State} (hI : Inv s) (c : Cmd) : Inv (nextC s c) := by
  cases c with
  | op o => exact inv_next valid hI o
  | removeRaw => exact hI

/-- the getter part of the monitor never fires on the observation of a state the plain map
describes -/
theorem getters_quiet {g : Mon} {s : State} (ha : Agree g s) (hI : Inv s) (c : Cmd) (ok : Bool) :
    (modelObs s c ok).C = sepBy "," (cWant g) ∧
    (List.range NT).all (topicOk g (modelObs s c ok).BT) = true := by
  constructor
  · show sepBy "," _ = sepBy "," _
    congr 1
    unfold cWant
    refine List.filterMap_congr (fun id _ => ?_)
    have := ha.look id
    unfold look at this
    show (s.claim id).map _ = _
    cases hf : g.map.find? (fun e => e.1 == id) with
    | none =>
      rw [hf] at this
      cases hc : s.claim id with
      | none => rfl
      | some c => rw [hc] at this; cases this
    | some e =>
      rw [hf] at this
      cases hc : s.claim id with
      | none => rw [hc] at this; cases this
      | some c =>
        rw [hc] at this
        simp only [Option.map_some, Option.some.injEq] at this ⊢
        rw [this]
  · rw [List.all_eq_true]
    intro t ht
    unfold topicOk
    show (match ((List.range NT).map (fun t => (t, (getClaimIdsByTopic s t).map showId))).find? (fun x => x.1 == t) with
      | some (_, l) => nodupB l && sameSet l (want g t)
      | none => false) = true
    rw [find_graph _ _ t ht]
    simp only [Bool.and_eq_true]
    exact ⟨(nodupB_iff _).2 ((hI.nodup t).map showId_inj), (sameSet_iff _ _).2 (mem_want_iff ha hI t)⟩

/-- **one call**: fed with the model's own observation of any command (accepted or refused), the
monitor reports nothing and its plain map keeps describing the model's state -/
theorem monitor_sound_step {g : Mon} {s : State} (hI : Inv s) (ha : Agree g s) (c : Cmd) :
    (checkCore g c (modelObs (nextC s c) c (accepted s c))).2 = none ∧
    Agree (checkCore g c (modelObs (nextC s c) c (accepted s c))).1 (nextC s c) := by
  have key : ∃ g', decide2 "claims" g (plain g c) (accepted s c) "valid" = (g', none) ∧ Agree g' (nextC s c) := by
    cases c with
    | removeRaw => exact ⟨g, rfl, ha⟩
    | op o =>
      unfold nextC accepted
      show ∃ g', decide2 "claims" g (plain g (.op o)) (match step valid s o with | .ok _ => true | .error _ => false) "valid" = (g', none) ∧
        Agree g' (match step valid s o with | .ok s' => s' | .error _ => s)
      cases hs : step valid s o with
      | ok s' =>
        obtain ⟨g', hp, ha'⟩ := plain_ok ha hs
        exact ⟨g', by rw [hp]; rfl, ha'⟩
      | error e =>
        obtain ⟨w, hp⟩ := plain_err ha hs
        exact ⟨g, by rw [hp]; rfl, ha⟩
  obtain ⟨g', hd, ha'⟩ := key
  obtain ⟨q1, q2⟩ := getters_quiet ha' (inv_nextC hI c) c (accepted s c)
  unfold checkCore
  rw [show (modelObs (nextC s c) c (accepted s c)).ok = accepted s c from rfl, hd]
  refine ⟨?_, ha'⟩
  show firstFail [none, chk (decide _) _, chk (decide _) _, chk _ _] = none
  rw [firstFail_none_cons, chk_decide (show (modelObs (nextC s c) c (accepted s c)).ret = retWant c (accepted s c) from rfl),
    firstFail_none_cons, chk_decide q1, firstFail_none_cons, chk_of q2]
  rfl

/-- the monitor run over a whole history of model observations: first message, if any -/
def monitorRun : Mon → State → List Cmd → Option String
  | _, _, [] => none
  | g, s, c :: cs =>
    match (checkCore g c (modelObs (nextC s c) c (accepted s c))).2 with
    | some msg => some msg
    | none => monitorRun (checkCore g c (modelObs (nextC s c) c (accepted s c))).1 (nextC s c) cs

/-- the monitor's initial state for a sequence (what `minit` builds) -/
def monInit : Mon := { map := [] }

/-- **monitor soundness**: for every finite history of `add_claim` / `remove_claim` — any topics,
issuers, schemes, signatures, data, uris, any ids, removals of never-produced ids, accepted or
refused — the monitor that the sub-driver's `minit` builds reports nothing on the observations of
the model that the sub-driver's `initM` builds -/
theorem monitor_accepts_every_model_trace (cs : List Cmd) :
    monitorRun monInit init cs = none := by
  suffices ∀ g s, Inv s → Agree g s → monitorRun g s cs = none from
    this _ _ inv_init ⟨fun id => rfl⟩
  induction cs with
  | nil => intro g s _ _; rfl
  | cons c cs ih =>
    intro g s hI ha
    obtain ⟨h1, h2⟩ := monitor_sound_step hI ha c
    unfold monitorRun
    rw [h1]
    exact ih _ _ (inv_nextC hI c) h2

/-! ### non-vacuity (tests, labelled as such): the monitor is not trivially silent -/

/-- an accepted removal of an absent id, a refused valid claim and an index listing an id twice are
reported -/
example :
    (checkCore monInit (.op (.remove (1, 2))) ⟨true, "-", "-", [], ""⟩).2.isSome = true ∧
    (checkCore monInit (.op (.add 1 1 1 1 1 1)) ⟨false, "-", "-", [], ""⟩).2.isSome = true ∧
    topicOk { map := [((1, 2), "c")] } [(2, ["1.2", "1.2"])] 2 = false := by
  refine ⟨by decide, by decide, by decide⟩

end OZ.RegClaims.Mon
