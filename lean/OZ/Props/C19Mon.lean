import OZ.Lemmas.FeeForwarderMon
/-
C19 — soundness of the MONITOR that decides the property on implementation traces.

`./check C19` reports a concrete violation exactly when `OZ.FeeForwarder.Mon.checkCore` (the
driver's monitor on parsed values; the driver OZ/Drv/C19.lean only parses) returns a message on the
implementation's observations. Here it is proved that on the observations of the MODEL the monitor
never returns a message, for every ledger configuration, start ledger, contract variant (= all
parameters of a sequence label) and every finite history of op lines over the observed universe
(`monitor_accepts_every_model_trace`). Consequences:

  * an implementation whose observations agree with the model's (the correspondence the check
    establishes by differential testing) can never raise a monitor alarm — a monitor failure is
    never a false alarm of the monitor itself;
  * every conclusion the monitor evaluates is a THEOREM about the model, in the monitor's own
    executable wording: an accepted forward has `0 < fee ≤ max`, an expiration that has not passed,
    user ≠ forwarder, a fee token the ghost allowed-set accepts; exactly `fee` moved from the user to
    the recipient and no other balance, token or foreign allowance moved; the allowance
    user → forwarder ends in `[0, max(old, max_fee) − fee]`; the target's log grew by exactly this
    call; `env.auths()` holds exactly one entry of the user with exactly the call's tuple and only
    the two legitimate nested calls, and the relayer's entry (executor in the permissioned
    example); with exactly presented authorizations the relayer signed and the user signed exactly
    this call; a rejected call changed nothing; only a forward invokes the target; the passing of
    time changes neither the allow-list getters nor a balance; allow / disallow refuse duplicates
    and absent tokens and are manager-gated; a sweep moves exactly the forwarder's balance and is
    manager-gated; after EVERY call the allow-list getters describe exactly the ghost set (count,
    duplicate-free enumeration, no stale entry, inverse index map, `is_allowed_fee_token`, enabled
    flag).

The whole monitor is covered: no check remains outside `checkCore`.

`modelObs` (OZ/Model/FeeForwarderMon.lean) is the same data the driver's `op` prints for the model:
`stepLine` prints `showState` of `(mstep …).1` — `now=`, `al=` (`showAl`: count, `Token(i)` cells,
`TokenIndex(t)` cells, `is_allowed_fee_token` flags, enabled flag = the fields `alCount`, `alAt`,
`alIdx`, `alAllowed`, `alEnabled`, `alRaw` of `obsOf`), `t8= … t11=` (`tokObs`: balances and
allowances to the forwarder of holders 0..7), `calls=` (`callsN`, `callsFn`, `callsArgs`) — and
`dem=` = `showDem (modelDem …)`, i.e. the entries of `modelDem` in the order `sortEntries`, each
printed by `showEntry`; a rejected call prints `dem=-` (no entries). `ev=` is printed too but the
monitor does not look at it.

Property theorems only; helper facts come from OZ/Lemmas/FeeForwarderMon.lean.
-/
namespace OZ.FeeForwarder.Mon
open OZ.Host OZ.FeeForwarder

/-- an op line over the OBSERVED universe: the fee token of a forward / allow / sweep is one of the
four observed tokens 8..11 and the forwarded-to contract is the observed target 7 (the model itself
is defined for any addresses; balances, allow-list cells and call logs outside this universe are
not printed, so no monitor could judge them) -/
def Valid : In → Prop
  | .forward _ _ _ c _ _ _ _ _ _ => (TOK0 ≤ c.token ∧ c.token < TOK0 + NTOK) ∧ c.target = TGT
  | .allow _ _ tok _ _ => TOK0 ≤ tok ∧ tok < TOK0 + NTOK
  | .sweep _ _ tok _ _ => TOK0 ≤ tok ∧ tok < TOK0 + NTOK
  | _ => True

/-- the verdict on an accepted call is `verdictAccepted` with the advanced ghost set -/
theorem checkCore_accepted (m : Mon) (i : In) (s' : State) (dem : List DemEntry) :
    (checkCore m i (obsOf s' true dem)).2 =
      verdictAccepted m (ghostStep m.allowed i true) i (obsOf s' true dem) := by
  show verdict m (ghostStep m.allowed i true) i (obsOf s' true dem) = _
  unfold verdict
  rw [if_neg (by simp [obsOf])]

/-- after any call the new monitor state describes the new model state as soon as the advanced
ghost set describes the new allow-list -/
theorem agree_next {v : Var} {m : Mon} (hv : m.var = v) (i : In) (s' : State) (dem : List DemEntry)
    (hg : Good s'.al (ghostStep m.allowed i true)) : Agree v (checkCore m i (obsOf s' true dem)).1 s' :=
  ⟨hv, rfl, rfl, rfl, rfl, rfl, hg⟩

/-- **one call**: fed with the model's own observation of any op line of the observed universe
(accepted or rejected, through whichever of the three contracts), the monitor reports nothing and
its state keeps describing the model's -/
theorem monitor_sound_step (cfg : Cfg) (v : Var) {m : Mon} {s : State} (ha : Agree v m s) (i : In)
    (hv : Valid i) :
    (checkCore m i (modelObs (params cfg) v s i)).2 = none ∧
    Agree v (checkCore m i (modelObs (params cfg) v s i)).1 (mstep (params cfg) v s i).1 := by
  -- a rejected call
  have rej : mstep (params cfg) v s i = (s, false) →
      (checkCore m i (modelObs (params cfg) v s i)).2 = none ∧
      Agree v (checkCore m i (modelObs (params cfg) v s i)).1 (mstep (params cfg) v s i).1 := by
    intro hm
    have ho : modelObs (params cfg) v s i = obsOf s false [] := by simp [modelObs, hm]
    rw [ho, hm]
    exact rejected_sound ha i
  cases hx : modelOf (params cfg) v i with
  | none => exact rej (by simp [mstep, applyOpt, hx])
  | some x =>
    obtain ⟨au, op⟩ := x
    cases hy : apply (params cfg) s au op with
    | error e => exact rej (by simp [mstep, applyOpt, hx, hy])
    | ok s' =>
      have hm : mstep (params cfg) v s i = (s', true) := by simp [mstep, applyOpt, hx, hy]
      have ho : modelObs (params cfg) v s i = obsOf s' true (sortEntries (modelDem (params cfg) v s i)) := by
        simp [modelObs, hm]
      rw [ho, hm, checkCore_accepted]
      -- an accepted call that changes neither the allow-list nor the target's log and is judged by
      -- `noCall` + `checkAllowlist` only
      have plain : ∀ dem, s'.al = s.al → s'.calls = s.calls → ghostStep m.allowed i true = m.allowed →
          verdictAccepted m m.allowed i (obsOf s' true dem) =
            noCall m.prev (obsOf s' true dem) (checkAllowlist m.allowed (obsOf s' true dem)) →
          verdictAccepted m (ghostStep m.allowed i true) i (obsOf s' true dem) = none ∧
          Agree v (checkCore m i (obsOf s' true dem)).1 s' := by
        intro dem hal hc hg hvd
        have hgood : Good s'.al m.allowed := by rw [hal]; exact ha.good
        refine ⟨?_, agree_next ha.var i s' dem (by rw [hg]; exact hgood)⟩
        rw [hg, hvd, noCall_model ha.callsN hc]
        exact checkAllowlist_model hgood _ _
      cases i with
      | bad => simp [modelOf] at hx
      | mint tok to amt =>
        simp only [modelOf, Option.some.injEq, Prod.mk.injEq] at hx
        obtain ⟨rfl, rfl⟩ := hx
        obtain ⟨ts, _, e⟩ := liftTok_ok hy
        subst e
        exact plain _ rfl rfl rfl rfl
      | approve pl tok o sp amt lu =>
        simp only [modelOf, Option.some.injEq, Prod.mk.injEq] at hx
        obtain ⟨rfl, rfl⟩ := hx
        obtain ⟨ts, _, e⟩ := liftTok_ok hy
        subst e
        exact plain _ rfl rfl rfl rfl
      | advance n =>
        simp only [modelOf, Option.some.injEq, Prod.mk.injEq] at hx
        obtain ⟨rfl, rfl⟩ := hx
        injection hy with hy
        subst hy
        refine ⟨?_, agree_next ha.var _ _ _ ha.good⟩
        show noCall m.prev _ (verdictAdvance m.prev m.allowed n _) = none
        rw [noCall_model (s' := { s with now := s.now + n }) ha.callsN rfl]
        exact verdictAdvance_model ha n _
      | forward all pl ua c user rel tgt eager a b =>
        simp only [modelOf, Option.some.injEq, Prod.mk.injEq] at hx
        obtain ⟨rfl, rfl⟩ := hx
        obtain ⟨h1, hal⟩ := verdictForward_model ha a b hy hv.1 hv.2
        exact ⟨h1, agree_next ha.var _ _ _ (by
          show Good s'.al m.allowed
          rw [hal]; exact ha.good)⟩
      | allow all pl tok oper allowed =>
        have fin : setAllowedFeeToken s tok allowed = .ok s' → gateBad m.var all pl oper = false →
            verdictAccepted m (ghostStep m.allowed (.allow all pl tok oper allowed) true)
              (.allow all pl tok oper allowed) (obsOf s' true (sortEntries (modelDem (params cfg) v s
                (.allow all pl tok oper allowed)))) = none ∧
            Agree v (checkCore m (.allow all pl tok oper allowed) (obsOf s' true (sortEntries (modelDem (params cfg) v s
                (.allow all pl tok oper allowed))))).1 s' := by
          intro hset hgate
          obtain ⟨h1, h2, h3, h4⟩ := setAllowedFeeToken_full hset
          obtain ⟨hq, hg⟩ := verdictAllow_model ha h1 h2 h3 hgate hv _
          refine ⟨?_, agree_next ha.var _ _ _ hg⟩
          show noCall m.prev _ (verdictAllow m _ all pl tok oper allowed _) = none
          rw [noCall_model ha.callsN h4]
          exact hq
        cases v with
        | pl => simp [modelOf] at hx
        | other => simp [modelOf] at hx
        | lib =>
          simp only [modelOf, Option.some.injEq, Prod.mk.injEq] at hx
          obtain ⟨rfl, rfl⟩ := hx
          exact fin hy (gateBad_model (fun e => by rw [ha.var] at e; cases e))
        | pd =>
          cases oper with
          | none => simp [modelOf] at hx
          | some o =>
            simp only [modelOf, Option.map_some, Option.some.injEq, Prod.mk.injEq] at hx
            obtain ⟨rfl, rfl⟩ := hx
            obtain ⟨_, h0, hy⟩ := bind_ok (show managerSetAllowed _ s _ tok o allowed = .ok s' from hy)
            obtain ⟨_, h1, hy⟩ := bind_ok hy
            exact fin hy (gateBad_model (fun _ => ⟨o, rfl, ensureRole_mem h0, requireAuth_mem h1⟩))
      | sweep all pl tok to oper =>
        have fin : sweepToken (params cfg) s tok to = .ok s' → gateBad m.var all pl oper = false →
            verdictAccepted m (ghostStep m.allowed (.sweep all pl tok to oper) true)
              (.sweep all pl tok to oper) (obsOf s' true (sortEntries (modelDem (params cfg) v s
                (.sweep all pl tok to oper)))) = none ∧
            Agree v (checkCore m (.sweep all pl tok to oper) (obsOf s' true (sortEntries (modelDem (params cfg) v s
                (.sweep all pl tok to oper))))).1 s' := by
          intro hsw hgate
          obtain ⟨hq, hal, hc⟩ := verdictSweep_model ha hsw hgate hv _
          refine ⟨?_, agree_next ha.var _ _ _ (by
            show Good s'.al m.allowed
            rw [hal]; exact ha.good)⟩
          show noCall m.prev _ (verdictSweep m m.allowed all pl tok to oper _) = none
          rw [noCall_model ha.callsN hc]
          exact hq
        cases v with
        | pl => simp [modelOf] at hx
        | other => simp [modelOf] at hx
        | lib =>
          simp only [modelOf, Option.some.injEq, Prod.mk.injEq] at hx
          obtain ⟨rfl, rfl⟩ := hx
          exact fin hy (gateBad_model (fun e => by rw [ha.var] at e; cases e))
        | pd =>
          cases oper with
          | none => simp [modelOf] at hx
          | some o =>
            simp only [modelOf, Option.map_some, Option.some.injEq, Prod.mk.injEq] at hx
            obtain ⟨rfl, rfl⟩ := hx
            obtain ⟨_, h0, hy⟩ := bind_ok (show managerSweep _ s _ tok to o = .ok s' from hy)
            obtain ⟨_, h1, hy⟩ := bind_ok hy
            exact fin hy (gateBad_model (fun _ => ⟨o, rfl, ensureRole_mem h0, requireAuth_mem h1⟩))


/-- the monitor run over a whole history of model observations: first message, if any -/
def monitorRun (cfg : Cfg) (v : Var) : Mon → State → List In → Option String
  | _, _, [] => none
  | m, s, i :: is =>
    match (checkCore m i (modelObs (params cfg) v s i)).2 with
    | some msg => some msg
    | none => monitorRun cfg v (checkCore m i (modelObs (params cfg) v s i)).1 (mstep (params cfg) v s i).1 is

/-- the monitor's initial state for a sequence (what the driver's `minit` builds from the label:
`v` = `parseVar label`, the same value the driver's `init` gives the model side) -/
def monInit (v : Var) : Mon := { prev := zeroObs, allowed := [], var := v }

/-- the initial monitor state describes the initial model state -/
theorem monInit_agree (v : Var) (start : Nat) : Agree v (monInit v) (init start) :=
  ⟨rfl, rfl, (toksObs_init start).symm, rfl, rfl, rfl, good_empty⟩

/-- **monitor soundness**: for every ledger configuration (`min_temp=`, `max_ttl=`), start ledger
(`start=`) and contract variant (`v=`: permissionless example, permissioned example, library
pass-through, anything else) — i.e. all parameters of a sequence label; `params cfg` / `init start`
are what the driver's `init` builds, `monInit v` what its `minit` builds — and every finite history
of op lines over the observed universe (`Valid`) — any users, relayers, operators, fees, maxima,
expirations, target functions and arguments, target behaviours, strategies, any presented
authorization (exact trees, perturbed in any component, or recording mode), mints, direct approvals,
allow / disallow / sweep, any ledger movement — the monitor reports nothing on the model's
observations -/
theorem monitor_accepts_every_model_trace (cfg : Cfg) (start : Nat) (v : Var) (ops : List In)
    (hv : ∀ i ∈ ops, Valid i) :
    monitorRun cfg v (monInit v) (init start) ops = none := by
  suffices ∀ m s, Agree v m s → monitorRun cfg v m s ops = none from this _ _ (monInit_agree v start)
  induction ops with
  | nil => intro m s _; rfl
  | cons i is ih =>
    intro m s ha
    obtain ⟨h1, h2⟩ := monitor_sound_step cfg v ha i (hv i List.mem_cons_self)
    unfold monitorRun
    rw [h1]
    exact ih (fun j hj => hv j (List.mem_cons_of_mem _ hj)) _ _ h2

/-- on a rejected call the monitor does not look at the op line at all: whatever the driver parsed
from a (possibly malformed) line, the verdict and the next monitor state are the same -/
theorem rejected_ignores_op (m : Mon) (i j : In) (o : Obs) (h : o.ok = false) :
    checkCore m i o = checkCore m j o := by
  unfold checkCore verdict
  rw [h, ghostStep_false, ghostStep_false]
  simp

/-! ### non-vacuity (tests, labelled as such): the monitor is not trivially silent -/

def cBad : Call := { token := 8, fee := 11, maxFee := 10, expiration := 120, target := 7, fn := 2, args := [.i128 7] }
def cOk : Call := { cBad with fee := 5 }

/-- an accepted forward with `fee = 11 > max = 10` is reported (`site=ff.bounds`) -/
example :
    (checkCore (monInit .pl) (.forward false [2] none cBad 4 2 .ok true "-" "-") zeroObs).2.isSome = true := by
  simp [checkCore, verdict, verdictAccepted, verdictForward, fwdBounds, firstSome, zeroObs, cBad]

/-- an accepted forward with `fee = 5` after which NO balance moved is reported (`site=ff.charge`) -/
example :
    (checkCore { monInit .pl with prev := { zeroObs with now := 100 } }
      (.forward false [2] none cOk 4 2 .ok true "-" "-") { zeroObs with now := 100 }).2.isSome = true := by
  simp [checkCore, verdict, verdictAccepted, verdictForward, fwdBounds, fwdMoney, firstSome, zeroObs, cOk, cBad,
    monInit, FWD, TOK0, NTOK, tokOf, zeroTok, expectBal, nth, NHOLD, List.range, List.range.loop, rcpOf]

/-- a rejected call after which the target's log grew is reported (`site=ff.rollback`) -/
example :
    (checkCore (monInit .pd) .bad { zeroObs with ok := false, callsN := 1 }).2.isSome = true := by
  simp [checkCore, verdict, verdictRejected, zeroObs, monInit]


/-! ### latent false alarms of the PREVIOUS (string-level) monitor, all outside the harness's universe
(tests, labelled as such). The previous monitor compared the implementation's strings with the RAW
fields of the op line, while the model side of the driver works on PARSED values (`fnId`, `parseVals`,
`String.toNat?`, the `v=` parameter with a default). On op lines the harness never writes, the model
itself therefore produced observations on which the previous monitor fired. Each `example` shows the
model accepting the call and printing something the old comparison would have rejected; the present
`checkCore` compares with what the model's own printing functions print (`fnName c.fn`,
`showVals "," c.args`, the parsed signature `ua`, `needsRelayer v`) and is silent on them
(`monitor_accepts_every_model_trace`). Replays against the old driver binary: notes/C19.md. -/

def pDemo : Params := params ⟨16, 6312000⟩
def sDemo : State := (mstep pDemo .pl (init 100) (.mint 8 4 1000)).1
def uaDemo (c : Call) : UserAuth := { signer := 4, tuple := tupleOf c, subs := [approveInv pDemo 8 4 7 150] }

/-- (a) `fn=zzz`: the driver's `fnId "zzz"` is 0, the model logs the call and prints `fnName 0 = "?"`;
the old monitor demanded `callsFn = "zzz"` (`site=ff.target-call`) -/
def cZzz : Call := { token := 8, fee := 3, maxFee := 7, expiration := 150, target := 7, fn := 0, args := [] }
example : (mstep pDemo .pl sDemo (.forward false [2] (some (uaDemo cZzz)) cZzz 4 2 .ok true "4" "8:7:150:7:zzz:-")).2 = true ∧
    (modelObs pDemo .pl sDemo (.forward false [2] (some (uaDemo cZzz)) cZzz 4 2 .ok true "4" "8:7:150:7:zzz:-")).callsFn ≠ "zzz" := by
  decide

/-- (b) `args=i07`: `parseVals "i07" = [.i128 7]`, the model prints `i7`; the old monitor demanded
`callsArgs = "i07"` (`site=ff.target-call`) -/
def cI07 : Call := { token := 8, fee := 3, maxFee := 7, expiration := 150, target := 7, fn := 2, args := [.i128 7] }
example : (mstep pDemo .pl sDemo (.forward false [2] (some (uaDemo cI07)) cI07 4 2 .ok true "4" "8:7:150:7:add:i07")).2 = true ∧
    (modelObs pDemo .pl sDemo (.forward false [2] (some (uaDemo cI07)) cI07 4 2 .ok true "4" "8:7:150:7:add:i07")).callsArgs ≠ "i07" := by
  decide

/-- (c) label `v=xx` (neither pl, pd nor lib): the model forwards through the library function, which
demands no relayer authorization; the old monitor demanded the relayer's entry in `dem=` for every
`v ≠ "lib"` (`site=ff.relayer-auth`) -/
def cPing : Call := { token := 8, fee := 3, maxFee := 7, expiration := 150, target := 7, fn := 1, args := [] }
example : (mstep pDemo .other sDemo (.forward false [] (some (uaDemo cPing)) cPing 4 2 .ok true "4" "8:7:150:7:ping:-")).2 = true ∧
    relEntry cPing 4 2 ∉   -- `dem=` is this list in the order `sortEntries`
      modelDem pDemo .other sDemo (.forward false [] (some (uaDemo cPing)) cPing 4 2 .ok true "4" "8:7:150:7:ping:-") := by
  decide

/-- (d) `uat=08:7:150:7:ping:-`: the driver parses the signed tuple to exactly the call's tuple and the
model accepts; the old monitor demanded the raw field to equal the canonical `8:7:150:7:ping:-`
(`site=ff.accepted-with-wrong-auth`) -/
example : (mstep pDemo .pl sDemo (.forward false [2] (some (uaDemo cPing)) cPing 4 2 .ok true "4" "08:7:150:7:ping:-")).2 = true ∧
    uaMatches (some (uaDemo cPing)) 4 cPing = true ∧ "08:7:150:7:ping:-" ≠ "8:7:150:7:ping:-" := by
  decide

end OZ.FeeForwarder.Mon
