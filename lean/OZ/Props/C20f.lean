import OZ.Lemmas.RegIrs
/-
C20 (f): the identity registry storage (`Identity(account)`, `IdentityProfile(account)` with
its country-data vector, `RecoveredTo(old)`) represents the plain maps
  account ↦ identity,  account ↦ (type, country list),  old ↦ new
under ANY history of its seven mutators (arbitrary arguments, failed calls rolled back); a
recovered account is never registered again.
-/
namespace OZ.Props.C20f
open OZ.Reg OZ.RegIrs

/-- **irs_refines.** After any history: an account has a profile exactly when it has an
identity; `get_country_data_entries` is the profile's list (empty without profile) and holds
between 1 and `MAX_COUNTRY_ENTRIES = 15` valid entries; `get_country_data(i)` is its `i`-th
element and fails exactly from its length on; a recovered account has no identity. -/
theorem irs_refines (ops : List Op) (a : Nat) :
    let s := run init ops
    ((getIdentityProfile s a).isSome = (storedIdentity s a).isSome) ∧
    (getCountryDataEntries s a = ((getIdentityProfile s a).map (·.countries)).getD []) ∧
    (∀ p, getIdentityProfile s a = some p → 1 ≤ p.countries.length ∧ p.countries.length ≤ 15 ∧
        p.countries.all validCD = true) ∧
    (∀ i, (storedIdentity s a).isSome = true → getCountryData s a i = (getCountryDataEntries s a)[i]?) ∧
    (∀ i, (storedIdentity s a).isSome = false → getCountryData s a i = none) ∧
    ((getRecoveredTo s a).isSome = true → storedIdentity s a = none) := by
  intro s
  have hI : Inv s := inv_run inv_init ops
  refine ⟨hI.profDom a, ?_, ?_, ?_, ?_, hI.recNone a⟩
  · unfold getCountryDataEntries getIdentityProfile
    cases s.profile a <;> rfl
  · intro p hp
    exact ⟨(hI.cdLen a p hp).1, (hI.cdLen a p hp).2, hI.cdValid a p hp⟩
  · intro i hid
    unfold getCountryData getCountryDataEntries
    cases hp : s.profile a <;> simp
  · intro i hid
    unfold getCountryData
    have : (s.profile a).isSome = false := by rw [hI.profDom]; exact hid
    rw [(isSome_false_iff _).1 this]; rfl

/-- **irs_abs_step.** Every accepted mutator changes the three plain maps as its name says
and nothing else. -/
theorem irs_abs_step (s : State) (hs : Reachable s) :
    (∀ a ident ty cs s', addIdentity s a ident ty cs = .ok s' →
      s'.identity = updD s.identity a (some ident) ∧ s'.profile = updD s.profile a (some ⟨ty, cs⟩) ∧
      s'.recoveredTo = s.recoveredTo) ∧
    (∀ a ident s', modifyIdentity s a ident = .ok s' →
      s'.identity = updD s.identity a (some ident) ∧ s'.profile = s.profile ∧ s'.recoveredTo = s.recoveredTo) ∧
    (∀ a s', removeIdentity s a = .ok s' →
      s'.identity = updD s.identity a none ∧ s'.profile = updD s.profile a none ∧ s'.recoveredTo = s.recoveredTo) ∧
    (∀ old new s', recoverIdentity s old new = .ok s' →
      s'.identity = updD (updD s.identity new (s.identity old)) old none ∧
      s'.profile = updD (updD s.profile new (s.profile old)) old none ∧
      s'.recoveredTo = updD s.recoveredTo old (some new)) ∧
    (∀ a cs s', addCountryDataEntries s a cs = .ok s' →
      s'.identity = s.identity ∧ getCountryDataEntries s' a = getCountryDataEntries s a ++ cs ∧
      ∀ a', a' ≠ a → s'.profile a' = s.profile a') ∧
    (∀ a i c s', modifyCountryData s a i c = .ok s' →
      s'.identity = s.identity ∧ getCountryDataEntries s' a = (getCountryDataEntries s a).set i c ∧
      ∀ a', a' ≠ a → s'.profile a' = s.profile a') ∧
    (∀ a i s', deleteCountryData s a i = .ok s' →
      s'.identity = s.identity ∧ getCountryDataEntries s' a = (getCountryDataEntries s a).eraseIdx i ∧
      ∀ a', a' ≠ a → s'.profile a' = s.profile a') := by
  have hI := reachable_inv hs
  refine ⟨?_, ?_, ?_, ?_, ?_, ?_, ?_⟩
  · intro a ident ty cs s' h
    obtain ⟨_, rfl⟩ := (addIdentity_ok_iff s s' a ident ty cs).1 h; exact ⟨rfl, rfl, rfl⟩
  · intro a ident s' h
    obtain ⟨_, rfl⟩ := (modifyIdentity_ok_iff s s' a ident).1 h; exact ⟨rfl, rfl, rfl⟩
  · intro a s' h
    obtain ⟨_, rfl⟩ := (removeIdentity_ok_iff hI s' a).1 h; exact ⟨rfl, rfl, rfl⟩
  · intro old new s' h
    obtain ⟨ident, p, _, hio, _, hp, rfl⟩ := (recoverIdentity_ok_iff hI s' old new).1 h
    simp [moveIdentity, hio, hp]
  · intro a cs s' h
    obtain ⟨p, _, _, hp, _, rfl⟩ := (addCountries_ok_iff s s' a cs).1 h
    refine ⟨rfl, ?_, fun a' ha => updD_other _ _ _ _ ha⟩
    simp [getCountryDataEntries, updD, hp]
  · intro a i c s' h
    obtain ⟨p, _, hp, _, rfl⟩ := (modifyCountry_ok_iff s s' a i c).1 h
    refine ⟨rfl, ?_, fun a' ha => updD_other _ _ _ _ ha⟩
    simp [getCountryDataEntries, updD, hp]
  · intro a i s' h
    obtain ⟨p, hp, _, _, rfl⟩ := (deleteCountry_ok_iff s s' a i).1 h
    refine ⟨rfl, ?_, fun a' ha => updD_other _ _ _ _ ha⟩
    simp [getCountryDataEntries, updD, hp]

/-- **irs_dup_refused.** An account that has an identity cannot be registered or be the target
of a recovery. -/
theorem irs_dup_refused (s : State) (hs : Reachable s) (a : Nat) (h : (storedIdentity s a).isSome = true) :
    (∀ ident ty cs, ∃ e, addIdentity s a ident ty cs = .error e) ∧
    (∀ old, ∃ e, recoverIdentity s old a = .error e) := by
  have hI := reachable_inv hs
  constructor
  · intro ident ty cs
    exact err_of_not_ok (fun s' hok => by
      have := ((addIdentity_ok_iff s s' a ident ty cs).1 hok).1.2.2.2.2
      unfold storedIdentity at h; rw [this] at h; cases h)
  · intro old
    exact err_of_not_ok (fun s' hok => by
      obtain ⟨_, _, _, _, hin, _⟩ := (recoverIdentity_ok_iff hI s' old a).1 hok
      unfold storedIdentity at h; rw [hin] at h; cases h)

/-- **irs_absent_refused.** Every operation that needs a registered account is refused for an
account without identity; an out-of-range country index is refused. -/
theorem irs_absent_refused (s : State) (hs : Reachable s) (a : Nat) :
    (storedIdentity s a = none →
      (∀ x, ∃ e, modifyIdentity s a x = .error e) ∧ (∃ e, removeIdentity s a = .error e) ∧
      (∀ n, ∃ e, recoverIdentity s a n = .error e) ∧ (∀ cs, ∃ e, addCountryDataEntries s a cs = .error e) ∧
      (∀ i c, ∃ e, modifyCountryData s a i c = .error e) ∧ (∀ i, ∃ e, deleteCountryData s a i = .error e)) ∧
    (∀ i c, (getCountryDataEntries s a).length ≤ i →
      (∃ e, modifyCountryData s a i c = .error e) ∧ ∃ e, deleteCountryData s a i = .error e) := by
  have hI := reachable_inv hs
  constructor
  · intro hnone
    have hid : s.identity a = none := hnone
    have hpr : s.profile a = none := by
      have := hI.profDom a; rw [hid] at this; exact (isSome_false_iff _).1 this
    refine ⟨?_, ?_, ?_, ?_, ?_, ?_⟩
    · intro x; exact err_of_not_ok (fun s' hok => by
        have := ((modifyIdentity_ok_iff s s' a x).1 hok).1; rw [hid] at this; cases this)
    · exact err_of_not_ok (fun s' hok => by
        have := ((removeIdentity_ok_iff hI s' a).1 hok).1; rw [hid] at this; cases this)
    · intro n; exact err_of_not_ok (fun s' hok => by
        obtain ⟨_, _, _, h, _⟩ := (recoverIdentity_ok_iff hI s' a n).1 hok; rw [hid] at h; cases h)
    · intro cs; exact err_of_not_ok (fun s' hok => by
        obtain ⟨_, _, _, h, _⟩ := (addCountries_ok_iff s s' a cs).1 hok; rw [hpr] at h; cases h)
    · intro i c; exact err_of_not_ok (fun s' hok => by
        obtain ⟨_, _, h, _⟩ := (modifyCountry_ok_iff s s' a i c).1 hok; rw [hpr] at h; cases h)
    · intro i; exact err_of_not_ok (fun s' hok => by
        obtain ⟨_, h, _⟩ := (deleteCountry_ok_iff s s' a i).1 hok; rw [hpr] at h; cases h)
  · intro i c hlen
    constructor
    · exact err_of_not_ok (fun s' hok => by
        obtain ⟨p, _, hp, hi, _⟩ := (modifyCountry_ok_iff s s' a i c).1 hok
        simp [getCountryDataEntries, hp] at hlen; omega)
    · exact err_of_not_ok (fun s' hok => by
        obtain ⟨p, hp, _, hi, _⟩ := (deleteCountry_ok_iff s s' a i).1 hok
        simp [getCountryDataEntries, hp] at hlen; omega)

/-- **irs_limit_exact.** With otherwise acceptable arguments: an identity is stored exactly when
its initial country list has between 1 and 15 entries; further entries are accepted exactly
while the total stays at most `MAX_COUNTRY_ENTRIES = 15` (the 15th accepted, the 16th refused);
the last remaining entry cannot be deleted. -/
theorem irs_limit_exact (s : State) (hs : Reachable s) (a : Nat) :
    (∀ ident ty cs, getRecoveredTo s a = none → storedIdentity s a = none → cs.all validCD = true →
      ((∃ s', addIdentity s a ident ty cs = .ok s') ↔ (1 ≤ cs.length ∧ cs.length ≤ 15))) ∧
    (∀ cs, (storedIdentity s a).isSome = true → cs ≠ [] → cs.all validCD = true →
      ((∃ s', addCountryDataEntries s a cs = .ok s') ↔ (getCountryDataEntries s a).length + cs.length ≤ 15)) ∧
    (∀ i, (getCountryDataEntries s a).length = 1 → ∃ e, deleteCountryData s a i = .error e) := by
  have hI := reachable_inv hs
  refine ⟨?_, ?_, ?_⟩
  · intro ident ty cs hr hid hv
    constructor
    · rintro ⟨s', hok⟩
      obtain ⟨⟨_, hne, hl, _⟩, _⟩ := (addIdentity_ok_iff s s' a ident ty cs).1 hok
      exact ⟨List.length_pos_iff.2 hne, hl⟩
    · rintro ⟨h1, h2⟩
      exact ⟨_, (addIdentity_ok_iff s _ a ident ty cs).2
        ⟨⟨hr, List.length_pos_iff.1 h1, h2, hv, hid⟩, rfl⟩⟩
  · intro cs hid hne hv
    have hp : (s.profile a).isSome = true := by rw [hI.profDom]; exact hid
    obtain ⟨p, hp⟩ := Option.isSome_iff_exists.1 hp
    have hce : getCountryDataEntries s a = p.countries := by simp [getCountryDataEntries, hp]
    rw [hce]
    constructor
    · rintro ⟨s', hok⟩
      obtain ⟨p', _, _, hp', hl, _⟩ := (addCountries_ok_iff s s' a cs).1 hok
      rw [hp] at hp'; injection hp' with hp'; subst hp'
      simpa [MAX_COUNTRY_ENTRIES] using hl
    · intro hl
      exact ⟨_, (addCountries_ok_iff s _ a cs).2 ⟨p, hne, hv, hp, by simpa [MAX_COUNTRY_ENTRIES] using hl, rfl⟩⟩
  · intro i h1
    exact err_of_not_ok (fun s' hok => by
      obtain ⟨p, hp, hne, _, _⟩ := (deleteCountry_ok_iff s s' a i).1 hok
      simp [getCountryDataEntries, hp] at h1; exact hne h1)

/-- **irs_enumerates_once.** For a registered account `get_country_data` is defined exactly on
`0 .. len-1` and reads the entries in order (the registry deliberately allows equal entries, so
the enumeration is of positions, not of distinct values). -/
theorem irs_enumerates_once (s : State) (hs : Reachable s) (a : Nat) (h : (storedIdentity s a).isSome = true) :
    (∀ i, (getCountryData s a i).isSome = true ↔ i < (getCountryDataEntries s a).length) ∧
    (∀ i c, getCountryData s a i = some c ↔ (getCountryDataEntries s a)[i]? = some c) := by
  have hI := reachable_inv hs
  have hp : (s.profile a).isSome = true := by rw [hI.profDom]; exact h
  obtain ⟨p, hp⟩ := Option.isSome_iff_exists.1 hp
  have h1 : ∀ i, getCountryData s a i = (getCountryDataEntries s a)[i]? := by
    intro i; simp [getCountryData, getCountryDataEntries, hp]
  constructor
  · intro i
    rw [h1]
    constructor
    · intro hi
      obtain ⟨c, hc⟩ := Option.isSome_iff_exists.1 hi
      rw [List.getElem?_eq_some_iff] at hc; exact hc.1
    · intro hi; rw [List.getElem?_eq_getElem hi]; rfl
  · intro i c; rw [h1]

/-- **recovered_never_registered_again.** Once `RecoveredTo(a)` is set in a reachable state, in
every later state of the history it is still set to the same account, `a` has no identity, and
every attempt to register `a` or to recover another identity into `a` is refused. -/
theorem recovered_never_registered_again (s : State) (hs : Reachable s) (a b : Nat)
    (h : getRecoveredTo s a = some b) (ops : List Op) :
    let s2 := run s ops
    getRecoveredTo s2 a = some b ∧ storedIdentity s2 a = none ∧
    (∀ ident ty cs, ∃ e, addIdentity s2 a ident ty cs = .error e) ∧
    (∀ old, ∃ e, recoverIdentity s2 old a = .error e) := by
  intro s2
  have hI := reachable_inv hs
  have hI2 : Inv s2 := inv_run hI ops
  have hr2 : s2.recoveredTo a = some b := recoveredTo_run hI ops a b h
  refine ⟨hr2, hI2.recNone a (by rw [hr2]; rfl), ?_, ?_⟩
  · intro ident ty cs
    exact err_of_not_ok (fun s' hok => by
      have := ((addIdentity_ok_iff s2 s' a ident ty cs).1 hok).1.1; rw [hr2] at this; cases this)
  · intro old
    exact err_of_not_ok (fun s' hok => by
      obtain ⟨_, _, h1, _⟩ := (recoverIdentity_ok_iff hI2 s' old a).1 hok; rw [hr2] at h1; cases h1)

/-! ### non-vacuity -/

def okB (r : Except RErr State) : Bool := match r with | .ok _ => true | .error _ => false

example :
    let c : CD := ⟨840, 0, 0⟩
    let s := run init [.add 0 7 0 [c], .recover 0 1, .remove 1, .add 0 7 0 [c], .add 1 8 1 (List.replicate 15 c)]
    getRecoveredTo s 0 = some 1 ∧ storedIdentity s 0 = none ∧ storedIdentity s 1 = some 8 ∧
    (getCountryDataEntries s 1).length = 15 ∧ okB (addCountryDataEntries s 1 [c]) = false ∧
    okB (deleteCountryData s 1 14) = true := by decide +kernel

end OZ.Props.C20f
