import OZ.Lemmas.FungibleComplete
import OZ.Props.C02
/-
C01, completeness — a call of the fungible `Base` token fails ONLY when it must.

`Props/C01.lean` proves that a failed call leaves everything as before (`failed_no_effect`)
and that the supply invariant holds in every reachable state. This file adds the converse
side: in every state satisfying the invariant `Inv U s` (U duplicate-free), for every
authorizing set, each entry point succeeds IF AND ONLY IF its documented precondition holds,
and the resulting state is exactly the documented one. In particular the unchecked additions
of `Base::update` (`update_no_overflow`), the host's TTL machinery inside `set_allowance`
(`setAllowance_extend_cannot_fail`) and the re-write of the remaining allowance in
`spend_allowance` never refuse a call.

The spend entry points need one more fact about the state: every stored
`live_until_ledger` is at most `now + max_entry_ttl − 1` (`AllowLuOk`; it was checked when
the record was written and the ledger only moves forward). It is an explicit hypothesis of
the step theorems and is proved for every reachable state (`allowLuOk_reachable`); the
`…_reachable` corollaries need neither hypothesis.

Property theorems only; helpers and the explicit result states (`updateSt`, `mintResult`,
`transferResult`, `burnResult`) are in OZ/Lemmas/FungibleComplete.lean.
-/
namespace OZ.Fungible
open OZ.Host

/-! ### mint / transfer / burn: success iff precondition, with the exact result state -/

/-- `mint(to, a)` succeeds iff `0 ≤ a` and `total_supply + a` is an i128; the result is
`mintResult` (supply and `to`'s balance raised by `a`, one `mint` event). -/
theorem mint_succeeds_iff {U : List Nat} (hn : U.Nodup) (c : Cfg) {s : State} (hi : Inv U s)
    (auth : List Nat) (t : Nat) (a : Int) (s' : State) :
    apply c s auth (.mint t a) = .ok s' ↔
      (0 ≤ a ∧ in128 (s.supply + a)) ∧ s' = mintResult s t a := by
  show mint s t a = .ok s' ↔ _
  constructor
  · intro h
    obtain ⟨s1, h1, rfl⟩ := mint_ok h
    obtain ⟨h0, hc, rfl⟩ := update_eq h1
    exact ⟨⟨h0, hc⟩, rfl⟩
  · intro ⟨⟨h0, hc⟩, he⟩
    subst he
    have hu := (update_succeeds_iff hn hi none (some t) a _).mpr ⟨⟨h0, hc⟩, rfl⟩
    unfold mint
    rw [hu]
    rfl

/-- `transfer(from, to, a)` succeeds iff `from` authorized, `0 ≤ a ≤ balance(from)`; no
overflow condition is needed (`update_no_overflow`). The result is `transferResult`. -/
theorem transfer_succeeds_iff {U : List Nat} (hn : U.Nodup) (c : Cfg) {s : State} (hi : Inv U s)
    (auth : List Nat) (f t : Nat) (a : Int) (s' : State) :
    apply c s auth (.transfer f t a) = .ok s' ↔
      (f ∈ auth ∧ 0 ≤ a ∧ a ≤ s.bal f) ∧ s' = transferResult s f t a := by
  show transfer s auth f t a = .ok s' ↔ _
  constructor
  · intro h
    obtain ⟨ha, s1, h1, rfl⟩ := transfer_ok h
    obtain ⟨h0, hc, rfl⟩ := update_eq h1
    exact ⟨⟨ha, h0, hc⟩, rfl⟩
  · intro ⟨⟨ha, h0, hc⟩, he⟩
    subst he
    have hu := (update_succeeds_iff hn hi (some f) (some t) a _).mpr ⟨⟨h0, hc⟩, rfl⟩
    unfold transfer
    rw [requireAuth_of_mem ha]
    show (update s (some f) (some t) a >>= fun s1 => pure (emit s1 (.transfer f t a))) = _
    rw [hu]
    rfl

/-- `burn(from, a)` succeeds iff `from` authorized and `0 ≤ a ≤ balance(from)`. The result
is `burnResult`. -/
theorem burn_succeeds_iff {U : List Nat} (hn : U.Nodup) (c : Cfg) {s : State} (hi : Inv U s)
    (auth : List Nat) (f : Nat) (a : Int) (s' : State) :
    apply c s auth (.burn f a) = .ok s' ↔
      (f ∈ auth ∧ 0 ≤ a ∧ a ≤ s.bal f) ∧ s' = burnResult s f a := by
  show burn s auth f a = .ok s' ↔ _
  constructor
  · intro h
    obtain ⟨ha, s1, h1, rfl⟩ := burn_ok h
    obtain ⟨h0, hc, rfl⟩ := update_eq h1
    exact ⟨⟨ha, h0, hc⟩, rfl⟩
  · intro ⟨⟨ha, h0, hc⟩, he⟩
    subst he
    have hu := (update_succeeds_iff hn hi (some f) none a _).mpr ⟨⟨h0, hc⟩, rfl⟩
    unfold burn
    rw [requireAuth_of_mem ha]
    show (update s (some f) none a >>= fun s1 => pure (emit s1 (.burn f a))) = _
    rw [hu]
    rfl

/-! the explicit result states, field by field -/

/-- `mintResult`: supply `+a`, `to`'s balance `+a`, everything else untouched, one event -/
theorem mintResult_spec (s : State) (t : Nat) (a : Int) :
    (mintResult s t a).supply = s.supply + a ∧
    (∀ x, (mintResult s t a).bal x = s.bal x + (if x = t then a else 0)) ∧
    (mintResult s t a).allow = s.allow ∧ (mintResult s t a).now = s.now ∧
    (mintResult s t a).events = s.events ++ [.mint t a] := by
  refine ⟨rfl, ?_, rfl, rfl, rfl⟩
  intro x
  show upd s.bal t (s.bal t + a) x = _
  by_cases hx : x = t
  · subst hx; rw [upd_same, if_pos rfl]
  · rw [upd_other _ _ _ _ hx, if_neg hx]; omega

/-- `transferResult`: `from` pays `a`, `to` receives `a` (a self-transfer nets to nothing),
supply, allowances and ledger untouched, one event -/
theorem transferResult_spec (s : State) (f t : Nat) (a : Int) :
    (transferResult s f t a).supply = s.supply ∧
    (∀ x, (transferResult s f t a).bal x =
      s.bal x - (if x = f then a else 0) + (if x = t then a else 0)) ∧
    (transferResult s f t a).allow = s.allow ∧ (transferResult s f t a).now = s.now ∧
    (transferResult s f t a).events = s.events ++ [.transfer f t a] := by
  refine ⟨rfl, ?_, rfl, rfl, rfl⟩
  intro x
  show upd (upd s.bal f (s.bal f - a)) t (upd s.bal f (s.bal f - a) t + a) x = _
  by_cases hxt : x = t
  · subst hxt
    rw [upd_same, if_pos rfl]
    by_cases hxf : x = f
    · subst hxf; rw [upd_same, if_pos rfl]
    · rw [upd_other _ _ _ _ hxf, if_neg hxf]; omega
  · rw [upd_other _ _ _ _ hxt, if_neg hxt]
    by_cases hxf : x = f
    · subst hxf; rw [upd_same, if_pos rfl]; omega
    · rw [upd_other _ _ _ _ hxf, if_neg hxf]; omega

/-- `burnResult`: `from` pays `a`, supply `−a`, everything else untouched, one event -/
theorem burnResult_spec (s : State) (f : Nat) (a : Int) :
    (burnResult s f a).supply = s.supply - a ∧
    (∀ x, (burnResult s f a).bal x = s.bal x - (if x = f then a else 0)) ∧
    (burnResult s f a).allow = s.allow ∧ (burnResult s f a).now = s.now ∧
    (burnResult s f a).events = s.events ++ [.burn f a] := by
  refine ⟨rfl, ?_, rfl, rfl, rfl⟩
  intro x
  show upd s.bal f (s.bal f - a) x = _
  by_cases hx : x = f
  · subst hx; rw [upd_same, if_pos rfl]
  · rw [upd_other _ _ _ _ hx, if_neg hx]; omega

/-! ### transfer_from / burn_from -/

/-- `transfer_from(spender, from, to, a)` succeeds iff the spender authorized,
`0 ≤ a ≤ allowance(from, spender)` and `a ≤ balance(from)`. Nothing else — neither the
re-write of the remaining allowance nor its TTL extension nor an overflow — can refuse it. -/
theorem transfer_from_succeeds_iff {U : List Nat} (hn : U.Nodup) (c : Cfg) {s : State}
    (hi : Inv U s) (hlu : AllowLuOk c s) (auth : List Nat) (sp f t : Nat) (a : Int) :
    (∃ s', apply c s auth (.transferFrom sp f t a) = .ok s') ↔
      sp ∈ auth ∧ 0 ≤ a ∧ a ≤ allowance s f sp ∧ a ≤ s.bal f := by
  show (∃ s', transferFrom c s auth sp f t a = .ok s') ↔ _
  constructor
  · intro ⟨s', h⟩
    obtain ⟨ha, s0, s1, h0, h1, _⟩ := transferFrom_ok h
    obtain ⟨hge, hle, _⟩ := spendAllowance_cases h0
    obtain ⟨_, eb, _, _, _⟩ := spendAllowance_ok h0
    obtain ⟨_, hc, _⟩ := update_eq h1
    have hc' : a ≤ s0.bal f := hc
    rw [eb] at hc'
    exact ⟨ha, hge, hle, hc'⟩
  · intro ⟨ha, hge, hle, hb⟩
    obtain ⟨s0, h0⟩ := spendAllowance_succeeds hlu f sp a hge hle
    obtain ⟨es, eb, _, _, _⟩ := spendAllowance_ok h0
    have hc : debitCond s0 (some f) a := by show a ≤ s0.bal f; rw [eb]; exact hb
    have hu := (update_succeeds_iff hn (hi.congr es eb) (some f) (some t) a _).mpr ⟨⟨hge, hc⟩, rfl⟩
    refine ⟨emit (updateSt s0 (some f) (some t) a) (.transfer f t a), ?_⟩
    unfold transferFrom
    rw [requireAuth_of_mem ha]
    show (spendAllowance c s f sp a >>= fun s0 =>
      update s0 (some f) (some t) a >>= fun s1 => pure (emit s1 (.transfer f t a))) = _
    rw [h0]
    show (update s0 (some f) (some t) a >>= fun s1 => pure (emit s1 (.transfer f t a))) = _
    rw [hu]
    rfl

/-- `burn_from(spender, from, a)` succeeds iff the spender authorized,
`0 ≤ a ≤ allowance(from, spender)` and `a ≤ balance(from)`. -/
theorem burn_from_succeeds_iff {U : List Nat} (hn : U.Nodup) (c : Cfg) {s : State}
    (hi : Inv U s) (hlu : AllowLuOk c s) (auth : List Nat) (sp f : Nat) (a : Int) :
    (∃ s', apply c s auth (.burnFrom sp f a) = .ok s') ↔
      sp ∈ auth ∧ 0 ≤ a ∧ a ≤ allowance s f sp ∧ a ≤ s.bal f := by
  show (∃ s', burnFrom c s auth sp f a = .ok s') ↔ _
  constructor
  · intro ⟨s', h⟩
    obtain ⟨ha, s0, s1, h0, h1, _⟩ := burnFrom_ok h
    obtain ⟨hge, hle, _⟩ := spendAllowance_cases h0
    obtain ⟨_, eb, _, _, _⟩ := spendAllowance_ok h0
    obtain ⟨_, hc, _⟩ := update_eq h1
    have hc' : a ≤ s0.bal f := hc
    rw [eb] at hc'
    exact ⟨ha, hge, hle, hc'⟩
  · intro ⟨ha, hge, hle, hb⟩
    obtain ⟨s0, h0⟩ := spendAllowance_succeeds hlu f sp a hge hle
    obtain ⟨es, eb, _, _, _⟩ := spendAllowance_ok h0
    have hc : debitCond s0 (some f) a := by show a ≤ s0.bal f; rw [eb]; exact hb
    have hu := (update_succeeds_iff hn (hi.congr es eb) (some f) none a _).mpr ⟨⟨hge, hc⟩, rfl⟩
    refine ⟨emit (updateSt s0 (some f) none a) (.burn f a), ?_⟩
    unfold burnFrom
    rw [requireAuth_of_mem ha]
    show (spendAllowance c s f sp a >>= fun s0 =>
      update s0 (some f) none a >>= fun s1 => pure (emit s1 (.burn f a))) = _
    rw [h0]
    show (update s0 (some f) none a >>= fun s1 => pure (emit s1 (.burn f a))) = _
    rw [hu]
    rfl

/-- result of an accepted `transfer_from` (any state): balances, supply, ledger and events
are those of the plain transfer, `allowance(from, spender)` is exactly `a` less and every
other allowance reads as before -/
theorem transfer_from_result (c : Cfg) (s s' : State) (auth : List Nat) (sp f t : Nat) (a : Int)
    (h : apply c s auth (.transferFrom sp f t a) = .ok s') :
    s'.supply = s.supply ∧ s'.bal = (transferResult s f t a).bal ∧ s'.now = s.now ∧
    s'.events = s.events ++ [.transfer f t a] ∧
    allowance s' f sp = allowance s f sp - a ∧
    ∀ o x, ¬ (o = f ∧ x = sp) → allowance s' o x = allowance s o x := by
  obtain ⟨_, _, _, hex, hoth⟩ := spend_exact c s s' auth _ f sp a (.inl ⟨t, rfl⟩) h
  obtain ⟨_, s0, s1, h0, h1, rfl⟩ := transferFrom_ok h
  obtain ⟨es, eb, en, ee, _⟩ := spendAllowance_ok h0
  obtain ⟨_, _, rfl⟩ := update_eq h1
  refine ⟨?_, ?_, ?_, ?_, hex, hoth⟩
  · show (updateSt s0 (some f) (some t) a).supply = _
    rw [updateSt_supply_congr es]; rfl
  · show (updateSt s0 (some f) (some t) a).bal = (updateSt s (some f) (some t) a).bal
    exact updateSt_bal_congr eb _ _ _
  · show (updateSt s0 (some f) (some t) a).now = _
    rw [updateSt_now, en]
  · show (updateSt s0 (some f) (some t) a).events ++ _ = _
    rw [updateSt_events, ee]

/-- result of an accepted `burn_from` (any state) -/
theorem burn_from_result (c : Cfg) (s s' : State) (auth : List Nat) (sp f : Nat) (a : Int)
    (h : apply c s auth (.burnFrom sp f a) = .ok s') :
    s'.supply = s.supply - a ∧ s'.bal = (burnResult s f a).bal ∧ s'.now = s.now ∧
    s'.events = s.events ++ [.burn f a] ∧
    allowance s' f sp = allowance s f sp - a ∧
    ∀ o x, ¬ (o = f ∧ x = sp) → allowance s' o x = allowance s o x := by
  obtain ⟨_, _, _, hex, hoth⟩ := spend_exact c s s' auth _ f sp a (.inr rfl) h
  obtain ⟨_, s0, s1, h0, h1, rfl⟩ := burnFrom_ok h
  obtain ⟨es, eb, en, ee, _⟩ := spendAllowance_ok h0
  obtain ⟨_, _, rfl⟩ := update_eq h1
  refine ⟨?_, ?_, ?_, ?_, hex, hoth⟩
  · show (updateSt s0 (some f) none a).supply = _
    rw [updateSt_supply_congr es]; rfl
  · show (updateSt s0 (some f) none a).bal = (updateSt s (some f) none a).bal
    exact updateSt_bal_congr eb _ _ _
  · show (updateSt s0 (some f) none a).now = _
    rw [updateSt_now, en]
  · show (updateSt s0 (some f) none a).events ++ _ = _
    rw [updateSt_events, ee]

/-! ### approve -/

/-- `approve(owner, spender, a, lu)` succeeds iff the owner authorized, `0 ≤ a`,
`lu ≤ now + max_entry_ttl − 1`, and `lu ≥ now` when `a > 0` (every state; `approve_bounds`
of C02 restated as a success condition) -/
theorem approve_succeeds_iff (c : Cfg) (s : State) (auth : List Nat) (o sp : Nat) (a : Int) (lu : Nat) :
    (∃ s', apply c s auth (.approve o sp a lu) = .ok s') ↔
      o ∈ auth ∧ 0 ≤ a ∧ lu ≤ s.now + c.maxTtl - 1 ∧ (0 < a → s.now ≤ lu) := by
  have hb := approve_bounds c s auth o sp a lu
  constructor
  · intro ⟨s', h⟩
    have hne : ¬ ∃ e, apply c s auth (.approve o sp a lu) = .error e := by
      intro ⟨e, he⟩; rw [h] at he; cases he
    have hn := fun hx => hne (hb.mpr hx)
    refine ⟨?_, ?_, ?_, ?_⟩
    · exact Classical.byContradiction fun hx => hn (.inl hx)
    · exact Classical.byContradiction fun hx => hn (.inr (.inl (by omega)))
    · exact Classical.byContradiction fun hx => hn (.inr (.inr (.inl (by omega))))
    · intro hp
      exact Classical.byContradiction fun hx => hn (.inr (.inr (.inr ⟨hp, by omega⟩)))
  · intro ⟨ha, h0, hmax, hnow⟩
    rcases except_ok_or_error (apply c s auth (.approve o sp a lu)) with hok | herr
    · exact hok
    · rcases hb.mp herr with h | h | h | ⟨hp, h⟩
      · exact absurd ha h
      · omega
      · omega
      · have := hnow hp; omega

/-- result of an accepted `approve` (any state): only `allowance(owner, spender)` changes,
to exactly `a`; supply, balances and ledger untouched; one event -/
theorem approve_result (c : Cfg) (s s' : State) (auth : List Nat) (o sp : Nat) (a : Int) (lu : Nat)
    (h : apply c s auth (.approve o sp a lu) = .ok s') :
    s'.supply = s.supply ∧ s'.bal = s.bal ∧ s'.now = s.now ∧
    s'.events = s.events ++ [.approve o sp a lu] ∧ allowance s' o sp = a ∧
    ∀ x y, ¬ (x = o ∧ y = sp) → allowance s' x y = allowance s x y := by
  have hv := approve_sets_allowance c s s' auth o sp a lu h
  obtain ⟨_, s0, h0, rfl⟩ := approve_ok h
  obtain ⟨es, eb, en, ee, hother⟩ := setAllowance_ok h0
  refine ⟨es, eb, en, by show s0.events ++ _ = _; rw [ee], hv, ?_⟩
  intro x y hxy
  exact allowance_congr_entry (s := s) (s' := emit s0 _) (hother x y hxy) en

/-! ### reachable states: no hypothesis beyond "the history mentions accounts of U" -/

/-- every state reachable from the empty token stores only acceptable expiry ledgers -/
theorem allowLuOk_reachable (c : Cfg) (now : Nat) (ops : List (List Nat × Op)) :
    AllowLuOk c (run c (init now) ops) :=
  allowLuOk_run c (init now) ops (allowLuOk_init c now)

theorem mint_succeeds_iff_reachable (c : Cfg) (now : Nat) (U : List Nat) (hn : U.Nodup)
    (ops : List (List Nat × Op)) (hU : ∀ x ∈ ops, ∀ a ∈ x.2.addrs, a ∈ U)
    (auth : List Nat) (t : Nat) (a : Int) (s' : State) :
    apply c (run c (init now) ops) auth (.mint t a) = .ok s' ↔
      (0 ≤ a ∧ in128 ((run c (init now) ops).supply + a)) ∧
      s' = mintResult (run c (init now) ops) t a :=
  mint_succeeds_iff hn c (inv_reachable c now U hn ops hU) auth t a s'

theorem transfer_succeeds_iff_reachable (c : Cfg) (now : Nat) (U : List Nat) (hn : U.Nodup)
    (ops : List (List Nat × Op)) (hU : ∀ x ∈ ops, ∀ a ∈ x.2.addrs, a ∈ U)
    (auth : List Nat) (f t : Nat) (a : Int) (s' : State) :
    apply c (run c (init now) ops) auth (.transfer f t a) = .ok s' ↔
      (f ∈ auth ∧ 0 ≤ a ∧ a ≤ (run c (init now) ops).bal f) ∧
      s' = transferResult (run c (init now) ops) f t a :=
  transfer_succeeds_iff hn c (inv_reachable c now U hn ops hU) auth f t a s'

theorem burn_succeeds_iff_reachable (c : Cfg) (now : Nat) (U : List Nat) (hn : U.Nodup)
    (ops : List (List Nat × Op)) (hU : ∀ x ∈ ops, ∀ a ∈ x.2.addrs, a ∈ U)
    (auth : List Nat) (f : Nat) (a : Int) (s' : State) :
    apply c (run c (init now) ops) auth (.burn f a) = .ok s' ↔
      (f ∈ auth ∧ 0 ≤ a ∧ a ≤ (run c (init now) ops).bal f) ∧
      s' = burnResult (run c (init now) ops) f a :=
  burn_succeeds_iff hn c (inv_reachable c now U hn ops hU) auth f a s'

theorem transfer_from_succeeds_iff_reachable (c : Cfg) (now : Nat) (U : List Nat) (hn : U.Nodup)
    (ops : List (List Nat × Op)) (hU : ∀ x ∈ ops, ∀ a ∈ x.2.addrs, a ∈ U)
    (auth : List Nat) (sp f t : Nat) (a : Int) :
    (∃ s', apply c (run c (init now) ops) auth (.transferFrom sp f t a) = .ok s') ↔
      sp ∈ auth ∧ 0 ≤ a ∧ a ≤ allowance (run c (init now) ops) f sp ∧
      a ≤ (run c (init now) ops).bal f :=
  transfer_from_succeeds_iff hn c (inv_reachable c now U hn ops hU)
    (allowLuOk_reachable c now ops) auth sp f t a

theorem burn_from_succeeds_iff_reachable (c : Cfg) (now : Nat) (U : List Nat) (hn : U.Nodup)
    (ops : List (List Nat × Op)) (hU : ∀ x ∈ ops, ∀ a ∈ x.2.addrs, a ∈ U)
    (auth : List Nat) (sp f : Nat) (a : Int) :
    (∃ s', apply c (run c (init now) ops) auth (.burnFrom sp f a) = .ok s') ↔
      sp ∈ auth ∧ 0 ≤ a ∧ a ≤ allowance (run c (init now) ops) f sp ∧
      a ≤ (run c (init now) ops).bal f :=
  burn_from_succeeds_iff hn c (inv_reachable c now U hn ops hU)
    (allowLuOk_reachable c now ops) auth sp f a

/-- the ledger may always move -/
theorem advance_succeeds (c : Cfg) (s : State) (auth : List Nat) (n : Nat) :
    apply c s auth (.advance n) = .ok { s with now := s.now + n } := rfl

/-! ### non-vacuity (tests, labelled as such) -/

/-- a history with balances, a partly spent allowance that is still live, and a supply
within 100 of i128::MAX (`demoOps` of Props/C01) -/
example : ∀ x ∈ demoOps, ∀ a ∈ x.2.addrs, a ∈ [0, 1, 2, 3, 4] := by decide

-- the preconditions are met by concrete calls in that reachable state …
example : (0 ∈ [0] ∧ (0 : Int) ≤ 440 ∧ 440 ≤ (run ⟨1, 1000⟩ (init 100) demoOps).bal 0) ∧
    ((4 ∈ [4] ∧ (0 : Int) ≤ 140 ∧ 140 ≤ allowance (run ⟨1, 1000⟩ (init 100) demoOps) 0 4 ∧
      140 ≤ (run ⟨1, 1000⟩ (init 100) demoOps).bal 0)) ∧
    ((0 : Int) ≤ 100 ∧ in128 ((run ⟨1, 1000⟩ (init 100) demoOps).supply + 100)) := by decide

-- … so the theorems produce the successful calls (whole balance, whole allowance, mint up
-- to exactly i128::MAX)
example : ∃ s', apply ⟨1, 1000⟩ (run ⟨1, 1000⟩ (init 100) demoOps) [0] (.transfer 0 1 440) = .ok s' :=
  ⟨_, (transfer_succeeds_iff_reachable ⟨1, 1000⟩ 100 [0, 1, 2, 3, 4] (by decide) demoOps (by decide)
    [0] 0 1 440 _).mpr ⟨by decide, rfl⟩⟩

example : ∃ s', apply ⟨1, 1000⟩ (run ⟨1, 1000⟩ (init 100) demoOps) [4] (.transferFrom 4 0 3 140) = .ok s' :=
  (transfer_from_succeeds_iff_reachable ⟨1, 1000⟩ 100 [0, 1, 2, 3, 4] (by decide) demoOps (by decide)
    [4] 4 0 3 140).mpr (by decide)

example : ∃ s', apply ⟨1, 1000⟩ (run ⟨1, 1000⟩ (init 100) demoOps) [] (.mint 1 100) = .ok s' :=
  ⟨_, (mint_succeeds_iff_reachable ⟨1, 1000⟩ 100 [0, 1, 2, 3, 4] (by decide) demoOps (by decide)
    [] 1 100 _).mpr ⟨by decide, rfl⟩⟩

-- … and the calls one unit beyond are exactly the rejected ones
example : ¬ (0 ∈ [0] ∧ (0 : Int) ≤ 441 ∧ 441 ≤ (run ⟨1, 1000⟩ (init 100) demoOps).bal 0) ∧
    ¬ (4 ∈ [4] ∧ (0 : Int) ≤ 141 ∧ 141 ≤ allowance (run ⟨1, 1000⟩ (init 100) demoOps) 0 4 ∧
      141 ≤ (run ⟨1, 1000⟩ (init 100) demoOps).bal 0) ∧
    ¬ ((0 : Int) ≤ 101 ∧ in128 ((run ⟨1, 1000⟩ (init 100) demoOps).supply + 101)) := by decide

end OZ.Fungible
