import OZ.Lemmas.IdentityMonChecks
/-
C15 — soundness of the MONITOR that decides the property on implementation traces.

`./check C15` (and `./check C04`, which also runs this harness and counts `site=identity.verify.*`)
reports a concrete violation exactly when `OZ.Identity.Mon.checkCore` (the driver's monitor on parsed
values, OZ/Model/IdentityMon.lean) returns a message on the implementation's observations. Here it is
proved that on the observations of the MODEL the monitor never returns a message, for every finite
history of operations of the whole stack — any registry add / remove / update, identity registry
writes, claims added / removed / written raw (also under ids whose topic they do not carry), keys,
nonces, revocations, clock moves, re-wiring, `valid` and `verify` queries, accepted or rejected
(`monitor_accepts_every_model_trace`). Consequences:

  * an implementation whose observations agree with the model's (the correspondence the check
    establishes by differential testing) can never raise a monitor alarm;
  * every conclusion the monitor evaluates is a THEOREM about the model, in the monitor's own
    executable wording, layer by layer:
      - `monitor_verifies_iff`   every `ver=` entry and every `verify` outcome = the property's first
                                 sentence on the ghost state (∀ required topic ∃ trusted issuer with a
                                 held, matching, confirmed claim), both directions;
      - `monitor_confirms_iff`   every `valid` outcome = the property's second sentence on the ghost
                                 state (well-formed, signed over exactly (network, issuer, identity, topic,
                                 current nonce, data) — the signature itself is the oracle `symVerify` —,
                                 key allowed for the topic, unexpired, unrevoked);
      - `monitor_add_claim_sound` an accepted `add_claim` stored a claim its issuer confirmed;
      - `monitor_rollback_sound` a rejected operation changes no observable;
      - `ghost_tracks_model`     the ghost update mirrors every accepted operation.

The ghost state never goes through the model's transition function; the link is the relation
`AgreeW` (OZ/Lemmas/IdentityMon.lean), preserved by `update` for every accepted operation.

The observation fed to the monitor, `modelObs`, is the data the model side of the driver prints
(OZ/Drv/C15.lean `stepLine`: tag = `(stepM m op).2`, the text after the tag = `dump` of the new driver
state `(stepM m op).1`, whose `ver=` field is `verOf`). The text after the tag is compared only for
equality, so it is modelled as an ARBITRARY function `render` of the driver state. Not covered
(string level, trusted): `parseOp` / `parseClaim` / `parseObs` of the driver.

Finding: the monitor as it was (`checkCoreLegacy`) raised a FALSE ALARM on a model trace outside the
harness universe — `legacy_monitor_false_alarm`. Fixed in `checkCore` (`G.loose`).
-/
namespace OZ.Identity.Mon
open OZ.Host OZ.Identity OZ.ClaimIssuer

/-- the observation the model driver prints for its state after an op: tag, dump, `ver=` -/
def modelObs (render : M → String) (m : M) (ok : Bool) : Obs := ⟨ok, render m, verOf m.w⟩

/-- monitor state and model-driver state describe the same point of a history -/
structure Agree (render : M → String) (g : G) (m : M) : Prop where
  w : AgreeW g m.w
  prev : g.prev = "" ∨ g.prev = render m

/-! ### the layers -/

/-- **the ghost update mirrors the model**: after any accepted operation the ghost state agrees with
the model's new world -/
theorem ghost_tracks_model {g : G} {W W' : World SymSig} (op : Op SymSig) (h : AgreeW g W)
    (e : applyOp symVerify W op = .ok W') : AgreeW (update g op) W' := agree_update op h e

/-- **verify_identity**: in every world the ghost state agrees with, the model's `verify_identity`
accepts an account only if the monitor's condition holds, and — unless the account's identity
contract is `loose` — if it holds -/
theorem monitor_verifies_iff {g : G} {W : World SymSig} (h : AgreeW g W) (a : Nat) :
    (verifyIdentity symVerify W a = .ok () → g.verifies a = true) ∧
    (g.verifies a = true → g.looseAcct a = false → verifyIdentity symVerify W a = .ok ()) :=
  ⟨verifies_of_model h a, model_of_verifies h a⟩

/-- **is_claim_valid**: the monitor's condition equals the model's issuer outcome, with the signature
check as the oracle `symVerify` -/
theorem monitor_confirms_iff {g : G} {W : World SymSig} (h : AgreeW g W) (i d t scheme : Nat)
    (sd : SigData SymSig) (data : List Nat) :
    g.confirms i d t scheme sd data = true ↔ issuerConfirms symVerify W i d t scheme sd data = true := by
  rw [confirms_eq h]

theorem verdictVer_quiet {g1 : G} {W : World SymSig} (h : AgreeW g1 W) (ok : Bool) (rest : String) :
    verdictVer false g1 ⟨ok, rest, verOf W⟩ = none := by
  unfold verdictVer verOf expOf
  rw [zip_maps, Option.map_eq_none_iff, List.find?_eq_none]
  intro x hx
  obtain ⟨a, _, rfl⟩ := List.mem_map.mp hx
  rw [verEntry_quiet h a]
  exact Bool.false_ne_true

/-- **add_claim**: an accepted `add_claim` of the model passes the monitor's check (in the ghost state
BEFORE the call) -/
theorem monitor_add_claim_sound {g : G} {W W' : World SymSig} (h : AgreeW g W) (d : Nat) (c : Claim SymSig)
    (e : applyOp symVerify W (.addClaim d c) = .ok W') : verdictAddClaim g d c = none := by
  simp only [applyOp] at e
  obtain ⟨st, _, hc, _⟩ := addClaim_unpack e
  unfold verdictAddClaim
  rw [confirms_eq h, hc, if_pos rfl]

/-- **rollback**: a rejected operation of the model leaves the driver state, hence every observable,
as it was (but for the displayed revocation triples of a `revoke` line) -/
theorem monitor_rollback_sound (render : M → String) {g : G} {m : M} (ha : Agree render g m) (op : Op SymSig) :
    verdictRollback g op (modelObs render (stepM m op).1 (stepM m op).2) = none := by
  unfold verdictRollback
  apply if_neg
  rintro ⟨h1, h2, h3, h4⟩
  unfold stepM at h1 h4
  cases hx : applyOp symVerify m.w op with
  | ok w' => rw [hx] at h1; exact h1 rfl
  | error er =>
    rw [hx] at h4
    have hrv : trackRv m.rv op = m.rv := by
      cases op <;> first | rfl | exact absurd rfl h3
    apply h4
    show render { w := m.w, rv := trackRv m.rv op } = g.prev
    rw [hrv]
    rcases ha.prev with hp | hp
    · exact absurd hp h2
    · exact hp.symm

/-! ### one call -/

/-- the ghost state after the model's own observation agrees with the model's new world -/
theorem ghostAfter_agrees {g : G} {m : M} (h : AgreeW g m.w) (op : Op SymSig) :
    AgreeW (ghostAfter g op (stepM m op).2) (stepM m op).1.w := by
  unfold ghostAfter stepM
  cases hx : applyOp symVerify m.w op with
  | ok w' => exact agree_update op h hx
  | error er => exact h

/-- **one call**: fed with the model's own observation of any call (accepted or rejected), the
monitor reports nothing and its state keeps describing the model's -/
theorem monitor_sound_step (render : M → String) {g : G} {m : M} (ha : Agree render g m) (op : Op SymSig) :
    (checkCore g op (modelObs render (stepM m op).1 (stepM m op).2)).2 = none ∧
    Agree render (checkCore g op (modelObs render (stepM m op).1 (stepM m op).2)).1 (stepM m op).1 := by
  have hA := ghostAfter_agrees ha.w op
  refine ⟨?_, ⟨agreeW_prev hA _, .inr rfl⟩⟩
  show verdict false g op (modelObs render (stepM m op).1 (stepM m op).2) = none
  unfold verdict
  rw [monitor_rollback_sound render ha op]
  have hlen : verdictLen (modelObs render (stepM m op).1 (stepM m op).2) = none := by
    unfold verdictLen
    apply if_neg
    intro c; apply c
    show (verOf _).length = ACCOUNTS.length
    unfold verOf; rw [List.length_map]
  rw [hlen]
  have hver : verdictVer false (ghostAfter g op (stepM m op).2) (modelObs render (stepM m op).1 (stepM m op).2) = none :=
    verdictVer_quiet hA _ _
  show firstSome none (firstSome none (firstSome (verdictValid (ghostAfter g op (stepM m op).2) op (stepM m op).2)
    (firstSome (verdictVer false (ghostAfter g op (stepM m op).2) (modelObs render (stepM m op).1 (stepM m op).2))
      (verdictKind false g (ghostAfter g op (stepM m op).2) op (stepM m op).2)))) = none
  rw [hver]
  -- the `valid` query
  have hvalid : verdictValid (ghostAfter g op (stepM m op).2) op (stepM m op).2 = none := by
    cases op with
    | valid i d t scheme sd data =>
      obtain ⟨h2, hw⟩ := stepM_valid m i d t scheme sd data
      rw [hw] at hA
      have hc := confirms_eq hA i d t scheme sd data
      unfold verdictValid
      simp only
      rw [hc, h2]
      cases issuerConfirms symVerify m.w i d t scheme sd data <;> simp
    | _ => rfl
  rw [hvalid]
  -- the checks that depend on the kind of operation
  have hkind : verdictKind false g (ghostAfter g op (stepM m op).2) op (stepM m op).2 = none := by
    cases op with
    | verify a =>
      obtain ⟨h2, hw⟩ := stepM_verify m a
      rw [hw, ghostAfter_verify] at hA
      show verdictVerifyOp false _ a _ = none
      rw [ghostAfter_verify, h2]
      unfold verdictVerifyOp
      apply if_neg
      rintro ⟨hne, hor⟩
      cases hv : isOk (verifyIdentity symVerify m.w a) with
      | true =>
        have := verifies_of_model hA a ((isOk_iff _).mp hv)
        rw [hv, this] at hne; exact hne rfl
      | false =>
        rw [hv] at hne hor
        cases hg : g.verifies a with
        | false => rw [hg] at hne; exact hne rfl
        | true =>
          rcases hor with hor | hor | hor
          · cases hor
          · cases hor
          · have hl : g.looseAcct a = false := by
              cases hl : g.looseAcct a with
              | false => rfl
              | true => exact absurd hl hor
            have := (isOk_iff _).mpr (model_of_verifies hA a hg hl)
            rw [hv] at this; cases this
    | addClaim d c =>
      show (if (stepM m (.addClaim d c)).2 = true then verdictAddClaim g d c else none) = none
      unfold stepM
      cases hx : applyOp symVerify m.w (.addClaim d c) with
      | ok w' => simp only [if_true]; exact monitor_add_claim_sound ha.w d c hx
      | error er => rfl
    | _ => rfl
  rw [hkind]
  rfl

/-! ### whole histories -/

/-- the monitor (strict = as it was before the fix) run over a whole history of model observations:
first message, if any -/
def monitorRunWith (strict : Bool) (render : M → String) : G → M → List (Op SymSig) → Option String
  | _, _, [] => none
  | g, m, op :: ops =>
    match (checkCoreWith strict g op (modelObs render (stepM m op).1 (stepM m op).2)).2 with
    | some msg => some msg
    | none => monitorRunWith strict render
        (checkCoreWith strict g op (modelObs render (stepM m op).1 (stepM m op).2)).1 (stepM m op).1 ops

/-- the monitor the driver runs, over a whole history -/
def monitorRun (render : M → String) : G → M → List (Op SymSig) → Option String := monitorRunWith false render

/-- **monitor soundness**: started in the states the driver builds (`minit` = `G.init`, `init` =
`initM`: the freshly deployed stack of two registries, identity registry storage, verifier, three
claim issuers and two identity contracts), for EVERY finite history of operations — any addresses,
topics, claims, signatures, keys, schemes, data, timestamps, accepted or rejected — and every
rendering of the state dump, the monitor reports nothing on the model's observations -/
theorem monitor_accepts_every_model_trace (render : M → String) (ops : List (Op SymSig)) :
    monitorRun render G.init initM ops = none := by
  suffices ∀ g m, Agree render g m → monitorRun render g m ops = none from
    this _ _ ⟨agreeW_init, .inl rfl⟩
  induction ops with
  | nil => intro g m _; rfl
  | cons op ops ih =>
    intro g m ha
    obtain ⟨h1, h2⟩ := monitor_sound_step render ha op
    unfold monitorRun monitorRunWith
    have h1' : (checkCoreWith false g op (modelObs render (stepM m op).1 (stepM m op).2)).2 = none := h1
    rw [h1']
    exact ih _ _ h2

/-! ### finding: the monitor as it was raised a false alarm on a model trace

History (outside the harness universe, whose generator uses the library's `remove_claim` only on
claims carrying the topic of their id): registry 0 requires topic 1 and trusts issuers 4 and 5 for it
(in that order); issuer 5 allows key 1 and its genuine claim is added to identity 8 of account 11.
The identity contract also writes, raw, under the id (4, 1) a claim that says topic 2, and then calls
the library's `remove_claim` on that id: the claim is deleted but the index of topic 1 keeps the id
(`remove_claim` de-indexes under the CLAIM's topic, 2). From then on the model's — and the code's —
`verify_identity(11)` panics in `get_claim` when it meets issuer 4's dangling id before reaching
issuer 5, although topic 1 does have a valid claim of the trusted issuer 5. The old monitor demanded
acceptance there (`site=identity.verify.rejects`); the property's theorems (OZ/Props/C15.lean) state the
iff for well-formed identity stores only. `checkCore` now remembers such identity contracts
(`G.loose`) and demands only "verified ONLY by valid claims" for their accounts. -/

def cexData : List Nat := [0, 0, 0, 0, 0, 0, 0, 0, 0, 0, 0, 0, 0, 0, 255, 255]

def cexSig (i t : Nat) : SigData SymSig :=
  { len := 96, pk := 1,
    sig := { ok := true, ns := 101, tag := 0,
             msg := { network := 0, issuer := i, identity := 8, topic := t, nonce := 0, data := cexData } } }

def cexOps : List (Op SymSig) :=
  [ .setIrs, .setCti 0, .reg 0 (.addTopic 1), .reg 0 (.addIssuer 4 [1]),
    .reg 0 (.addIssuer 5 [1]), .allowKey 5 1 101 0 1, .irsAdd 11 8, .time 5,
    .addClaim 8 { topic := 1, scheme := 101, issuer := 5, sig := cexSig 5 1, data := cexData },
    .rawPut 8 4 1 { topic := 2, scheme := 101, issuer := 4, sig := cexSig 4 1, data := cexData },
    .removeClaim 8 4 1 ]

/-- the old monitor reports a failure on this MODEL trace … -/
theorem legacy_monitor_false_alarm :
    (monitorRunWith true (fun _ => "") G.init initM cexOps).isSome = true := by decide

/-- … before the last operation it is silent (the false alarm is the `remove_claim`'s) … -/
example : monitorRunWith true (fun _ => "") G.init initM cexOps.dropLast = none := by decide

/-- … and the monitor the driver now runs is silent on it (an instance of the soundness theorem) -/
example : monitorRun (fun _ => "") G.init initM cexOps = none := monitor_accepts_every_model_trace _ _

/-! ### non-vacuity (tests, labelled as such): the monitor is not trivially silent -/

-- the defect of DESIGN.md §8-4 as the unfixed tree showed it: topic 7 required, nobody trusted for it,
-- `ver=1,0,0` observed
example :
    (checkCore { G.init with virs := true, cti := some 0, ident := [(11, 8)] } (.reg 0 (.addTopic 7))
      ⟨true, "", [1, 0, 0]⟩).2.isSome = true := by decide

-- a refusal where the condition holds (no required topic, identity registered, verifier wired)
example :
    (checkCore { G.init with virs := true, cti := some 0, ident := [(11, 8)] } (.time 7)
      ⟨true, "", [0, 0, 0]⟩).2.isSome = true := by decide

-- `is_claim_valid` accepting a claim signed by a key that is not allowed
example :
    (checkCore G.init (.valid 4 8 1 101 (cexSig 4 1) cexData) ⟨true, "", [0, 0, 0]⟩).2.isSome = true := by decide

-- a rejected call that changed the dump
example :
    (checkCore { G.init with prev := "a" } (.verify 11) ⟨false, "b", [0, 0, 0]⟩).2.isSome = true := by decide

end OZ.Identity.Mon
