import OZ.Lemmas.AccessOps
/-
C06 — Privileged functions obey the role, admin and owner hierarchy.

Property theorems only. The model (OZ/Model/Access.lean) mirrors
packages/access/src/access_control/storage.rs key by key (RoleAccounts, HasRole,
RoleAccountsCount, RoleAdmin, ExistingRoles with MAX_ROLES, swap-and-pop exactly as coded),
the admin / owner machines of OZ/Model/RoleTransfer.lean, and the attribute macros of
packages/macros as guard-then-body.

Histories `ops` are arbitrary finite lists of calls — grant / revoke / renounce, the
`*_no_auth` library functions, set_role_admin (chains, cycles, self-administration), admin and
owner hand-over and renounce, macro-guarded entry points, ledger advances — each issued by any
caller with an arbitrary authorizing subset, over any number of accounts and roles.
`runG` runs the model and, beside it, the plain set `setStep` of (account, role) pairs granted
and not since revoked, which looks at accepted calls only.
-/
namespace OZ.Access
open OZ.Host

/-- **C06, authority over membership**: after any history, if a call changes whether `a`
holds role `r`, then it is a grant / revoke of exactly that pair whose caller authorizes the
call and is the contract admin or holds the admin role of `r`; or `a` renouncing `r` itself
with its own authorization; or one of the unguarded library functions (`*_no_auth`, which
are not entry points of the `AccessControl` trait). No other call, by anyone, with any
authorization, touches the membership of any pair. -/
theorem membership_change_authorized (c : Cfg) (admin owner : Option Nat) (now : Nat)
    (ops : List (List Nat × Op)) (auth : List Nat) (op : Op) (s' : State)
    (h : apply c (run c (init admin owner now) ops) auth op = .ok s') (a r : Nat)
    (hch : memb s' a r ≠ memb (run c (init admin owner now) ops) a r) :
    (∃ k, (op = .grant a r k ∨ op = .revoke a r k) ∧ k ∈ auth ∧
      (getAdmin (run c (init admin owner now) ops) = some k ∨
       ∃ ar, getRoleAdmin (run c (init admin owner now) ops) r = some ar ∧
         memb (run c (init admin owner now) ops) k ar = true)) ∨
    (op = .renounce r a ∧ a ∈ auth ∧ memb (run c (init admin owner now) ops) a r = true) ∨
    (∃ k, op = .grantNoAuth a r k ∨ op = .revokeNoAuth a r k) := by
  have hi := reachable_inv c admin owner now ops
  generalize run c (init admin owner now) ops = s at *
  obtain ⟨-, hm⟩ := apply_effect hi h
  rw [hm] at hch
  have key : ∀ (a' r' : Nat) (v : Bool), upd2 (memb s) a' r' v a r ≠ memb s a r → a = a' ∧ r = r' := by
    intro a' r' v hne
    apply Classical.byContradiction
    intro hc
    exact hne (upd2_ne _ _ _ _ _ _ hc)
  have entitled : ∀ k, (isAdmin s k || isAdminRole s r k) = true →
      getAdmin s = some k ∨ ∃ ar, getRoleAdmin s r = some ar ∧ memb s k ar = true := by
    intro k hk
    rw [Bool.or_eq_true] at hk
    rcases hk with hk | hk
    · left
      unfold isAdmin at hk
      split at hk
      · rename_i ad had; rw [had]; simp at hk; rw [hk]
      · cases hk
    · right
      unfold isAdminRole at hk
      split at hk
      · rename_i ar har; exact ⟨ar, har, hk⟩
      · cases hk
  cases op with
  | grant a' r' k =>
    obtain ⟨e1, e2⟩ := key a' r' true hch; subst e1; subst e2
    obtain ⟨hk, hent, -⟩ := grantRole_ok h
    exact Or.inl ⟨k, Or.inl rfl, hk, entitled k hent⟩
  | revoke a' r' k =>
    obtain ⟨e1, e2⟩ := key a' r' false hch; subst e1; subst e2
    obtain ⟨hk, hent, -⟩ := revokeRole_ok h
    exact Or.inl ⟨k, Or.inr rfl, hk, entitled k hent⟩
  | renounce r' k =>
    obtain ⟨e1, e2⟩ := key k r' false hch; subst e1; subst e2
    obtain ⟨hk, h⟩ := renounceRole_ok h
    obtain ⟨-, -, hmem, -⟩ := revokeRoleNoAuth_effect hi h
    exact Or.inr (Or.inl ⟨rfl, hk, hmem⟩)
  | grantNoAuth a' r' k =>
    obtain ⟨e1, e2⟩ := key a' r' true hch; subst e1; subst e2
    exact Or.inr (Or.inr ⟨k, Or.inl rfl⟩)
  | revokeNoAuth a' r' k =>
    obtain ⟨e1, e2⟩ := key a' r' false hch; subst e1; subst e2
    exact Or.inr (Or.inr ⟨k, Or.inr rfl⟩)
  | setRoleAdmin _ _ => exact absurd rfl hch
  | setRoleAdminNoAuth _ _ => exact absurd rfl hch
  | removeRoleAdminNoAuth _ => exact absurd rfl hch
  | removeCountNoAuth _ => exact absurd rfl hch
  | adm _ => exact absurd rfl hch
  | own _ => exact absurd rfl hch
  | onlyRole _ _ _ => exact absurd rfl hch
  | hasRole _ _ _ _ => exact absurd rfl hch
  | hasAnyRole _ _ _ => exact absurd rfl hch
  | onlyAnyRole _ _ => exact absurd rfl hch
  | ensureAdminOrRole _ _ => exact absurd rfl hch
  | advance _ => exact absurd rfl hch

/-- **C06, `has_role`**: after any history `has_role(a, r)` is `Some` exactly for the pairs
granted and not since revoked -/
theorem has_role_refines_set (c : Cfg) (admin owner : Option Nat) (now : Nat)
    (ops : List (List Nat × Op)) (a r : Nat) :
    (hasRoleQ (runG c (initG admin owner now) ops).s a r).isSome
      = (runG c (initG admin owner now) ops).g a r := by
  have := (reachable_ginv c admin owner now ops).set
  exact congrFun (congrFun this a) r

/-- **C06, index map and enumeration are inverse**: `has_role(a, r) = Some(i)` iff
`i < count` and `get_role_member(r, i) = a` -/
theorem enumeration_inverse (c : Cfg) (admin owner : Option Nat) (now : Nat)
    (ops : List (List Nat × Op)) (a r i : Nat) :
    hasRoleQ (runG c (initG admin owner now) ops).s a r = some i ↔
      (i < cnt (runG c (initG admin owner now) ops).s r ∧
       getRoleMember (runG c (initG admin owner now) ops).s r i = .ok a) := by
  have hi := ((reachable_ginv c admin owner now ops).inv.role r)
  generalize (runG c (initG admin owner now) ops).s = s at *
  constructor
  · intro h
    obtain ⟨h1, h2⟩ := hi.back a i h
    exact ⟨h1, by unfold getRoleMember; rw [h2]⟩
  · rintro ⟨h1, h2⟩
    obtain ⟨b, hb1, hb2⟩ := hi.fwd i h1
    unfold getRoleMember at h2
    rw [hb1] at h2
    injection h2 with h2; subst h2
    exact hb2

/-- **C06, gap-free enumeration**: `get_role_member(r, i)` succeeds exactly for
`i < get_role_member_count(r)`; in particular `get_role_member(r, count)` fails -/
theorem enumeration_gap_free (c : Cfg) (admin owner : Option Nat) (now : Nat)
    (ops : List (List Nat × Op)) (r i : Nat) :
    (∃ a, getRoleMember (runG c (initG admin owner now) ops).s r i = .ok a) ↔
      i < cnt (runG c (initG admin owner now) ops).s r := by
  have hi := ((reachable_ginv c admin owner now ops).inv.role r)
  generalize (runG c (initG admin owner now) ops).s = s at *
  constructor
  · rintro ⟨a, h⟩
    apply Classical.byContradiction
    intro hn
    unfold getRoleMember at h
    rw [hi.beyond i (by omega)] at h
    cases h
  · intro h
    obtain ⟨a, ha, -⟩ := hi.fwd i h
    exact ⟨a, by unfold getRoleMember; rw [ha]⟩

/-- **C06, the enumeration lists the set**: reading `get_role_member(r, 0 .. count-1)` yields
`count` answers, none failing, no account twice, and exactly the accounts `a` with `(a, r)`
granted and not since revoked — so `get_role_member_count(r)` is the number of such accounts -/
theorem members_enumerate_set (c : Cfg) (admin owner : Option Nat) (now : Nat)
    (ops : List (List Nat × Op)) (r : Nat) :
    (members (runG c (initG admin owner now) ops).s r).length
        = cnt (runG c (initG admin owner now) ops).s r ∧
    (members (runG c (initG admin owner now) ops).s r).Nodup ∧
    none ∉ members (runG c (initG admin owner now) ops).s r ∧
    ∀ a, some a ∈ members (runG c (initG admin owner now) ops).s r ↔
      (runG c (initG admin owner now) ops).g a r = true := by
  have hg := reachable_ginv c admin owner now ops
  have hi := hg.inv.role r
  have hs : ∀ a, memb (runG c (initG admin owner now) ops).s a r = (runG c (initG admin owner now) ops).g a r :=
    fun a => congrFun (congrFun hg.set a) r
  generalize (runG c (initG admin owner now) ops).g = g at *
  generalize (runG c (initG admin owner now) ops).s = s at *
  have hval : ∀ i, i < cnt s r → ∃ a, (getRoleMember s r i).toOption = some a ∧ s.hasRole a r = some i := by
    intro i h
    obtain ⟨a, ha, hb⟩ := hi.fwd i h
    exact ⟨a, by unfold getRoleMember; rw [ha]; rfl, hb⟩
  refine ⟨by simp [members], ?_, ?_, ?_⟩
  · unfold members
    rw [List.Nodup, List.pairwise_map]
    refine List.Pairwise.imp_of_mem ?_ (List.nodup_range (n := cnt s r))
    intro i j hi' hj' hne heq
    rw [List.mem_range] at hi' hj'
    obtain ⟨a, ha, hai⟩ := hval i hi'
    obtain ⟨b, hb, hbj⟩ := hval j hj'
    rw [ha, hb] at heq
    injection heq with heq; subst heq
    rw [hai] at hbj; injection hbj with e; exact hne e
  · unfold members
    rw [List.mem_map]
    rintro ⟨i, hi', h⟩
    rw [List.mem_range] at hi'
    obtain ⟨a, ha, -⟩ := hval i hi'
    rw [ha] at h; cases h
  · intro a
    rw [← hs a]
    unfold members
    rw [List.mem_map]
    constructor
    · rintro ⟨i, hi', h⟩
      rw [List.mem_range] at hi'
      obtain ⟨b, hb, hbi⟩ := hval i hi'
      rw [hb] at h; injection h with h; subst h
      simp [memb, hasRoleQ, hbi]
    · intro h
      simp only [memb, hasRoleQ, Option.isSome_iff_exists] at h
      obtain ⟨i, hi'⟩ := h
      obtain ⟨h1, h2⟩ := hi.back a i hi'
      exact ⟨i, List.mem_range.mpr h1, by unfold getRoleMember; rw [h2]; rfl⟩

/-- **C06, existing roles**: `get_existing_roles` lists, without repetition and never more
than MAX_ROLES = 256 entries, exactly the roles that currently have a member -/
theorem existing_roles_exact (c : Cfg) (admin owner : Option Nat) (now : Nat)
    (ops : List (List Nat × Op)) :
    (getExistingRoles (runG c (initG admin owner now) ops).s).Nodup ∧
    (getExistingRoles (runG c (initG admin owner now) ops).s).length ≤ MAX_ROLES ∧
    ∀ r, (r ∈ getExistingRoles (runG c (initG admin owner now) ops).s ↔
            0 < cnt (runG c (initG admin owner now) ops).s r) ∧
         (r ∈ getExistingRoles (runG c (initG admin owner now) ops).s ↔
            ∃ a, (runG c (initG admin owner now) ops).g a r = true) := by
  have hg := reachable_ginv c admin owner now ops
  have hs : ∀ a r, memb (runG c (initG admin owner now) ops).s a r = (runG c (initG admin owner now) ops).g a r :=
    fun a r => congrFun (congrFun hg.set a) r
  have hi := hg.inv
  generalize (runG c (initG admin owner now) ops).g = g at *
  generalize (runG c (initG admin owner now) ops).s = s at *
  refine ⟨hi.exNodup, hi.exLen, fun r => ⟨hi.exIff r, ?_⟩⟩
  rw [show getExistingRoles s = s.existing from rfl, hi.exIff r]
  constructor
  · intro h
    obtain ⟨a, -, ha⟩ := (hi.role r).fwd 0 h
    exact ⟨a, by rw [← hs]; simp [memb, hasRoleQ, ha]⟩
  · rintro ⟨a, ha⟩
    rw [← hs] at ha
    simp only [memb, hasRoleQ, Option.isSome_iff_exists] at ha
    obtain ⟨i, hi'⟩ := ha
    have := ((hi.role r).back a i hi').1
    omega

/-- **C06, the queryable membership describes exactly the set of granted-not-revoked pairs**
(summary of the five preceding theorems for one role and one account) -/
theorem enum_refines_set (c : Cfg) (admin owner : Option Nat) (now : Nat)
    (ops : List (List Nat × Op)) (a r : Nat) :
    ((hasRoleQ (runG c (initG admin owner now) ops).s a r).isSome
        = (runG c (initG admin owner now) ops).g a r) ∧
    (∀ i, hasRoleQ (runG c (initG admin owner now) ops).s a r = some i ↔
        (i < cnt (runG c (initG admin owner now) ops).s r ∧
         getRoleMember (runG c (initG admin owner now) ops).s r i = .ok a)) ∧
    (∀ i, (∃ b, getRoleMember (runG c (initG admin owner now) ops).s r i = .ok b) ↔
        i < cnt (runG c (initG admin owner now) ops).s r) ∧
    ((members (runG c (initG admin owner now) ops).s r).length
        = cnt (runG c (initG admin owner now) ops).s r ∧
     (members (runG c (initG admin owner now) ops).s r).Nodup ∧
     (some a ∈ members (runG c (initG admin owner now) ops).s r ↔
        (runG c (initG admin owner now) ops).g a r = true)) ∧
    ((getExistingRoles (runG c (initG admin owner now) ops).s).Nodup ∧
     (r ∈ getExistingRoles (runG c (initG admin owner now) ops).s ↔
        ∃ b, (runG c (initG admin owner now) ops).g b r = true)) := by
  obtain ⟨m1, m2, -, m4⟩ := members_enumerate_set c admin owner now ops r
  obtain ⟨e1, -, e3⟩ := existing_roles_exact c admin owner now ops
  exact ⟨has_role_refines_set c admin owner now ops a r,
    fun i => enumeration_inverse c admin owner now ops a r i,
    fun i => enumeration_gap_free c admin owner now ops r i,
    ⟨m1, m2, m4 a⟩, ⟨e1, (e3 r).2⟩⟩

/-! ### guards -/

/-- **C06, `#[only_admin]`**: a function restricted to the admin runs if and only if an admin
is stored and authorizes the call; it leaves the state as the body leaves it (here: unchanged) -/
theorem admin_guard_iff (c : Cfg) (s : State) (auth : List Nat) :
    ((∃ s', apply c s auth (.adm .guarded) = .ok s') ↔ ∃ a, getAdmin s = some a ∧ a ∈ auth) ∧
    (∀ s', apply c s auth (.adm .guarded) = .ok s' → s' = s) := by
  constructor
  · rw [show getAdmin s = s.adm.holder from rfl, ← OZ.RoleTransfer.enforceHolderAuth_iff s.adm auth]
    simp only [apply, subOp, OZ.RoleTransfer.apply, OZ.RoleTransfer.guarded]
    constructor
    · rintro ⟨s', h⟩
      obtain ⟨t, ht, -⟩ := liftRT_ok h
      obtain ⟨a, ha, -⟩ := OZ.RoleTransfer.bind_eq_ok ht
      exact ⟨a, ha⟩
    · rintro ⟨a, ha⟩
      rw [ha]
      exact ⟨_, rfl⟩
  · intro s' h
    simp only [apply, subOp] at h
    obtain ⟨t, ht, he⟩ := liftRT_ok h
    rw [(OZ.RoleTransfer.guarded_ok ht).1] at he
    exact he

/-- **C06, `#[only_owner]`**: the same for the owner -/
theorem owner_guard_iff (c : Cfg) (s : State) (auth : List Nat) :
    ((∃ s', apply c s auth (.own .guarded) = .ok s') ↔ ∃ a, s.own.holder = some a ∧ a ∈ auth) ∧
    (∀ s', apply c s auth (.own .guarded) = .ok s' → s' = s) := by
  constructor
  · rw [← OZ.RoleTransfer.enforceHolderAuth_iff s.own auth]
    simp only [apply, subOp, OZ.RoleTransfer.apply, OZ.RoleTransfer.guarded]
    constructor
    · rintro ⟨s', h⟩
      obtain ⟨t, ht, -⟩ := liftRT_ok h
      obtain ⟨a, ha, -⟩ := OZ.RoleTransfer.bind_eq_ok ht
      exact ⟨a, ha⟩
    · rintro ⟨a, ha⟩
      rw [ha]
      exact ⟨_, rfl⟩
  · intro s' h
    simp only [apply, subOp] at h
    obtain ⟨t, ht, he⟩ := liftRT_ok h
    rw [(OZ.RoleTransfer.guarded_ok ht).1] at he
    exact he

/-- **C06, role guards** (on any reachable state, in terms of the plain set `g`):
* `#[only_role(k, r)]` runs iff `(k, r)` is granted-not-revoked, `k` authorizes and the body succeeds;
* `#[has_role(k, r)]` runs iff `(k, r)` is in the set and the body succeeds (the macro adds no
  `require_auth`; the caller's authorization is needed only where the body asks for it);
* `#[has_any_role(k, rs)]` / `#[only_any_role(k, rs)]` likewise with "some role of the list";
* `ensure_if_admin_or_admin_role(r, k)` passes iff `k` is the admin or holds the admin role of `r`. -/
theorem role_guard_iff (c : Cfg) (admin owner : Option Nat) (now : Nat)
    (ops : List (List Nat × Op)) (auth : List Nat) (k r : Nat) (rs : List Nat) (ba b : Bool) :
    ((∃ s', apply c (runG c (initG admin owner now) ops).s auth (.onlyRole k r b) = .ok s') ↔
      (runG c (initG admin owner now) ops).g k r = true ∧ k ∈ auth ∧ b = true) ∧
    ((∃ s', apply c (runG c (initG admin owner now) ops).s auth (.hasRole k r ba b) = .ok s') ↔
      (runG c (initG admin owner now) ops).g k r = true ∧ (ba = true → k ∈ auth) ∧ b = true) ∧
    ((∃ s', apply c (runG c (initG admin owner now) ops).s auth (.hasAnyRole k rs ba) = .ok s') ↔
      (∃ q, q ∈ rs ∧ (runG c (initG admin owner now) ops).g k q = true) ∧ (ba = true → k ∈ auth)) ∧
    ((∃ s', apply c (runG c (initG admin owner now) ops).s auth (.onlyAnyRole k rs) = .ok s') ↔
      (∃ q, q ∈ rs ∧ (runG c (initG admin owner now) ops).g k q = true) ∧ k ∈ auth) ∧
    ((∃ s', apply c (runG c (initG admin owner now) ops).s auth (.ensureAdminOrRole r k) = .ok s') ↔
      (getAdmin (runG c (initG admin owner now) ops).s = some k ∨
       ∃ ar, getRoleAdmin (runG c (initG admin owner now) ops).s r = some ar ∧
         (runG c (initG admin owner now) ops).g k ar = true)) := by
  have hg := reachable_ginv c admin owner now ops
  have hs : ∀ a q, memb (runG c (initG admin owner now) ops).s a q = (runG c (initG admin owner now) ops).g a q :=
    fun a q => congrFun (congrFun hg.set a) q
  generalize (runG c (initG admin owner now) ops).g = g at *
  generalize (runG c (initG admin owner now) ops).s = s at *
  have hauth : (auth.contains k = true) ↔ k ∈ auth := List.contains_iff_mem
  refine ⟨?_, ?_, ?_, ?_, ?_⟩
  · simp only [apply, keep_iff, onlyRole, ensureRole, requireAuth, bind_unit_iff, require_iff]
    rw [← hs, hauth]; rfl
  · simp only [apply, keep_iff, hasRoleGuard, body, ensureRole, bind_unit_iff, require_iff]
    rw [← hs]
    cases ba <;> simp [memb]
  · simp only [apply, keep_iff, hasAnyRoleGuard, body, bind_unit_iff, require_iff, anyRole_iff]
    simp only [hs]
    cases ba <;> simp
  · simp only [apply, keep_iff, onlyAnyRoleGuard, requireAuth, bind_unit_iff, require_iff, anyRole_iff]
    simp only [hs, hauth]
  · simp only [apply, keep_iff, ensureIfAdminOrAdminRole, require_iff, Bool.or_eq_true]
    have e1 : isAdmin s k = true ↔ getAdmin s = some k := by
      unfold isAdmin
      cases getAdmin s with
      | none => simp
      | some ad =>
        simp only [beq_iff_eq, Option.some.injEq]
        exact ⟨fun h => h.symm, fun h => h.symm⟩
    have e2 : isAdminRole s r k = true ↔ ∃ ar, getRoleAdmin s r = some ar ∧ g k ar = true := by
      unfold isAdminRole
      cases getRoleAdmin s r with
      | none => simp
      | some ar => simp [← hs, memb]
    rw [e1, e2]

/-! ### renounced forever -/

/-- **C06, after the admin renounced nobody passes the admin check**: once `get_admin` is
`None` it stays `None` through every later history, every `#[only_admin]` call and every
`set_role_admin` fails whatever the authorization, and the admin clause of the grant / revoke
check holds for nobody -/
theorem renounced_forever_admin (c : Cfg) (admin owner : Option Nat) (now : Nat)
    (ops rest : List (List Nat × Op))
    (hn : getAdmin (run c (init admin owner now) ops) = none) :
    getAdmin (run c (init admin owner now) (ops ++ rest)) = none ∧
    (∀ auth, ∃ e, apply c (run c (init admin owner now) (ops ++ rest)) auth (.adm .guarded) = .error e) ∧
    (∀ auth r ar, ∃ e, apply c (run c (init admin owner now) (ops ++ rest)) auth (.setRoleAdmin r ar) = .error e) ∧
    (∀ k, isAdmin (run c (init admin owner now) (ops ++ rest)) k = false) := by
  have key : getAdmin (run c (init admin owner now) (ops ++ rest)) = none := by
    unfold getAdmin at *
    rw [run_adm] at *
    rw [List.flatMap_append]
    have hi := OZ.RoleTransfer.reachable_inv c .admin admin now (ops.flatMap projAdm)
    have h1 := OZ.RoleTransfer.holder_none_final c .admin (rest.flatMap projAdm) _ hi
      (by rw [OZ.RoleTransfer.runG_s]; exact hn)
    rw [OZ.RoleTransfer.runG_s, OZ.RoleTransfer.runG_s] at h1
    simp only [OZ.RoleTransfer.run, List.foldl_append] at *
    exact h1
  refine ⟨key, ?_, ?_, ?_⟩
  · intro auth
    cases h : apply c (run c (init admin owner now) (ops ++ rest)) auth (.adm .guarded) with
    | error e => exact ⟨e, rfl⟩
    | ok s' =>
      obtain ⟨a, ha, -⟩ := ((admin_guard_iff c _ auth).1).mp ⟨s', h⟩
      rw [key] at ha; cases ha
  · intro auth r ar
    cases h : apply c (run c (init admin owner now) (ops ++ rest)) auth (.setRoleAdmin r ar) with
    | error e => exact ⟨e, rfl⟩
    | ok s' =>
      obtain ⟨⟨a, ha, -⟩, -⟩ := setRoleAdmin_ok h
      rw [key] at ha; cases ha
  · intro k
    unfold isAdmin; rw [key]

/-- **C06, after ownership was renounced nobody passes the owner check** -/
theorem renounced_forever_owner (c : Cfg) (admin owner : Option Nat) (now : Nat)
    (ops rest : List (List Nat × Op))
    (hn : (run c (init admin owner now) ops).own.holder = none) :
    (run c (init admin owner now) (ops ++ rest)).own.holder = none ∧
    (∀ auth, ∃ e, apply c (run c (init admin owner now) (ops ++ rest)) auth (.own .guarded) = .error e) := by
  have key : (run c (init admin owner now) (ops ++ rest)).own.holder = none := by
    rw [run_own] at *
    rw [List.flatMap_append]
    have hi := OZ.RoleTransfer.reachable_inv c .owner owner now (ops.flatMap projOwn)
    have h1 := OZ.RoleTransfer.holder_none_final c .owner (rest.flatMap projOwn) _ hi
      (by rw [OZ.RoleTransfer.runG_s]; exact hn)
    rw [OZ.RoleTransfer.runG_s, OZ.RoleTransfer.runG_s] at h1
    simp only [OZ.RoleTransfer.run, List.foldl_append] at *
    exact h1
  refine ⟨key, ?_⟩
  intro auth
  cases h : apply c (run c (init admin owner now) (ops ++ rest)) auth (.own .guarded) with
  | error e => exact ⟨e, rfl⟩
  | ok s' =>
    obtain ⟨a, ha, -⟩ := ((owner_guard_iff c _ auth).1).mp ⟨s', h⟩
    rw [key] at ha; cases ha

/-- a rejected call changes nothing (the host rolls it back) -/
theorem failed_no_effect (c : Cfg) (s : State) (auth : List Nat) (op : Op) (e : Err)
    (h : apply c s auth op = .error e) : step c s (auth, op) = s := by
  unfold step; simp only [h]

/-! ### non-vacuity (tests, labelled as such) -/

/-- admin 0 builds a role-admin cycle 0 ← 1 ← 2 ← 0, seeds it, role admins grant along the
cycle, members are removed first / last, the admin renounces -/
def demoOps : List (List Nat × Op) :=
  [([0], .setRoleAdmin 0 1), ([0], .setRoleAdmin 1 2), ([0], .setRoleAdmin 2 0),
   ([0], .grant 2 2 0), ([2], .grant 3 1 2), ([3], .grant 4 0 3), ([4], .grant 1 2 4),
   ([4], .grant 1 1 4),                       -- holder of role 0 does not administer role 1: rejected
   ([3], .grant 5 0 3), ([3], .grant 6 0 3), ([3], .revoke 4 0 3),   -- remove first: 6 swapped into slot 0
   ([5], .renounce 0 5), ([0], .adm .renounce), ([0], .grant 7 0 0)] -- former admin: rejected

example : members (run ⟨1, 1000⟩ (init (some 0) (some 1) 100) demoOps) 0 = [some 6] ∧
    hasRoleQ (run ⟨1, 1000⟩ (init (some 0) (some 1) 100) demoOps) 6 0 = some 0 ∧
    cnt (run ⟨1, 1000⟩ (init (some 0) (some 1) 100) demoOps) 2 = 2 ∧
    getExistingRoles (run ⟨1, 1000⟩ (init (some 0) (some 1) 100) demoOps) = [2, 1, 0] ∧
    getAdmin (run ⟨1, 1000⟩ (init (some 0) (some 1) 100) demoOps) = none := by decide

-- the plain set agrees on a few pairs
example : (runG ⟨1, 1000⟩ (initG (some 0) (some 1) 100) demoOps).g 6 0 = true ∧
    (runG ⟨1, 1000⟩ (initG (some 0) (some 1) 100) demoOps).g 4 0 = false ∧
    (runG ⟨1, 1000⟩ (initG (some 0) (some 1) 100) demoOps).g 1 1 = false ∧
    (runG ⟨1, 1000⟩ (initG (some 0) (some 1) 100) demoOps).g 1 2 = true := by decide

-- hypothesis of `membership_change_authorized`: a role admin's grant changes membership
example : (apply ⟨1, 1000⟩ (run ⟨1, 1000⟩ (init (some 0) (some 1) 100) (demoOps.take 5)) [3] (.grant 4 0 3)).toOption.map
    (fun s => memb s 4 0) = some true := by decide

-- hypothesis of `renounced_forever_admin`
example : getAdmin (run ⟨1, 1000⟩ (init (some 0) (some 1) 100) demoOps) = none := by decide

end OZ.Access
