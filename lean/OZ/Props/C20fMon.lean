import OZ.Lemmas.RegIrsMon
/-
C20 (f) — soundness of the `irs` MONITOR that decides the property on implementation traces.

`./check C20` reports a concrete violation in an `irs` sequence exactly when
`OZ.RegIrs.Mon.checkCore` (the sub-driver's monitor on parsed values, OZ/Model/RegIrsMon.lean)
returns a message on the implementation's observations. Here it is proved that on the observations
of the MODEL the monitor never returns a message, for every label parameter `na` and every finite
history of the seven mutators of the identity registry storage with arbitrary arguments
(`monitor_accepts_every_model_trace`). Consequences: a monitor failure is never a false alarm of the
monitor itself, and every conclusion it evaluates (a recovered account is refused as account of
`add_identity` and as target of `recover_identity`; empty / over-long country lists and over-limit
metadata refused, the 15th entry accepted; duplicates and absent accounts / indices refused; the last
country entry cannot be deleted; `stored_identity`, `get_identity_profile`,
`get_country_data_entries`, `get_recovered_to` are the plain maps; `get_country_data` reads the plain
list by index and fails from its length on; no account is reported both recovered and registered) is
a THEOREM about the model, in the monitor's own executable wording.

`modelObs s na ok` is EXACTLY the data the model driver prints for state `s` (`stepLine` / `showState`
of OZ/Drv/C20Irs.lean): the tag, then the words `ID=` (`storedIdentity`), `PR=` (`getIdentityProfile`),
`CE=` (`getCountryDataEntries`), `RT=` (`getRecoveredTo`), `CD=` (`getCountryData` by index 0..len) over
accounts 0..na-1, each printed with the same expression as in `showState` (its `let`s inlined).
`RTe` / `IDe` are the entry lists of the words `RT=` / `ID=`: the driver obtains them by splitting the
printed word at `,` and `:` (`entries`); the model prints each entry as `a:v` with `a` a number and
`v` a number or `x`, so the split entry is `[toString a, showOpt v]`. This print / split round trip
(like the splitting of the line into words) is the trusted string level and is not proved here.

Property theorems only; helper facts come from OZ/Lemmas/RegIrsMon.lean.
-/
namespace OZ.RegIrs.Mon
open OZ.Reg OZ.RegMon OZ.RegIrs

/-- the observation the harness / the model driver print for a state -/
def modelObs (s : State) (na : Nat) (ok : Bool) : Obs :=
  { ok := ok,
    ID := sepBy "," ((List.range na).map (fun a => s!"{a}:{showOpt (storedIdentity s a)}")),
    PR := sepBy "," ((List.range na).map (fun a => match getIdentityProfile s a with
      | some p => s!"{a}:{p.ty}:{showCDs p.countries}"
      | none => s!"{a}:x")),
    CE := sepBy "," ((List.range na).map (fun a => s!"{a}:{showCDs (getCountryDataEntries s a)}")),
    RT := sepBy "," ((List.range na).map (fun a => s!"{a}:{showOpt (getRecoveredTo s a)}")),
    CD := sepBy "," ((List.range na).map (fun a =>
      s!"{a}:{sepBy "+" ((List.range ((getCountryDataEntries s a).length + 1)).map (fun i => match getCountryData s a i with
        | some c => showCD c
        | none => "x"))}")),
    RTe := (List.range na).map (fun a => [toString a, showOpt (getRecoveredTo s a)]),
    IDe := (List.range na).map (fun a => [toString a, showOpt (storedIdentity s a)]) }

/-- whether the model accepts the call -/
def accepted (s : State) (op : Op) : Bool :=
  match step s op with
  | .ok _ => true
  | .error _ => false

/-- the getter part of the monitor never fires on the observation of a state the plain maps
describe: the five printed getters are the printed plain maps, and no recovered account is listed
with an identity -/
theorem getters_quiet {g : Mon} {s : State} {na : Nat} (ha : Agree g s na) (hI : Inv s) (ok : Bool) :
    (modelObs s na ok).ID = sepBy "," (idWant g) ∧
    (modelObs s na ok).PR = sepBy "," (prWant g) ∧
    (modelObs s na ok).CE = sepBy "," (ceWant g) ∧
    (modelObs s na ok).RT = sepBy "," (rtWant g) ∧
    (modelObs s na ok).CD = sepBy "," (cdWant g) ∧
    recoveredOk (modelObs s na ok).RTe (modelObs s na ok).IDe = true := by
  refine ⟨?_, ?_, ?_, ?_, ?_, recovered_quiet hI na⟩
  · show sepBy "," _ = sepBy "," _
    congr 1
    unfold idWant
    rw [ha.na]
    refine List.map_congr_left (fun a _ => ?_)
    rw [ident_of_agree ha hI a]
    rfl
  · show sepBy "," _ = sepBy "," _
    congr 1
    unfold prWant
    rw [ha.na]
    refine List.map_congr_left (fun a _ => ?_)
    show (match s.profile a with
      | some p => s!"{a}:{p.ty}:{showCDs p.countries}"
      | none => s!"{a}:x") = _
    cases hp : s.profile a with
    | none => rw [ha.look, recOf_none_of_profile hp]
    | some p =>
      obtain ⟨i, _, hr⟩ := recOf_of_profile hI hp
      rw [ha.look, hr]
  · show sepBy "," _ = sepBy "," _
    congr 1
    unfold ceWant
    rw [ha.na]
    refine List.map_congr_left (fun a _ => ?_)
    rw [cs_of_agree ha hI a]
  · show sepBy "," _ = sepBy "," _
    congr 1
    unfold rtWant
    rw [ha.na]
    refine List.map_congr_left (fun a _ => ?_)
    show _ = s!"{a}:{showOpt (rlook g a)}"
    rw [ha.rto a]
    rfl
  · show sepBy "," _ = sepBy "," _
    congr 1
    unfold cdWant
    rw [ha.na]
    refine List.map_congr_left (fun a _ => ?_)
    rw [cs_of_agree ha hI a, ← cd_by_index]
    have : (fun i => match getCountryData s a i with | some c => showCD c | none => "x") =
        (fun i => match (getCountryDataEntries s a)[i]? with | some c => showCD c | none => "x") := by
      funext i; rw [getCountryData_eq]
    rw [this]
    rfl

/-- **one call**: fed with the model's own observation of any call (accepted or refused), the
monitor reports nothing and its plain maps keep describing the model's state -/
theorem monitor_sound_step {g : Mon} {s : State} {na : Nat} (hI : Inv s) (ha : Agree g s na) (op : Op) :
    (checkCore g op (modelObs (next s op) na (accepted s op))).2 = none ∧
    Agree (checkCore g op (modelObs (next s op) na (accepted s op))).1 (next s op) na := by
  have key : ∃ g', decide2 "irs" g (plain g op) (accepted s op) (near g op) = (g', none) ∧ Agree g' (next s op) na := by
    unfold next accepted
    cases hs : step s op with
    | ok s' =>
      obtain ⟨g', hp, ha'⟩ := plain_ok ha hI hs
      exact ⟨g', by rw [hp]; rfl, ha'⟩
    | error e =>
      obtain ⟨w, hp⟩ := plain_err ha hI hs
      exact ⟨g, by rw [hp]; rfl, ha⟩
  obtain ⟨g', hd, ha'⟩ := key
  obtain ⟨q1, q2, q3, q4, q5, q6⟩ := getters_quiet ha' (inv_next hI op) (accepted s op)
  unfold checkCore
  rw [show (modelObs (next s op) na (accepted s op)).ok = accepted s op from rfl, hd]
  refine ⟨?_, ha'⟩
  show firstFail [none, chk (decide _) _, chk (decide _) _, chk (decide _) _, chk (decide _) _, chk (decide _) _, chk _ _] = none
  rw [firstFail_none_cons, chk_decide q1, firstFail_none_cons, chk_decide q2, firstFail_none_cons, chk_decide q3,
    firstFail_none_cons, chk_decide q4, firstFail_none_cons, chk_decide q5, firstFail_none_cons, chk_of q6]
  rfl

/-- the monitor run over a whole history of model observations: first message, if any -/
def monitorRun (na : Nat) : Mon → State → List Op → Option String
  | _, _, [] => none
  | g, s, op :: ops =>
    match (checkCore g op (modelObs (next s op) na (accepted s op))).2 with
    | some msg => some msg
    | none => monitorRun na (checkCore g op (modelObs (next s op) na (accepted s op))).1 (next s op) ops

/-- the monitor's initial state for a sequence (what `minit` builds from the label) -/
def monInit (na : Nat) : Mon := { recs := [], recovered := [], na := na }

/-- **monitor soundness**: for every label parameter `na` and every finite history of `add_identity`,
`modify_identity`, `remove_identity`, `recover_identity`, `add_country_data_entries`,
`modify_country_data`, `delete_country_data` — any accounts, identities, types, country lists,
indices, accepted or refused — the monitor that the sub-driver's `minit` builds reports nothing on
the observations of the model that the sub-driver's `initM` builds -/
theorem monitor_accepts_every_model_trace (na : Nat) (ops : List Op) :
    monitorRun na (monInit na) init ops = none := by
  suffices ∀ g s, Inv s → Agree g s na → monitorRun na g s ops = none from
    this _ _ inv_init ⟨rfl, fun a => rfl, fun a => rfl⟩
  induction ops with
  | nil => intro g s _ _; rfl
  | cons op ops ih =>
    intro g s hI ha
    obtain ⟨h1, h2⟩ := monitor_sound_step hI ha op
    unfold monitorRun
    rw [h1]
    exact ih _ _ (inv_next hI op) h2

/-! ### non-vacuity (tests, labelled as such): the monitor is not trivially silent -/

/-- a refused valid registration, a refused 15-entry list (reported at the limit site), an accepted
re-registration of a recovered account, a wrong `stored_identity` word and an account listed both as
recovered and with an identity are reported -/
example :
    (checkCore (monInit 0) (.add 0 7 0 [⟨1, 0, 0⟩]) ⟨false, "-", "-", "-", "-", "-", [], []⟩).2.isSome = true ∧
    near (monInit 0) (.add 0 7 0 (List.replicate 15 ⟨1, 0, 0⟩)) = "limit.add_identity.countries" ∧
    (checkCore { recs := [], recovered := [(0, 1)], na := 0 } (.add 0 7 0 [⟨1, 0, 0⟩])
      ⟨true, "-", "-", "-", "-", "-", [], []⟩).2.isSome = true ∧
    (checkCore (monInit 0) (.remove 0) ⟨false, "0:5", "-", "-", "-", "-", [], []⟩).2.isSome = true ∧
    recoveredOk [["0", "1"]] [["0", "5"], ["1", "x"]] = false := by
  refine ⟨by decide, by decide, by decide, by decide, by decide⟩

end OZ.RegIrs.Mon
