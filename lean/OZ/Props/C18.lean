import OZ.Lemmas.WebAuthn
import OZ.Model.Ed25519Verifier
/-
C18 — Signature verifiers accept exactly genuine, well-formed assertions.

Property theorems only (helper lemmas: OZ/Lemmas/Base64Url.lean, OZ/Lemmas/WebAuthn.lean).

* base64url: the coded table-driven encoder equals the RFC 4648 §5 unpadded specification
  for EVERY byte string, is injective, and writes exactly ⌈4n/3⌉ characters.
* WebAuthn: `verify` returns `true` exactly under the property's conjunction; it never
  returns `false`. JSON parsing, SHA-256 and the P-256 verification are oracles
  (`Oracles`): the theorems hold for every behaviour of these functions.
* Ed25519: accepts exactly when the host's verification does.
* regression: the code before the `fix:` commit accepted a 40-byte payload on its prefix.
-/
namespace OZ.B64

/-- **the base64url helper equals RFC 4648 §5 without padding, for every input**
(induction on 3-byte groups; the 1- and 2-byte tails are the base cases) -/
theorem base64url_eq_rfc4648 (src : Bytes) : encode src = rfc4648 src :=
  encode_eq_rfc src

/-- the number of characters written: ⌈4·n/3⌉, never a padding character -/
theorem base64url_length (src : Bytes) : (rfc4648 src).length = (4 * src.length + 2) / 3 := by
  rw [← base64url_eq_rfc4648, encode_length]

/-- the destination-buffer form of the Rust function: it panics iff the buffer is shorter
than ⌈4n/3⌉, otherwise the buffer starts with the RFC 4648 encoding and the rest is untouched -/
theorem base64url_into_buffer (dst src : Bytes) :
    encodeInto dst src =
      if dst.length < (4 * src.length + 2) / 3 then none
      else some (rfc4648 src ++ dst.drop ((4 * src.length + 2) / 3)) := by
  unfold encodeInto
  rw [encode_length, base64url_eq_rfc4648]

/-- decoding the encoder's output gives the input back … -/
theorem base64url_decode_encode (src : Bytes) : decode (rfc4648 src) = src := by
  rw [← base64url_eq_rfc4648, decode_encode]

/-- … so the encoding is injective: different payloads have different challenges -/
theorem encode_injective (a b : Bytes) (h : encode a = encode b) : a = b := by
  rw [← decode_encode a, ← decode_encode b, h]

theorem rfc4648_injective (a b : Bytes) (h : rfc4648 a = rfc4648 b) : a = b := by
  rw [← base64url_eq_rfc4648, ← base64url_eq_rfc4648] at h
  exact encode_injective a b h

/-- non-vacuity: the RFC 4648 §10 test vectors ("f", "fo", "foo", "foob", "fooba", "foobar"
give "Zg", "Zm8", "Zm9v", "Zm9vYg", "Zm9vYmE", "Zm9vYmFy") and a group using `-` and `_` -/
example : encode [102] = [90, 103] ∧ encode [102, 111] = [90, 109, 56]
    ∧ encode [102, 111, 111] = [90, 109, 57, 118]
    ∧ encode [102, 111, 111, 98] = [90, 109, 57, 118, 89, 103]
    ∧ encode [102, 111, 111, 98, 97] = [90, 109, 57, 118, 89, 109, 69]
    ∧ encode [102, 111, 111, 98, 97, 114] = [90, 109, 57, 118, 89, 109, 70, 121]
    ∧ rfc4648 [102, 111, 111, 98, 97, 114] = [90, 109, 57, 118, 89, 109, 70, 121]
    ∧ encode [251, 255, 190] = [45, 95, 45, 45] := by decide

end OZ.B64

namespace OZ.WebAuthn
open OZ.B64

/-- **C18, WebAuthn.** `verify` accepts (returns `true`) if and only if
  * the client data is at most 1024 bytes long,
  * it parses, its type is exactly `webauthn.get`, and its challenge is the RFC 4648 §5
    unpadded base64url of the payload,
  * the payload is EXACTLY 32 bytes long,
  * the authenticator data has at least 37 bytes and its flags byte (index 32) has UP and UV
    set and not (BE clear and BS set),
  * the P-256 verification of `sha256(authenticator_data ‖ sha256(client_data))` under the
    given key and signature succeeds.
For every parser / hash / curve oracle `O` and every input. -/
theorem webauthn_accepts_iff (O : Oracles) (payload key : Bytes) (sd : SigData) :
    verify O payload key sd = .ok true ↔
      sd.clientData.length ≤ 1024 ∧
      (∃ j, O.parse sd.clientData = some j ∧ j.typeField = WEBAUTHN_GET ∧ j.challenge = rfc4648 payload) ∧
      payload.length = 32 ∧
      37 ≤ sd.authenticatorData.length ∧
      (∃ f, sd.authenticatorData[32]? = some f ∧
        flagSet f AUTH_DATA_FLAGS_UP = true ∧ flagSet f AUTH_DATA_FLAGS_UV = true ∧
        ¬ (flagSet f AUTH_DATA_FLAGS_BE = false ∧ flagSet f AUTH_DATA_FLAGS_BS = true)) ∧
      O.p256Verify key (O.sha256 (sd.authenticatorData ++ O.sha256 sd.clientData)) sd.signature = true := by
  rw [verify_ok, verifyRest_ok, base64url_eq_rfc4648]

set_option maxRecDepth 8192 in
/-- the flag tests, in plain arithmetic on the flags byte: bit 0 (UP), bit 2 (UV), bit 3 (BE),
bit 4 (BS) -/
theorem flag_bits (f : Byte) :
    (flagSet f AUTH_DATA_FLAGS_UP = true ↔ f.toNat % 2 = 1) ∧
    (flagSet f AUTH_DATA_FLAGS_UV = true ↔ f.toNat / 4 % 2 = 1) ∧
    (flagSet f AUTH_DATA_FLAGS_BE = true ↔ f.toNat / 8 % 2 = 1) ∧
    (flagSet f AUTH_DATA_FLAGS_BS = true ↔ f.toNat / 16 % 2 = 1) := by
  have h : ∀ n : Fin 256,
      ((((n.val &&& 0x01) != 0) = true ↔ n.val % 2 = 1) ∧ (((n.val &&& 0x04) != 0) = true ↔ n.val / 4 % 2 = 1) ∧
       (((n.val &&& 0x08) != 0) = true ↔ n.val / 8 % 2 = 1) ∧ (((n.val &&& 0x10) != 0) = true ↔ n.val / 16 % 2 = 1)) := by
    decide
  exact h ⟨f.toNat, UInt8.toNat_lt f⟩

/-- the verifier never answers `false`: it accepts or fails -/
theorem webauthn_never_false (O : Oracles) (payload key : Bytes) (sd : SigData) :
    verify O payload key sd ≠ .ok false :=
  verify_ne_false O payload key sd

/-- **any change to the payload is rejected**: one assertion (client data, authenticator
data, signature, key) is accepted for at most one payload -/
theorem webauthn_payload_unique (O : Oracles) (p₁ p₂ key : Bytes) (sd : SigData)
    (h₁ : verify O p₁ key sd = .ok true) (h₂ : verify O p₂ key sd = .ok true) : p₁ = p₂ := by
  obtain ⟨_, ⟨j₁, hj₁, _, hc₁⟩, _⟩ := (webauthn_accepts_iff O p₁ key sd).mp h₁
  obtain ⟨_, ⟨j₂, hj₂, _, hc₂⟩, _⟩ := (webauthn_accepts_iff O p₂ key sd).mp h₂
  rw [hj₁] at hj₂; cases hj₂
  exact rfc4648_injective p₁ p₂ (hc₁.symm.trans hc₂)

/-- the example verifier contract: additionally the signature data must decode from XDR and
the key data must hold at least 65 bytes, of which the first 65 are the key -/
theorem webauthn_example_accepts_iff (O : Oracles) (payload keyData sigData : Bytes) :
    exampleVerify O payload keyData sigData = .ok true ↔
      ∃ sd, O.fromXdr sigData = some sd ∧ 65 ≤ keyData.length ∧
        verify O payload (keyData.take 65) sd = .ok true := by
  unfold exampleVerify
  simp only [bind_ok_iff, decodeSigData_ok, extractPubKey_ok]
  constructor
  · rintro ⟨sd, h1, k, ⟨h2, h3⟩, h4⟩; subst h3; exact ⟨sd, h1, h2, h4⟩
  · rintro ⟨sd, h1, h2, h4⟩; exact ⟨sd, h1, _, ⟨h2, rfl⟩, h4⟩

/-! ### concrete instances (non-vacuity) and the regression -/

/-- payload `00 01 … 1f`; its base64url is `AAECAwQFBgcICQoLDA0ODxAREhMUFRYXGBkaGxwdHh8` -/
def exPayload : Bytes := [0, 1, 2, 3, 4, 5, 6, 7, 8, 9, 10, 11, 12, 13, 14, 15, 16, 17, 18, 19, 20, 21,
  22, 23, 24, 25, 26, 27, 28, 29, 30, 31]
def exChallenge : Bytes := [65, 65, 69, 67, 65, 119, 81, 70, 66, 103, 99, 73, 67, 81, 111, 76, 68, 65, 48, 79,
  68, 120, 65, 82, 69, 104, 77, 85, 70, 82, 89, 88, 71, 66, 107, 97, 71, 120, 119, 100, 72, 104, 56]
/-- oracles of a genuine assertion over `exPayload`: the client data parses to
`{type: "webauthn.get", challenge: exChallenge}` and the signature verifies -/
def exOracles : Oracles :=
  { parse := fun _ => some { challenge := exChallenge, typeField := WEBAUTHN_GET }
    sha256 := fun _ => []
    p256Verify := fun _ _ _ => true
    fromXdr := fun _ => none }
/-- 37 bytes of authenticator data, flags byte = `0x1D` (UP, UV, BE, BS) -/
def exAuthData : Bytes := List.replicate 32 0 ++ [0x1D, 0, 0, 0, 1]
def exSig : SigData := { signature := [], authenticatorData := exAuthData, clientData := [] }

/-- a genuine assertion is accepted … -/
example : verify exOracles exPayload [] exSig = .ok true := by decide
/-- … and rejected as soon as one flag is wrong (UV cleared, or BS without BE) -/
example : verify exOracles exPayload [] { exSig with authenticatorData := List.replicate 32 0 ++ [0x19, 0, 0, 0, 1] }
    = .error .verifiedBitNotSet := by decide
example : verify exOracles exPayload [] { exSig with authenticatorData := List.replicate 32 0 ++ [0x15, 0, 0, 0, 1] }
    = .error .backupState := by decide

/-- **regression (defect fixed in /repo):** the original `validate_challenge` extracted
`0..32`, so a 40-byte payload whose first 32 bytes match the challenge was ACCEPTED; the
fixed code rejects it. -/
theorem legacy_accepts_long_payload_counterexample :
    (exPayload ++ [32, 33, 34, 35, 36, 37, 38, 39]).length = 40 ∧
    verifyLegacy exOracles (exPayload ++ [32, 33, 34, 35, 36, 37, 38, 39]) [] exSig = .ok true ∧
    verify exOracles (exPayload ++ [32, 33, 34, 35, 36, 37, 38, 39]) [] exSig = .error .payloadInvalid := by
  decide

end OZ.WebAuthn

namespace OZ.Ed25519Verifier
open OZ.B64

/-- **C18, Ed25519.** accepted exactly when the host's Ed25519 verification of the payload
under the given key and signature succeeds -/
theorem ed25519_accepts_iff (ed : Bytes → Bytes → Bytes → Bool) (payload key sig : Bytes) :
    verify ed payload key sig = .ok true ↔ ed key payload sig = true := by
  unfold verify
  split
  · next h => exact ⟨fun _ => h, fun _ => rfl⟩
  · next h => constructor
              · intro h'; cases h'
              · intro h'; exact absurd h' h

theorem ed25519_never_false (ed : Bytes → Bytes → Bytes → Bool) (payload key sig : Bytes) :
    verify ed payload key sig ≠ .ok false := by
  unfold verify
  split <;> intro h <;> cases h

/-- the example contract adds nothing and removes nothing -/
theorem ed25519_example_accepts_iff (ed : Bytes → Bytes → Bytes → Bool) (payload key sig : Bytes) :
    exampleVerify ed payload key sig = .ok true ↔ ed key payload sig = true :=
  ed25519_accepts_iff ed payload key sig

example : verify (fun k m s => k == [1] && m == [2] && s == [3]) [2] [1] [3] = .ok true := by decide
example : verify (fun k m s => k == [1] && m == [2] && s == [3]) [2, 0] [1] [3] = .error .crypto := by decide

end OZ.Ed25519Verifier
