import OZ.Lemmas.RegClaims
/-
C20 (g): the identity-claims registry (`Claim(id) -> Claim`, `ClaimsByTopic(topic) -> Vec<id>`,
`id = keccak256(issuer || topic)` taken as the pair `(issuer, topic)`) represents the plain
finite map  id ↦ getClaim s id  under ANY history of `add_claim` / `remove_claim` (arbitrary
arguments, an arbitrary oracle `valid` for the issuer's `is_claim_valid`, failed calls rolled
back), and the per-topic index enumerates the claims of a topic exactly once.
-/
namespace OZ.Props.C20g
open OZ.Reg OZ.RegClaims

/-- **claims_refines.** After any history `get_claim_ids_by_topic(t)` lists exactly the ids of
the stored claims with topic `t`, each once; a stored claim's id is its (issuer, topic). -/
theorem claims_refines (valid : Valid) (ops : List Op) :
    let s := run valid init ops
    (∀ t, (getClaimIdsByTopic s t).Nodup ∧
          ∀ id, id ∈ getClaimIdsByTopic s t ↔ ∃ c, getClaim s id = some c ∧ c.topic = t) ∧
    (∀ id c, getClaim s id = some c → id = (c.issuer, c.topic)) := by
  intro s
  have hI : Inv s := inv_run valid inv_init ops
  refine ⟨fun t => ⟨hI.nodup t, hI.mem t⟩, fun id c h => ?_⟩
  obtain ⟨h1, h2⟩ := hI.key id c h
  rw [h1, h2]

/-- **claims_abs_step.** The represented map moves exactly as a plain map does: an accepted
`add_claim` binds `(issuer, topic)` to the new claim (inserting or updating in place), an
accepted `remove_claim` unbinds its id; nothing else changes. -/
theorem claims_abs_step (valid : Valid) (s : State) :
    (∀ t sc i sg d u s', addClaim valid s t sc i sg d u = .ok s' →
      ∀ id, getClaim s' id = if id = (i, t) then some ⟨t, sc, i, sg, d, u⟩ else getClaim s id) ∧
    (∀ id s', removeClaim s id = .ok s' → ∀ id', getClaim s' id' = if id' = id then none else getClaim s id') ∧
    (∀ o e, step valid s o = .error e → next valid s o = s) := by
  refine ⟨?_, ?_, ?_⟩
  · intro t sc i sg d u s' hok id
    obtain ⟨_, rfl⟩ := (addClaim_ok_iff valid s s' t sc i sg d u).1 hok
    unfold getClaim added
    split <;> simp [updD]
  · intro id s' hok id'
    obtain ⟨c, _, rfl⟩ := (removeClaim_ok_iff s s' id).1 hok
    unfold getClaim removed removeFromIndex
    split <;> simp [updD]
  · intro o e he
    simp [next, he]

/-- **claims_update_in_place** (the registry's answer to a duplicate): adding a claim for an
(issuer, topic) that already has one replaces it and leaves every topic index as it was. -/
theorem claims_update_in_place (valid : Valid) (s : State) (t sc i sg d u : Nat) (s' : State)
    (hex : (getClaim s (i, t)).isSome = true) (hok : addClaim valid s t sc i sg d u = .ok s') :
    ∀ t', getClaimIdsByTopic s' t' = getClaimIdsByTopic s t' := by
  obtain ⟨_, rfl⟩ := (addClaim_ok_iff valid s s' t sc i sg d u).1 hok
  intro t'
  unfold getClaimIdsByTopic added
  have hex' : (s.claim (i, t)).isSome = true := hex
  simp only [hex', if_true]

/-- **claims_absent_refused.** An id without a claim cannot be removed; an invalid claim is not
stored. -/
theorem claims_absent_refused (valid : Valid) (s : State) :
    (∀ id, getClaim s id = none → ∃ e, removeClaim s id = .error e) ∧
    (∀ t sc i sg d u, valid i t sc sg d = false → ∃ e, addClaim valid s t sc i sg d u = .error e) := by
  constructor
  · intro id h
    exact err_of_not_ok (fun s' hok => by
      obtain ⟨c, hc, _⟩ := (removeClaim_ok_iff s s' id).1 hok
      unfold getClaim at h; rw [hc] at h; cases h)
  · intro t sc i sg d u hv
    exact err_of_not_ok (fun s' hok => by
      have := ((addClaim_ok_iff valid s s' t sc i sg d u).1 hok).1; rw [hv] at this; cases this)

/-- **claims_enumerates_once.** In a reachable state index access into `ClaimsByTopic(t)` is a
bijection between `0 .. len-1` and the ids of the stored claims with topic `t`. -/
theorem claims_enumerates_once (valid : Valid) (s : State) (hs : Reachable valid s) (t : Nat) :
    (∀ id, (∃ c, getClaim s id = some c ∧ c.topic = t) ↔ ∃ i : Nat, (getClaimIdsByTopic s t)[i]? = some id) ∧
    (∀ (i j : Nat) id, (getClaimIdsByTopic s t)[i]? = some id → (getClaimIdsByTopic s t)[j]? = some id → i = j) := by
  have hI := reachable_inv hs
  refine ⟨fun id => ?_, nodup_index_inj _ (hI.nodup t)⟩
  rw [← List.mem_iff_getElem?]
  exact (hI.mem t id).symm

/-! ### non-vacuity -/

example :
    let v : Valid := fun _ _ _ _ d => d != 0
    let s := run v init [.add 0 1 5 1 1 1, .add 0 1 6 1 1 1, .add 0 2 5 9 9 9, .add 0 1 7 1 0 1, .remove (5, 0), .add 1 1 5 2 2 2]
    getClaimIdsByTopic s 0 = [(6, 0)] ∧ getClaimIdsByTopic s 1 = [(5, 1)] ∧
    (getClaim s (6, 0)).map (·.scheme) = some 1 ∧ (getClaim s (5, 0)).isNone = true ∧
    (getClaim s (7, 0)).isNone = true := by decide +kernel

end OZ.Props.C20g
