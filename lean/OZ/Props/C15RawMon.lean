import OZ.Model.OpaqueVerify
/-
C15 — soundness of the monitor of the opaque-issuer run (OZ/Model/OpaqueVerify.lean, harness/src/bin/c15raw.rs,
driver OZ/Drv/C15Raw.lean): fed with the MODEL's own observations of any finite history of registry changes,
issuer confirmations, claims and clock movements, the monitor reports nothing; and the model's `verify_identity`
is the property's first sentence read literally (`verifyM_iff`).
Property theorems only.
-/
namespace OZ.OpaqueVerify
open OZ.Reg OZ.RegTopics

/-- **C15, first sentence, on the model**: verification succeeds exactly when every registered topic has at least
one trusted issuer and, among its trusted issuers, one whose claim for that topic the issuer confirms -/
theorem verifyM_iff (s : State) (l : List (Nat × List Nat)) (h : getClaimTopicsAndIssuers s.reg = some l) :
    verifyM s = true ↔ ∀ p ∈ l, p.2 ≠ [] ∧ ∃ i ∈ p.2, counts s i p.1 = true := by
  unfold verifyM
  rw [h]
  simp only [List.all_eq_true, Bool.and_eq_true, Bool.not_eq_true', List.isEmpty_eq_false_iff, List.any_eq_true]

/-- the monitor run over a whole history of model observations: first message, if any -/
def monRun : State → State → List Op → Option String
  | _, _, [] => none
  | g, s, op :: rest =>
    match apply s op with
    | some s' =>
      (match (checkCore g op (modelObs s' true)).2 with
       | some m => some m
       | none => monRun (checkCore g op (modelObs s' true)).1 s' rest)
    | none =>
      (match (checkCore g op (modelObs s false)).2 with
       | some m => some m
       | none => monRun (checkCore g op (modelObs s false)).1 s rest)

/-- **monitor soundness**: for every start time and every finite history, the monitor reports nothing on the
model's observations -/
theorem monitor_accepts_every_model_trace (ts0 : Nat) (ops : List Op) : monRun (init ts0) (init ts0) ops = none := by
  suffices h : ∀ s, monRun s s ops = none from h _
  induction ops with
  | nil => intro s; rfl
  | cons op rest ih =>
    intro s
    unfold monRun
    cases ha : apply s op with
    | some s' =>
      have hg : ghostStep s op true = s' := by simp [ghostStep, step, ha]
      simp only [checkCore, modelObs, hg, ne_eq, not_true_eq_false, ↓reduceIte]
      exact ih s'
    | none =>
      have hg : ghostStep s op false = s := rfl
      simp only [checkCore, modelObs, hg, ne_eq, not_true_eq_false, ↓reduceIte]
      exact ih s

/-- non-vacuity: a claim with opaque data counts while its issuer is trusted for the topic and confirms it -/
example :
    let ops := [Op.topic 1 true, .trust 0 [1], .confirm 0 1 1 true, .claim 0 1 1, .time 5000000]
    verifyM (ops.foldl step (init 1000000)) = true ∧
    verifyM ((ops ++ [Op.confirm 0 1 1 false]).foldl step (init 1000000)) = false ∧
    verifyM ((ops ++ [Op.trust 0 []]).foldl step (init 1000000)) = false := by
  decide

end OZ.OpaqueVerify
