import OZ.Props.C02Gen
/-
C01 — for EVERY finite history of the entry points AS TRANSLATED FROM THE SOURCE.

OZ/Props/C01Gen.lean proves that one generated `Base::update` keeps "balances sum to the supply".  Here the
statement is lifted to histories: any finite sequence of calls of the six generated state-changing entry points
(`transfer`, `transfer_from`, `approve`, `mint` of fungible/storage.rs; `burn`, `burn_from` of
extensions/burnable/storage.rs — lean/OZ/Gen/Fungible.lean, regenerated on every run), each at its own ledger
and under its own authorization predicate, with arbitrary arguments, a rejected call leaving the store as it
was (the host's rollback): if the balances of the start store are non-negative, zero outside the duplicate-free
universe `U` and sum to the stored supply, the same holds after the history (`gen_history_conserves`), and the
supply moved by exactly the accepted mints minus the accepted burns (`gen_history_supply`).  Induction over the
call list; nothing is bounded.  Property theorems only.
-/
namespace OZ.Gen.Fungible
open OZ.Rs OZ.Host

/-- an accepted `update` leaves a store of i128 values -/
theorem update_range (envr : Fungible.Reads) (st st' : Fungible.Store) (hR : InRange st)
    (frm to : Option Nat) (amount : Int) (h : Fungible.update envr st frm to amount = .ok ((), st')) :
    InRange st' := by
  have hu := update_eq envr st (storeState st) (abs_storeState st) hR frm to amount
  cases hm : OZ.Fungible.update (storeState st) frm to amount with
  | error e => rw [hm] at hu; rw [hu] at h; cases h
  | ok s' =>
    rw [hm] at hu
    obtain ⟨st'', h1, _, h3, _⟩ := hu
    rw [h1] at h
    have : st'' = st' := by injection h with h'; injection h'
    rw [← this]; exact h3

/-- the accounts a call names as sender / recipient of tokens -/
def parties : Call → List Nat
  | .transfer f t _ => [f, t]
  | .transferFrom _ f t _ => [f, t]
  | .burn f _ => [f]
  | .burnFrom _ f _ => [f]
  | .approve _ _ _ _ => []
  | .mint t _ => [t]

/-- what an accepted call does to the supply -/
def supplyDelta : Call → Int
  | .mint _ a => a
  | .burn _ a => -a
  | .burnFrom _ _ a => -a
  | _ => 0

/-- a store whose allowance entries were changed only: same balances, same supply -/
theorem storeState_of_frame {st st1 : Fungible.Store} (hb : st1.Balance = st.Balance) (hs : st1.TotalSupply = st.TotalSupply) :
    storeState st1 = storeState st := by
  unfold storeState; rw [hb, hs]

/-- **one accepted call** keeps the invariant and moves the supply by `supplyDelta` -/
theorem gen_call_conserves (envr : Fungible.Reads) {U : List Nat} (hn : U.Nodup) (st st' : Fungible.Store)
    (hR : InRange st) (hi : OZ.Fungible.Inv U (storeState st)) (c : Call) (hp : ∀ a ∈ parties c, a ∈ U)
    (h : run envr st c = .ok ((), st')) :
    InRange st' ∧ OZ.Fungible.Inv U (storeState st') ∧
    (storeState st').supply = (storeState st).supply + supplyDelta c := by
  have upd : ∀ (s0 : Fungible.Store) (frm to : Option Nat) (a : Int), InRange s0 → OZ.Fungible.Inv U (storeState s0) →
      (∀ x, frm = some x → x ∈ U) → (∀ x, to = some x → x ∈ U) →
      Fungible.update envr s0 frm to a = .ok ((), st') →
      InRange st' ∧ OZ.Fungible.Inv U (storeState st') ∧
      (storeState st').supply = (storeState s0).supply + (if frm = none then a else 0) - (if to = none then a else 0) := by
    intro s0 frm to a hR0 hi0 hf ht hu
    obtain ⟨h1, h2⟩ := gen_update_conserves envr hn s0 st' hR0 hi0 frm to a hf ht hu
    exact ⟨update_range envr s0 st' hR0 frm to a hu, h1, h2⟩
  have viaSpend : ∀ (sp f : Nat) (to : Option Nat) (a : Int), f ∈ U → (∀ x, to = some x → x ∈ U) →
      (if envr.authorized sp = true then
        Comp.bind (Fungible.spend_allowance envr st f sp a) fun t1 =>
          Comp.bind (Fungible.update envr t1.2 (some f) to a) fun t2 => Comp.ok ((), t2.2) else Comp.panic) = .ok ((), st') →
      InRange st' ∧ OZ.Fungible.Inv U (storeState st') ∧
      (storeState st').supply = (storeState st).supply + 0 - (if to = none then a else 0) := by
    intro sp f to a hfU htU hh
    obtain ⟨_, st1, hs, hu⟩ := gen_delegated_needs_spender envr st st' sp f to a hh
    obtain ⟨hb, hts, _⟩ := gen_spend_frame envr st st1 f sp a hs
    have hR1 : InRange st1 := ⟨by rw [hb]; exact hR.1, by rw [hts]; exact hR.2⟩
    have hss : storeState st1 = storeState st := storeState_of_frame hb hts
    have hi1 : OZ.Fungible.Inv U (storeState st1) := by rw [hss]; exact hi
    have := upd st1 (some f) to a hR1 hi1 (fun x hx => by injection hx with hx; rw [← hx]; exact hfU) htU hu
    rw [hss] at this
    simpa using this
  cases c with
  | transfer f t a =>
    simp only [run, Fungible.transfer] at h
    obtain ⟨_, hu⟩ := gen_direct_needs_holder envr st st' f (some t) a h
    have := upd st (some f) (some t) a hR hi
      (fun x hx => by injection hx with hx; rw [← hx]; exact hp f (by simp [parties]))
      (fun x hx => by injection hx with hx; rw [← hx]; exact hp t (by simp [parties])) hu
    simpa [supplyDelta] using this
  | burn f a =>
    simp only [run, Fungible.burn] at h
    obtain ⟨_, hu⟩ := gen_direct_needs_holder envr st st' f none a h
    have := upd st (some f) none a hR hi
      (fun x hx => by injection hx with hx; rw [← hx]; exact hp f (by simp [parties]))
      (fun x hx => by cases hx) hu
    simp [supplyDelta] at this ⊢
    obtain ⟨h1, h2, h3⟩ := this
    exact ⟨h1, h2, by rw [h3]; omega⟩
  | transferFrom sp f t a =>
    have := viaSpend sp f (some t) a (hp f (by simp [parties]))
      (fun x hx => by injection hx with hx; rw [← hx]; exact hp t (by simp [parties])) h
    simpa [supplyDelta] using this
  | burnFrom sp f a =>
    have := viaSpend sp f none a (hp f (by simp [parties])) (fun x hx => by cases hx) h
    simp [supplyDelta] at this ⊢
    obtain ⟨h1, h2, h3⟩ := this
    exact ⟨h1, h2, by rw [h3]; omega⟩
  | approve o sp a lu =>
    simp only [run, Fungible.approve] at h
    by_cases ha : envr.authorized o = true
    · rw [if_pos ha] at h
      have hs := bind_snd_ok h
      have hst := (gen_set_allowance_sound envr st st' o sp a lu hs).2.2.2
      have hss : storeState st' = storeState st := by rw [hst]; rfl
      refine ⟨?_, by rw [hss]; exact hi, by rw [hss]; simp [supplyDelta]⟩
      rw [hst]; exact ⟨hR.1, hR.2⟩
    · rw [if_neg ha] at h; cases h
  | mint t a =>
    simp only [run, Fungible.mint] at h
    have hu := bind_snd_ok h
    have := upd st none (some t) a hR hi (fun x hx => by cases hx)
      (fun x hx => by injection hx with hx; rw [← hx]; exact hp t (by simp [parties])) hu
    simpa [supplyDelta] using this

/-- one step of a history: the call at its own ledger / authorizations; a rejected call changes nothing -/
def step (st : Fungible.Store) (ec : Fungible.Reads × Call) : Fungible.Store :=
  match run ec.1 st ec.2 with
  | .ok r => r.2
  | .panic => st

def runAll (st : Fungible.Store) (cs : List (Fungible.Reads × Call)) : Fungible.Store := cs.foldl step st

/-- the supply change a history accounts for: the deltas of its ACCEPTED calls -/
def accounted : Fungible.Store → List (Fungible.Reads × Call) → Int
  | _, [] => 0
  | st, ec :: rest =>
    (match run ec.1 st ec.2 with
      | .ok _ => supplyDelta ec.2
      | .panic => 0) + accounted (step st ec) rest

/-- **C01 for every history of the generated entry points**: balances stay non-negative, zero outside `U`
and sum to the supply, whatever the calls, their arguments, ledgers and authorizations -/
theorem gen_history_conserves {U : List Nat} (hn : U.Nodup) (cs : List (Fungible.Reads × Call)) :
    ∀ (st : Fungible.Store), InRange st → OZ.Fungible.Inv U (storeState st) →
      (∀ ec ∈ cs, ∀ a ∈ parties ec.2, a ∈ U) →
      InRange (runAll st cs) ∧ OZ.Fungible.Inv U (storeState (runAll st cs)) ∧
      (storeState (runAll st cs)).supply = (storeState st).supply + accounted st cs := by
  induction cs with
  | nil => intro st hR hi _; exact ⟨hR, hi, by simp [runAll, accounted]⟩
  | cons ec rest ih =>
    intro st hR hi hp
    have hp1 : ∀ a ∈ parties ec.2, a ∈ U := hp ec (by simp)
    have hp2 : ∀ e ∈ rest, ∀ a ∈ parties e.2, a ∈ U := fun e he => hp e (by simp [he])
    have hcons : runAll st (ec :: rest) = runAll (step st ec) rest := rfl
    rw [hcons]
    cases hr : run ec.1 st ec.2 with
    | panic =>
      have hs : step st ec = st := by unfold step; rw [hr]
      have := ih st hR hi hp2
      rw [hs]
      refine ⟨this.1, this.2.1, ?_⟩
      rw [this.2.2]
      simp only [accounted, hr, hs]; omega
    | ok r =>
      obtain ⟨u, st'⟩ := r
      have hs : step st ec = st' := by unfold step; rw [hr]
      obtain ⟨hR', hi', hsup⟩ := gen_call_conserves ec.1 hn st st' hR hi ec.2 hp1 hr
      have := ih st' hR' hi' hp2
      rw [hs]
      refine ⟨this.1, this.2.1, ?_⟩
      rw [this.2.2, hsup]
      simp only [accounted, hr, hs]; omega

/-- in particular: a history without accepted mints and burns never changes the supply -/
theorem gen_history_supply {U : List Nat} (hn : U.Nodup) (cs : List (Fungible.Reads × Call)) (st : Fungible.Store)
    (hR : InRange st) (hi : OZ.Fungible.Inv U (storeState st)) (hp : ∀ ec ∈ cs, ∀ a ∈ parties ec.2, a ∈ U) :
    (st.TotalSupply.getD 0) + accounted st cs = (runAll st cs).TotalSupply.getD 0 :=
  ((gen_history_conserves hn cs st hR hi hp).2.2).symm

/-! ### non-vacuity (tests, labelled as such): a history runs -/
example :
    let e : Fungible.Reads := ⟨5, 100, fun _ => true⟩
    let st := runAll ⟨fun _ => none, none, fun _ => none⟩
      [(e, .mint 1 100), (e, .transfer 1 2 30), (e, .approve 1 3 50 20), (e, .transferFrom 3 1 2 40),
       (e, .burn 2 10), (e, .transfer 2 1 1000)]
    (st.Balance 1, st.Balance 2, st.TotalSupply) = (some 30, some 60, some 90) := by decide

end OZ.Gen.Fungible
