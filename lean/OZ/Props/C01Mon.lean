import OZ.Props.C01
import OZ.Lemmas.FungibleMon
/-
C01 — soundness of the MONITOR that decides the property on implementation traces.

`./check C01` reports a concrete violation of the Base-token part exactly when
`OZ.FungibleMon.Supply.checkCore` (the driver's monitor on parsed values, OZ/Model/FungibleMon.lean)
returns a message on the implementation's observations. Here it is proved that on the observations
of the MODEL the monitor never returns a message, for every host configuration, every start
ledger, every size `n` of the observed universe and every finite history whose addresses lie in
that universe (`monitor_accepts_every_model_trace`). Consequences:

  * an implementation whose observations agree with the model's (the correspondence the check
    establishes by differential testing) can never raise a monitor alarm — a monitor failure is
    never a false alarm of the monitor itself;
  * every conclusion the monitor evaluates (Σ balances = total_supply; no negative balance; a
    rejected call changes neither supply, balances nor allowances; mint / burn / burn_from move the
    supply by exactly ±amount, transfer / transfer_from / approve / ledger movement not at all;
    the list-level replay of the emitted events from genesis reproduces the printed balances) is a
    THEOREM about the model, in the monitor's own executable wording.

The model observation `OZ.FungibleMon.stepObs` used here IS the data the driver's model side
prints: `FungibleIO.stepLine` is `showObs (stepObs cfg n s auth op mauth)` after parsing the op
line, and `lineOf auth op` is what `FungibleIO.parseLine` reads from that op line (kind, `a=`,
`auth=`, `amt=`, and `lu=` of an approve).

Hypothesis `hU` (all addresses of the history are < n): the observation line prints the balances
of the universe 0..n-1 only, so "the balances sum to the supply" can be decided from it only when
no tokens sit outside; the harness draws every address from that universe (and so does the
assumption of `inv_reachable` in OZ/Props/C01.lean). `sum_needs_closed_universe` shows the
hypothesis cannot be dropped.

Property theorems only; helper facts come from OZ/Lemmas/FungibleMon.lean.
-/
namespace OZ.FungibleMon.Supply
open OZ.Host OZ.Fungible OZ.FungibleMon

/-- monitor state and model state describe the same point of a history: the previous observation
(or the empty token before the first call) shows the model state, and the balances reconstructed
from the events are the model's balances -/
structure Agree (n : Nat) (m : Mon) (s : State) : Prop where
  size : m.n = n
  sup : (m.prev.getD (zeroObs m.n)).sup = s.supply
  bal : (m.prev.getD (zeroObs m.n)).bal = balList n s
  allow : (m.prev.getD (zeroObs m.n)).allow = allowList n s
  replay : m.replay = balList n s

/-- what is known of every reachable model state: the C01 invariant over the observed universe
(`inv_reachable`) and that its event log replays to its balances (`replay_events`) -/
structure Good (n : Nat) (s : State) : Prop where
  inv : Inv (List.range n) s
  replay : replay s.events = s.bal

/-- the supply movement of an accepted call, by the kind printed on the op line -/
theorem supply_moves_by_kind {c : Cfg} {n : Nat} {s s' : State} (hi : Inv (List.range n) s)
    {auth : List Nat} {op : Op} (hU : ∀ a ∈ op.addrs, a < n) (h : apply c s auth op = .ok s') :
    (kindOf op = .mint → s'.supply = s.supply + amtOf op) ∧
    ((kindOf op = .burn ∨ kindOf op = .burnFrom) → s'.supply = s.supply - amtOf op) ∧
    ((kindOf op = .transfer ∨ kindOf op = .transferFrom ∨ kindOf op = .approve ∨ kindOf op = .advance) →
      s'.supply = s.supply) := by
  have hd := (apply_inv List.nodup_range c hi auth op (fun a ha => List.mem_range.mpr (hU a ha)) h).2
  cases op <;> simp [kindOf, amtOf, supplyDelta] at hd ⊢ <;> omega

/-- **one call**: fed with the model's own observation of any call (accepted or rejected, with or
without the mint guard), the monitor reports nothing, its state keeps describing the model's, and
the model state stays good -/
theorem monitor_sound_step (c : Cfg) (n : Nat) {m : Mon} {s : State} (hg : Good n s) (ha : Agree n m s)
    (auth : List Nat) (op : Op) (mauth : Option Nat) (hU : ∀ a ∈ op.addrs, a < n) :
    (checkCore m (lineOf auth op) (stepObs c n s auth op mauth).2).2 = none ∧
    Agree n (checkCore m (lineOf auth op) (stepObs c n s auth op mauth).2).1 (stepObs c n s auth op mauth).1 ∧
    Good n (stepObs c n s auth op mauth).1 := by
  obtain ⟨hn, hsup, hbal, hallow, hrep⟩ := ha
  cases hx : applyG c s auth op mauth with
  | error e =>
    have hs : stepObs c n s auth op mauth = (s, obsErr n s) := by unfold stepObs; rw [hx]
    rw [hs]
    refine ⟨?_, ⟨hn, rfl, rfl, rfl, hrep⟩, hg⟩
    show verdict (m.prev.getD (zeroObs m.n)) (lineOf auth op) m.replay (obsErr n s) = none
    apply verdict_none
    · exact vSum_none hg.inv.sum
    · exact vNegative_none (balList_nonneg hg.inv.nonneg)
    · exact vRollback_none (fun _ => ⟨hsup.symm, hbal.symm, hallow.symm⟩)
    · exact vMint_none (fun h => by cases h)
    · exact vBurn_none (fun h => by cases h)
    · exact vSame_none (fun h => by cases h)
    · exact vReplay_none hrep
  | ok s' =>
    have hs : stepObs c n s auth op mauth = (s', obsOk n s s' op mauth) := by unfold stepObs; rw [hx]
    rw [hs]
    have hap := applyG_ok hx
    obtain ⟨hi', -⟩ := apply_inv List.nodup_range c hg.inv auth op (fun a ha => List.mem_range.mpr (hU a ha)) hap
    have hr' := apply_replay c auth op hg.replay hap
    obtain ⟨k1, k2, k3⟩ := supply_moves_by_kind hg.inv hU hap
    have hrep' : (newEvents s s').foldl replayEv m.replay = balList n s' := by
      rw [hrep]
      show List.foldl replayEv ((List.range n).map s.bal) _ = _
      rw [foldl_replayEv_map, replay_step hg.replay hr' hap]
      rfl
    refine ⟨?_, ⟨hn, rfl, rfl, rfl, hrep'⟩, ⟨hi', hr'⟩⟩
    show verdict (m.prev.getD (zeroObs m.n)) (lineOf auth op) ((newEvents s s').foldl replayEv m.replay)
      (obsOk n s s' op mauth) = none
    apply verdict_none
    · exact vSum_none hi'.sum
    · exact vNegative_none (balList_nonneg hi'.nonneg)
    · exact vRollback_none (fun h => by cases h)
    · exact vMint_none (fun _ hk => by rw [hsup]; exact k1 hk)
    · exact vBurn_none (fun _ hk => by rw [hsup]; exact k2 hk)
    · exact vSame_none (fun _ hk => by rw [hsup]; exact k3 hk)
    · exact vReplay_none hrep'

/-- the monitor run over a whole history of model observations: first message, if any. A history
item is (authorizing addresses, operation, `mauth=` guard of the line if any). -/
def monitorRun (c : Cfg) (n : Nat) : Mon → State → List (List Nat × Op × Option Nat) → Option String
  | _, _, [] => none
  | m, s, x :: xs =>
    match (checkCore m (lineOf x.1 x.2.1) (stepObs c n s x.1 x.2.1 x.2.2).2).2 with
    | some msg => some msg
    | none => monitorRun c n (checkCore m (lineOf x.1 x.2.1) (stepObs c n s x.1 x.2.1 x.2.2).2).1
        (stepObs c n s x.1 x.2.1 x.2.2).1 xs

/-- the monitor's initial state for a sequence (what the driver's `minit` builds from the label:
`n` = `n=` of the label, default 5) -/
def monInit (n : Nat) : Mon := { prev := none, replay := List.replicate n 0, n := n }

/-- **monitor soundness**: for every host configuration, start ledger, universe size and finite
history over that universe — any amounts, any authorizing subsets, guarded or unguarded mints, any
ledger movement — the monitor reports nothing on the model's observations. (`init start` and
`c` are what the driver's `init` builds from the label, `monInit n` what `minit` builds.) -/
theorem monitor_accepts_every_model_trace (c : Cfg) (start n : Nat)
    (ops : List (List Nat × Op × Option Nat)) (hU : ∀ x ∈ ops, ∀ a ∈ x.2.1.addrs, a < n) :
    monitorRun c n (monInit n) (init start) ops = none := by
  suffices ∀ m s, Good n s → Agree n m s → monitorRun c n m s ops = none from
    this _ _ ⟨init_inv _ start, by simp [init, replay]⟩
      ⟨rfl, rfl, (balList_init n start).symm, (allowList_init n start).symm, (balList_init n start).symm⟩
  induction ops with
  | nil => intro m s _ _; rfl
  | cons x xs ih =>
    intro m s hg ha
    obtain ⟨h1, h2, h3⟩ := monitor_sound_step c n hg ha x.1 x.2.1 x.2.2 (hU x List.mem_cons_self)
    unfold monitorRun
    rw [h1]
    exact ih (fun y hy => hU y (List.mem_cons_of_mem _ hy)) _ _ h3 h2

/-! ### findings about the monitor (tests, labelled as such)

1. Before this work item the C01 monitor took the size of the universe to be 5 whatever the
   sequence label said, while the model side (`FungibleIO.initM`) honours `n=<k>`: on a model trace
   of a sequence labelled `n=7` the legacy monitor state (`replay` of length 5) reports
   `site=fungible.replay` on the very first call. The monitor now reads `n=` (driver `minit`). -/

example :
    (checkCore { prev := none, replay := List.replicate 5 0, n := 5 } (lineOf [] (.mint 0 1000))
      (stepObs ⟨1, 200000⟩ 7 (init 100) [] (.mint 0 1000) none).2).2.isSome = true := by
  simp [checkCore, verdict, orElse, vSum, vNegative, vRollback, vMint, vBurn, vSame, vReplay, stepObs, applyG,
    guarded, effMauth, apply, mint, update, debit, credit, init, emit, obsOk, balList, allowList, newEvents,
    lineOf, kindOf, amtOf, zeroObs, List.range, List.range.loop, replayEv, addAt, upd, in128, I128_MIN, I128_MAX,
    bind, Except.bind, pure, Except.pure, allowance, allowanceData, Temp.get?]

/-- 2. the hypothesis that the history stays inside the observed universe cannot be dropped: after
a mint to account 7 with only accounts 0..4 observed, the model's own observation shows supply 1
and balances summing to 0 — the monitor (rightly, from what it sees) reports `site=fungible.sum` -/
theorem sum_needs_closed_universe :
    (monitorRun ⟨1, 200000⟩ 5 (monInit 5) (init 100) [([], .mint 7 1, none)]).isSome = true := by
  simp [monitorRun, monInit, checkCore, verdict, orElse, vSum, stepObs, applyG, guarded, effMauth, apply, mint, update,
    debit, credit, init, emit, obsOk, balList, List.range, List.range.loop, upd, in128, I128_MIN, I128_MAX,
    bind, Except.bind, pure, Except.pure]

/-! ### non-vacuity (tests, labelled as such): the monitor is not trivially silent — on an
observation in which a self-transfer inflated the balance (seeded change C01-1) it fires -/

example :
    (checkCore { prev := some ⟨true, 1000, [1000, 0, 0, 0, 0], [], 100, [], []⟩, replay := [1000, 0, 0, 0, 0], n := 5 }
      (lineOf [0] (.transfer 0 0 1000))
      ⟨true, 1000, [2000, 0, 0, 0, 0], [], 100, [.transfer 0 0 1000], [0]⟩).2.isSome = true := by
  simp [checkCore, verdict, orElse, vSum]

end OZ.FungibleMon.Supply
