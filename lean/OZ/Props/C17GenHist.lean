import OZ.Props.C17GenDist
/-
C17 — "each leaf is claimed at most once", for EVERY finite history of the distributor functions AS TRANSLATED.

Histories of the generated `set_root`, `verify_and_set_claimed`, `verify_with_index_and_set_claimed`
(lean/OZ/Gen/Distributor.lean, regenerated on every run), with arbitrary roots, leaves and proofs, a rejected
call leaving the store unchanged.  Induction over the call list:
* `gen_mark_forever` — a marked index stays marked after every further history (root changes included);
* `gen_claim_at_most_once` — after an accepted claim of a leaf, every later claim (either form, any proof, any
  root set in between) of a leaf with the same index is refused;
* `gen_mark_needs_claim` — an index unmarked at the start and marked at the end was marked by an accepted
  claim of that history whose proof the generated verifier accepted against the root stored at that moment.
Property theorems only.
-/
namespace OZ.Gen.Distributor
open OZ.Rs

inductive DOp where
  | setRoot (r : B32)
  | claim (leaf : Nat) (proof : List B32)
  | claimIdx (leaf : Nat) (proof : List B32)

def isMarked (st : Distributor.Store) (i : Nat) : Bool := (st.Claimed i).getD false

def stepD (envr : Distributor.Reads) (st : Distributor.Store) : DOp → Distributor.Store
  | .setRoot r => match Distributor.set_root envr st r with | .ok x => x.2 | .panic => st
  | .claim l p => match Distributor.verify_and_set_claimed envr st l p with | .ok x => x.2 | .panic => st
  | .claimIdx l p => match Distributor.verify_with_index_and_set_claimed envr st l p with | .ok x => x.2 | .panic => st

def runD (envr : Distributor.Reads) (st : Distributor.Store) (cs : List DOp) : Distributor.Store :=
  cs.foldl (stepD envr) st

/-- what an accepted positional claim does (the sorted form is `gen_claim_sound`) -/
theorem gen_claim_idx_sound (envr : Distributor.Reads) (st st' : Distributor.Store) (leaf : Nat) (proof : List B32)
    (h : Distributor.verify_with_index_and_set_claimed envr st leaf proof = .ok ((), st')) :
    ∃ root, st.Root = some root ∧ (st.Claimed (envr.leaf_index leaf)).getD false = false ∧
      Merkle.verify_with_index envr.merkle proof root (envr.leaf_hash leaf) (envr.leaf_index leaf) = .ok true ∧
      st' = Distributor.Store.set_Claimed st (envr.leaf_index leaf) true := by
  unfold Distributor.verify_with_index_and_set_claimed Distributor.get_verification_args Distributor.get_root at h
  cases hr : st.Root with
  | none => rw [hr] at h; cases h
  | some root =>
    rw [hr] at h
    simp only [Comp.unwrap_some, Comp.bind_ok, is_claimed_eq] at h
    cases hc : (st.Claimed (envr.leaf_index leaf)).getD false with
    | true => rw [hc] at h; simp at h
    | false =>
      rw [hc] at h
      simp only [Bool.false_eq_true, if_false] at h
      cases hv : Merkle.verify_with_index envr.merkle proof root (envr.leaf_hash leaf) (envr.leaf_index leaf) with
      | panic => rw [hv] at h; cases h
      | ok b =>
        rw [hv] at h
        simp only [Comp.bind_ok] at h
        cases b with
        | false => simp at h
        | true =>
          simp only [if_true, Distributor.set_claimed, Comp.bind_ok] at h
          injection h with h'; injection h' with _ h''
          exact ⟨root, rfl, rfl, hv, h''.symm⟩

theorem marked_set (st : Distributor.Store) (i j : Nat) :
    isMarked (Distributor.Store.set_Claimed st i true) j = (if j = i then true else isMarked st j) := by
  unfold isMarked Distributor.Store.set_Claimed
  by_cases h : j = i <;> simp [h]

theorem step_keeps_mark (envr : Distributor.Reads) (st : Distributor.Store) (op : DOp) (j : Nat)
    (hj : isMarked st j = true) : isMarked (stepD envr st op) j = true := by
  cases op with
  | setRoot r => simp only [stepD, Distributor.set_root]; exact hj
  | claim l p =>
    simp only [stepD]
    cases hx : Distributor.verify_and_set_claimed envr st l p with
    | panic => exact hj
    | ok x =>
      obtain ⟨u, st'⟩ := x
      obtain ⟨_, _, _, _, hst⟩ := gen_claim_sound envr st st' l p hx
      show isMarked st' j = true
      rw [hst, marked_set]; by_cases he : j = envr.leaf_index l <;> simp [he, hj]
  | claimIdx l p =>
    simp only [stepD]
    cases hx : Distributor.verify_with_index_and_set_claimed envr st l p with
    | panic => exact hj
    | ok x =>
      obtain ⟨u, st'⟩ := x
      obtain ⟨_, _, _, _, hst⟩ := gen_claim_idx_sound envr st st' l p hx
      show isMarked st' j = true
      rw [hst, marked_set]; by_cases he : j = envr.leaf_index l <;> simp [he, hj]

/-- **a mark is for ever**, over every history -/
theorem gen_mark_forever (envr : Distributor.Reads) (cs : List DOp) :
    ∀ (st : Distributor.Store) (j : Nat), isMarked st j = true → isMarked (runD envr st cs) j = true := by
  induction cs with
  | nil => intro st j h; exact h
  | cons op rest ih => intro st j h; exact ih (stepD envr st op) j (step_keeps_mark envr st op j h)

/-- **at most once**: after an accepted claim of `leaf`, whatever happens next, a claim of any leaf with the
same index is refused — in both forms, with any proof -/
theorem gen_claim_at_most_once (envr : Distributor.Reads) (st st1 : Distributor.Store) (leaf : Nat) (proof : List B32)
    (h1 : Distributor.verify_and_set_claimed envr st leaf proof = .ok ((), st1) ∨
          Distributor.verify_with_index_and_set_claimed envr st leaf proof = .ok ((), st1))
    (cs : List DOp) (leaf2 : Nat) (proof2 : List B32) (hidx : envr.leaf_index leaf2 = envr.leaf_index leaf) :
    ((Distributor.verify_and_set_claimed envr (runD envr st1 cs) leaf2 proof2).bind fun _ => Comp.ok ()) = .panic ∧
    ((Distributor.verify_with_index_and_set_claimed envr (runD envr st1 cs) leaf2 proof2).bind fun _ => Comp.ok ()) = .panic := by
  have hm : isMarked st1 (envr.leaf_index leaf) = true := by
    rcases h1 with h | h
    · obtain ⟨_, _, _, _, hst⟩ := gen_claim_sound envr st st1 leaf proof h
      rw [hst, marked_set]; simp
    · obtain ⟨_, _, _, _, hst⟩ := gen_claim_idx_sound envr st st1 leaf proof h
      rw [hst, marked_set]; simp
  have hm' := gen_mark_forever envr cs st1 _ hm
  exact gen_claimed_refuses envr (runD envr st1 cs) leaf2 proof2 (by rw [hidx]; exact hm')

/-- the accepted claims of a history that mark index `j` (with the verifier's acceptance recorded) -/
def claimedIn (envr : Distributor.Reads) (st : Distributor.Store) (j : Nat) : List DOp → Prop
  | [] => False
  | op :: rest =>
    (∃ l p root, envr.leaf_index l = j ∧ st.Root = some root ∧
      ((op = .claim l p ∧ Merkle.verify envr.merkle p root (envr.leaf_hash l) = .ok true) ∨
       (op = .claimIdx l p ∧ Merkle.verify_with_index envr.merkle p root (envr.leaf_hash l) j = .ok true))) ∨
    claimedIn envr (stepD envr st op) j rest

/-- **marked only after a valid proof**: an index unmarked at the start and marked after a history was marked
by an accepted claim of that history whose proof the verifier accepted against the root stored then -/
theorem gen_mark_needs_claim (envr : Distributor.Reads) (cs : List DOp) :
    ∀ (st : Distributor.Store) (j : Nat), isMarked st j = false → isMarked (runD envr st cs) j = true →
      claimedIn envr st j cs := by
  induction cs with
  | nil => intro st j h0 h1; rw [show runD envr st [] = st from rfl, h0] at h1; cases h1
  | cons op rest ih =>
    intro st j h0 h1
    by_cases hs : isMarked (stepD envr st op) j = true
    · left
      cases op with
      | setRoot r =>
        simp only [stepD, Distributor.set_root] at hs
        have : isMarked st j = true := hs
        rw [h0] at this; cases this
      | claim l p =>
        simp only [stepD] at hs
        cases hx : Distributor.verify_and_set_claimed envr st l p with
        | panic => rw [hx] at hs; rw [h0] at hs; cases hs
        | ok x =>
          obtain ⟨u, st'⟩ := x
          rw [hx] at hs
          obtain ⟨root, hr, _, hv, hst⟩ := gen_claim_sound envr st st' l p hx
          have hs' : isMarked st' j = true := hs
          rw [hst, marked_set] at hs'
          by_cases he : j = envr.leaf_index l
          · exact ⟨l, p, root, he.symm, hr, Or.inl ⟨rfl, hv⟩⟩
          · rw [if_neg he, h0] at hs'; cases hs'
      | claimIdx l p =>
        simp only [stepD] at hs
        cases hx : Distributor.verify_with_index_and_set_claimed envr st l p with
        | panic => rw [hx] at hs; rw [h0] at hs; cases hs
        | ok x =>
          obtain ⟨u, st'⟩ := x
          rw [hx] at hs
          obtain ⟨root, hr, _, hv, hst⟩ := gen_claim_idx_sound envr st st' l p hx
          have hs' : isMarked st' j = true := hs
          rw [hst, marked_set] at hs'
          by_cases he : j = envr.leaf_index l
          · exact ⟨l, p, root, he.symm, hr, Or.inr ⟨rfl, by rw [he]; exact hv⟩⟩
          · rw [if_neg he, h0] at hs'; cases hs'
    · right
      have hs0 : isMarked (stepD envr st op) j = false := by
        cases hh : isMarked (stepD envr st op) j with
        | true => exact absurd hh hs
        | false => rfl
      exact ih (stepD envr st op) j hs0 h1

end OZ.Gen.Distributor
