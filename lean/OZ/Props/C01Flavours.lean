import OZ.Lemmas.Flavours
/-
C01 — "for every fungible-token flavour of the library": the allow-listed, block-listed,
pausable, capped and votes flavours (the vault's share token is proved in OZ/Props/C05, the RWA
token in OZ/Props/C04).

Every flavour is a wrapper whose entry points first evaluate a gate (list membership, pause
flag, cap, owner) and then run exactly one `Base` entry point on the token underneath.  That
is proved here as a SIMULATION (`Wraps`): a successful wrapper invocation is either the very
same successful `Base` invocation on the token part, or leaves the token part untouched (list
changes, pause, delegate).  From the simulation alone the C01 statements follow for every
finite history of the wrapper, by the theorems of OZ/Props/C01:

  * `wraps_inv`     supply = Σ balances, balances ≥ 0, supply within i128 (Inv) in every
                    reachable state;
  * `wraps_supply`  one invocation changes the supply by +amount (mint), −amount (burn,
                    burn_from) or not at all;
  * `wraps_replay`  replaying the token's events from genesis reproduces every balance;
  * a failed invocation changes nothing (definition of `stepWith`, the host's rollback).

Property theorems only; all of them are for all states / all finite operation lists / all
authorizing subsets / all `Int` amounts.
-/
namespace OZ.C01Flavours
open OZ.Host OZ.Fungible OZ.Gates

/-- `ap` wraps the `Base` token found at `proj`: every accepted invocation is one accepted
`Base` invocation `tokOp op` on the token part, or does not touch the token part -/
def Wraps {σ ο ε : Type} (c : Cfg) (ap : σ → List Nat → ο → Except ε σ) (proj : σ → Fungible.State)
    (tokOp : ο → Option Fungible.Op) : Prop :=
  ∀ s auth op s', ap s auth op = .ok s' →
    (∃ o, tokOp op = some o ∧ Fungible.apply c (proj s) auth o = .ok (proj s')) ∨
    (tokOp op = none ∧ proj s' = proj s)

/-- a failed invocation is rolled back by the host (any error type); `Gates.stepWith`,
`PTok.step`, `FungibleVotes.step` are instances (`run_eq_*` below, by `rfl`) -/
def stepE {σ ο ε : Type} (ap : σ → List Nat → ο → Except ε σ) (s : σ) (x : List Nat × ο) : σ :=
  match ap s x.1 x.2 with
  | .ok s' => s'
  | .error _ => s

def runE {σ ο ε : Type} (ap : σ → List Nat → ο → Except ε σ) (s : σ) (ops : List (List Nat × ο)) : σ :=
  ops.foldl (stepE ap) s

/-- the token-level footprint of a wrapper operation -/
def opAddrs {ο : Type} (tokOp : ο → Option Fungible.Op) (op : ο) : List Nat :=
  match tokOp op with
  | some o => o.addrs
  | none => []

def opDelta {ο : Type} (tokOp : ο → Option Fungible.Op) (op : ο) : Int :=
  match tokOp op with
  | some o => supplyDelta o
  | none => 0

/-- one accepted wrapper invocation keeps the C01 invariant and moves the supply by exactly
the amount of a mint / burn and by nothing otherwise -/
theorem wraps_apply_inv {σ ο ε : Type} {c : Cfg} {ap : σ → List Nat → ο → Except ε σ}
    {proj : σ → Fungible.State} {tokOp : ο → Option Fungible.Op} (hw : Wraps c ap proj tokOp)
    {U : List Nat} (hn : U.Nodup) {s s' : σ} (auth : List Nat) (op : ο)
    (hi : Inv U (proj s)) (hU : ∀ a ∈ opAddrs tokOp op, a ∈ U) (h : ap s auth op = .ok s') :
    Inv U (proj s') ∧ (proj s').supply = (proj s).supply + opDelta tokOp op := by
  rcases hw s auth op s' h with ⟨o, ho, hb⟩ | ⟨ho, he⟩
  · have := apply_inv hn c hi auth o (by simpa [opAddrs, ho] using hU) hb
    simpa [opDelta, ho] using this
  · rw [he]; exact ⟨hi, by simp [opDelta, ho]⟩

/-- **every flavour, every reachable state** -/
theorem wraps_inv {σ ο ε : Type} {c : Cfg} {ap : σ → List Nat → ο → Except ε σ}
    {proj : σ → Fungible.State} {tokOp : ο → Option Fungible.Op} (hw : Wraps c ap proj tokOp)
    {U : List Nat} (hn : U.Nodup) (s0 : σ) (h0 : Inv U (proj s0))
    (ops : List (List Nat × ο)) (hU : ∀ x ∈ ops, ∀ a ∈ opAddrs tokOp x.2, a ∈ U) :
    Inv U (proj (runE ap s0 ops)) := by
  induction ops generalizing s0 with
  | nil => exact h0
  | cons x xs ih =>
    simp only [runE, List.foldl_cons]
    apply ih _ _ (fun y hy => hU y (List.mem_cons_of_mem _ hy))
    unfold stepE
    cases hx : ap s0 x.1 x.2 with
    | error e => exact h0
    | ok s' => exact (wraps_apply_inv hw hn x.1 x.2 h0 (hU x List.mem_cons_self) hx).1

/-- **every flavour, events**: replaying the emitted events reproduces every balance -/
theorem wraps_replay {σ ο ε : Type} {c : Cfg} {ap : σ → List Nat → ο → Except ε σ}
    {proj : σ → Fungible.State} {tokOp : ο → Option Fungible.Op} (hw : Wraps c ap proj tokOp)
    (s0 : σ) (h0 : replay (proj s0).events = (proj s0).bal) (ops : List (List Nat × ο)) :
    replay (proj (runE ap s0 ops)).events = (proj (runE ap s0 ops)).bal := by
  induction ops generalizing s0 with
  | nil => exact h0
  | cons x xs ih =>
    simp only [runE, List.foldl_cons]
    apply ih
    unfold stepE
    cases hx : ap s0 x.1 x.2 with
    | error e => exact h0
    | ok s' =>
      rcases hw s0 x.1 x.2 s' hx with ⟨o, _, hb⟩ | ⟨_, he⟩
      · exact apply_replay c x.1 o h0 hb
      · rw [he]; exact h0

/-- a rejected invocation leaves the whole wrapper state (token, lists, flags) as it was -/
theorem wraps_failed_no_effect {σ ο ε : Type} (ap : σ → List Nat → ο → Except ε σ) (s : σ)
    (auth : List Nat) (op : ο) (e : ε) (h : ap s auth op = .error e) :
    stepE ap s (auth, op) = s := by
  simp [stepE, h]

theorem run_eq_runWith {σ ο : Type} (ap : σ → List Nat → ο → Except Fungible.Err σ) (s : σ)
    (ops : List (List Nat × ο)) : runWith ap s ops = runE ap s ops := by
  have : stepWith ap = stepE ap := by
    funext s x; unfold stepWith stepE; cases ap s x.1 x.2 <;> rfl
  unfold runWith runE; rw [this]

theorem run_eq_ptok (c : Cfg) (s : PTok) (ops : List (List Nat × PTok.Op)) :
    PTok.run c s ops = runE (PTok.apply c) s ops := by
  have : PTok.step c = stepE (PTok.apply c) := by
    funext s x; unfold PTok.step stepE; cases PTok.apply c s x.1 x.2 <;> rfl
  unfold PTok.run runE; rw [this]

theorem run_eq_votes (c : Cfg) (s : OZ.FungibleVotes.State) (ops : List (List Nat × OZ.FungibleVotes.Op)) :
    OZ.FungibleVotes.run c s ops = runE (OZ.FungibleVotes.apply c) s ops := by
  have : OZ.FungibleVotes.step c = stepE (OZ.FungibleVotes.apply c) := by
    funext s x; unfold OZ.FungibleVotes.step stepE; cases OZ.FungibleVotes.apply c s x.1 x.2 <;> rfl
  unfold OZ.FungibleVotes.run runE; rw [this]

/-! ## the simulations, flavour by flavour -/

def lopTok : LOp → Option Fungible.Op
  | .tok o => some o
  | .setList _ _ _ => none

/-- library type `AllowList` (every entry point routed through it, open mint) -/
theorem allowlist_lib_wraps (c : Cfg) : Wraps c (ALib.apply c) LTok.tok lopTok := by
  intro s auth op s' h
  cases op with
  | setList u on operator =>
    right; refine ⟨rfl, ?_⟩
    cases on <;> simp only [ALib.apply] at h <;> injection h with h <;> subst h
    · unfold AllowList.disallowUser; split <;> rfl
    · unfold AllowList.allowUser; split <;> rfl
  | tok o =>
    left; refine ⟨o, rfl, ?_⟩
    cases o with
    | mint t a => obtain ⟨t', ht, rfl⟩ := withTok_ok h; exact ht
    | transfer f t a =>
      obtain ⟨t', ht, rfl⟩ := withTok_ok (gate_ok (by simpa only [ALib.apply, AllowList.transfer] using h)); exact ht
    | transferFrom sp f t a =>
      obtain ⟨t', ht, rfl⟩ := withTok_ok (gate_ok (by simpa only [ALib.apply, AllowList.transferFrom] using h)); exact ht
    | approve o sp a lu =>
      obtain ⟨t', ht, rfl⟩ := withTok_ok (gate_ok (by simpa only [ALib.apply, AllowList.approve] using h)); exact ht
    | burn f a =>
      obtain ⟨t', ht, rfl⟩ := withTok_ok (gate_ok (by simpa only [ALib.apply, AllowList.burn] using h)); exact ht
    | burnFrom sp f a =>
      obtain ⟨t', ht, rfl⟩ := withTok_ok (gate_ok (by simpa only [ALib.apply, AllowList.burnFrom] using h)); exact ht
    | advance n => simp only [ALib.apply] at h; injection h with h; subst h; rfl

/-- library type `BlockList` -/
theorem blocklist_lib_wraps (c : Cfg) : Wraps c (BLib.apply c) LTok.tok lopTok := by
  intro s auth op s' h
  cases op with
  | setList u on operator =>
    right; refine ⟨rfl, ?_⟩
    cases on <;> simp only [BLib.apply] at h <;> injection h with h <;> subst h
    · unfold BlockList.unblockUser; split <;> rfl
    · unfold BlockList.blockUser; split <;> rfl
  | tok o =>
    left; refine ⟨o, rfl, ?_⟩
    cases o with
    | mint t a => obtain ⟨t', ht, rfl⟩ := withTok_ok h; exact ht
    | transfer f t a =>
      obtain ⟨t', ht, rfl⟩ := withTok_ok (gate_ok (by simpa only [BLib.apply, BlockList.transfer] using h)); exact ht
    | transferFrom sp f t a =>
      obtain ⟨t', ht, rfl⟩ := withTok_ok (gate_ok (by simpa only [BLib.apply, BlockList.transferFrom] using h)); exact ht
    | approve o sp a lu =>
      obtain ⟨t', ht, rfl⟩ := withTok_ok (gate_ok (by simpa only [BLib.apply, BlockList.approve] using h)); exact ht
    | burn f a =>
      obtain ⟨t', ht, rfl⟩ := withTok_ok (gate_ok (by simpa only [BLib.apply, BlockList.burn] using h)); exact ht
    | burnFrom sp f a =>
      obtain ⟨t', ht, rfl⟩ := withTok_ok (gate_ok (by simpa only [BLib.apply, BlockList.burnFrom] using h)); exact ht
    | advance n => simp only [BLib.apply] at h; injection h with h; subst h; rfl

/-- examples/fungible-allowlist (entry points as exposed, manager-gated list changes) -/
theorem allowlist_example_wraps (c : Cfg) : Wraps c (AEx.apply c) (fun s => s.t.tok) lopTok := by
  intro s auth op s' h
  cases op with
  | setList u on operator =>
    right; refine ⟨rfl, ?_⟩
    cases on <;> simp only [AEx.apply] at h <;> obtain ⟨_, _, h⟩ := bind_eq_ok h <;>
      injection h with h <;> subst h
    · show (AllowList.disallowUser s.t u).tok = s.t.tok
      unfold AllowList.disallowUser; split <;> rfl
    · show (AllowList.allowUser s.t u).tok = s.t.tok
      unfold AllowList.allowUser; split <;> rfl
  | tok o =>
    left; refine ⟨o, rfl, ?_⟩
    cases o with
    | mint t a => cases h
    | transfer f t a =>
      obtain ⟨l, hl, rfl⟩ := withT_ok h
      obtain ⟨t', ht, rfl⟩ := withTok_ok (gate_ok (by simpa only [AllowList.transfer] using hl)); exact ht
    | transferFrom sp f t a =>
      obtain ⟨l, hl, rfl⟩ := withT_ok h
      obtain ⟨t', ht, rfl⟩ := withTok_ok (gate_ok (by simpa only [AllowList.transferFrom] using hl)); exact ht
    | approve o sp a lu =>
      obtain ⟨l, hl, rfl⟩ := withT_ok h
      obtain ⟨t', ht, rfl⟩ := withTok_ok (gate_ok (by simpa only [AllowList.approve] using hl)); exact ht
    | burn f a =>
      obtain ⟨l, hl, rfl⟩ := withT_ok h
      obtain ⟨t', ht, rfl⟩ := withTok_ok (gate_ok (by simpa only [AllowList.burn] using hl)); exact ht
    | burnFrom sp f a =>
      obtain ⟨l, hl, rfl⟩ := withT_ok h
      obtain ⟨t', ht, rfl⟩ := withTok_ok (gate_ok (by simpa only [AllowList.burnFrom] using hl)); exact ht
    | advance n => simp only [AEx.apply] at h; injection h with h; subst h; rfl

/-- examples/fungible-blocklist -/
theorem blocklist_example_wraps (c : Cfg) : Wraps c (BEx.apply c) (fun s => s.t.tok) lopTok := by
  intro s auth op s' h
  cases op with
  | setList u on operator =>
    right; refine ⟨rfl, ?_⟩
    cases on <;> simp only [BEx.apply] at h <;> obtain ⟨_, _, h⟩ := bind_eq_ok h <;>
      injection h with h <;> subst h
    · show (BlockList.unblockUser s.t u).tok = s.t.tok
      unfold BlockList.unblockUser; split <;> rfl
    · show (BlockList.blockUser s.t u).tok = s.t.tok
      unfold BlockList.blockUser; split <;> rfl
  | tok o =>
    left; refine ⟨o, rfl, ?_⟩
    cases o with
    | mint t a => cases h
    | burn f a => cases h
    | burnFrom sp f a => cases h
    | transfer f t a =>
      obtain ⟨l, hl, rfl⟩ := withT_ok h
      obtain ⟨t', ht, rfl⟩ := withTok_ok (gate_ok (by simpa only [BlockList.transfer] using hl)); exact ht
    | transferFrom sp f t a =>
      obtain ⟨l, hl, rfl⟩ := withT_ok h
      obtain ⟨t', ht, rfl⟩ := withTok_ok (gate_ok (by simpa only [BlockList.transferFrom] using hl)); exact ht
    | approve o sp a lu =>
      obtain ⟨l, hl, rfl⟩ := withT_ok h
      obtain ⟨t', ht, rfl⟩ := withTok_ok (gate_ok (by simpa only [BlockList.approve] using hl)); exact ht
    | advance n => simp only [BEx.apply] at h; injection h with h; subst h; rfl

def ptokOp : PTok.Op → Option Fungible.Op
  | .tok o => some o
  | .pause _ => none
  | .unpause _ => none

/-- examples/fungible-pausable -/
theorem pausable_example_wraps (c : Cfg) : Wraps c (PTok.apply c) PTok.tok ptokOp := by
  intro s auth op s' h
  cases op with
  | pause caller =>
    right; refine ⟨rfl, ?_⟩
    obtain ⟨_, _, h⟩ := bind_eq_ok h; obtain ⟨_, _, h⟩ := bind_eq_ok h
    injection h with h; subst h; rfl
  | unpause caller =>
    right; refine ⟨rfl, ?_⟩
    obtain ⟨_, _, h⟩ := bind_eq_ok h; obtain ⟨_, _, h⟩ := bind_eq_ok h
    injection h with h; subst h; rfl
  | tok o =>
    left; refine ⟨o, rfl, ?_⟩
    obtain ⟨t, ht, h⟩ := bind_eq_ok h
    injection h with h; subst h
    show Fungible.apply c s.tok auth o = .ok t
    cases o with
    | mint to a =>
      obtain ⟨_, _, ht⟩ := bind_eq_ok ht; obtain ⟨_, _, ht⟩ := bind_eq_ok ht; exact ht
    | transfer f t a => obtain ⟨_, _, ht⟩ := bind_eq_ok ht; exact ht
    | transferFrom sp f t a => obtain ⟨_, _, ht⟩ := bind_eq_ok ht; exact ht
    | approve o sp a lu => exact ht
    | burn f a => obtain ⟨_, _, ht⟩ := bind_eq_ok ht; exact ht
    | burnFrom sp f a => obtain ⟨_, _, ht⟩ := bind_eq_ok ht; exact ht
    | advance n => exact ht

/-- examples/fungible-capped (`mint = check_cap; Base::mint`) -/
theorem capped_example_wraps (c : Cfg) : Wraps c (CTok.apply c) CTok.tok some := by
  intro s auth op s' h
  left; refine ⟨op, rfl, ?_⟩
  cases op with
  | mint to a =>
    obtain ⟨_, _, h⟩ := bind_eq_ok h
    obtain ⟨t', ht, rfl⟩ := ctok_withTok_ok h; exact ht
  | burn f a => cases h
  | burnFrom sp f a => cases h
  | transfer f t a =>
    have h' : s.withTok (Fungible.apply c s.tok auth (.transfer f t a)) = .ok s' := h
    obtain ⟨t', ht, rfl⟩ := ctok_withTok_ok h'; exact ht
  | transferFrom sp f t a =>
    have h' : s.withTok (Fungible.apply c s.tok auth (.transferFrom sp f t a)) = .ok s' := h
    obtain ⟨t', ht, rfl⟩ := ctok_withTok_ok h'; exact ht
  | approve o sp a lu =>
    have h' : s.withTok (Fungible.apply c s.tok auth (.approve o sp a lu)) = .ok s' := h
    obtain ⟨t', ht, rfl⟩ := ctok_withTok_ok h'; exact ht
  | advance n =>
    have h' : s.withTok (Fungible.apply c s.tok auth (.advance n)) = .ok s' := h
    obtain ⟨t', ht, rfl⟩ := ctok_withTok_ok h'; exact ht

/-- library type `FungibleVotes` (mint / transfer / transfer_from / burn / burn_from through the
votes hooks, `Base::approve`, `Votes::delegate`) -/
theorem votes_lib_wraps (c : Cfg) :
    Wraps c (OZ.FungibleVotes.apply c) OZ.FungibleVotes.State.tok OZ.FungibleVotes.Op.tokOp := by
  intro s auth op s' h
  unfold OZ.FungibleVotes.apply at h
  cases hb : OZ.FungibleVotes.base c s.tok auth op with
  | error e => rw [hb] at h; cases h
  | ok r =>
    obtain ⟨tok', a⟩ := r
    rw [hb] at h
    cases hv : OZ.Votes.act s.v auth a with
    | error e => simp only [hv] at h; cases h
    | ok v =>
      simp only [hv] at h; injection h with h; subst h
      exact votes_base_sim c s.tok tok' auth op a hb

/-- examples/fungible-votes (owner-gated mint, no burn entry points) -/
theorem votes_example_wraps (c : Cfg) (owner : Nat) :
    Wraps c (OZ.FungibleVotes.exampleApply c owner) OZ.FungibleVotes.State.tok OZ.FungibleVotes.Op.tokOp := by
  intro s auth op s' h
  cases op with
  | mint t x =>
    simp only [OZ.FungibleVotes.exampleApply] at h
    cases hr : OZ.Votes.requireAuth auth owner with
    | error e => simp only [hr] at h; cases h
    | ok u => simp only [hr] at h; exact votes_lib_wraps c s auth _ s' h
  | burn f x => cases h
  | burnFrom sp f x => cases h
  | transfer f t x => exact votes_lib_wraps c s auth _ s' h
  | transferFrom sp f t x => exact votes_lib_wraps c s auth _ s' h
  | approve o sp x lu => exact votes_lib_wraps c s auth _ s' h
  | delegate x d => exact votes_lib_wraps c s auth _ s' h
  | advance n => exact votes_lib_wraps c s auth _ s' h

/-! ## the C01 statements for each flavour, from its constructor, for every finite history -/

/-- **allow-listed token (library type)** -/
theorem allowlist_lib_c01 (c : Cfg) (now : Nat) {U : List Nat} (hn : U.Nodup)
    (ops : List (List Nat × LOp)) (hU : ∀ x ∈ ops, ∀ a ∈ opAddrs lopTok x.2, a ∈ U) :
    Inv U (runWith (ALib.apply c) (LTok.empty now) ops).tok ∧
    replay (runWith (ALib.apply c) (LTok.empty now) ops).tok.events =
      (runWith (ALib.apply c) (LTok.empty now) ops).tok.bal := by
  rw [run_eq_runWith]
  exact ⟨wraps_inv (allowlist_lib_wraps c) hn _ (init_inv U now) ops hU,
    wraps_replay (allowlist_lib_wraps c) _ (by simp [LTok.empty, Fungible.init, replay]) ops⟩

/-- **block-listed token (library type)** -/
theorem blocklist_lib_c01 (c : Cfg) (now : Nat) {U : List Nat} (hn : U.Nodup)
    (ops : List (List Nat × LOp)) (hU : ∀ x ∈ ops, ∀ a ∈ opAddrs lopTok x.2, a ∈ U) :
    Inv U (runWith (BLib.apply c) (LTok.empty now) ops).tok ∧
    replay (runWith (BLib.apply c) (LTok.empty now) ops).tok.events =
      (runWith (BLib.apply c) (LTok.empty now) ops).tok.bal := by
  rw [run_eq_runWith]
  exact ⟨wraps_inv (blocklist_lib_wraps c) hn _ (init_inv U now) ops hU,
    wraps_replay (blocklist_lib_wraps c) _ (by simp [LTok.empty, Fungible.init, replay]) ops⟩

/-- **examples/fungible-allowlist**, from its constructor (the constructor's mint emits its
event like any other, so the replay starts from genesis) -/
theorem allowlist_example_c01 (c : Cfg) (now admin mgr : Nat) (initial : Int) (s0 : LEx)
    (h0 : AEx.construct now admin mgr initial = .ok s0) {U : List Nat} (hn : U.Nodup) (ha : admin ∈ U)
    (ops : List (List Nat × LOp)) (hU : ∀ x ∈ ops, ∀ a ∈ opAddrs lopTok x.2, a ∈ U) :
    Inv U (runWith (AEx.apply c) s0 ops).t.tok ∧
    replay (runWith (AEx.apply c) s0 ops).t.tok.events = (runWith (AEx.apply c) s0 ops).t.tok.bal := by
  obtain ⟨t, ht, h0⟩ := bind_eq_ok h0
  injection h0 with h0; subst h0
  have ht' : Fungible.mint (Fungible.init now) admin initial = .ok t := by
    rw [← ht]; unfold AllowList.allowUser; split <;> rfl
  obtain ⟨hi, hr⟩ := mint_init hn now admin initial t ha ht'
  rw [run_eq_runWith]
  exact ⟨wraps_inv (allowlist_example_wraps c) hn _ hi ops hU, wraps_replay (allowlist_example_wraps c) _ hr ops⟩

/-- **examples/fungible-blocklist**, from its constructor -/
theorem blocklist_example_c01 (c : Cfg) (now admin mgr : Nat) (initial : Int) (s0 : LEx)
    (h0 : BEx.construct now admin mgr initial = .ok s0) {U : List Nat} (hn : U.Nodup) (ha : admin ∈ U)
    (ops : List (List Nat × LOp)) (hU : ∀ x ∈ ops, ∀ a ∈ opAddrs lopTok x.2, a ∈ U) :
    Inv U (runWith (BEx.apply c) s0 ops).t.tok ∧
    replay (runWith (BEx.apply c) s0 ops).t.tok.events = (runWith (BEx.apply c) s0 ops).t.tok.bal := by
  obtain ⟨t, ht, h0⟩ := bind_eq_ok h0
  injection h0 with h0; subst h0
  obtain ⟨hi, hr⟩ := mint_init hn now admin initial t ha ht
  rw [run_eq_runWith]
  exact ⟨wraps_inv (blocklist_example_wraps c) hn _ hi ops hU, wraps_replay (blocklist_example_wraps c) _ hr ops⟩

/-- **examples/fungible-pausable**, from its constructor, pause / unpause interleaved at will -/
theorem pausable_example_c01 (c : Cfg) (now owner : Nat) (initial : Int) (s0 : PTok)
    (h0 : PTok.construct now owner initial = .ok s0) {U : List Nat} (hn : U.Nodup) (ha : owner ∈ U)
    (ops : List (List Nat × PTok.Op)) (hU : ∀ x ∈ ops, ∀ a ∈ opAddrs ptokOp x.2, a ∈ U) :
    Inv U (PTok.run c s0 ops).tok ∧
    replay (PTok.run c s0 ops).tok.events = (PTok.run c s0 ops).tok.bal := by
  obtain ⟨t, ht, h0⟩ := bind_eq_ok h0
  injection h0 with h0; subst h0
  obtain ⟨hi, hr⟩ := mint_init hn now owner initial t ha ht
  rw [run_eq_ptok]
  exact ⟨wraps_inv (pausable_example_wraps c) hn _ hi ops hU, wraps_replay (pausable_example_wraps c) _ hr ops⟩

/-- **examples/fungible-capped**, from its constructor -/
theorem capped_example_c01 (c : Cfg) (now : Nat) (cap : Int) (s0 : CTok)
    (h0 : CTok.construct now cap = .ok s0) {U : List Nat} (hn : U.Nodup)
    (ops : List (List Nat × Fungible.Op)) (hU : ∀ x ∈ ops, ∀ a ∈ x.2.addrs, a ∈ U) :
    Inv U (runWith (CTok.apply c) s0 ops).tok ∧
    replay (runWith (CTok.apply c) s0 ops).tok.events = (runWith (CTok.apply c) s0 ops).tok.bal := by
  have e : s0.tok = Fungible.init now := by
    unfold CTok.construct setCap at h0; split at h0
    · cases h0
    · injection h0 with h0; subst h0; rfl
  rw [run_eq_runWith]
  exact ⟨wraps_inv (capped_example_wraps c) hn _ (by rw [e]; exact init_inv U now) ops
      (by intro x hx a ha; exact hU x hx a (by simpa [opAddrs] using ha)),
    wraps_replay (capped_example_wraps c) _ (by rw [e]; simp [Fungible.init, replay]) ops⟩

/-- **votes token (library type `FungibleVotes`)**: the token underneath the voting hooks -/
theorem votes_lib_c01 (c : Cfg) (now : Nat) {U : List Nat} (hn : U.Nodup)
    (ops : List (List Nat × OZ.FungibleVotes.Op))
    (hU : ∀ x ∈ ops, ∀ a ∈ opAddrs OZ.FungibleVotes.Op.tokOp x.2, a ∈ U) :
    Inv U (OZ.FungibleVotes.run c (OZ.FungibleVotes.init now) ops).tok ∧
    replay (OZ.FungibleVotes.run c (OZ.FungibleVotes.init now) ops).tok.events =
      (OZ.FungibleVotes.run c (OZ.FungibleVotes.init now) ops).tok.bal := by
  rw [run_eq_votes]
  exact ⟨wraps_inv (votes_lib_wraps c) hn _ (init_inv U now) ops hU,
    wraps_replay (votes_lib_wraps c) _ (by simp [OZ.FungibleVotes.init, Fungible.init, replay]) ops⟩

/-- **examples/fungible-votes** -/
theorem votes_example_c01 (c : Cfg) (now owner : Nat) {U : List Nat} (hn : U.Nodup)
    (ops : List (List Nat × OZ.FungibleVotes.Op))
    (hU : ∀ x ∈ ops, ∀ a ∈ opAddrs OZ.FungibleVotes.Op.tokOp x.2, a ∈ U) :
    Inv U (runE (OZ.FungibleVotes.exampleApply c owner) (OZ.FungibleVotes.init now) ops).tok ∧
    replay (runE (OZ.FungibleVotes.exampleApply c owner) (OZ.FungibleVotes.init now) ops).tok.events =
      (runE (OZ.FungibleVotes.exampleApply c owner) (OZ.FungibleVotes.init now) ops).tok.bal :=
  ⟨wraps_inv (votes_example_wraps c owner) hn _ (init_inv U now) ops hU,
    wraps_replay (votes_example_wraps c owner) _ (by simp [OZ.FungibleVotes.init, Fungible.init, replay]) ops⟩

/-- **supply movement, every flavour**: an accepted invocation moves the supply by exactly
`+amount` (mint), `−amount` (burn, burn_from) and by nothing otherwise (transfer,
transfer_from, approve, list changes, pause, delegate) -/
theorem flavour_supply_exact {σ ο ε : Type} {c : Cfg} {ap : σ → List Nat → ο → Except ε σ}
    {proj : σ → Fungible.State} {tokOp : ο → Option Fungible.Op} (hw : Wraps c ap proj tokOp)
    {U : List Nat} (hn : U.Nodup) {s s' : σ} (auth : List Nat) (op : ο)
    (hi : Inv U (proj s)) (hU : ∀ a ∈ opAddrs tokOp op, a ∈ U) (h : ap s auth op = .ok s') :
    (proj s').supply = (proj s).supply + opDelta tokOp op :=
  (wraps_apply_inv hw hn auth op hi hU h).2

/-! ### non-vacuity (tests, labelled as such): concrete histories meeting the hypotheses,
with accepted and rejected calls, through the gates of each flavour -/

def demoList : List (List Nat × LOp) :=
  [([], .tok (.mint 0 1000)), ([0], .tok (.transfer 0 1 10)),        -- 1 not allowed: rejected
   ([], .setList 0 true 9), ([], .setList 1 true 9), ([0], .tok (.transfer 0 1 400)),
   ([], .setList 1 false 9), ([1], .tok (.burn 1 5)),                  -- disallowed holder: rejected
   ([], .setList 1 true 9), ([1], .tok (.burn 1 5)), ([0], .tok (.transfer 0 0 600))]

example : (runWith (ALib.apply ⟨1, 1000⟩) (LTok.empty 100) demoList).tok.supply = 995 ∧
    (runWith (ALib.apply ⟨1, 1000⟩) (LTok.empty 100) demoList).tok.bal 1 = 395 := by decide

example : ∀ x ∈ demoList, ∀ a ∈ opAddrs lopTok x.2, a ∈ [0, 1] := by decide

example : ∃ s0, PTok.construct 100 7 500 = .ok s0 ∧
    (PTok.run ⟨1, 1000⟩ s0 [([7], .pause 7), ([7], .tok (.transfer 7 1 5)), ([7], .unpause 7),
      ([7], .tok (.transfer 7 1 5))]).tok.bal 1 = 5 := ⟨_, rfl, by decide⟩

end OZ.C01Flavours
