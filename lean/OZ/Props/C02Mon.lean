import OZ.Props.C02
import OZ.Lemmas.FungibleMon
/-
C02 — soundness of the MONITOR that decides the property on implementation traces.

`./check C02` reports a concrete violation of the Base-token part exactly when
`OZ.FungibleMon.Auth.checkCore` (the driver's monitor on parsed values, OZ/Model/FungibleMon.lean)
returns a message on the implementation's observations (apart from the two string-level alarms
`getter_trap` / `parse` of the driver). Here it is proved that on the observations of the MODEL
the monitor never returns a message, for every host configuration (`min_temp`, `max_ttl`), every
start ledger, every size `n` of the observed universe and every finite history whose addresses
lie in that universe (`monitor_accepts_every_model_trace`). Consequences:

  * an implementation whose observations agree with the model's (the correspondence the check
    establishes by differential testing) can never raise a monitor alarm — a monitor failure is
    never a false alarm of the monitor itself;
  * every conclusion the monitor evaluates — (0) rollback of rejected calls; (1) a balance goes
    down only in a transfer / burn of its authorizing holder or in a transfer_from / burn_from by
    an authorizing spender whose last approval has not expired, covers the amount and drops by
    exactly the amount; (2) an allowance rises only by the owner's approve, to exactly the amount,
    never above approved − spent, never negative; (3) it reads 0 once the last approval's
    live_until passed and exactly approved − spent until then; (4) approve is rejected iff it must
    be; (5) nothing is debited while only the ledger moves — is a THEOREM about the model, in the
    monitor's own executable wording, with the monitor's own ghost counters.

The model observation `OZ.FungibleMon.stepObs` used here IS the data the driver's model side
prints: `FungibleIO.stepLine` is `showObs (stepObs cfg n s auth op mauth)` after parsing the op
line, and `lineOf auth op` is what `FungibleIO.parseLine` reads from that op line (kind, `a=`,
`auth=`, `amt=`, and `lu=` of an approve).

Hypothesis `hU` (all addresses of the history are < n): the observation prints the allowances of
the universe 0..n-1 only; the monitor reads the spender's allowance from it, so a spender outside
the universe would look uncovered (`spend_needs_observed_spender`). The harness draws every
address from that universe.

Property theorems only; helper facts come from OZ/Lemmas/FungibleMon.lean.
-/
namespace OZ.FungibleMon.Auth
open OZ.Host OZ.Fungible OZ.FungibleMon

/-- monitor state and model state describe the same point of a history: the previous observation
(or the empty token before the first call) shows the model's balances and allowances, the label
parameters agree, and the monitor's ghost counters are related to the stored allowance entries as
the ghost bookkeeping of OZ/Lemmas/FungibleAuth.lean (`GInv`) -/
structure Agree (c : Cfg) (n : Nat) (m : Mon) (s : State) : Prop where
  size : m.n = n
  ttl : m.maxTtl = c.maxTtl
  bal : ∀ now, (prevOf m now).bal = balList n s
  allow : ∀ now, (prevOf m now).allow = allowList n s
  ghost : GInv s (toGhost m.g)

/-- in a state related to ghost counters every allowance is non-negative -/
theorem allowance_nonneg_of_ginv {s : State} {g : Nat → Nat → Ghost} (hi : GInv s g) (o sp : Nat) :
    0 ≤ allowance s o sp := by
  rw [allowance_of_grel (hi o sp)]
  have := (hi o sp).1
  split <;> omega

/-- **(4)** the approve-bounds piece is silent on the model's observation of an approve -/
theorem approve_piece_sound (c : Cfg) (n : Nat) (s : State) (auth : List Nat) (o sp : Nat) (amt : Int)
    (lu : Nat) (mauth : Option Nat) :
    vApprove c.maxTtl auth o amt lu (stepObs c n s auth (.approve o sp amt lu) mauth).2 = none := by
  apply vApprove_none
  have hb := approve_bounds c s auth o sp amt lu
  have hg : applyG c s auth (.approve o sp amt lu) mauth = apply c s auth (.approve o sp amt lu) := rfl
  unfold stepObs
  rw [hg]
  cases hx : apply c s auth (.approve o sp amt lu) with
  | error e =>
    show (false = false) ↔ _
    exact ⟨fun _ => hb.mp ⟨e, hx⟩, fun _ => rfl⟩
  | ok s' =>
    obtain ⟨_, _, _, _, hnow, _⟩ := apply_approve hx
    show (true = false) ↔ (_ ∨ _ ∨ lu > s'.now + c.maxTtl - 1 ∨ (_ ∧ lu < s'.now))
    rw [hnow]
    constructor
    · intro h; cases h
    · intro h
      obtain ⟨e, he⟩ := hb.mpr h
      rw [hx] at he; cases he

/-- **(1)+(5)** the debit piece is silent on every holder of the universe after an accepted call -/
theorem debit_piece_sound {c : Cfg} {n : Nat} {m : Mon} {s s' : State} (ha : Agree c n m s)
    {auth : List Nat} {op : Op} (mauth : Option Nat) (hU : ∀ a ∈ op.addrs, a < n)
    (hap : apply c s auth op = .ok s') (h : Nat) (hh : h < n) :
    vDebit (prevOf m s'.now) (obsOk n s s' op mauth) m.g (kindOf op) op.addrs auth (amtOf op) h = none := by
  by_cases hdec : balAt (obsOk n s s' op mauth).bal h < balAt (prevOf m s'.now).bal h
  · have hdec' : s'.bal h < s.bal h := by
      have hb : (obsOk n s s' op mauth).bal = balList n s' := rfl
      rw [ha.bal, hb, balAt_balList s' hh, balAt_balList s hh] at hdec
      exact hdec
    unfold vDebit
    rw [if_pos hdec]
    rcases debit_authorized c s s' auth op h hap hdec' with ⟨hin, hop⟩ | ⟨sp, amt, hop, hin, hp, _, hle, hex⟩
    · rcases hop with ⟨t, amt, rfl⟩ | ⟨amt, rfl⟩
      · rw [if_pos (.inl rfl)]; exact vDebitDirect_none rfl hin
      · rw [if_pos (.inr rfl)]; exact vDebitDirect_none rfl hin
    · have hspn : sp < n := by
        rcases hop with ⟨t, rfl⟩ | rfl <;> exact hU sp (by simp [Op.addrs])
      have hnow : s'.now = s.now := by
        rcases hop with ⟨t, rfl⟩ | rfl
        · exact (apply_spend hap rfl).2.choose_spec.2.2.1
        · exact (apply_spend hap rfl).2.choose_spec.2.2.1
      have hprev : (prevOf m s'.now).allowOf h sp = allowance s h sp := allowOf_allowList (ha.allow _) hh hspn
      have hcur : (obsOk n s s' op mauth).allowOf h sp = allowance s' h sp := allowOf_allowList rfl hh hspn
      have hlive : (obsOk n s s' op mauth).now ≤ (gOf m.g h sp).lu := by
        show s'.now ≤ _
        rw [hnow, ← toGhost_lu]
        have hal := allowance_of_grel (ha.ghost h sp)
        apply Classical.byContradiction
        intro hnot
        rw [if_neg hnot] at hal
        omega
      have hspend : vDebitSpend (prevOf m s'.now) (obsOk n s s' op mauth) m.g (kindOf op) h op.addrs auth (amtOf op) = none := by
        rcases hop with ⟨t, rfl⟩ | rfl
        · exact vDebitSpend_none hin hlive (by rw [hprev]; exact hle) (by rw [hcur, hprev]; exact hex)
        · exact vDebitSpend_none hin hlive (by rw [hprev]; exact hle) (by rw [hcur, hprev]; exact hex)
      rcases hop with ⟨t, rfl⟩ | rfl
      · rw [if_neg (by simp [kindOf]), if_pos (.inl rfl)]; exact hspend
      · rw [if_neg (by simp [kindOf]), if_pos (.inr rfl)]; exact hspend
  · exact vDebit_none_of_ge hdec

/-- **(2)** the raise piece is silent on every pair of the universe, accepted or rejected -/
theorem raise_piece_sound {c : Cfg} {n : Nat} {m : Mon} {s : State} (ha : Agree c n m s)
    (auth : List Nat) (op : Op) (mauth : Option Nat) (p : Nat × Nat) (hp : p ∈ pairs n) :
    vRaise (prevOf m (stepObs c n s auth op mauth).2.now) (stepObs c n s auth op mauth).2 (kindOf op) op.addrs auth
      (amtOf op) p = none := by
  obtain ⟨h1, h2⟩ := mem_pairs hp
  cases hx : applyG c s auth op mauth with
  | error e =>
    have hs : stepObs c n s auth op mauth = (s, obsErr n s) := by unfold stepObs; rw [hx]
    rw [hs]
    apply vRaise_none_of_le
    rw [allowOf_allowList (ha.allow _) h1 h2, allowOf_allowList (o := obsErr n s) rfl h1 h2]
    exact Int.lt_irrefl _
  | ok s' =>
    have hs : stepObs c n s auth op mauth = (s', obsOk n s s' op mauth) := by unfold stepObs; rw [hx]
    rw [hs]
    have hap := applyG_ok hx
    by_cases hup : (obsOk n s s' op mauth).allowOf p.1 p.2 > (prevOf m (obsOk n s s' op mauth).now).allowOf p.1 p.2
    · have hcur : (obsOk n s s' op mauth).allowOf p.1 p.2 = allowance s' p.1 p.2 := allowOf_allowList rfl h1 h2
      have hup' : allowance s p.1 p.2 < allowance s' p.1 p.2 := by
        rw [allowOf_allowList (ha.allow _) h1 h2, hcur] at hup
        exact hup
      obtain ⟨amt, lu, rfl, hin, hv, _⟩ :=
        allowance_write_authorized c s s' auth op p.1 p.2 hap (allowance_nonneg_of_ginv ha.ghost _ _) hup'
      exact vRaise_none_of_approve rfl hin (by rw [hcur]; exact hv)
    · exact vRaise_none_of_le hup

/-- **one call**: fed with the model's own observation of any call (accepted or rejected, with or
without the mint guard), the monitor reports nothing and its state keeps describing the model's -/
theorem monitor_sound_step (c : Cfg) (n : Nat) {m : Mon} {s : State} (ha : Agree c n m s)
    (auth : List Nat) (op : Op) (mauth : Option Nat) (hU : ∀ a ∈ op.addrs, a < n) :
    (checkCore m (lineOf auth op) (stepObs c n s auth op mauth).2).2 = none ∧
    Agree c n (checkCore m (lineOf auth op) (stepObs c n s auth op mauth).2).1 (stepObs c n s auth op mauth).1 := by
  -- the state after the call is related to the monitor's new ghost
  have hghost : GInv (stepObs c n s auth op mauth).1
      (toGhost (ghostStep m.g (stepObs c n s auth op mauth).2.ok (lineOf auth op))) := by
    unfold stepObs
    cases hx : applyG c s auth op mauth with
    | error e =>
      show GInv s (toGhost (ghostStep m.g false (lineOf auth op)))
      rw [ghostStep_rejected]; exact ha.ghost
    | ok s' =>
      show GInv s' (toGhost (ghostStep m.g true (lineOf auth op)))
      exact ginv_congr_ghost (ginv_apply ha.ghost (applyG_ok hx))
        (fun x y => (toGhost_ghostStep m.g auth op x y).1) (fun x y => (toGhost_ghostStep m.g auth op x y).2)
  have hobs : (stepObs c n s auth op mauth).2.bal = balList n (stepObs c n s auth op mauth).1 ∧
      (stepObs c n s auth op mauth).2.allow = allowList n (stepObs c n s auth op mauth).1 ∧
      (stepObs c n s auth op mauth).2.now = (stepObs c n s auth op mauth).1.now := by
    unfold stepObs
    cases applyG c s auth op mauth <;> exact ⟨rfl, rfl, rfl⟩
  refine ⟨?_, ⟨ha.size, ha.ttl, fun _ => hobs.1, fun _ => hobs.2.1, hghost⟩⟩
  show verdict m (lineOf auth op) (stepObs c n s auth op mauth).2 = none
  apply verdict_none
  · -- (0)
    apply vRollback_none
    intro hok
    unfold stepObs at hok ⊢
    cases hx : applyG c s auth op mauth with
    | error e => exact ⟨(ha.bal _).symm, (ha.allow _).symm⟩
    | ok s' => rw [hx] at hok; cases hok
  · -- (4)
    apply vBounds_none
    intro hk
    rw [ha.ttl]
    cases op with
    | approve o sp amt lu => exact approve_piece_sound c n s auth o sp amt lu mauth
    | mint _ _ => cases hk
    | transfer _ _ _ => cases hk
    | transferFrom _ _ _ _ => cases hk
    | burn _ _ => cases hk
    | burnFrom _ _ _ => cases hk
    | advance _ => cases hk
  · -- (1)+(5)
    intro hok
    unfold checkDebits
    apply firstSome_none
    intro h hh
    have hh' : h < n := by rw [← ha.size]; exact List.mem_range.mp hh
    unfold stepObs at hok ⊢
    cases hx : applyG c s auth op mauth with
    | error e => rw [hx] at hok; cases hok
    | ok s' => exact debit_piece_sound ha mauth hU (applyG_ok hx) h hh'
  · -- (2)
    unfold checkRaises
    apply firstSome_none
    intro p hp
    rw [ha.size] at hp
    exact raise_piece_sound ha auth op mauth p hp
  · -- (2)+(3)
    rw [ha.size]
    exact checkGhost_none hghost hobs.2.1 hobs.2.2

/-- `lineOf` puts `lu := 0` on every op line but an approve's, whatever the harness printed there:
the monitor reads `lu=` for an approve only -/
theorem lu_read_for_approve_only (m : Mon) (l : Line) (lu : Nat) (o : Obs) (hk : l.kind ≠ .approve) :
    checkCore m { l with lu := lu } o = checkCore m l o := by
  unfold checkCore verdict vBounds
  rw [ghostStep_lu_irrelevant _ _ _ _ hk]
  simp only [if_neg hk]

/-- the monitor run over a whole history of model observations: first message, if any. A history
item is (authorizing addresses, operation, `mauth=` guard of the line if any). -/
def monitorRun (c : Cfg) (n : Nat) : Mon → State → List (List Nat × Op × Option Nat) → Option String
  | _, _, [] => none
  | m, s, x :: xs =>
    match (checkCore m (lineOf x.1 x.2.1) (stepObs c n s x.1 x.2.1 x.2.2).2).2 with
    | some msg => some msg
    | none => monitorRun c n (checkCore m (lineOf x.1 x.2.1) (stepObs c n s x.1 x.2.1 x.2.2).2).1
        (stepObs c n s x.1 x.2.1 x.2.2).1 xs

/-- the monitor's initial state for a sequence (what the driver's `minit` builds from the label:
`n` = `n=` of the label, default 5; `maxTtl` = `max_ttl=` of the label, default 200000 — the same
values the driver's `init` puts into the model's universe size and `Cfg`) -/
def monInit (c : Cfg) (n : Nat) : Mon := { prev := none, g := [], n := n, maxTtl := c.maxTtl }

/-- **monitor soundness**: for every host configuration, start ledger, universe size and finite
history over that universe — any amounts, any live_until values, any authorizing subsets, guarded
or unguarded mints, any ledger movement (also past the storage TTL of allowance entries) — the
monitor reports nothing on the model's observations -/
theorem monitor_accepts_every_model_trace (c : Cfg) (start n : Nat)
    (ops : List (List Nat × Op × Option Nat)) (hU : ∀ x ∈ ops, ∀ a ∈ x.2.1.addrs, a < n) :
    monitorRun c n (monInit c n) (init start) ops = none := by
  suffices ∀ m s, Agree c n m s → monitorRun c n m s ops = none from
    this _ _ ⟨rfl, rfl, fun _ => (balList_init n start).symm, fun _ => (allowList_init n start).symm,
      ginv_init start⟩
  induction ops with
  | nil => intro m s _; rfl
  | cons x xs ih =>
    intro m s ha
    obtain ⟨h1, h2⟩ := monitor_sound_step c n ha x.1 x.2.1 x.2.2 (hU x List.mem_cons_self)
    unfold monitorRun
    rw [h1]
    exact ih (fun y hy => hU y (List.mem_cons_of_mem _ hy)) _ _ h2

/-! ### about the hypothesis (test, labelled as such) -/

/-- the hypothesis that the history stays inside the observed universe cannot be dropped: a
covered transfer_from by spender 9 with only accounts 0..4 observed lowers account 0's balance
while the printed allowances (universe only) show none for the spender — the monitor (rightly,
from what it sees) reports `site=fungible.auth.spend_uncovered` -/
theorem spend_needs_observed_spender :
    (monitorRun ⟨1, 200000⟩ 5 (monInit ⟨1, 200000⟩ 5) (init 100)
      [([], .mint 0 10, none), ([0], .approve 0 9 5 200, none), ([9], .transferFrom 9 0 1 5, none)]).isSome = true := by
  decide

/-! ### non-vacuity (tests, labelled as such): the monitor is not trivially silent — on an
observation in which an unauthorized transfer moved tokens, and on one in which an expired
allowance still reads non-zero, it fires -/

example :
    (checkCore { prev := some ⟨true, 10, [10, 0, 0, 0, 0], [], 100, [], []⟩, g := [], n := 5, maxTtl := 200000 }
      (lineOf [1] (.transfer 0 1 4)) ⟨true, 10, [6, 4, 0, 0, 0], [], 100, [.transfer 0 1 4], [0]⟩).2.isSome = true := by
  decide

example :
    (checkCore { prev := some ⟨true, 10, [10, 0, 0, 0, 0], [(0, 1, 5)], 120, [], []⟩, g := [(0, 1, ⟨5, 120⟩)], n := 5,
                 maxTtl := 200000 }
      (lineOf [] (.advance 1)) ⟨true, 10, [10, 0, 0, 0, 0], [(0, 1, 5)], 121, [], []⟩).2.isSome = true := by
  decide

end OZ.FungibleMon.Auth
