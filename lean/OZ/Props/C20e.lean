import OZ.Lemmas.RegDocs
/-
C20 (e): the document manager (`Index(name) -> u32`, `Bucket(i) -> Vec<(name, Document)>` in
buckets of 50, `Count`, swap-and-pop with re-pointing of the moved entry's index) represents the
plain finite map  name ↦ getDocument s name  under ANY history of `set_document` /
`remove_document` (arbitrary arguments, failed calls rolled back), and index access enumerates
its entries exactly once.
-/
namespace OZ.Props.C20e
open OZ.Reg OZ.RegDocs

/-- **docs_refines.** After any history the storage is a flat entry list `l` with pairwise
different names (a finite map with an enumeration) and every getter answers from it. -/
theorem docs_refines (ops : List Op) :
    let s := run init ops
    ∃ l : List Entry, (l.map (·.1)).Nodup ∧ getDocumentCount s = l.length ∧ l.length ≤ MAX_DOCUMENTS ∧
      (∀ i, getDocumentByIndex s i = l[i]?) ∧
      (∀ n d, getDocument s n = some d ↔ (n, d) ∈ l) ∧
      (∀ n, getDocument s n = none ↔ n ∉ l.map (·.1)) ∧
      (∀ b, getDocuments s b = chunk BUCKET_SIZE l b) ∧
      entries s = l := by
  intro s
  obtain ⟨l, h⟩ : Inv s := inv_run inv_init ops
  refine ⟨l, h.names, h.count, h.le, rep_byIndex h, rep_getDocument h, rep_getDocument_none h,
    fun b => by unfold getDocuments; rw [h.buckets], ?_⟩
  unfold entries
  rw [h.count, h.buckets]
  split
  · rename_i h0; exact (List.length_eq_zero_iff.1 h0).symm
  · exact flatMap_chunk BUCKET_SIZE bsize l

/-- **docs_abs_step.** The represented map moves exactly as a plain map does: an accepted
`set_document` binds its name to the new document and touches nothing else, an accepted
`remove_document` unbinds its name and touches nothing else, a refused call changes nothing. -/
theorem docs_abs_step (s : State) (hs : Reachable s) :
    (∀ n u hsh ts s', setDocument s n u hsh ts = .ok s' →
      ∀ x d, getDocument s' x = some d ↔ ((x ≠ n ∧ getDocument s x = some d) ∨ (x = n ∧ d = ⟨u, hsh, ts⟩))) ∧
    (∀ n s', removeDocument s n = .ok s' →
      ∀ x d, getDocument s' x = some d ↔ (x ≠ n ∧ getDocument s x = some d)) ∧
    (∀ o e, step s o = .error e → next s o = s) := by
  obtain ⟨l, h⟩ := reachable_inv hs
  refine ⟨?_, ?_, ?_⟩
  · intro n u hsh ts s' hok x d
    by_cases hgood : u ≤ MAX_URI_LEN ∧ (n ∈ l.map (·.1) ∨ l.length < MAX_DOCUMENTS)
    · obtain ⟨s'', l', hs'', hr, hmem, _⟩ := (setDocument_spec h n u hsh ts).1 hgood.1 hgood.2
      rw [hok] at hs''; injection hs'' with hs''; subst hs''
      rw [rep_getDocument hr, rep_getDocument h, hmem]
    · have hbad : u > MAX_URI_LEN ∨ (n ∉ l.map (·.1) ∧ l.length ≥ MAX_DOCUMENTS) := by
        by_cases hu : u ≤ MAX_URI_LEN
        · right
          exact ⟨fun hm => hgood ⟨hu, Or.inl hm⟩, Nat.le_of_not_lt (fun hl => hgood ⟨hu, Or.inr hl⟩)⟩
        · left; omega
      obtain ⟨e, he⟩ := (setDocument_spec h n u hsh ts).2 hbad
      rw [hok] at he; cases he
  · intro n s' hok x d
    by_cases hm : n ∈ l.map (·.1)
    · obtain ⟨s'', idx, d0, hs'', hget, hr⟩ := (removeDocument_spec h n).1 hm
      rw [hok] at hs''; injection hs'' with hs''; subst hs''
      rw [rep_getDocument hr, rep_getDocument h, mem_swapPop l (entries_nodup h.names) idx (n, d0) hget]
      constructor
      · rintro ⟨hmem, hne⟩
        refine ⟨?_, hmem⟩
        intro hx; subst hx
        obtain ⟨j, hj⟩ := List.mem_iff_getElem?.1 hmem
        have := name_index_unique h.names hj hget
        subst this; rw [hget] at hj; injection hj with hj; exact hne hj.symm
      · rintro ⟨hx, hmem⟩
        exact ⟨hmem, fun he => hx (by injection he)⟩
    · obtain ⟨e, he⟩ := (removeDocument_spec h n).2 hm
      rw [hok] at he; cases he
  · intro o e he
    simp [next, he]

/-- **docs_absent_refused.** A name without a document cannot be removed. -/
theorem docs_absent_refused (s : State) (hs : Reachable s) (n : Nat) (hn : getDocument s n = none) :
    ∃ e, removeDocument s n = .error e := by
  obtain ⟨l, h⟩ := reachable_inv hs
  exact (removeDocument_spec h n).2 ((rep_getDocument_none h n).1 hn)

/-- **docs_limit_exact.** In a reachable state `set_document` with a URI of at most
`MAX_URI_LEN = 200` is accepted for a NEW name exactly while fewer than `MAX_DOCUMENTS = 5000`
documents are stored (the 5000th accepted, the 5001st refused) and always for an EXISTING name
(which keeps the count); a URI of 201 is refused. -/
theorem docs_limit_exact (s : State) (hs : Reachable s) (n u hsh ts : Nat) :
    (u ≤ 200 → getDocument s n = none →
      ((∃ s', setDocument s n u hsh ts = .ok s') ↔ getDocumentCount s < 5000)) ∧
    (u ≤ 200 → getDocument s n ≠ none →
      ∃ s', setDocument s n u hsh ts = .ok s' ∧ getDocumentCount s' = getDocumentCount s) ∧
    (u ≤ 200 → getDocument s n = none → getDocumentCount s < 5000 →
      ∃ s', setDocument s n u hsh ts = .ok s' ∧ getDocumentCount s' = getDocumentCount s + 1) ∧
    (u > 200 → ∃ e, setDocument s n u hsh ts = .error e) := by
  obtain ⟨l, h⟩ := reachable_inv hs
  have hc : getDocumentCount s = l.length := h.count
  refine ⟨?_, ?_, ?_, ?_⟩
  · intro hu hn
    have hnm := (rep_getDocument_none h n).1 hn
    rw [hc]
    constructor
    · rintro ⟨s', hok⟩
      apply Classical.byContradiction
      intro hl
      obtain ⟨e, he⟩ := (setDocument_spec h n u hsh ts).2 (Or.inr ⟨hnm, by simp [MAX_DOCUMENTS]; omega⟩)
      rw [hok] at he; cases he
    · intro hl
      obtain ⟨s', _, hs', _⟩ := (setDocument_spec h n u hsh ts).1 hu (Or.inr hl)
      exact ⟨s', hs'⟩
  · intro hu hn
    have hm : n ∈ l.map (·.1) := Classical.byContradiction (fun hnm => hn ((rep_getDocument_none h n).2 hnm))
    obtain ⟨s', l', hs', hr, _, hlen⟩ := (setDocument_spec h n u hsh ts).1 hu (Or.inl hm)
    refine ⟨s', hs', ?_⟩
    show s'.count = s.count
    rw [hr.count, h.count, hlen, if_pos hm]
  · intro hu hn hl
    have hnm := (rep_getDocument_none h n).1 hn
    rw [hc] at hl
    obtain ⟨s', l', hs', hr, _, hlen⟩ := (setDocument_spec h n u hsh ts).1 hu (Or.inr hl)
    refine ⟨s', hs', ?_⟩
    show s'.count = s.count + 1
    rw [hr.count, h.count, hlen, if_neg hnm]
  · intro hu
    exact (setDocument_spec h n u hsh ts).2 (Or.inl hu)

/-- **docs_enumerates_once.** In a reachable state `get_document_by_index` is a bijection between
`0 .. count-1` and the stored names (with their documents), and the `Index` entry of a name is
its position. -/
theorem docs_enumerates_once (s : State) (hs : Reachable s) :
    (∀ i, (getDocumentByIndex s i).isSome = true ↔ i < getDocumentCount s) ∧
    (∀ i n d, getDocumentByIndex s i = some (n, d) → getDocument s n = some d) ∧
    (∀ i j n d1 d2, getDocumentByIndex s i = some (n, d1) → getDocumentByIndex s j = some (n, d2) → i = j) ∧
    (∀ n d, getDocument s n = some d → ∃ i, i < getDocumentCount s ∧ getDocumentByIndex s i = some (n, d)) ∧
    (∀ n i, s.index n = some i ↔ ∃ d, getDocumentByIndex s i = some (n, d)) := by
  obtain ⟨l, h⟩ := reachable_inv hs
  have hc : getDocumentCount s = l.length := h.count
  refine ⟨?_, ?_, ?_, ?_, ?_⟩
  · intro i
    rw [rep_byIndex h, hc]
    constructor
    · intro hi
      obtain ⟨t, ht⟩ := Option.isSome_iff_exists.1 hi
      rw [List.getElem?_eq_some_iff] at ht; exact ht.1
    · intro hi; rw [List.getElem?_eq_getElem hi]; rfl
  · intro i n d hi
    rw [rep_byIndex h] at hi
    exact (rep_getDocument h n d).2 (List.mem_iff_getElem?.2 ⟨i, hi⟩)
  · intro i j n d1 d2 hi hj
    rw [rep_byIndex h] at hi hj
    exact name_index_unique h.names hi hj
  · intro n d hg
    obtain ⟨i, hi⟩ := List.mem_iff_getElem?.1 ((rep_getDocument h n d).1 hg)
    refine ⟨i, ?_, by rw [rep_byIndex h]; exact hi⟩
    rw [hc]; rw [List.getElem?_eq_some_iff] at hi; exact hi.1
  · intro n i
    rw [h.index]
    constructor
    · rintro ⟨d, hd⟩; exact ⟨d, by rw [rep_byIndex h]; exact hd⟩
    · rintro ⟨d, hd⟩; exact ⟨d, by rw [rep_byIndex h] at hd; exact hd⟩

/-! ### non-vacuity: 51 documents, removal of the first one moves the last across the bucket
boundary and re-points its index -/

example :
    let s := run init ((List.range 51).map (fun i => Op.set i 1 i 7) ++ [Op.remove 0])
    getDocumentCount s = 50 ∧ (getDocumentByIndex s 0).map (·.1) = some 50 ∧ s.index 50 = some 0 ∧
    s.index 0 = none ∧ getDocuments s 1 = [] ∧ (getDocument s 50).map (·.hash) = some 50 := by decide +kernel

end OZ.Props.C20e
