import OZ.Lemmas.SmartAccount
import OZ.Lemmas.SmartAccountInv
import OZ.Lemmas.SmartAccountTrace
/-
C03 — Smart-account authorization is sound and follows rule precedence.

Model: OZ/Model/SmartAccount.lean (`doCheckAuth` = `do_check_auth`, called unchanged by the
account's `__check_auth`). Vocabulary (OZ/Lemmas/SmartAccount.lean):
  `Applicable s now c r`  r is a stored rule of type `typeOf c` or Default, not expired;
  `Satisfied O c sup r`   no policies: every signer of r was supplied; otherwise every policy of r
                          accepts (`can_enforce`) exactly `counted r sup` = r.signers ∩ supplied;
  `Prec c r r'`           r is tried before r' (specific before Default, larger id = newer first);
  `Chosen ..  r`          applicable, satisfied, and first such in precedence order;
  `Inv s`                 the storage invariant, kept by every rule-management operation.
All theorems quantify over arbitrary oracles (verifier, delegated-auth, policy answers), arbitrary
stores satisfying `Inv` (hence every store reachable by any history of management operations),
arbitrary ledger sequence, signature lists and context batches.
-/
namespace OZ.SmartAccount

/-- SOUNDNESS. If `do_check_auth` succeeds then every supplied (signer, signature) pair verified,
and there is one rule per context, in order, each being THE rule chosen by the precedence order
among the applicable rules satisfied by the supplied signers; the enforce calls made are exactly
the policies of those rules, in order, once per context, each receiving exactly the rule's own
signers that were supplied; and every one of these hooks let the call through. -/
theorem check_auth_sound {O : Oracle} {s : Store} {now : Nat} {sigs : List (Signer × Nat)} {ctxs : List Ctx}
    {calls : List EnfCall} (hI : Inv s) (h : doCheckAuth O s now sigs ctxs = .ok calls) :
    (∀ x g, (x, g) ∈ sigs → sigOk O x g = true) ∧
    ∃ chosen : List Rule,
      Forall2 (fun c r => Chosen O s now c (sigs.map Prod.fst) r) ctxs chosen ∧
      calls = (List.zip ctxs chosen).flatMap (fun p => callsFor (sigs.map Prod.fst) p.1 p.2) ∧
      AllAccepted O calls := by
  unfold doCheckAuth at h
  cases ha : authenticate O sigs with
  | error e => rw [ha] at h; cases h
  | ok u =>
    rw [ha] at h; dsimp only at h
    cases hv : validateAll O s now (sigs.map Prod.fst) ctxs with
    | error e => rw [hv] at h; cases h
    | ok vs =>
      rw [hv] at h; dsimp only at h
      unfold finishCheck at h
      cases he : enforceLoop O [] (callsOf vs) with
      | error e => rw [he] at h; cases h
      | ok u2 =>
        rw [he] at h; dsimp only at h
        injection h with h
        have hall := validateAll_ok hI hv
        refine ⟨(authenticate_ok_iff O sigs).mp ha, vs.map (·.1), forall2_rules hall, ?_, ?_⟩
        · rw [← h]; exact callsOf_eq hall
        · rw [← h]
          intro pre c post hc
          have := (enforceLoop_ok_iff O [] (callsOf vs)).mp he pre c post hc
          simpa using this

/-- The chosen rule is unique: precedence is a strict order on applicable rules. -/
theorem chosen_unique {O : Oracle} {s : Store} {now : Nat} {c : Ctx} {sup : List Signer} {r r' : Rule}
    (h : Chosen O s now c sup r) (h' : Chosen O s now c sup r') : r = r' := by
  obtain ⟨ha, hs, hf⟩ := h
  obtain ⟨ha', hs', hf'⟩ := h'
  cases hf r' ha' hs' with
  | inl e => exact e.symm
  | inr p =>
    cases hf' r ha hs with
    | inl e => exact e
    | inr p' => exact absurd (prec_asymm c r r' p p') id

/-- COMPLETENESS. If all supplied signatures verify, every context has some applicable rule
satisfied by the supplied signers, and no enforce hook refuses, `do_check_auth` succeeds. -/
theorem check_auth_complete {O : Oracle} {s : Store} {now : Nat} {sigs : List (Signer × Nat)} {ctxs : List Ctx}
    (hI : Inv s) (hsig : ∀ x g, (x, g) ∈ sigs → sigOk O x g = true)
    (hcov : ∀ c ∈ ctxs, ∃ r, Applicable s now c r ∧ Satisfied O c (sigs.map Prod.fst) r)
    (henf : ∀ hist call, O.enf hist call = true) :
    ∃ calls, doCheckAuth O s now sigs ctxs = .ok calls := by
  unfold doCheckAuth
  rw [(authenticate_ok_iff O sigs).mpr hsig]
  dsimp only
  obtain ⟨vs, hvs⟩ := validateAll_complete (O := O) hI hcov
  rw [hvs]; dsimp only
  unfold finishCheck
  rw [(enforceLoop_ok_iff O [] (callsOf vs)).mpr (fun pre c post _ => henf _ c)]
  exact ⟨_, rfl⟩

/-- A rejection always has one of the three causes the property names: a signature that does not
verify, a context without any satisfied applicable rule, or a refusing enforce hook. -/
theorem check_auth_rejects_only_for_cause {O : Oracle} {s : Store} {now : Nat} {sigs : List (Signer × Nat)}
    {ctxs : List Ctx} {e : Err} (hI : Inv s) (h : doCheckAuth O s now sigs ctxs = .error e) :
    (∃ x g, (x, g) ∈ sigs ∧ sigOk O x g = false) ∨
    (∃ c ∈ ctxs, ∀ r, Applicable s now c r → ¬ Satisfied O c (sigs.map Prod.fst) r) ∨
    (∃ hist call, O.enf hist call = false) := by
  unfold doCheckAuth at h
  cases ha : authenticate O sigs with
  | error e' =>
    left
    apply Classical.byContradiction
    intro hn
    have : ∀ x g, (x, g) ∈ sigs → sigOk O x g = true := by
      intro x g hm
      cases hq : sigOk O x g with
      | true => rfl
      | false => exact absurd ⟨x, g, hm, hq⟩ hn
    rw [(authenticate_ok_iff O sigs).mpr this] at ha; cases ha
  | ok u =>
    rw [ha] at h; dsimp only at h
    cases hv : validateAll O s now (sigs.map Prod.fst) ctxs with
    | error e' => right; left; exact validateAll_error hI hv
    | ok vs =>
      rw [hv] at h; dsimp only at h
      right; right
      apply Classical.byContradiction
      intro hn
      have : ∀ hist call, O.enf hist call = true := by
        intro hist call
        cases hq : O.enf hist call with
        | true => rfl
        | false => exact absurd ⟨hist, call, hq⟩ hn
      unfold finishCheck at h
      rw [(enforceLoop_ok_iff O [] (callsOf vs)).mpr (fun pre c post _ => this _ c)] at h
      cases h

/-- Signers handed to a policy (and counted for a rule without policies) are signers OF THE RULE
that were supplied — never anybody else. -/
theorem counted_are_rule_signers (r : Rule) (sup : List Signer) :
    ∀ x ∈ counted r sup, x ∈ r.signers ∧ x ∈ sup := by
  intro x hx
  unfold counted at hx
  rw [List.mem_filter] at hx
  exact ⟨hx.1, by simpa using hx.2⟩

/-- FOREIGN SIGNERS NEVER COUNT. Two fully verifying signature maps that contain the same signers
of every stored rule lead to the same outcome and the same enforce calls (same signer lists passed
to the policies): extra signers named by no rule — valid, duplicated elsewhere or unknown — change
nothing. -/
theorem foreign_signers_never_count {O : Oracle} {s : Store} {now : Nat} {sigs1 sigs2 : List (Signer × Nat)}
    {ctxs : List Ctx}
    (h1 : ∀ x g, (x, g) ∈ sigs1 → sigOk O x g = true) (h2 : ∀ x g, (x, g) ∈ sigs2 → sigOk O x g = true)
    (hsame : ∀ id r, getContextRule s id = .ok r →
      ∀ x ∈ r.signers, (x ∈ sigs1.map Prod.fst ↔ x ∈ sigs2.map Prod.fst)) :
    doCheckAuth O s now sigs1 ctxs = doCheckAuth O s now sigs2 ctxs := by
  unfold doCheckAuth
  rw [(authenticate_ok_iff O sigs1).mpr h1, (authenticate_ok_iff O sigs2).mpr h2]
  dsimp only
  rw [validateAll_congr O s now _ _ ctxs hsame]

/-- A satisfied rule stays satisfied, with the same signer list handed to its policies, whatever
else is supplied beside its own signers. -/
theorem satisfied_depends_on_rule_signers_only (O : Oracle) (c : Ctx) (A B : List Signer) (r : Rule)
    (h : ∀ x ∈ r.signers, (x ∈ A ↔ x ∈ B)) :
    (Satisfied O c A r ↔ Satisfied O c B r) ∧ counted r A = counted r B := by
  refine ⟨?_, getAuthenticatedSigners_congr r.signers A B h⟩
  rw [← ruleMatches_iff, ← ruleMatches_iff, ruleMatches_congr O c A B r h]

/-! ### the invariant holds in every reachable store -/

/-- every rule-management operation (add / remove / rename / re-date a rule, add / remove a signer,
add / remove a policy) preserves the storage invariant -/
theorem management_preserves_inv {s s' : Store} {now : Nat} {op : Op} (hI : Inv s)
    (h : applyOp s now op = .ok s') : Inv s' := applyOp_inv hI h

/-- every store reachable from the empty account by any finite history of management operations
(accepted or rejected, at any ledger sequences) satisfies the invariant -/
theorem reachable_inv (hist : List (Nat × Op)) : Inv (run Store.empty hist) := run_inv_of inv_empty hist

/-- the documented limits hold in every reachable store -/
theorem reachable_limits (hist : List (Nat × Op)) (id : Nat) (r : Rule)
    (h : getContextRule (run Store.empty hist) id = .ok r) :
    (run Store.empty hist).count ≤ 15 ∧ r.signers.length ≤ 15 ∧ r.policies.length ≤ 5 ∧
      r.signers.Nodup ∧ r.policies.Nodup ∧ ¬ (r.signers = [] ∧ r.policies = []) := by
  have hI := reachable_inv hist
  obtain ⟨m, hm, _, _, _, hsg, hpl⟩ := getContextRule_fields h
  have hne := hI.nonempty id m hm
  rw [← hsg, ← hpl] at hne
  refine ⟨hI.count_le, ?_, ?_, ?_, ?_, hne⟩
  · rw [hsg]
    cases hq : (run Store.empty hist).signers id with
    | none => simp
    | some l => exact (hI.signers_ok id l hq).2
  · rw [hpl]
    cases hq : (run Store.empty hist).policies id with
    | none => simp
    | some l => exact (hI.policies_ok id l hq).2
  · rw [hsg]
    cases hq : (run Store.empty hist).signers id with
    | none => simp
    | some l => exact (hI.signers_ok id l hq).1
  · rw [hpl]
    cases hq : (run Store.empty hist).policies id with
    | none => simp
    | some l => exact (hI.policies_ok id l hq).1

/-- a newly added rule gets an id above every existing one: "newest first" = "largest id first" -/
theorem added_rule_is_newest {s s' : Store} {now : Nat} {t : RuleType} {name : Nat} {vu : Option Nat}
    {sg : List Signer} {pm : List Nat} {io : Nat → Bool} {r : Rule} (hI : Inv s)
    (h : addContextRule s now t name vu sg pm io = .ok (s', r)) :
    r.id = s.nextId ∧ (∀ id m, s.metas id = some m → id < r.id) ∧ getContextRule s' r.id = .ok r := by
  have hI' := addContextRule_inv hI h
  unfold addContextRule at h
  by_cases hc : s.count ≥ MAX_CONTEXT_RULES
  · rw [if_pos hc] at h; cases h
  · rw [if_neg hc] at h
    by_cases hd : hasDup sg = true
    · rw [if_pos hd] at h; cases h
    · rw [if_neg hd] at h
      cases h1 : checkValidUntil now vu with
      | error e => rw [h1] at h; cases h
      | ok u =>
        rw [h1] at h; dsimp only at h
        cases h2 : validateSignersAndPolicies sg (mapKeys pm) with
        | error e => rw [h2] at h; cases h
        | ok u2 =>
          rw [h2] at h; dsimp only at h
          cases h3 : validateAndSetFingerprint s t sg (mapKeys pm) with
          | error e => rw [h3] at h; cases h
          | ok s1 =>
            rw [h3] at h; dsimp only at h
            cases h4 : installAll io (mapKeys pm) with
            | error e => rw [h4] at h; cases h
            | ok u4 =>
              rw [h4] at h; dsimp only at h
              unfold bumpCounters at h
              by_cases h5 : s.nextId + 1 > U32_MAX
              · rw [if_pos h5] at h; cases h
              · rw [if_neg h5] at h
                dsimp only at h
                injection h with h
                injection h with hs' hr
                subst hr; subst hs'
                refine ⟨rfl, fun id m hm => hI.lt_next id m hm, ?_⟩
                simp [getContextRule, storeRule, updN]

/-- soundness for every reachable store, as the property is quantified -/
theorem check_auth_sound_reachable {O : Oracle} (hist : List (Nat × Op)) {now : Nat} {sigs : List (Signer × Nat)}
    {ctxs : List Ctx} {calls : List EnfCall} (h : doCheckAuth O (run Store.empty hist) now sigs ctxs = .ok calls) :
    (∀ x g, (x, g) ∈ sigs → sigOk O x g = true) ∧
    ∃ chosen : List Rule,
      Forall2 (fun c r => Chosen O (run Store.empty hist) now c (sigs.map Prod.fst) r) ctxs chosen ∧
      calls = (List.zip ctxs chosen).flatMap (fun p => callsFor (sigs.map Prod.fst) p.1 p.2) ∧
      AllAccepted O calls :=
  check_auth_sound (reachable_inv hist) h

/-! ### the call trace used by the correspondence is the same evaluation -/

/-- `checkTrace` (compared call by call with the logs of the mock verifier / policy contracts)
reports success exactly when `doCheckAuth` succeeds, and then its enforce events are exactly the
enforce calls `doCheckAuth` returns -/
theorem trace_agrees (O : Oracle) (s : Store) (now : Nat) (sigs : List (Signer × Nat)) (ctxs : List Ctx) :
    (checkTrace O s now sigs ctxs).2 = (doCheckAuth O s now sigs ctxs).toBool ∧
    ∀ calls, doCheckAuth O s now sigs ctxs = .ok calls →
      (checkTrace O s now sigs ctxs).1.filter isEnforce = calls.map enfEvent := by
  unfold checkTrace doCheckAuth
  have hA := authTrace_snd O sigs
  cases ha : authenticate O sigs with
  | error e =>
    rw [ha] at hA
    have : (authTrace O sigs).2 = false := hA
    rw [if_neg (by rw [this]; simp)]
    exact ⟨rfl, fun calls h => by cases h⟩
  | ok u =>
    rw [ha] at hA
    have : (authTrace O sigs).2 = true := hA
    rw [if_pos this]
    dsimp only
    have hC := ctxsTrace_snd O s now (sigs.map Prod.fst) ctxs
    cases hv : validateAll O s now (sigs.map Prod.fst) ctxs with
    | error e =>
      rw [hv] at hC
      have : (ctxsTrace O s now (sigs.map Prod.fst) ctxs).2 = none := hC
      rw [this]
      exact ⟨rfl, fun calls h => by cases h⟩
    | ok vs =>
      rw [hv] at hC
      have : (ctxsTrace O s now (sigs.map Prod.fst) ctxs).2 = some vs := hC
      rw [this]
      dsimp only
      unfold finishCheck
      have hE := enforceTrace_snd O [] (callsOf vs)
      cases he : enforceLoop O [] (callsOf vs) with
      | error e =>
        rw [he] at hE
        exact ⟨hE, fun calls h => by cases h⟩
      | ok u2 =>
        rw [he] at hE
        refine ⟨hE, ?_⟩
        intro calls h
        injection h with h; subst h
        rw [List.filter_append, List.filter_append, authTrace_noEnforce, ctxsTrace_noEnforce,
          enforceTrace_ok O [] _ hE, filter_enfEvents]
        rfl

/-! ### non-vacuity: a concrete account, oracle and batch -/

namespace Example
open Signer RuleType

def x0 : Signer := external 0 0
def x1 : Signer := external 0 1
def x2 : Signer := external 0 2
def d1 : Signer := delegated 1

/-- rule 0: Default {d1}; rule 1: Call 7 {x0, x1}, expires at 105; rule 2: Call 7 {x0} + policy 4;
rule 3: Default {x2} + policies 3, 5; a rejected duplicate and a removal in between -/
def history : List (Nat × Op) :=
  [ (100, .add .default 0 none [d1] [] (fun _ => true)),
    (100, .add (.call 7) 0 (some 105) [x0, x1] [] (fun _ => true)),
    (100, .add (.call 7) 0 none [x0] [4] (fun _ => true)),
    (100, .add (.call 7) 0 none [x0] [4] (fun _ => true)),          -- duplicate fingerprint: rejected
    (101, .add .default 0 none [x2] [5, 3] (fun _ => true)),
    (101, .add (.create 9) 0 none [x2] [] (fun _ => true)),
    (102, .remove 4),
    (102, .addSigner 3 x1),
    (102, .removeSigner 3 x1) ]

def store : Store := run Store.empty history

/-- policy 4 wants 2 signers of the rule (never met by rule 2), 3 and 5 want 1; every signature
byte 1 verifies; delegated address 1 authorized; the hooks never refuse -/
def oracle : Oracle :=
  { verify := fun _ _ g => g == 1
    auth := fun a => a == 1
    can := fun p _ m _ => if p = 4 then decide (m.length ≥ 2) else decide (m.length ≥ 1)
    enf := fun _ _ => true }

def sigs : List (Signer × Nat) := [(d1, 0), (x0, 1), (x1, 1), (x2, 1)]
def policiesOf (r : Except Err (List EnfCall)) : Option (List (Nat × Nat)) :=
  r.toOption.map (List.map (fun c => (c.policy, c.rule.id)))

/-- at ledger 105 the call to 7 is authorized by rule 1 (rule 2 is newer but its policy refuses),
the call to 8 and the deployment by Default rule 3 (newer than rule 0): enforce 3, 5 twice -/
example : policiesOf (doCheckAuth oracle store 105 sigs [.call 7 0, .call 8 1, .create 9 0])
    = some [(3, 3), (5, 3), (3, 3), (5, 3)] := by decide

/-- one ledger later rule 1 has expired: the call to 7 falls through to Default rule 3 as well -/
example : policiesOf (doCheckAuth oracle store 106 sigs [.call 7 0]) = some [(3, 3), (5, 3)] := by decide

/-- without x2 and d1 nothing covers a call to 8 -/
example : policiesOf (doCheckAuth oracle store 105 [(x0, 1), (x1, 1)] [.call 8 1]) = none := by decide

/-- a signature that does not verify rejects the batch although rule 1 would be satisfied -/
example : policiesOf (doCheckAuth oracle store 105 [(x0, 1), (x1, 1), (x2, 0)] [.call 7 0]) = none := by decide

example : store.count = 4 ∧ store.ids (.call 7) = [1, 2] ∧ store.ids .default = [0, 3] := by decide

end Example

end OZ.SmartAccount
