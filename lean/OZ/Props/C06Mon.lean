import OZ.Lemmas.AccessMon
/-
C06 — soundness of the MONITOR that decides the property on implementation traces.

`./check C06` reports a concrete violation exactly when `OZ.Access.Mon.checkCore` (the driver's
monitor on parsed values, OZ/Model/AccessMon.lean) returns a message on the implementation's
observations. Here it is proved that on the observations of the MODEL the monitor never returns a
message, for every ledger configuration, every initial admin / owner / start ledger and every
finite history of calls (`monitor_accepts_every_model_trace`). Consequences:

  * an implementation whose observations agree with the model's (the correspondence the check
    establishes by differential testing) can never raise a monitor alarm — a monitor failure is
    never a false alarm of the monitor itself;
  * every conclusion the monitor evaluates — grant / revoke only by an authorizing admin or holder
    of the role's admin role, revoke / renounce only of held pairs, every guard (`only_admin`,
    `only_owner`, `only_role`, `has_role`, `has_any_role`, `only_any_role`,
    `ensure_if_admin_or_admin_role`) passes for exactly the entitled callers, rollback of rejected
    calls, nothing changes by the passage of time, the admin / owner change only by their own
    accept / renounce and never reappear after a renounce, every getter (count, enumeration,
    index, `get_role_member(count)`, existing roles) answers as the plain set of
    granted-not-revoked pairs — is a THEOREM about the model, in the monitor's own executable wording.

`modelObs s xr ok` (OZ/Model/AccessMon.lean) is the data the model driver prints for state `s`
(`stepLine` / `showState` / `showRole` of OZ/Drv/C06.lean): tag, `admin=`, `owner=`, `ra=` for roles
0..R-1, the role blocks of roles 0..R-1 followed by the blocks of the extra roles `xr` the op line
names, `ex=`, and the persistent words of the line (`persistStr`, built from the same `showHolders`,
`showRoles`, `showExisting` the driver prints). A history item carries its own `xr` (ANY list of
roles), so the theorem covers every op line.

While proving this, the monitor as it was turned out to be STRICTER than the model outside the
harness's small universe (accounts ≥ N = 5, role admins of roles ≥ R = 5): three of its conditions
raised false alarms on model traces. They are exhibited below (`legacy_monitor_false_alarm_*`) and
were corrected in OZ/Model/AccessMon.lean so that they demand exactly what the property states.

Property theorems only; helper facts come from OZ/Lemmas/AccessMon.lean.
-/
namespace OZ.Access.Mon
open OZ.Host OZ.Access

/-- one item of a history: the authorizing addresses, the call, and the extra roles the op line
makes the driver display (any list) -/
abbrev Call := (List Nat × Op) × List Nat

/-- the refinement part of the monitor never fires on the observation of a state satisfying the
storage invariant: every displayed role block and the existing-roles list answer as the plain set -/
theorem refinement_quiet {x : GS} (hx : GInv x) (xr touched accts : List Nat) (ok : Bool)
    (hacc : ∀ a r, x.g a r = true → a ∈ accts) :
    firstFail (checkRole x.g (modelObs x.s xr ok).ex) (modelObs x.s xr ok).roles = none ∧
    existingCheck x.g touched accts (modelObs x.s xr ok).ex = none := by
  rw [← hx.set] at hacc ⊢
  refine ⟨firstFail_none ?_, existingCheck_model hx.inv touched accts hacc⟩
  intro ro hro
  have : ∃ r, ro = modelRole x.s r := by
    simp only [modelObs, List.mem_append, List.mem_map] at hro
    rcases hro with ⟨r, -, e⟩ | ⟨r, -, e⟩ <;> exact ⟨r, e.symm⟩
  obtain ⟨r, rfl⟩ := this
  exact checkRole_model hx.inv r

/-- **one call**: fed with the model's own observation of any call (accepted or rejected, with any
extra roles displayed), the monitor reports nothing and its state keeps describing the model's -/
theorem monitor_sound_step (c : Cfg) {m : Mon} {x : GS} (hi : MInv c x) (ha : Agree m x)
    (a : List Nat × Op) (xr : List Nat) :
    (checkCore m a.1 a.2 (modelObs (stepG c x a).s xr (accepted c x.s a))).2 = none ∧
    Agree (checkCore m a.1 a.2 (modelObs (stepG c x a).s xr (accepted c x.s a))).1 (stepG c x a) := by
  have hi' : MInv c (stepG c x a) := stepG_minv c hi a
  have hg : setStep m.g a.2 (accepted c x.s a) = (stepG c x a).g := by rw [ha.g, stepG_g]
  have hacc : ∀ b r, (stepG c x a).g b r = true → b ∈ acctStep m.accts a.2 (accepted c x.s a) := by
    rw [← hg]
    exact accts_step (fun b r h => ha.accts b r (by rw [← ha.g]; exact h)) a.2 _
  refine ⟨?_, ⟨hg, rfl, rfl, rfl, ?_, fun _ => rfl, hacc⟩⟩
  · obtain ⟨r1, r2⟩ := refinement_quiet hi'.ginv xr (touchStep m.touched a.2)
      (acctStep m.accts a.2 (accepted c x.s a)) (accepted c x.s a) hacc
    show firstSome (verdict m a.1 a.2 _) (firstSome (holderCheck m a.2 _)
      (firstSome (firstFail (checkRole (setStep m.g a.2 _) _) _) (existingCheck (setStep m.g a.2 _) _ _ _))) = none
    rw [verdict_model c hi.ginv ha a xr, holderCheck_model c hi ha a xr]
    show firstSome (firstFail (checkRole (setStep m.g a.2 (accepted c x.s a)) _) _)
      (existingCheck (setStep m.g a.2 (accepted c x.s a)) _ _ _) = none
    rw [hg, r1]
    exact r2
  · show raStep m.raG a.2 (accepted c x.s a) = (stepG c x a).s.roleAdmin
    rw [ha.raG, stepG_roleAdmin]

/-- the monitor run over a whole history of model observations: first message, if any -/
def monitorRun (c : Cfg) : Mon → GS → List Call → Option String
  | _, _, [] => none
  | m, x, a :: as =>
    match (checkCore m a.1.1 a.1.2 (modelObs (stepG c x a.1).s a.2 (accepted c x.s a.1))).2 with
    | some msg => some msg
    | none => monitorRun c (checkCore m a.1.1 a.1.2 (modelObs (stepG c x a.1).s a.2 (accepted c x.s a.1))).1
        (stepG c x a.1) as

/-- the initial monitor state agrees with the initial model state -/
theorem monInit_agree (admin owner : Option Nat) (start : Nat) :
    Agree (monInit admin owner) (initG admin owner start) :=
  { g := rfl, admin := rfl, owner := rfl, ra := rfl, raG := rfl,
    str := fun h => by simp [monInit] at h, accts := fun a r h => by simp [initG] at h }

/-- **monitor soundness**: for every ledger configuration, initial admin and owner (or none),
start ledger and finite history — any callers, any authorizing subsets, any accounts and roles
(also beyond the displayed universe), any role-admin configuration, hand-overs, renounces, ledger
movement, any extra roles displayed — the monitor that the driver's `minit` builds reports nothing
on the observations of the model that the driver's `init` builds -/
theorem monitor_accepts_every_model_trace (c : Cfg) (admin owner : Option Nat) (start : Nat)
    (ops : List Call) :
    monitorRun c (monInit admin owner) (initG admin owner start) ops = none := by
  suffices ∀ m x, MInv c x → Agree m x → monitorRun c m x ops = none from
    this _ _ (initG_minv c admin owner start) (monInit_agree admin owner start)
  induction ops with
  | nil => intro m x _ _; rfl
  | cons a as ih =>
    intro m x hi ha
    obtain ⟨h1, h2⟩ := monitor_sound_step c hi ha a.1 a.2
    unfold monitorRun
    rw [h1]
    exact ih _ _ (stepG_minv c hi a.1) h2

/-! ### findings: the monitor as it was before this proof raised false alarms on model traces

Each theorem runs the MODEL on a short history that leaves the harness's universe, builds the
model's own observation, and shows that the former condition of the monitor (kept as `legacy…` in
OZ/Model/AccessMon.lean) holds, i.e. the former monitor reported the named site although the
observation is the model's. The corrected conditions are silent on the same input (by the theorem
above; shown again concretely). -/

/-- model trace: `grant_role_no_auth(7, role 0)` on a fresh contract. The enumeration of role 0 is
[7], exactly the set — the former `site=ac.set.members` condition fired because 7 ≥ N. -/
theorem legacy_monitor_false_alarm_members :
    legacyMembersDiffer (runG ⟨1, 1000⟩ (initG (some 0) (some 1) 100) [([], .grantNoAuth 7 0 0)]).g
      (modelRole (runG ⟨1, 1000⟩ (initG (some 0) (some 1) 100) [([], .grantNoAuth 7 0 0)]).s 0) = true ∧
    membersDiffer (runG ⟨1, 1000⟩ (initG (some 0) (some 1) 100) [([], .grantNoAuth 7 0 0)]).g
      (modelRole (runG ⟨1, 1000⟩ (initG (some 0) (some 1) 100) [([], .grantNoAuth 7 0 0)]).s 0) = false := by
  decide

/-- the monitor state after feeding it the model's observations of `ops` (whatever it reported) -/
def monAfter (c : Cfg) : Mon → GS → List Call → Mon
  | m, _, [] => m
  | m, x, a :: as =>
    monAfter c (checkCore m a.1.1 a.1.2 (modelObs (stepG c x a.1).s a.2 (accepted c x.s a.1))).1 (stepG c x a.1) as

/-- role 7 gets admin role 1, account 2 holds role 1 -/
def raTrace : List Call :=
  [(([], .setRoleAdminNoAuth 7 1), [7]), (([], .grantNoAuth 2 1 0), [])]

/-- model trace: `set_role_admin_no_auth(role 7, admin role 1)`, `grant_role_no_auth(2, role 1)`; then
account 2 grants role 7 to account 3 with its own authorization. The model accepts (2 holds the
admin role of role 7) — the former `site=ac.grant.unauthorized` condition fired because the role
admin of a role ≥ R was taken to be absent. -/
theorem legacy_monitor_false_alarm_role_admin :
    accepted ⟨1, 1000⟩ (runG ⟨1, 1000⟩ (initG (some 0) (some 1) 100) (raTrace.map (·.1))).s ([2], .grant 3 7 2) = true ∧
    legacyMayAdminister (monAfter ⟨1, 1000⟩ (monInit (some 0) (some 1)) (initG (some 0) (some 1) 100) raTrace) 7 2 = false ∧
    mayAdminister (monAfter ⟨1, 1000⟩ (monInit (some 0) (some 1)) (initG (some 0) (some 1) 100) raTrace) 7 2 = true := by
  decide

/-- model trace: `grant_role_no_auth(7, role 9)` on a fresh contract. Role 9 is listed in the
existing roles and does have a member — the former `site=ac.existing.empty` condition fired because
it looked for members among the accounts 0..N-1 only. -/
theorem legacy_monitor_false_alarm_existing :
    legacyExistingEmpty (runG ⟨1, 1000⟩ (initG (some 0) (some 1) 100) [([], .grantNoAuth 7 9 0)]).g
      (getExistingRoles (runG ⟨1, 1000⟩ (initG (some 0) (some 1) 100) [([], .grantNoAuth 7 9 0)]).s) = true ∧
    existingEmpty (runG ⟨1, 1000⟩ (initG (some 0) (some 1) 100) [([], .grantNoAuth 7 9 0)]).g
      (acctStep [] (.grantNoAuth 7 9 0) true)
      (getExistingRoles (runG ⟨1, 1000⟩ (initG (some 0) (some 1) 100) [([], .grantNoAuth 7 9 0)]).s) = false := by
  decide

/-! ### non-vacuity (tests, labelled as such): the monitor is not trivially silent -/

/-- a stranger's grant that the implementation accepts is reported -/
example :
    (checkCore (monInit (some 0) (some 1)) [3] (.grant 1 0 3)
      ⟨true, some 0, some 1, List.replicate R none, [], [], ""⟩).2.isSome = true := by
  simp [checkCore, firstSome, verdict, verdictAccepted, verdictGrant, mayAdminister, holdsAdminRole,
    roleAdminOf, monInit, R]

/-- a role block with a count that the enumeration does not reach is reported; so is an enumerated
account outside the set, and a granted account that `has_role` denies -/
example :
    (checkRole (fun _ _ => false) [] ⟨0, 1, [], [none, none, none, none, none], "F"⟩).isSome = true ∧
    membersDiffer (fun _ _ => false) ⟨0, 1, [some 2], [none, none, none, none, none], "F"⟩ = true ∧
    hasRoleDiffers (fun a r => a == 1 && r == 0) ⟨0, 0, [], [none, none, none, none, none], "F"⟩ = true := by
  refine ⟨by simp [checkRole, memOf], by decide, by decide⟩

/-- an admin that reappears after the renounce is reported -/
example :
    (holderCheck { monInit none (some 1) with first := false } (.adm .accept)
      ⟨true, some 3, some 1, [], [], [], ""⟩).isSome = true := by
  simp [holderCheck, monInit, isAdmHandover]

end OZ.Access.Mon
