import OZ.Props.C01GenRef
import OZ.Props.C02
/-
C02 — the allowance law over histories, for the code as translated.

`OZ/Props/C01GenRef.lean` proves that every finite history of the entry points of the token GENERATED from
/repo's current `fungible/storage.rs` + `extensions/burnable/storage.rs` (with the `Allowance` entry temporary
and its lifetime) follows the hand model's `run` under the abstraction map `Abs`.  The history-level theorems
of `OZ/Props/C02.lean` are about the model's `run`; this file transports them to the generated getters:
what the generated `allowance(owner, spender)` returns after ANY history from the freshly deployed store is
the amount of the last accepted approval minus what was spent through it since, while the ledger has not
passed that approval's `live_until_ledger`, and 0 afterwards.  Property theorems only.
-/
namespace OZ.Gen.FungibleF
open OZ.Rs OZ.Host OZ.Fungible

/-- the generated `allowance` getter is the model's under the abstraction map -/
theorem allowance_ref (envr : FungibleF.Reads) (st : FungibleF.Store) (s : OZ.Fungible.State) (hA : Abs envr st s)
    (o sp : Nat) : FungibleF.allowance envr st o sp = .ok (OZ.Fungible.allowance s o sp) := by
  obtain ⟨d, hd, hc⟩ := allowance_data_ref envr st s hA o sp
  unfold FungibleF.allowance OZ.Fungible.allowance
  rw [hd, ← hc]
  rfl

/-- the generated `balance` getter is the model's -/
theorem balance_ref (envr : FungibleF.Reads) (st : FungibleF.Store) (s : OZ.Fungible.State) (hA : Abs envr st s)
    (a : Nat) : FungibleF.balance envr st a = .ok (s.bal a) := by
  rw [hA.bal a]
  unfold FungibleF.balance
  cases st.Balance a <;> rfl

/-- **C02 over histories, on the source as translated**: after ANY finite history of generated calls and
ledger movements from the freshly deployed store, the generated `allowance(o, sp)` returns
(last approved − spent since) while the ledger has not passed the last approval's `live_until_ledger`,
and 0 afterwards; it is never negative and never exceeds approved − spent -/
theorem gen_allowance_eq_ghost (c : Cfg) (hmin : 1 ≤ c.minTempTtl) (now : Nat)
    (ops : List (List Nat × OZ.Fungible.Op)) (hops : ∀ x ∈ ops, OpRange x.2) (o sp : Nat) :
    let x := genRun c (now, ⟨fun _ => none, none, fun _ => none⟩) ops
    FungibleF.allowance (envrOf c x.1 []) x.2 o sp =
      .ok (if x.1 ≤ (ghost c now ops o sp).lu
        then (ghost c now ops o sp).approved - (ghost c now ops o sp).spent else 0) := by
  intro x
  obtain ⟨hA, _⟩ := run_refines c hmin ops now _ _ (abs_init c now) range_init hops
  rw [allowance_ref _ _ _ hA, allowance_eq_ghost]
  have hn : (run c (init now) ops).now = x.1 := hA.now
  rw [hn]

theorem gen_allowance_bounds (c : Cfg) (hmin : 1 ≤ c.minTempTtl) (now : Nat)
    (ops : List (List Nat × OZ.Fungible.Op)) (hops : ∀ x ∈ ops, OpRange x.2) (o sp : Nat) :
    let x := genRun c (now, ⟨fun _ => none, none, fun _ => none⟩) ops
    ∃ v, FungibleF.allowance (envrOf c x.1 []) x.2 o sp = .ok v ∧ 0 ≤ v ∧
      v ≤ (ghost c now ops o sp).approved - (ghost c now ops o sp).spent := by
  intro x
  obtain ⟨hA, _⟩ := run_refines c hmin ops now _ _ (abs_init c now) range_init hops
  exact ⟨_, allowance_ref _ _ _ hA o sp, allowance_le_approved_minus_spent c now ops o sp⟩

/-- **expiry over histories**: once the ledger has passed the `live_until_ledger` of the last accepted
approval of `(o, sp)`, the generated getter returns 0 — whatever happened in between and however long the
storage entry lives -/
theorem gen_allowance_zero_after_expiry (c : Cfg) (hmin : 1 ≤ c.minTempTtl) (now : Nat)
    (ops : List (List Nat × OZ.Fungible.Op)) (hops : ∀ x ∈ ops, OpRange x.2) (o sp : Nat)
    (hx : (ghost c now ops o sp).lu < (genRun c (now, ⟨fun _ => none, none, fun _ => none⟩) ops).1) :
    FungibleF.allowance (envrOf c (genRun c (now, ⟨fun _ => none, none, fun _ => none⟩) ops).1 [])
      (genRun c (now, ⟨fun _ => none, none, fun _ => none⟩) ops).2 o sp = .ok 0 := by
  have h := gen_allowance_eq_ghost c hmin now ops hops o sp
  simp only [] at h
  rw [h, if_neg (by omega)]

/-! ### non-vacuity (test, labelled as such): the generated token runs the demo history of C02 -/

example : (let x := genRun ⟨16, 6312000⟩ (100, ⟨fun _ => none, none, fun _ => none⟩) demoAuth
    FungibleF.allowance (envrOf ⟨16, 6312000⟩ x.1 []) x.2 0 1) = .ok 300 := by decide

end OZ.Gen.FungibleF
