import OZ.Model.VotesRawMon
import OZ.Lemmas.Votes
/-
C13 — soundness of the monitor of the raw vote-tracking library run (OZ/Model/VotesRawMon.lean,
harness/src/bin/c13raw.rs, driver OZ/Drv/C13Raw.lean): fed with the MODEL's own observations of any finite history of
`transfer_voting_units` (mint, burn, transfer; amounts over all of `u128` and beyond), `delegate` and ledger
movements among the accounts 0..4, the monitor reports nothing. A report on the implementation's observations is
therefore a behaviour the model — for which OZ/Props/C13.lean proves the property — cannot show.
Property theorems only.
-/
namespace OZ.Votes.RawMon
open OZ.Votes

theorem range_nodup (n : Nat) : (List.range n).Nodup := List.nodup_range

theorem getElem_map_range (f : Nat → α) (n i : Nat) (hi : i < n) : ((List.range n).map f)[i]? = some (f i) := by
  rw [List.getElem?_map, List.getElem?_range hi]; rfl

theorem sumN_congr_mem (U : List Nat) (f g : Nat → Nat) (h : ∀ d, d ∈ U → f d = g d) : sumN U f = sumN U g := by
  unfold sumN
  rw [List.map_congr_left h]

theorem uf_model (s : State) (ok : Bool) (i : Nat) (hi : i < N) : uf (modelObs s ok) i = s.units i := by
  unfold uf modelObs; simp only; rw [getElem_map_range _ _ _ hi]; rfl

theorem df_model (s : State) (ok : Bool) (i : Nat) (hi : i < N) : df (modelObs s ok) i = s.delegatee i := by
  unfold df modelObs; simp only; rw [getElem_map_range _ _ _ hi]; rfl

theorem vf_model (s : State) (ok : Bool) (i : Nat) (hi : i < N) : vf (modelObs s ok) i = votesOf s i := by
  unfold vf modelObs; simp only; rw [getElem_map_range _ _ _ hi]; rfl

/-- **one observation**: in every model state satisfying the invariant of the reachable states (over the accounts
0..4), the supply and the delegated-units checks are silent; the rollback check is silent whenever a refused
call is observed in the state the previous observation was taken in -/
theorem check_sound (s : State) (hi : Inv (List.range N) s) (ok : Bool) (prev : Option Obs)
    (hp : ok = false → ∀ p, prev = some p → same (modelObs s ok) p = true) :
    checkCore prev (modelObs s ok) = none := by
  unfold checkCore
  have htot : (modelObs s ok).total = sumN (List.range N) (uf (modelObs s ok)) := by
    show latestVotes s.total = _
    rw [hi.total]
    exact sumN_congr_mem _ _ _ (fun d hd => (uf_model s ok d (List.mem_range.mp hd)).symm)
  rw [if_neg (by rw [← htot]; simp)]
  have hfind : (List.range N).find? (fun a => decide (vf (modelObs s ok) a ≠ delegatedObs (modelObs s ok) a)) = none := by
    rw [List.find?_eq_none]
    intro a ha
    have ha' := List.mem_range.mp ha
    simp only [decide_eq_true_eq, ne_eq, Decidable.not_not]
    rw [vf_model s ok a ha', hi.votes a]
    unfold delegatedObs delegatedTo
    exact (sumN_congr_mem _ _ _ (fun d hd => by
      rw [df_model s ok d (List.mem_range.mp hd), uf_model s ok d (List.mem_range.mp hd)])).symm
  rw [hfind]
  simp only
  cases prev with
  | none => rfl
  | some p =>
    simp only
    rw [if_neg]
    rintro ⟨h1, h2⟩
    have h1' : ok = false := h1
    rw [hp h1' p rfl] at h2
    cases h2

/-- the monitor run over a whole history of model observations: first message, if any -/
def monRun : Option Obs → State → List (List Nat × Op) → Option String
  | _, _, [] => none
  | prev, s, x :: rest =>
    match apply s x.1 x.2 with
    | .ok s' =>
      (match checkCore prev (modelObs s' true) with
       | some m => some m
       | none => monRun (some (modelObs s' true)) s' rest)
    | .error _ =>
      (match checkCore prev (modelObs s false) with
       | some m => some m
       | none => monRun (some (modelObs s false)) s rest)

theorem same_self (s : State) (a b : Bool) : same (modelObs s a) (modelObs s b) = true := by
  simp [same, modelObs]

/-- **monitor soundness**: for every start ledger and every finite history of library calls among the accounts
0..4 (any amounts, any signers), the monitor reports nothing on the model's observations -/
theorem monitor_accepts_every_model_trace (now0 : Nat) (ops : List (List Nat × Op))
    (hU : ∀ x ∈ ops, ∀ a ∈ x.2.addrs, a < N) : monRun none (init now0) ops = none := by
  suffices h : ∀ (s : State) (prev : Option Obs), Inv (List.range N) s →
      (∀ p, prev = some p → ∃ b, p = modelObs s b) → monRun prev s ops = none by
    exact h (init now0) none (init_inv _ now0) (fun p hp => by cases hp)
  induction ops with
  | nil => intro s prev _ _; rfl
  | cons x xs ih =>
    intro s prev hi hprev
    have hUx : ∀ a ∈ x.2.addrs, a ∈ List.range N := fun a ha => List.mem_range.mpr (hU x List.mem_cons_self a ha)
    have hU' : ∀ y ∈ xs, ∀ a ∈ y.2.addrs, a < N := fun y hy => hU y (List.mem_cons_of_mem _ hy)
    unfold monRun
    cases hx : apply s x.1 x.2 with
    | ok s' =>
      simp only
      have hi' : Inv (List.range N) s' := apply_inv (range_nodup N) hi x.1 x.2 hUx hx
      rw [check_sound s' hi' true prev (fun h => by cases h)]
      exact ih hU' s' _ hi' (fun p hp => by injection hp with hp; exact ⟨true, hp.symm⟩)
    | error e =>
      simp only
      rw [check_sound s hi false prev (fun _ p hp => by
        obtain ⟨b, hb⟩ := hprev p hp
        rw [hb]; exact same_self s false b)]
      exact ih hU' s _ hi (fun p hp => by injection hp with hp; exact ⟨false, hp.symm⟩)

/-- non-vacuity: a history that reaches the top of the `u128` range (accepted and refused issuance) -/
example : ∀ x ∈ ([([], Op.transferUnits none (some 0) (U128_MAX - 10)), ([], Op.transferUnits none (some 1) 11),
    ([1], Op.delegate 1 2), ([], Op.transferUnits none (some 1) 10)] : List (List Nat × Op)), ∀ a ∈ x.2.addrs, a < N := by
  decide

end OZ.Votes.RawMon
