import OZ.Lemmas.TimelockMon
/-
C08 — soundness of the MONITOR that decides the property on implementation traces.

`./check C08` reports a concrete violation exactly when `OZ.Timelock.Mon.checkCore` (the driver's
monitor on parsed values, OZ/Model/TimelockMon.lean) returns a message on the implementation's
observations (or when an observation line cannot be parsed at all). Here it is proved that on the
observations of the MODEL the monitor never returns a message, for every start ledger of the
property's regime (2 ≤ start ≤ u32::MAX) and every finite history of trace lines — definitions of
operation tuples, schedule / set_execute / execute / cancel / set_min_delay calls with arbitrary
indices, references, delays and target oracles, accepted or rejected, and ledger advances
(`monitor_accepts_every_model_trace`). Consequences:

  * an implementation whose observations agree with the model's (the correspondence the check
    establishes by differential testing) can never raise a monitor alarm — a monitor failure is
    never a false alarm of the monitor itself;
  * every conclusion the monitor evaluates (execution only of a scheduled, not since cancelled,
    not yet executed operation whose delay has elapsed and whose predecessor is zero or executed;
    schedule only of an Unset id with delay ≥ the minimum delay in force; cancel only of a pending
    id; every reported state / ledger value / predicate of every id as the accepted history
    prescribes; the target invoked exactly once by an accepted execute and by nothing else;
    nothing but Waiting → Ready over an idle gap; rollback of rejected calls; id-equality ⇔
    tuple-equality) is a THEOREM about the model, in the monitor's own executable wording.

The model side (`MS`, `modelObs`, `modelStep`, in OZ/Lemmas/TimelockMon.lean) is the structured
content of what the driver's `op` (`OZ.Drv.C08.stepLine` / `showState` / `showId` / `showCalls`)
prints for the model: per id of `defs ++ [zero, raw 1]` the state letter, `get_operation_ledger` and
the four predicates as `0`/`1` flags; `now`; the minimum delay; per target 0, 1 the number of calls
and function / first argument of the last one; on a definition line the indices of the earlier
definitions with the same id; `err` with the unchanged state for a rejected call and for an
`advance` beyond `HORIZON`. Lines for which the model driver prints `bad-op` (unknown kind,
index / reference that does not resolve) have no model observation and are skipped by `monitorRun`.

Property theorems only; helper facts come from OZ/Lemmas/TimelockMon.lean and OZ/Lemmas/Timelock.lean.
-/
namespace OZ.Timelock.Mon
open OZ.Host OZ.Timelock

/-- **the state check**: in every state satisfying the reachable-state invariant, whatever the
universe of defined operations, the triple (state, ledger value, predicates) the model reports for
every id is exactly what the monitor derives from its own ghost log — `expected` is
`state_reported_correctly` (Props/C08) in the monitor's executable wording, saturated corner
included -/
theorem monitor_state_check_sound (m : Mon) (x : MS) (hi : Inv x.s) (ha : Agree m x) (ok : Bool)
    (eq : Option (List Nat)) :
    checkStates m (modelObs x ok eq) = none ∧
    ∀ id, expected (m.get (some id)) x.s.now = idObs x.s id := by
  have h : ∀ id, expected (m.get (some id)) x.s.now = idObs x.s id := by
    intro id; rw [ha.ghost]; exact expected_toG hi id
  refine ⟨checkStates_quiet m _ (idObs x.s) h ?_, h⟩
  show modelSt x = _
  unfold modelSt
  rw [ha.defs]

/-- **one line**: fed with the model's own observation of any trace line (a definition, or a call
the model accepts or rejects), the monitor reports nothing, its state keeps describing the
model's, and the model state stays inside the invariant -/
theorem monitor_sound_step (m : Mon) (x : MS) (hi : Inv x.s) (ha : Agree m x) (ln : Line) (x' : MS) (o : Obs)
    (h : modelStep x ln = some (x', o)) :
    (checkCore m ln o).2 = none ∧ Agree (checkCore m ln o).1 x' ∧ Inv x'.s := by
  cases ln with
  | badDef => cases h
  | defn t f args p s =>
    cases hp : refKey x.defs p with
    | none => simp [modelStep, hp] at h
    | some pid =>
      simp only [modelStep, hp, Option.map_some, Option.some.injEq] at h
      have h1 : x' = (modelDef x ⟨t, f, args, pid, s⟩).1 := by rw [h]
      have h2 : o = (modelDef x ⟨t, f, args, pid, s⟩).2 := by rw [h]
      subst h1; subst h2
      rw [checkCore_defn _ _ _ _ _ _ _ (show 2 ≤ x.s.now from hi.nowLo)]
      obtain ⟨a, b⟩ := def_sound m x hi ha t f args p s pid hp
      exact ⟨a, b, hi⟩
  | call c =>
    cases hr : resolveCall x.defs c with
    | none => simp [modelStep, hr] at h
    | some op =>
      simp only [modelStep, hr, Option.map_some, Option.some.injEq] at h
      unfold modelCall at h
      by_cases hout : outside x.s op = true
      · rw [if_pos hout] at h
        injection h with h1 h2; subst h1; subst h2
        rw [checkCore_call _ _ _ (show 2 ≤ x.s.now from hi.nowLo), if_pos (by simp [modelObs])]
        obtain ⟨a, b⟩ := rejected_sound m x hi ha
        exact ⟨a, b, hi⟩
      · rw [if_neg hout] at h
        cases hx : apply x.s op with
        | error e =>
          rw [hx] at h
          injection h with h1 h2; subst h1; subst h2
          rw [checkCore_call _ _ _ (show 2 ≤ x.s.now from hi.nowLo), if_pos (by simp [modelObs])]
          obtain ⟨a, b⟩ := rejected_sound m x hi ha
          exact ⟨a, b, hi⟩
        | ok s' =>
          rw [hx] at h
          injection h with h1 h2; subst h1; subst h2
          have hi' : Inv s' := apply_inv hi hx
          rw [checkCore_call _ _ _ (show 2 ≤ s'.now from hi'.nowLo), if_neg (by simp [modelObs])]
          obtain ⟨a, b⟩ := accepted_sound m x hi ha c op hr s' hx
          exact ⟨a, b, hi'⟩

/-- the monitor run over a whole history of model observations: first message, if any (lines the
model driver answers with `bad-op` carry no model observation and are skipped) -/
def monitorRun : Mon → MS → List Line → Option String
  | _, _, [] => none
  | m, x, ln :: rest =>
    match modelStep x ln with
    | none => monitorRun m x rest
    | some (x', o) =>
      match (checkCore m ln o).2 with
      | some msg => some msg
      | none => monitorRun (checkCore m ln o).1 x' rest

/-- **monitor soundness**: for every start ledger of the regime (`monInit start` is what the
driver's `minit` builds from the label, `initMS start` what its `init` builds; both read the same
`start=` parameter) and every finite history of trace lines, the monitor reports nothing on the
model's observations -/
theorem monitor_accepts_every_model_trace (start : Nat) (h2 : 2 ≤ start) (hm : start ≤ U32_MAX)
    (lines : List Line) :
    monitorRun (monInit start) (initMS start) lines = none := by
  suffices ∀ m x, Inv x.s → Agree m x → monitorRun m x lines = none from
    this _ _ (init_inv h2 hm) ⟨rfl, fun _ => rfl, rfl, rfl, rfl, fun p hp => by cases hp⟩
  induction lines with
  | nil => intro m x _ _; rfl
  | cons ln rest ih =>
    intro m x hi ha
    unfold monitorRun
    cases hs : modelStep x ln with
    | none => exact ih m x hi ha
    | some r =>
      obtain ⟨x', o⟩ := r
      obtain ⟨h1, h2, h3⟩ := monitor_sound_step m x hi ha ln x' o hs
      simp only [h1]
      exact ih _ _ h3 h2

/-- the regime hypothesis `2 ≤ start` is necessary, and deliberately so: below ledger 2 (where 0 and
1 are the Unset / Done sentinels, `sentinels_need_ledger_ge_two`) the monitor reports that the trace
left the property's regime, on the model's own observation as well -/
theorem monitor_reports_regime_below_two :
    monitorRun (monInit 1) (initMS 1) [.call (.min (some 0))] = some "site=timelock.regime ledger below 2" := by
  simp [monitorRun, modelStep, resolveCall, modelCall, outside, apply, checkCore, modelObs, setMinDelay,
    initMS, init, fin, firstSome]

/-! ### non-vacuity (tests, labelled as such): the monitor is not trivially silent -/

/-- an execution reported as accepted although the operation was never scheduled -/
example :
    ((checkCore { defs := [⟨0, 0, [7], Id.zero, 0⟩], ghost := [], prev := none, start := 100 }
        (.call (.exec 0 1))
        { ok := true, eq := none, now := 100, min := some 10,
          st := [⟨"D", 1, "1001"⟩, ⟨"U", 0, "0000"⟩, ⟨"U", 0, "0000"⟩],
          calls := [⟨1, some 0, some 7⟩, ⟨0, none, none⟩] }).2.getD "").startsWith
      "site=timelock.execute.unscheduled" = true := by
  simp [checkCore, checkAccepted, fin, firstSome, execCond, keyOf, Mon.get, Mon.set]
  decide

/-- an execution one ledger before the delay has elapsed (scheduled at 100 with delay 10) -/
example :
    (checkCore { defs := [⟨0, 0, [7], Id.zero, 0⟩],
                 ghost := [(some (Operation.id ⟨0, 0, [7], Id.zero, 0⟩), .pending 100 10)],
                 prev := none, start := 100 }
        (.call (.setexec 0))
        { ok := true, eq := none, now := 109, min := some 10,
          st := [⟨"D", 1, "1001"⟩, ⟨"U", 0, "0000"⟩, ⟨"U", 0, "0000"⟩],
          calls := [⟨0, none, none⟩, ⟨0, none, none⟩] }).2.isSome = true := by
  simp [checkCore, checkAccepted, fin, firstSome, execCond, keyOf, Mon.get, Mon.set, Operation.id]

/-- a state reported Ready one ledger early -/
example :
    (checkStates { defs := [⟨0, 0, [7], Id.zero, 0⟩],
                   ghost := [(some (Operation.id ⟨0, 0, [7], Id.zero, 0⟩), .pending 100 10)],
                   prev := none, start := 100 }
        { ok := true, eq := none, now := 109, min := some 10,
          st := [⟨"R", 110, "1110"⟩, ⟨"U", 0, "0000"⟩, ⟨"U", 0, "0000"⟩],
          calls := [⟨0, none, none⟩, ⟨0, none, none⟩] }).isSome = true := by
  simp [checkStates, universeKeys, idUniverse, isBad, expected, Mon.get, Operation.id, Id.zero, satU32]

/-- and on the model's own observations of a concrete history (define, set the minimum delay,
schedule, wait, execute, try again) it is silent -/
example :
    monitorRun (monInit 100) (initMS 100)
      [.defn 0 0 [7] .z 0, .call (.min (some 10)), .call (.sched 0 10), .call (.exec 0 1),
       .call (.advance 10), .call (.exec 0 1), .call (.exec 0 1), .call (.cancel (.op 0))] = none :=
  monitor_accepts_every_model_trace 100 (by decide) (by decide) _

end OZ.Timelock.Mon
