import OZ.Lemmas.AccessStk
/-
C06, machine `stk` — an entry point that stacks TWO role guards (`#[has_role]`, `#[only_role]`,
`#[has_any_role]`, `#[only_any_role]`, in any pairing, on the same or on different caller parameters) is
subject to BOTH, whatever the order in which the two attributes are written.

Property theorems only (helper lemmas and the guard condition `Guard.Holds`: OZ/Lemmas/AccessStk.lean). The
model (OZ/Model/AccessStk.lean) mirrors the expansions of the attribute macros of
packages/macros/src/access_control.rs (each re-emits the attributes still attached to the function, so every
guard is injected; the guard written below runs first) on the harness contract `stk::Stacked2`, whose
sixteen entry points `<outer>_<inner>` are the ordered pairs of the four macros. `Guard.Holds s auth a b g`:
the account `g` names (`a` or `b`) holds (one of) the role(s) of `g`, and — for `only_role` /
`only_any_role` — is in `auth`. Every statement is for all states, all authorizing subsets, all arguments,
and — where it speaks about histories — all finite operation lists.
-/
namespace OZ.Access.Stk
open OZ.Access

/-- **stacked_accepted_iff**: a stacked entry point is accepted exactly when the condition of EVERY guard
holds — the one written on top and the one written below it — (and the `i32` counter has room); for all
sixteen entry points -/
theorem stacked_accepted_iff (s : St) (auth : List Nat) (f : Fn) (a b : Nat) :
    (∃ s', s.call auth f a b = .ok s') ↔
      f.outerGuard.Holds s auth a b ∧ f.innerGuard.Holds s auth a b ∧ s.counter + 1 ≤ I32_MAX := by
  constructor
  · rintro ⟨s', h⟩
    obtain ⟨h1, h2, h3, -⟩ := call_iff.1 h
    exact ⟨h1, h2, h3⟩
  · rintro ⟨h1, h2, h3⟩
    exact ⟨_, call_iff.2 ⟨h1, h2, h3, rfl⟩⟩

/-- the same for any list of guards around the body: accepted exactly when ALL of them hold -/
theorem stacked_accepted_iff_all (s : St) (auth : List Nat) (gs : List Guard) (a b : Nat) :
    (∃ s', s.callWith auth gs a b = .ok s') ↔
      (∀ g ∈ gs, g.Holds s auth a b) ∧ s.counter + 1 ≤ I32_MAX := by
  constructor
  · rintro ⟨s', h⟩
    obtain ⟨h1, h2, -⟩ := callWith_iff.1 h
    exact ⟨h1, h2⟩
  · rintro ⟨h1, h2⟩
    exact ⟨_, callWith_iff.2 ⟨h1, h2, rfl⟩⟩

/-- **stacked_needs_every_guard**: an accepted call implies, for EACH of the two attributes, that the
account it names holds one of its roles and — if it is an `only_*` attribute — authorized the call; the
only effect is counter + 1 -/
theorem stacked_needs_every_guard (s s' : St) (auth : List Nat) (f : Fn) (a b : Nat)
    (h : s.call auth f a b = .ok s') :
    (∀ g ∈ f.guards,
      (∃ r ∈ g.roles, s.holds (g.who a b) r = true) ∧ (g.needsAuth = true → g.who a b ∈ auth)) ∧
    s' = { s with counter := s.counter + 1 } := by
  obtain ⟨h1, h2, -, e⟩ := call_iff.1 h
  refine ⟨?_, e⟩
  intro g hg
  simp only [Fn.guards, List.mem_cons, List.not_mem_nil, or_false] at hg
  rcases hg with rfl | rfl
  · exact h2
  · exact h1

/-- **stacked_missing_guard_blocks**: if the condition of ONE guard of an entry point fails — a role is
missing, or the authorization an `only_*` guard demands — the call is refused and changes nothing -/
theorem stacked_missing_guard_blocks (s : St) (auth : List Nat) (f : Fn) (a b : Nat) (g : Guard)
    (hg : g ∈ f.guards) (hn : ¬ g.Holds s auth a b) :
    (∀ s', s.call auth f a b ≠ .ok s') ∧ St.step s (auth, .call f a b) = s := by
  have h1 : ∀ s', s.call auth f a b ≠ .ok s' := by
    intro s' h
    exact hn ((callWith_iff.1 h).1 g hg)
  exact ⟨h1, step_of_error h1⟩

/-- history form: NO sequence of stacked calls each of which misses the condition of one of its guards
(in the state the sequence starts from) changes anything -/
theorem stacked_missing_guard_blocks_run (ops : List (List Nat × Fn × Nat × Nat)) (s : St)
    (hbad : ∀ x ∈ ops, ∃ g ∈ x.2.1.guards, ¬ g.Holds s x.1 x.2.2.1 x.2.2.2) :
    St.run s (ops.map fun x => (x.1, Op.call x.2.1 x.2.2.1 x.2.2.2)) = s := by
  induction ops with
  | nil => rfl
  | cons x xs ih =>
    simp only [List.map_cons, St.run, List.foldl_cons]
    obtain ⟨g, hg, hn⟩ := hbad x (by simp)
    rw [(stacked_missing_guard_blocks s x.1 x.2.1 x.2.2.1 x.2.2.2 g hg hn).2]
    exact ih (fun y hy => hbad y (by simp [hy]))

/-- **stacked_rejected_changes_nothing**: a call the contract refuses (stacked entry point, grant or
revoke) leaves admin, role table and counter as they were -/
theorem stacked_rejected_changes_nothing (s : St) (auth : List Nat) (op : Op) (e : Err)
    (h : s.apply auth op = .error e) : St.step s (auth, op) = s :=
  step_of_error (fun s' h' => by rw [h] at h'; cases h')

/-- **stacked_order_irrelevant**: writing two guard attributes the other way round makes no difference -/
theorem stacked_order_irrelevant (s s' : St) (auth : List Nat) (g1 g2 : Guard) (a b : Nat) :
    s.callWith auth [g1, g2] a b = .ok s' ↔ s.callWith auth [g2, g1] a b = .ok s' := by
  rw [callWith_iff, callWith_iff]
  simp only [List.mem_cons, List.not_mem_nil, or_false, forall_eq_or_imp, forall_eq]
  constructor <;> (rintro ⟨⟨h1, h2⟩, h3⟩; exact ⟨⟨h2, h1⟩, h3⟩)

/-- the same for any number of stacked guards: any reordering of the attributes -/
theorem stacked_order_irrelevant_perm (s s' : St) (auth : List Nat) (gs gs' : List Guard) (a b : Nat)
    (hp : gs.Perm gs') : s.callWith auth gs a b = .ok s' ↔ s.callWith auth gs' a b = .ok s' := by
  rw [callWith_iff, callWith_iff]
  constructor
  · rintro ⟨h1, h2⟩; exact ⟨fun g hg => h1 g (hp.mem_iff.2 hg), h2⟩
  · rintro ⟨h1, h2⟩; exact ⟨fun g hg => h1 g (hp.mem_iff.1 hg), h2⟩

/-- for the entry points of the contract: `<outer>_<inner>` behaves like the function that runs the outer
attribute's statements first -/
theorem stacked_order_irrelevant_fn (s s' : St) (auth : List Nat) (f : Fn) (a b : Nat) :
    s.call auth f a b = .ok s' ↔ s.callWith auth [f.outerGuard, f.innerGuard] a b = .ok s' :=
  stacked_order_irrelevant s s' auth f.innerGuard f.outerGuard a b

/-- the entry points of the work item, spelled out -/
theorem stacked_named_entry_points (s : St) (auth : List Nat) (a b : Nat) :
    -- #[has_role(a, "minter")] #[only_role(b, "burner")]
    ((∃ s', s.call auth ⟨.has, .only⟩ a b = .ok s') ↔
      s.holds a MINTER = true ∧ (s.holds b BURNER = true ∧ b ∈ auth) ∧ s.counter + 1 ≤ I32_MAX) ∧
    -- #[only_role(a, "minter")] #[has_role(b, "burner")]
    ((∃ s', s.call auth ⟨.only, .has⟩ a b = .ok s') ↔
      (s.holds a MINTER = true ∧ a ∈ auth) ∧ s.holds b BURNER = true ∧ s.counter + 1 ≤ I32_MAX) ∧
    -- #[only_role(a, "minter")] #[only_role(b, "burner")]
    ((∃ s', s.call auth ⟨.only, .only⟩ a b = .ok s') ↔
      (s.holds a MINTER = true ∧ a ∈ auth) ∧ (s.holds b BURNER = true ∧ b ∈ auth) ∧
      s.counter + 1 ≤ I32_MAX) ∧
    -- #[has_any_role(a, ["minter", "r2"])] #[only_role(b, "burner")]
    ((∃ s', s.call auth ⟨.hasAny, .only⟩ a b = .ok s') ↔
      (s.holds a MINTER = true ∨ s.holds a R2 = true) ∧ (s.holds b BURNER = true ∧ b ∈ auth) ∧
      s.counter + 1 ≤ I32_MAX) ∧
    -- #[only_any_role(a, ["minter", "r2"])] #[has_role(a, "burner")]   (same parameter)
    ((∃ s', s.call auth ⟨.onlyAny, .has⟩ a b = .ok s') ↔
      ((s.holds a MINTER = true ∨ s.holds a R2 = true) ∧ a ∈ auth) ∧ s.holds a BURNER = true ∧
      s.counter + 1 ≤ I32_MAX) := by
  refine ⟨?_, ?_, ?_, ?_, ?_⟩ <;> rw [stacked_accepted_iff] <;>
    simp [Fn.outerGuard, Fn.innerGuard, mkGuard, sameParam, Guard.Holds, Guard.roles, Guard.needsAuth,
      Guard.who, Guard.onB, pick]

/-- **grant_needs_admin**: `grant` is accepted exactly with the authorization of the stored admin (and one
of the three roles); it sets exactly that pair -/
theorem grant_needs_admin (s s' : St) (auth : List Nat) (acct role : Nat) :
    s.apply auth (.grant acct role) = .ok s' ↔
      (∃ ad, s.admin = some ad ∧ ad ∈ auth) ∧ role < 3 ∧
      s' = { s with holds := setHolds s.holds acct role true } :=
  grant_iff

/-- **revoke_needs_admin**: `revoke` is accepted exactly with the authorization of the stored admin, for a
pair that is held; it clears exactly that pair -/
theorem revoke_needs_admin (s s' : St) (auth : List Nat) (acct role : Nat) :
    s.apply auth (.revoke acct role) = .ok s' ↔
      (∃ ad, s.admin = some ad ∧ ad ∈ auth) ∧ role < 3 ∧ s.holds acct role = true ∧
      s' = { s with holds := setHolds s.holds acct role false } :=
  revoke_iff

/-- **membership_change_needs_admin**: whenever a call changes whether an account holds a role, it was a
grant / revoke of exactly that pair, authorized by the stored admin — no stacked entry point, and nobody
else, changes the role table -/
theorem membership_change_needs_admin (s : St) (auth : List Nat) (op : Op) (acct role : Nat)
    (h : (St.step s (auth, op)).holds acct role ≠ s.holds acct role) :
    (∃ ad, s.admin = some ad ∧ ad ∈ auth) ∧ (op = .grant acct role ∨ op = .revoke acct role) := by
  cases hx : s.apply auth op with
  | error e => rw [stacked_rejected_changes_nothing s auth op e hx] at h; exact (h rfl).elim
  | ok s' =>
    rw [step_of_ok hx] at h
    cases op with
    | call f a b =>
      obtain ⟨-, -, -, e⟩ := call_iff.1 hx
      rw [e] at h
      exact (h rfl).elim
    | grant a r =>
      obtain ⟨had, -, e⟩ := grant_iff.1 hx
      rw [e] at h
      by_cases c : acct = a ∧ role = r
      · exact ⟨had, Or.inl (by rw [c.1, c.2])⟩
      · exact (h (by simp only [setHolds]; rw [if_neg c])).elim
    | revoke a r =>
      obtain ⟨had, -, -, e⟩ := revoke_iff.1 hx
      rw [e] at h
      by_cases c : acct = a ∧ role = r
      · exact ⟨had, Or.inr (by rw [c.1, c.2])⟩
      · exact (h (by simp only [setHolds]; rw [if_neg c])).elim

/-- **stacked_admin_fixed**: no history changes the admin -/
theorem stacked_admin_fixed (ops : List (List Nat × Op)) (s : St) : (St.run s ops).admin = s.admin := by
  induction ops generalizing s with
  | nil => rfl
  | cons x xs ih =>
    simp only [St.run, List.foldl_cons]
    have key : (St.step s x).admin = s.admin := by
      unfold St.step
      cases hx : s.apply x.1 x.2 with
      | error e => rfl
      | ok s1 => exact apply_keeps hx
    have := ih (St.step s x)
    simp only [St.run] at this
    exact this.trans key

/-- **stacked_calls_keep_roles**: no history of stacked calls changes who holds which role; the counter
counts the accepted ones -/
theorem stacked_calls_keep_roles (ops : List (List Nat × Fn × Nat × Nat)) (s : St) :
    (St.run s (ops.map fun x => (x.1, Op.call x.2.1 x.2.2.1 x.2.2.2))).holds = s.holds := by
  induction ops generalizing s with
  | nil => rfl
  | cons x xs ih =>
    simp only [List.map_cons, St.run, List.foldl_cons]
    have key : (St.step s (x.1, Op.call x.2.1 x.2.2.1 x.2.2.2)).holds = s.holds := by
      unfold St.step
      cases hx : s.apply x.1 (Op.call x.2.1 x.2.2.1 x.2.2.2) with
      | error e => rfl
      | ok s1 => obtain ⟨-, -, -, e⟩ := call_iff.1 hx; rw [e]
    have := ih (St.step s (x.1, Op.call x.2.1 x.2.2.1 x.2.2.2))
    simp only [St.run] at this
    exact this.trans key

/-! ## non-vacuity (tests, labelled as such) -/

def isOk {ε α} : Except ε α → Bool
  | .ok _ => true
  | .error _ => false

/-- admin 0; 1 holds "minter", 2 holds "burner", 3 holds "r2" (granted by the admin; the grant of a
stranger and the grant of an unknown role are refused) -/
def demo : St :=
  St.run (St.construct 0)
    [([0], .grant 1 0), ([0], .grant 2 1), ([0], .grant 3 2), ([4], .grant 4 0), ([0], .grant 4 3)]

example : demo.holds 1 0 = true ∧ demo.holds 2 1 = true ∧ demo.holds 3 2 = true ∧ demo.holds 4 0 = false ∧
    demo.holds 4 3 = false := by decide

/-- both guards satisfied: accepted; only the outer, only the inner, neither, or the roles without the
authorization of an `only_*` guard: refused — in both orders of the attributes -/
example :
    isOk (demo.call [2] ⟨.has, .only⟩ 1 2) = true ∧ isOk (demo.call [1] ⟨.only, .has⟩ 1 2) = true ∧
    isOk (demo.call [0, 1, 2, 3, 4] ⟨.has, .only⟩ 1 4) = false ∧        -- only the outer
    isOk (demo.call [0, 1, 2, 3, 4] ⟨.has, .only⟩ 4 2) = false ∧        -- only the inner
    isOk (demo.call [0, 1, 2, 3, 4] ⟨.only, .has⟩ 1 4) = false ∧
    isOk (demo.call [0, 1, 2, 3, 4] ⟨.only, .has⟩ 4 2) = false ∧
    isOk (demo.call [0, 1, 2, 3, 4] ⟨.has, .has⟩ 4 4) = false ∧         -- neither
    isOk (demo.call [] ⟨.has, .only⟩ 1 2) = false ∧                      -- the roles, no authorization
    isOk (demo.call [1] ⟨.has, .only⟩ 1 2) = false ∧
    isOk (demo.call [2] ⟨.only, .has⟩ 1 2) = false ∧
    isOk (demo.call [1] ⟨.only, .only⟩ 1 2) = false ∧ isOk (demo.call [2] ⟨.only, .only⟩ 1 2) = false ∧
    isOk (demo.call [1, 2] ⟨.only, .only⟩ 1 2) = true ∧
    isOk (demo.call [2] ⟨.hasAny, .only⟩ 3 2) = true ∧                   -- "r2" passes the any-role guard
    isOk (demo.call [2] ⟨.has, .only⟩ 3 2) = false ∧
    isOk (demo.call [3] ⟨.onlyAny, .onlyAny⟩ 3 3) = true ∧               -- the same account as a and b
    isOk (demo.call [] ⟨.onlyAny, .onlyAny⟩ 3 3) = false ∧
    isOk (demo.call [1] ⟨.onlyAny, .has⟩ 1 2) = false ∧                  -- same parameter: 1 is no burner
    (St.step demo ([2], .call ⟨.has, .only⟩ 1 2)).counter = 1 ∧
    (St.step demo ([], .call ⟨.has, .only⟩ 1 2)).counter = 0 := by decide

/-- the hypotheses of `stacked_missing_guard_blocks` are met by a concrete call that would pass its OUTER
guard: `hr_or` with a = 1 (a minter) and b = 4 (no burner), everybody authorizing -/
example : Fn.innerGuard ⟨.has, .only⟩ ∈ Fn.guards ⟨.has, .only⟩ ∧
    isOk ((Fn.outerGuard ⟨.has, .only⟩).run demo [0, 1, 2, 3, 4] 1 4) = true ∧
    isOk ((Fn.innerGuard ⟨.has, .only⟩).run demo [0, 1, 2, 3, 4] 1 4) = false := by decide

end OZ.Access.Stk
