import OZ.Lemmas.RegDocsMon
/-
C20 (e) — soundness of the `docs` MONITOR that decides the property on implementation traces.

`./check C20` reports a concrete violation in a `docs` sequence exactly when
`OZ.RegDocs.Mon.checkCore` (the sub-driver's monitor on parsed values, OZ/Model/RegDocsMon.lean)
returns a message on the implementation's observations. Here it is proved that on the observations
of the MODEL the monitor never returns a message, for every label parameter `u` and every finite
history of commands — `set_document` / `remove_document` with arbitrary arguments, `fill a b` (the
names a..b-1 set one by one, the accepted ones committed) and the state injection `preload n` (the
names 0..n-1 set one by one) — `monitor_accepts_every_model_trace`. Consequences: a monitor failure
is never a false alarm of the monitor itself, and every conclusion it evaluates (absent names
refused; a URI of 200 accepted and of 201 refused; the 5 000th document accepted, the next new name
refused while updates in place stay accepted; the count, the order-independent sums of the names,
the printed enumeration, `get_document` over the probes, `get_document_by_index` succeeding exactly
below the count with a stored name, bucket i holding min(50, n - 50 i) entries) is a THEOREM about
the model, in the monitor's own executable wording.

`modelObs s u c ok` is the data the model driver prints for state `s` after command `c`
(`stepLine` / `showState` of OZ/Drv/C20Docs.lean): the tag (`ok` iff every op of the command was
accepted), `n=` `getDocumentCount`, `sum=` / `sq=` the sums of the names of the concatenated buckets
0..nBuckets n - 1, `list=` those entries in full when there are at most 16 (a digest otherwise, which
the monitor does not read), `g=` / `at=` the graphs of `getDocument` and of the name of
`getDocumentByIndex` over the probe names / indices `probes u c n`, `bk=` the lengths of the buckets
0..nBuckets n.

Property theorems only; helper facts come from OZ/Lemmas/RegDocsMon.lean.
-/
namespace OZ.RegDocs.Mon
open OZ.Reg OZ.RegMon OZ.RegDocs

/-- the entries the driver enumerates: buckets 0..nBuckets n - 1 concatenated -/
def flat (s : State) : List Entry := (List.range (nBuckets (getDocumentCount s))).flatMap (getDocuments s)

/-- the observation the harness / the model driver print for a state -/
def modelObs (s : State) (u : Nat) (c : Cmd) (ok : Bool) : Obs :=
  { ok := ok,
    n := getDocumentCount s,
    sum := sum1 ((flat s).map (·.1)),
    sq := sumSq ((flat s).map (·.1)),
    full := if (flat s).length ≤ 16 then some ((flat s).map (fun e => (e.1, some e.2))) else none,
    gp := (probes u c (getDocumentCount s)).1.map (fun nm => (nm, getDocument s nm)),
    atL := (probes u c (getDocumentCount s)).2.map (fun i => (i, (getDocumentByIndex s i).map (·.1))),
    bk := (List.range (nBuckets (getDocumentCount s) + 1)).map (fun b => (getDocuments s b).length) }

/-- the model's state after a command: the accepted ops are committed one by one -/
def nextC (s : State) (c : Cmd) : State := ((cmdOps c).foldl mstep (s, true)).1

/-- whether the model accepts every op of the command -/
def accepted (s : State) (c : Cmd) : Bool := ((cmdOps c).foldl mstep (s, true)).2

/-- the getter part of the monitor never fires on the observation of a state the plain map
describes -/
theorem getters_quiet {g : Mon} {s : State} {u : Nat} (ha : Agree g s u) (c : Cmd) (ok : Bool) :
    firstFail (getters g (modelObs s u c ok)) = none := by
  obtain ⟨l, hl⟩ := ha.list
  have hfl : flat s = l := rep_flat hl.rep
  have hcnt : getDocumentCount s = l.length := hl.rep.count
  have hlen : l.length = g.map.length := hl.len.symm
  have hnames : (names g).Perm (l.map (·.1)) := hl.perm.map _
  apply firstFail_all_none
  intro x hx
  simp only [getters, List.mem_cons, List.not_mem_nil, or_false] at hx
  rcases hx with rfl | rfl | rfl | rfl | rfl | rfl
  · exact chk_decide (by show getDocumentCount s = _; rw [hcnt, hlen]) _
  · refine chk_decide ?_ _
    show sum1 ((flat s).map (·.1)) = _ ∧ sumSq ((flat s).map (·.1)) = _
    rw [hfl]
    exact ⟨(sum1_perm hnames).symm, (sumSq_perm hnames).symm⟩
  · show (match (if (flat s).length ≤ 16 then some ((flat s).map (fun e => (e.1, some e.2))) else none) with
      | some l => chk (fullOk g l) _
      | none => none) = none
    split
    · rename_i l' hl'
      split at hl'
      · injection hl' with hl'; subst hl'
        rw [hfl]
        exact chk_of (fullOk_model hl) _
      · cases hl'
    · rfl
  · exact chk_of (all_graph _ _ _ (fun n _ => gpOk_model hl n)) _
  · refine chk_of ?_ _
    show ((probes u c (getDocumentCount s)).2.map (fun i => (i, (getDocumentByIndex s i).map (·.1)))).all
      (atOk g (getDocumentCount s)) = true
    rw [hcnt]
    exact all_graph _ _ _ (fun i _ => atOk_model hl i)
  · refine chk_decide ?_ _
    show (List.range (nBuckets (getDocumentCount s) + 1)).map (fun b => (getDocuments s b).length) =
      bkWant (getDocumentCount s)
    rw [hcnt]
    exact bk_model hl.rep

/-- **one command**: fed with the model's own observation of any command (every op accepted, or
some refused), the monitor reports nothing and its plain map keeps describing the model's state -/
theorem monitor_sound_step {g : Mon} {s : State} {u : Nat} (ha : Agree g s u) (c : Cmd) :
    (checkCore g c (modelObs (nextC s c) u c (accepted s c))).2 = none ∧
    Agree (checkCore g c (modelObs (nextC s c) u c (accepted s c))).1 (nextC s c) u := by
  obtain ⟨ha', hok⟩ := fold_agree (cmdOps c) g s u true "" false ha
  have q := getters_quiet ha' c (accepted s c)
  refine ⟨?_, ha'⟩
  show firstFail (acceptFail (accepted s c) c (foldPlain g c) :: getters (foldPlain g c).1 _) = none
  have : acceptFail (accepted s c) c (foldPlain g c) = none := by
    unfold acceptFail
    exact if_pos hok.symm
  rw [this, firstFail_none_cons]
  exact q

/-- the monitor run over a whole history of model observations: first message, if any -/
def monitorRun (u : Nat) : Mon → State → List Cmd → Option String
  | _, _, [] => none
  | g, s, c :: cs =>
    match (checkCore g c (modelObs (nextC s c) u c (accepted s c))).2 with
    | some msg => some msg
    | none => monitorRun u (checkCore g c (modelObs (nextC s c) u c (accepted s c))).1 (nextC s c) cs

/-- the monitor's initial state for a sequence (what `minit` builds from the label) -/
def monInit (u : Nat) : Mon := { map := [], u := u }

/-- **monitor soundness**: for every label parameter `u` and every finite history of commands —
`set_document` / `remove_document` with any names, URI lengths, hashes and timestamps, fills and
preloads of any size, accepted or refused — the monitor that the sub-driver's `minit` builds reports
nothing on the observations of the model that the sub-driver's `initM` builds -/
theorem monitor_accepts_every_model_trace (u : Nat) (cs : List Cmd) :
    monitorRun u (monInit u) init cs = none := by
  suffices ∀ g s, Agree g s u → monitorRun u g s cs = none from
    this _ _ ⟨rfl, [], rep_init, List.nodup_nil, fun x => Iff.rfl⟩
  induction cs with
  | nil => intro g s _; rfl
  | cons c cs ih =>
    intro g s ha
    obtain ⟨h1, h2⟩ := monitor_sound_step ha c
    unfold monitorRun
    rw [h1]
    exact ih _ _ h2

/-! ### non-vacuity (tests, labelled as such): the monitor is not trivially silent -/

/-- an accepted removal of an absent name, a refused valid document, a wrong count, a name listed
twice, a wrong document, an index beyond the count and wrong bucket lengths are reported -/
example :
    (checkCore (monInit 1) (.one (.remove 3)) ⟨true, 0, 0, 0, some [], [], [], [0]⟩).2.isSome = true ∧
    (checkCore (monInit 1) (.one (.set 3 1 1 1)) ⟨false, 0, 0, 0, some [], [], [], [0]⟩).2.isSome = true ∧
    (checkCore (monInit 1) (.one (.set 3 1 1 1)) ⟨true, 2, 4, 16, none, [], [], [2, 0]⟩).2.isSome = true ∧
    fullOk { map := [(3, ⟨1, 1, 1⟩)], u := 1 } [(3, some ⟨1, 1, 1⟩), (3, some ⟨1, 1, 1⟩)] = false ∧
    gpOk { map := [(3, ⟨1, 1, 1⟩)], u := 1 } (3, some ⟨2, 1, 1⟩) = false ∧
    atOk { map := [(3, ⟨1, 1, 1⟩)], u := 1 } 1 (1, some 3) = false ∧
    bkWant 51 ≠ [50, 0, 0] := by
  refine ⟨by decide, by decide, by decide, by decide, by decide, by decide, by decide⟩

end OZ.RegDocs.Mon
