import OZ.Lemmas.VotesMonChecks
/-
C13 — soundness of the MONITOR that decides the property on implementation traces.

`./check C13` reports a concrete violation exactly when `OZ.Votes.Mon.checkCore` (the driver's
monitor on parsed values, OZ/Model/VotesMon.lean) returns a message on the implementation's
observations. Here it is proved that on the observations of the MODEL the monitor never
returns a message: for each of the three contracts (`kind` = example token / harness fungible
wrapper / harness non-fungible wrapper), every host configuration, every start ledger and every
finite sequence of well-formed op lines over the observed accounts
(`monitor_accepts_every_model_trace`). Consequences:

  * an implementation whose observations agree with the model's (the correspondence the check
    establishes by differential testing) can never raise a monitor alarm — a monitor failure is
    never a false alarm of the monitor itself;
  * every conclusion the monitor evaluates (get_votes = Σ balances delegated, total = Σ
    balances, units = balance, get_delegate = the accepted delegations, every past query = the
    row recorded when that ledger ended and 0 before the start, current / future ledgers refused,
    a rejected call changes nothing, moving the ledger changes no current value, at most one
    new checkpoint per account and ledger, no negative balance, no failing getter) is a THEOREM
    about the model, in the monitor's own executable wording.

What the statement ranges over: op lines are the parsed fields (`Parsed`) exactly as the driver
hands them to the model (`mstep`) and to the monitor; `Valid` = the line is an entry point of
the contract under test and names only the observed accounts `0 .. N-1` (the observation line
carries exactly these accounts — the universe assumption of the sum statements of
OZ/Props/C13.lean; authorizing accounts are unrestricted). The model's observation is
`modelObs` (OZ/Lemmas/VotesMonChecks.lean): field by field what the driver's `showState`
prints and `parseObs` reads back. Not covered (string level, trusted): `parse`, `parseObs`,
`showState` and the two `site=votes.parse` alarms of the driver.

Property theorems only; helper facts come from OZ/Lemmas/VotesMon.lean (model side) and
OZ/Lemmas/VotesMonChecks.lean (one lemma per check of the monitor).
-/
namespace OZ.Votes.Mon
open OZ.Host OZ.Votes

/-- the model's answer to an op line: `mstep`, a line that is no entry point (`bad-op` in the
driver; excluded by `Valid`) leaving the model alone -/
def mstepD (m : M) (p : Parsed) : M × Bool := (mstep m p).getD (m, false)

/-- **the model step, as the monitor's checks need it**: from a reachable state a well-formed op
line leads to a reachable state; rejected = unchanged, accepted = one `Trans`, and moving the
ledger is never rejected -/
theorem model_step (start : Nat) {m : M} {p : Parsed} (hv : Valid m.kind p) (hi : VInv start (viewOf m)) :
    Step start (viewOf m) (viewOf (mstepD m p).1) p (mstepD m p).2 ∧ (mstepD m p).1.kind = m.kind := by
  obtain ⟨m', ok, hs, hk, hi', hrej, hacc, hadv⟩ := mstep_sound hv hi
  have e : mstepD m p = (m', ok) := by unfold mstepD; rw [hs]; rfl
  rw [e]
  exact ⟨⟨hi', fun h => by rw [hrej h], hacc, hadv⟩, hk⟩

/-- **one call**: fed with the model's own observation of any well-formed call (accepted or
rejected), the monitor reports nothing and its state keeps describing the model's -/
theorem monitor_sound_step (start : Nat) {mon : Mon} {m : M} (hi : VInv start (viewOf m))
    (hA : Agree start mon (viewOf m)) (p : Parsed) (raw : String) (hv : Valid m.kind p) :
    (checkCore mon p (modelObs (mstepD m p).1 p.q (mstepD m p).2) raw).2 = none ∧
    Agree start (checkCore mon p (modelObs (mstepD m p).1 p.q (mstepD m p).2) raw).1
      (viewOf (mstepD m p).1) := by
  obtain ⟨st, _⟩ := model_step start hv hi
  have ho : IsObs (viewOf (mstepD m p).1) p.q (modelObs (mstepD m p).1 p.q (mstepD m p).2) :=
    obsOf_isObs st.inv'.wfAll _ _
  have hok : (modelObs (mstepD m p).1 p.q (mstepD m p).2).ok = (mstepD m p).2 := rfl
  generalize modelObs (mstepD m p).1 p.q (mstepD m p).2 = o at ho hok
  generalize viewOf (mstepD m p).1 = w' at st ho
  generalize (mstepD m p).2 = ok at st hok
  generalize viewOf m = w at hi hA st
  -- the ghost delegates and the ghost table after this call describe the new model state
  have hdel : delStep mon.del p o.ok = delL w'.v := by rw [hA.gdel, hok, ← st.del]
  have htab : TableOK (tableStep mon p o) w'.v := tableStep_ok hi hA st
  have hcore : checkCore mon p o raw =
      ({ mon with prev := o, del := delStep mon.del p o.ok, table := tableStep mon p o, lastCp := lastCpStep mon o },
       verdict mon p o) := by
    unfold checkCore; rw [if_neg (by rw [ho.failed]; exact Bool.false_ne_true)]
  rw [hcore]
  constructor
  · show verdict mon p o = none
    unfold verdict
    rw [hdel, hA.start, chkIdle_quiet hA st ho, chkFuture_quiet ho, chkVotes_quiet st.inv' ho,
      chkTotal_quiet st.inv' ho, chkUnits_quiet st.inv' ho, chkDelegate_quiet ho,
      chkHistory_quiet st.inv' ho htab, chkRollback_quiet hA st ho hok, chkNegative_quiet st.inv' ho,
      cpFail_quiet hA st ho]
    rfl
  · exact ⟨hA.start, ho.now, ho.bal, ho.votes, ho.del, ho.ts, .inr ho.units, .inl ho.ncp, hdel, htab,
      fun hex => lastCpStep_agree hA st ho hex⟩

/-- the monitor run over a whole history of model observations: first message, if any (`raw` is
the text of the observation line, which the monitor only quotes in one message) -/
def monitorRun : Mon → M → List (Parsed × String) → Option String
  | _, _, [] => none
  | mon, m, x :: rest =>
    match (checkCore mon x.1 (modelObs (mstepD m x.1).1 x.1.q (mstepD m x.1).2) x.2).2 with
    | some msg => some msg
    | none =>
      monitorRun (checkCore mon x.1 (modelObs (mstepD m x.1).1 x.1.q (mstepD m x.1).2) x.2).1
        (mstepD m x.1).1 rest

/-- **monitor soundness**: for each of the three contracts, every host configuration, every
start ledger (= all parameters of a sequence label; `monInit start` is what the driver's `minit`
builds, `M.init k c start` what its `init` builds) and every finite history of well-formed op
lines — any entry points, amounts, token ids, authorizing subsets, queried ledgers, any number
of calls per ledger, any ledger movement — the monitor reports nothing on the model's
observations -/
theorem monitor_accepts_every_model_trace (k : Kind) (c : Cfg) (start : Nat) (ps : List (Parsed × String))
    (hv : ∀ x ∈ ps, Valid k x.1) : monitorRun (monInit start) (M.init k c start) ps = none := by
  suffices ∀ mon m, m.kind = k → VInv start (viewOf m) → Agree start mon (viewOf m) →
      monitorRun mon m ps = none from
    this _ _ rfl (init_vinv k c start) (init_agree k c start)
  induction ps with
  | nil => intro mon m _ _ _; rfl
  | cons x xs ih =>
    intro mon m hk hi hA
    have hvx : Valid m.kind x.1 := by rw [hk]; exact hv x List.mem_cons_self
    obtain ⟨h1, h2⟩ := monitor_sound_step start hi hA x.1 x.2 hvx
    obtain ⟨st, hk'⟩ := model_step start hvx hi
    unfold monitorRun
    rw [h1]
    exact ih (fun y hy => hv y (List.mem_cons_of_mem _ hy)) _ _ (by rw [hk', hk]) st.inv' h2

/-! ### a finding about the monitor: one false alarm of the OLD monitor, outside the host's range

Until this work the check `votes.future` was `o.fut ≠ "rej"` alone. The flag lumps the probes
"current ledger, next ledger, u32::MAX" together. The model's ledger is a `Nat`: started beyond
u32::MAX (which no host can do) the third probe asks about a PAST ledger, the model answers it —
as the property demands of a past query — and prints `fut=acc`, on which the old monitor raised
`site=votes.future`: a false alarm on a model trace. The check now carries the condition under
which the flag means something (`o.now ≤ U32_MAX`, true of every observation a harness can
print), so it demands exactly what the property states. -/

/-- the old wording of the check -/
def chkFutureOld (o : Obs) : Option String :=
  if o.fut ≠ "rej" then
    some s!"site=votes.future a query for the current or a future ledger was answered: {o.fut}"
  else none

/-- a well-formed op line of the harness fungible contract -/
def advance0 : Parsed := ⟨"advance", [], 0, 0, 0, 0, [], []⟩

theorem old_monitor_false_alarm :
    Valid .fvb advance0 ∧
    (chkFutureOld (modelObs (mstepD (M.init .fvb ⟨1, 200000⟩ (U32_MAX + 1)) advance0).1 advance0.q
      (mstepD (M.init .fvb ⟨1, 200000⟩ (U32_MAX + 1)) advance0).2)).isSome = true ∧
    chkFuture (modelObs (mstepD (M.init .fvb ⟨1, 200000⟩ (U32_MAX + 1)) advance0).1 advance0.q
      (mstepD (M.init .fvb ⟨1, 200000⟩ (U32_MAX + 1)) advance0).2) = none := by
  refine ⟨⟨.advance 0, rfl, fun a ha => by cases ha⟩, ?_, ?_⟩
  · have : (modelObs (mstepD (M.init .fvb ⟨1, 200000⟩ (U32_MAX + 1)) advance0).1 advance0.q
        (mstepD (M.init .fvb ⟨1, 200000⟩ (U32_MAX + 1)) advance0).2).fut = "acc" := by decide
    unfold chkFutureOld
    rw [this]
    rfl
  · exact chkFuture_quiet (obsOf_isObs (w := viewOf (mstepD (M.init .fvb ⟨1, 200000⟩ (U32_MAX + 1)) advance0).1)
      (model_step (U32_MAX + 1) (m := M.init .fvb ⟨1, 200000⟩ (U32_MAX + 1))
        ⟨.advance 0, rfl, fun a ha => by cases ha⟩ (init_vinv _ _ _)).1.inv'.wfAll _ _)

/-- within the host's range the old and the new wording are the same check -/
theorem chkFuture_eq_old (o : Obs) (h : o.now ≤ U32_MAX) : chkFuture o = chkFutureOld o := by
  unfold chkFuture chkFutureOld
  by_cases hf : o.fut ≠ "rej"
  · rw [if_pos ⟨hf, h⟩, if_pos hf]
  · rw [if_neg (fun x => hf x.1), if_neg hf]

/-- the universe assumption of `Valid` is needed: the observation carries the accounts
`0 .. N-1` only, so units held by an account outside (here 7, delegating to 1) are votes of 1
that no observed balance explains -/
def mintOutside : List Parsed :=
  [⟨"delegate", [7, 1], 0, 0, 0, 0, [7], []⟩, ⟨"mint", [7], 100, 0, 0, 0, [], []⟩]

example :
    (modelObs ((mstepD (mstepD (M.init .fvb ⟨1, 200000⟩ 100) mintOutside[0]).1 mintOutside[1]).1) [] true).votes
      = [0, 100, 0, 0, 0] ∧
    (modelObs ((mstepD (mstepD (M.init .fvb ⟨1, 200000⟩ 100) mintOutside[0]).1 mintOutside[1]).1) [] true).bal
      = [0, 0, 0, 0, 0] := by decide

/-! ### non-vacuity (tests, labelled as such): the monitor is not trivially silent -/

/-- a well-formed history of the harness fungible contract (mint, delegate, transfer, ledger
movement, a rejected call, past queries) meets the hypotheses of the theorem -/
def demoTrace : List (Parsed × String) :=
  [(⟨"mint", [0], 1000, 0, 0, 0, [], [99, 100]⟩, ""),
   (⟨"delegate", [0, 1], 0, 0, 0, 0, [0], [100]⟩, ""),
   (⟨"transfer", [0, 2], 400, 0, 0, 0, [0], []⟩, ""),
   (⟨"advance", [], 0, 0, 0, 5, [], [100, 104, 105]⟩, ""),
   (⟨"delegate", [2, 2], 0, 0, 0, 0, [3], []⟩, ""),
   (⟨"burn", [0], 100, 0, 0, 0, [0], [0, 99, 100, 104]⟩, "")]

example : ∀ x ∈ demoTrace, Valid .fvb x.1 := by
  intro x hx
  simp only [demoTrace, List.mem_cons, List.mem_nil_iff, or_false] at hx
  rcases hx with rfl | rfl | rfl | rfl | rfl | rfl
  · exact ⟨.mint 0 1000, rfl, by decide⟩
  · exact ⟨.delegate 0 1, rfl, by decide⟩
  · exact ⟨.transfer 0 2 400, rfl, by decide⟩
  · exact ⟨.advance 5, rfl, by decide⟩
  · exact ⟨.delegate 2 2, rfl, by decide⟩
  · exact ⟨.burn 0 100, rfl, by decide⟩

/-- the model under that history: five calls accepted, one rejected (wrong signer), and the
observation the monitor is fed at the end -/
def runModel (m : M) : List (Parsed × String) → M
  | [] => m
  | x :: xs => runModel (mstepD m x.1).1 xs

def outcomes (m : M) : List (Parsed × String) → List Bool
  | [] => []
  | x :: xs => (mstepD m x.1).2 :: outcomes (mstepD m x.1).1 xs

example :
    outcomes (M.init .fvb ⟨1, 200000⟩ 100) demoTrace = [true, true, true, true, false, true] ∧
    (modelObs (runModel (M.init .fvb ⟨1, 200000⟩ 100) demoTrace) [99, 105] true).votes = [0, 500, 0, 0, 0] ∧
    (modelObs (runModel (M.init .fvb ⟨1, 200000⟩ 100) demoTrace) [99, 105] true).bal = [500, 0, 400, 0, 0] ∧
    (modelObs (runModel (M.init .fvb ⟨1, 200000⟩ 100) demoTrace) [99, 105] true).hist =
      [(99, ["0", "0", "0", "0", "0", "0"]), (105, ["E", "E", "E", "E", "E", "E"])] := by decide

/-- account 0 holds 1000 and delegates to 1, but `get_votes(1)` shows 900 -/
def badVotesObs : Obs :=
  { ok := true, now := 100, bal := [1000, 0, 0, 0, 0], units := none,
    del := [some 1, none, none, none, none], votes := [0, 900, 0, 0, 0], ncp := none, ts := 1000,
    fut := "rej", hist := [], failed := false }

def demoMon : Mon := { (monInit 100) with del := [some 1, none, none, none, none] }

def demoMint : Parsed := ⟨"mint", [0], 1000, 0, 0, 0, [], []⟩

/-- on an observation whose votes are not the delegated balances the monitor fires -/
example : (checkCore demoMon demoMint badVotesObs "").2.isSome = true := by
  have h1 : chkIdle demoMon demoMint badVotesObs = none := by unfold chkIdle; rw [if_neg (by decide)]
  have h2 : chkFuture badVotesObs = none := by unfold chkFuture; rw [if_neg (by decide)]
  have h3 : delStep demoMon.del demoMint badVotesObs.ok = [some 1, none, none, none, none] := by decide
  have h4 : badVotes [some 1, none, none, none, none] badVotesObs = some 1 := by decide
  show (verdict demoMon demoMint badVotesObs).isSome = true
  unfold verdict chkVotes
  rw [h1, h2, h3, h4]
  rfl

/-- ledger 102 ended with votes 1000 for account 0, a later query for it answers 900 -/
def badHistObs : Obs :=
  { ok := true, now := 105, bal := [1000, 0, 0, 0, 0], units := none,
    del := [some 0, none, none, none, none], votes := [1000, 0, 0, 0, 0], ncp := none, ts := 1000,
    fut := "rej", hist := [(102, ["900", "0", "0", "0", "0", "1000"])], failed := false }

def demoMon2 : Mon :=
  { start := 100, prev := { badHistObs with hist := [] }, del := [some 0, none, none, none, none],
    table := [(100, 105, ["1000", "0", "0", "0", "0", "1000"])], lastCp := List.replicate N none }

def demoApprove : Parsed := ⟨"approve", [0, 1], 5, 0, 200, 0, [0], [102]⟩

/-- and on a past query that differs from the row recorded when that ledger ended -/
example : (checkCore demoMon2 demoApprove badHistObs "").2.isSome = true := by
  have h1 : chkIdle demoMon2 demoApprove badHistObs = none := by unfold chkIdle; rw [if_neg (by decide)]
  have h2 : chkFuture badHistObs = none := by unfold chkFuture; rw [if_neg (by decide)]
  have h3 : delStep demoMon2.del demoApprove badHistObs.ok = [some 0, none, none, none, none] := by decide
  have h4 : badVotes [some 0, none, none, none, none] badHistObs = none := by decide
  have h5 : chkTotal badHistObs = none := by unfold chkTotal; rw [if_neg (by decide)]
  have h6 : chkUnits badHistObs = none := by unfold chkUnits; rw [if_neg (by decide)]
  have h7 : chkDelegate [some 0, none, none, none, none] badHistObs = none := by
    unfold chkDelegate; rw [if_neg (by decide)]
  have h8 : badHistObs.hist.find? (histBad demoMon2.start (tableStep demoMon2 demoApprove badHistObs) badHistObs)
      = some (102, ["900", "0", "0", "0", "0", "1000"]) := by decide
  show (verdict demoMon2 demoApprove badHistObs).isSome = true
  unfold verdict chkVotes chkHistory
  rw [h1, h2, h3, h4, h5, h6, h7, h8]
  rfl

end OZ.Votes.Mon
