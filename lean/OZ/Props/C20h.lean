import OZ.Lemmas.RegHooks
/-
C20 (h): the compliance hook module lists (`HookModules(hook) -> Vec<Address>`) represent, per
hook, the plain set  reg s h m := is_module_registered(h, m)  under ANY history of
`add_module_to` / `remove_module_from` (arbitrary arguments, failed calls rolled back).
-/
namespace OZ.Props.C20h
open OZ.Reg OZ.RegHooks

def reg (s : State) (h m : Nat) : Prop := isModuleRegistered s h m = true

/-- **hooks_refines.** After any history `is_module_registered` is membership in
`get_modules_for_hook`, which lists no module twice and at most `MAX_MODULES = 20`. -/
theorem hooks_refines (ops : List Op) (h : Nat) :
    let s := run init ops
    (∀ m, isModuleRegistered s h m = true ↔ m ∈ getModulesForHook s h) ∧
    (getModulesForHook s h).Nodup ∧ (getModulesForHook s h).length ≤ 20 := by
  intro s
  have hI : Inv s := inv_run inv_init ops
  exact ⟨fun m => any_eq_mem _ m, hI.nodup h, hI.le h⟩

/-- **hooks_abs_step.** The represented sets move exactly as plain sets do. -/
theorem hooks_abs_step (s : State) (hs : Reachable s) (h m : Nat) :
    (∀ s', addModuleTo s h m = .ok s' → ∀ h' m', reg s' h' m' ↔ (reg s h' m' ∨ (h' = h ∧ m' = m))) ∧
    (∀ s', removeModuleFrom s h m = .ok s' → ∀ h' m', reg s' h' m' ↔ (reg s h' m' ∧ ¬ (h' = h ∧ m' = m))) ∧
    (∀ o e, step s o = .error e → next s o = s) := by
  have hI := reachable_inv hs
  refine ⟨?_, ?_, ?_⟩
  · intro s' hok h' m'
    obtain ⟨_, rfl⟩ := (addModuleTo_ok_iff s s' h m).1 hok
    unfold reg isModuleRegistered
    rw [any_eq_mem, any_eq_mem]
    show m' ∈ updD s.modules h _ h' ↔ _
    by_cases hh : h' = h
    · subst hh; rw [updD_same]; simp
    · rw [updD_other _ _ _ _ hh]; simp [hh]
  · intro s' hok h' m'
    obtain ⟨_, rfl⟩ := (removeModuleFrom_ok_iff s s' h m).1 hok
    unfold reg isModuleRegistered
    rw [any_eq_mem, any_eq_mem]
    show m' ∈ updD s.modules h _ h' ↔ _
    by_cases hh : h' = h
    · subst hh; rw [updD_same, (hI.nodup h').mem_erase_iff]; simp; exact And.comm
    · rw [updD_other _ _ _ _ hh]; simp [hh]
  · intro o e he
    simp [next, he]

/-- **hooks_dup_refused.** -/
theorem hooks_dup_refused (s : State) (h m : Nat) (hr : reg s h m) : ∃ e, addModuleTo s h m = .error e :=
  err_of_not_ok (fun s' hok => ((addModuleTo_ok_iff s s' h m).1 hok).1.1 ((any_eq_mem _ _).1 hr))

/-- **hooks_absent_refused.** -/
theorem hooks_absent_refused (s : State) (h m : Nat) (hr : ¬ reg s h m) :
    ∃ e, removeModuleFrom s h m = .error e :=
  err_of_not_ok (fun s' hok => hr ((any_eq_mem _ _).2 ((removeModuleFrom_ok_iff s s' h m).1 hok).1))

/-- **hooks_limit_exact.** A new module is accepted for a hook exactly while the hook has fewer
than `MAX_MODULES = 20` (the 20th accepted, the 21st refused). -/
theorem hooks_limit_exact (s : State) (h m : Nat) (hr : ¬ reg s h m) :
    ((∃ s', addModuleTo s h m = .ok s') ↔ (getModulesForHook s h).length < 20) ∧
    ((getModulesForHook s h).length = 19 → ∃ s', addModuleTo s h m = .ok s') ∧
    ((getModulesForHook s h).length = 20 → ∃ e, addModuleTo s h m = .error e) := by
  have hn : m ∉ s.modules h := fun hm => hr ((any_eq_mem _ _).2 hm)
  have key : (∃ s', addModuleTo s h m = .ok s') ↔ (getModulesForHook s h).length < 20 := by
    constructor
    · rintro ⟨s', hok⟩; exact ((addModuleTo_ok_iff s s' h m).1 hok).1.2
    · intro hl; exact ⟨_, (addModuleTo_ok_iff s _ h m).2 ⟨⟨hn, hl⟩, rfl⟩⟩
  refine ⟨key, fun h9 => key.2 (by omega), fun h20 => ?_⟩
  exact err_of_not_ok (fun s' hok => by have := key.1 ⟨s', hok⟩; omega)

/-- **hooks_enumerates_once.** In a reachable state index access into `HookModules(h)` is a
bijection between `0 .. len-1` and the registered modules of the hook. -/
theorem hooks_enumerates_once (s : State) (hs : Reachable s) (h : Nat) :
    (∀ m, reg s h m ↔ ∃ i : Nat, (getModulesForHook s h)[i]? = some m) ∧
    (∀ (i j : Nat) m, (getModulesForHook s h)[i]? = some m → (getModulesForHook s h)[j]? = some m → i = j) := by
  have hI := reachable_inv hs
  refine ⟨fun m => ?_, nodup_index_inj _ (hI.nodup h)⟩
  unfold reg isModuleRegistered getModulesForHook
  rw [any_eq_mem]; exact List.mem_iff_getElem?

/-! ### non-vacuity -/

def okB (r : Except RErr State) : Bool := match r with | .ok _ => true | .error _ => false

example :
    let s := run init ((List.range 20).map (Op.add 3))
    (getModulesForHook s 3).length = 20 ∧ okB (addModuleTo s 3 20) = false ∧ okB (addModuleTo s 4 20) = true ∧
    getModulesForHook (next s (.remove 3 0)) 3 = (List.range 20).tail := by decide +kernel

end OZ.Props.C20h
