import OZ.Props.C06Stk
import OZ.Lemmas.AccessStkMon
/-
C06, machine `stk` (stacked role guards) — soundness of the MONITOR that decides the property on
implementation traces.

For the sequences labelled `kind=stk` the driver feeds `OZ.Access.Stk.Mon.checkCore` (the monitor on parsed
values, OZ/Model/AccessStkMon.lean) with the implementation's observations of the harness contract
`stk::Stacked2`; `./check C06` reports a violation there exactly when it returns a message. Here it is proved
that on the observations of the MODEL the monitor never returns a message, for every label (any admin) and
every finite history (`monitor_accepts_every_model_trace`). Together with OZ/Props/C06Mon.lean (the machines
lib / nft / own) every machine the driver runs is covered. Consequences:

  * an implementation whose observations agree with the model's can never raise a monitor alarm — a
    monitor failure is never a false alarm of the monitor itself;
  * every conclusion the monitor evaluates (a stacked entry point is accepted only if the account EACH of
    its two guards names holds one of that guard's roles — `site=stacked.bypass.role.<fn>`; only with the
    authorization every `only_*` guard demands — `site=stacked.bypass.auth.<fn>`; it is NOT refused when all
    of this holds — `site=stacked.refused.<fn>`; grant / revoke are accepted only with the admin's
    authorization and not refused when due — `site=stacked.admin.*`, `site=stacked.refused.grant|revoke`;
    counter, role table and return value follow the accepted calls and nothing else — `site=stacked.effect`;
    a rejected call changes no getter — `site=stacked.rollback`) is a THEOREM about the model, in the
    monitor's own executable wording.

The model observation used here IS the data the driver's model side prints: `OZ.Drv.C06.StkIO.stepLine` runs
`stepM` on the parsed op and `StkIO.obsLine` prints the tag and the fields of `modelObs` of the resulting
state (`ret`, `counter`, the role table of roles 0..2 x accounts 0..4); the monitor is called with the same
`(auth, op)` that `StkIO.parseOp` builds for the model side. `monInit p` / `initM p` are what the driver's
`minitAny` / `initAny` build from the label parameter `p` (`StkIO.paramsOf label`).

Property theorems only; helper facts come from OZ/Lemmas/AccessStk.lean and OZ/Lemmas/AccessStkMon.lean.
-/
namespace OZ.Access.Stk.Mon
open OZ.Access OZ.Access.Stk

/-- monitor state and model state describe the same point of a history -/
structure Agree (m : Mon) (x : St) : Prop where
  prev : m.prev = none ∨ m.prev = some (stableOf x)
  holds : m.holds = x.holds
  counter : m.counter = x.counter
  admin : x.admin = some m.admin

/-- the monitor's reading of "every guard holds" is exactly acceptance by the model -/
theorem guardsHold_iff {m : Mon} {x : St} (ha : Agree m x) (auth : List Nat) (f : Fn) (a b : Nat) :
    guardsHold m auth f a b = true ↔ ∃ s', x.call auth f a b = .ok s' := by
  unfold St.call
  rw [stacked_accepted_iff_all, ← guardsOk_iff ha.holds]
  unfold guardsHold
  rw [ha.counter]
  simp [and_assoc]

/-- the monitor's reading of "the admin authorized" -/
theorem adminAuth_iff {m : Mon} {x : St} (ha : Agree m x) (auth : List Nat) :
    auth.contains m.admin = true ↔ ∃ ad, x.admin = some ad ∧ ad ∈ auth := by
  rw [ha.admin, List.contains_iff_mem]
  exact ⟨fun h => ⟨_, rfl, h⟩, fun ⟨ad, h1, h2⟩ => by injection h1 with h1; rw [h1]; exact h2⟩

/-- the monitor's reading of "this grant / revoke is due" is exactly acceptance by the model -/
theorem adminOpDue_iff {m : Mon} {x : St} (ha : Agree m x) (auth : List Nat) (op : Op)
    (hop : isCall op = false) : adminOpDue m auth op = true ↔ ∃ s', x.apply auth op = .ok s' := by
  cases op with
  | call f a b => cases hop
  | grant acct role =>
    simp only [adminOpDue, Bool.and_eq_true, decide_eq_true_eq, adminAuth_iff ha]
    constructor
    · rintro ⟨h1, h2⟩; exact ⟨_, grant_iff.2 ⟨h1, h2, rfl⟩⟩
    · rintro ⟨s', h⟩; obtain ⟨h1, h2, -⟩ := grant_iff.1 h; exact ⟨h1, h2⟩
  | revoke acct role =>
    simp only [adminOpDue, Bool.and_eq_true, decide_eq_true_eq, adminAuth_iff ha, ha.holds]
    constructor
    · rintro ⟨⟨h1, h2⟩, h3⟩; exact ⟨_, revoke_iff.2 ⟨h1, h2, h3, rfl⟩⟩
    · rintro ⟨s', h⟩; obtain ⟨h1, h2, h3, -⟩ := revoke_iff.1 h; exact ⟨⟨h1, h2⟩, h3⟩

/-- **a rejected call**: the monitor is silent on the (unchanged) getters and keeps describing the state -/
theorem rejected_sound {m : Mon} {x : St} (ha : Agree m x) (auth : List Nat) (op : Op) {e : Err}
    (hr : x.apply auth op = .error e) :
    (checkCore m auth op (modelObs x false op)).2 = none ∧
    Agree (checkCore m auth op (modelObs x false op)).1 x := by
  have hno : ∀ s', x.apply auth op ≠ .ok s' := fun s' h => by rw [hr] at h; cases h
  have hc : counterStep m op false = m.counter := rfl
  have hh : holdsStep m op false = m.holds := rfl
  refine ⟨verdict_none (vRollback_none (fun _ => ha.prev)) ?_
      (vEffect_none (by rw [show (modelObs x false op).ok = false from rfl, hc, ha.counter]; rfl)
        (by rw [show (modelObs x false op).ok = false from rfl, hh, ha.holds]; rfl) (fun h => by cases h)),
    ⟨Or.inr rfl, ha.holds, ha.counter, ha.admin⟩⟩
  cases op with
  | call f a b =>
    refine vFn_none (fun h => by cases h.1) (fun h => by cases h.1) ?_
    rintro ⟨-, hg⟩
    obtain ⟨s', hs'⟩ := (guardsHold_iff ha auth f a b).1 hg
    exact hno s' hs'
  | grant acct role =>
    refine vAdmin_none (fun h => by cases h.1) ?_
    rintro ⟨-, hd⟩
    obtain ⟨s', hs'⟩ := (adminOpDue_iff ha auth (.grant acct role) rfl).1 hd
    exact hno s' hs'
  | revoke acct role =>
    refine vAdmin_none (fun h => by cases h.1) ?_
    rintro ⟨-, hd⟩
    obtain ⟨s', hs'⟩ := (adminOpDue_iff ha auth (.revoke acct role) rfl).1 hd
    exact hno s' hs'

/-- **an accepted call**: the monitor is silent on the new getters and its ghost role table / ghost
counter describe the new state -/
theorem accepted_sound {m : Mon} {x : St} (ha : Agree m x) (auth : List Nat) (op : Op) {s' : St}
    (hs : x.apply auth op = .ok s') :
    (checkCore m auth op (modelObs s' true op)).2 = none ∧
    Agree (checkCore m auth op (modelObs s' true op)).1 s' := by
  have hroll : vRollback m (modelObs s' true op) = none := vRollback_none (fun h => by cases h)
  have hadm : s'.admin = some m.admin := (apply_keeps hs).trans ha.admin
  cases op with
  | call f a b =>
    obtain ⟨h1, h2, -, e⟩ := call_iff.1 hs
    have hall : ∀ g ∈ f.guards, g.Holds x auth a b := by
      intro g hg
      simp only [Fn.guards, List.mem_cons, List.not_mem_nil, or_false] at hg
      rcases hg with rfl | rfl
      · exact h2
      · exact h1
    obtain ⟨k1, k2⟩ := (guardsOk_iff ha.holds auth a b f.guards).2 hall
    have hcnt : s'.counter = m.counter + 1 := by rw [e, ha.counter]
    have hhol : s'.holds = m.holds := by rw [e, ha.holds]
    have hcall : vCall m auth (.call f a b) (modelObs s' true (.call f a b)) = none :=
      vFn_none (fun h => h.2 k1) (fun h => h.2 k2) (fun h => h.1 rfl)
    have heff : vEffect m (.call f a b) (modelObs s' true (.call f a b)) = none :=
      vEffect_none hcnt (by show tableOf s'.holds = tableOf m.holds; rw [hhol]) (fun _ _ => rfl)
    exact ⟨verdict_none hroll hcall heff, ⟨Or.inr rfl, hhol.symm, hcnt.symm, hadm⟩⟩
  | grant acct role =>
    obtain ⟨h1, -, e⟩ := grant_iff.1 hs
    have hcnt : s'.counter = m.counter := by rw [e, ha.counter]
    have hhol : s'.holds = setHolds m.holds acct role true := by rw [e, ha.holds]
    have hcall : vCall m auth (.grant acct role) (modelObs s' true (.grant acct role)) = none :=
      vAdmin_none (fun h => h.2 ((adminAuth_iff ha auth).2 h1)) (fun h => h.1 rfl)
    have heff : vEffect m (.grant acct role) (modelObs s' true (.grant acct role)) = none :=
      vEffect_none hcnt (by show tableOf s'.holds = tableOf (setHolds m.holds acct role true); rw [hhol])
        (fun _ h => by cases h)
    exact ⟨verdict_none hroll hcall heff, ⟨Or.inr rfl, hhol.symm, hcnt.symm, hadm⟩⟩
  | revoke acct role =>
    obtain ⟨h1, -, -, e⟩ := revoke_iff.1 hs
    have hcnt : s'.counter = m.counter := by rw [e, ha.counter]
    have hhol : s'.holds = setHolds m.holds acct role false := by rw [e, ha.holds]
    have hcall : vCall m auth (.revoke acct role) (modelObs s' true (.revoke acct role)) = none :=
      vAdmin_none (fun h => h.2 ((adminAuth_iff ha auth).2 h1)) (fun h => h.1 rfl)
    have heff : vEffect m (.revoke acct role) (modelObs s' true (.revoke acct role)) = none :=
      vEffect_none hcnt (by show tableOf s'.holds = tableOf (setHolds m.holds acct role false); rw [hhol])
        (fun _ h => by cases h)
    exact ⟨verdict_none hroll hcall heff, ⟨Or.inr rfl, hhol.symm, hcnt.symm, hadm⟩⟩

/-- **one call**: fed with the model's own observation of any call (accepted or rejected), the monitor
reports nothing and its state keeps describing the model's -/
theorem monitor_sound_step {m : Mon} {x : St} (ha : Agree m x) (auth : List Nat) (op : Op) :
    (checkCore m auth op (modelObs (stepM x auth op).1 (stepM x auth op).2 op)).2 = none ∧
    Agree (checkCore m auth op (modelObs (stepM x auth op).1 (stepM x auth op).2 op)).1
      (stepM x auth op).1 := by
  cases hap : x.apply auth op with
  | error e => rw [stepM_none hap]; exact rejected_sound ha auth op hap
  | ok s' => rw [stepM_some hap]; exact accepted_sound ha auth op hap

/-- one item of a history: the authorizing accounts and the call -/
abbrev Item := List Nat × Op

/-- the monitor run over a whole history of model observations: first message, if any -/
def monitorRun : Mon → St → List Item → Option String
  | _, _, [] => none
  | m, x, a :: as =>
    match (checkCore m a.1 a.2 (modelObs (stepM x a.1 a.2).1 (stepM x a.1 a.2).2 a.2)).2 with
    | some msg => some msg
    | none => monitorRun
        (checkCore m a.1 a.2 (modelObs (stepM x a.1 a.2).1 (stepM x a.1 a.2).2 a.2)).1
        (stepM x a.1 a.2).1 as

/-- the states the driver builds from a `kind=stk` label agree -/
theorem init_agree (p : Params) : Agree (monInit p) (initM p) :=
  ⟨Or.inl rfl, rfl, rfl, rfl⟩

/-- **monitor soundness**, machine `stk`: for every sequence label (any admin) and every finite history —
any of the sixteen stacked entry points with any arguments, grants and revokes of any pair, any authorizing
subsets — the monitor reports nothing on the model's observations -/
theorem monitor_accepts_every_model_trace (p : Params) (ops : List Item) :
    monitorRun (monInit p) (initM p) ops = none := by
  suffices ∀ m x, Agree m x → monitorRun m x ops = none from this _ _ (init_agree p)
  induction ops with
  | nil => intro m x _; rfl
  | cons a as ih =>
    intro m x ha
    obtain ⟨h1, h2⟩ := monitor_sound_step ha a.1 a.2
    unfold monitorRun
    rw [h1]
    exact ih _ _ h2

/-! ### non-vacuity (tests, labelled as such): the monitor is not trivially silent -/

/-- ghost table of the examples: 1 holds "minter", 2 holds "burner" -/
def demoMon : Mon :=
  { admin := 0, holds := fun a r => (a == 1 && r == 0) || (a == 2 && r == 1), counter := 4, prev := none }

/-- the observation of the seeded change "role-guard macros drop stacked attributes": `hr_or`
(`#[has_role(a, "minter")]` above `#[only_role(b, "burner")]`) accepted for a = 1 (a minter) and b = 4 (NO
burner) — `site=stacked.bypass.role.hr_or` -/
example :
    (checkCore demoMon [0, 1, 2, 3, 4] (.call ⟨.has, .only⟩ 1 4)
      ⟨true, some 5, { counter := 5, roles := tableOf demoMon.holds }⟩).2.isSome = true := by
  simp [checkCore, verdict, orElse, vRollback, vCall, vFn, demoMon, Fn.guards, Fn.innerGuard, Fn.outerGuard,
    mkGuard, sameParam, roleOk, Guard.roles, Guard.who, Guard.onB, pick, BURNER, MINTER]

/-- the same entry point accepted for a = 1, b = 2 (the burner) with NOBODY authorizing —
`site=stacked.bypass.auth.hr_or` -/
example :
    (checkCore demoMon [] (.call ⟨.has, .only⟩ 1 2)
      ⟨true, some 5, { counter := 5, roles := tableOf demoMon.holds }⟩).2.isSome = true := by
  simp [checkCore, verdict, orElse, vRollback, vCall, vFn, demoMon, Fn.guards, Fn.innerGuard, Fn.outerGuard,
    mkGuard, sameParam, roleOk, authOk, Guard.roles, Guard.who, Guard.onB, Guard.needsAuth, pick, BURNER, MINTER]

/-- `or_hr` refused although 1 is a minter and authorized and 2 is a burner — `site=stacked.refused.or_hr` -/
example :
    (checkCore demoMon [1] (.call ⟨.only, .has⟩ 1 2)
      ⟨false, none, { counter := 4, roles := tableOf demoMon.holds }⟩).2.isSome = true := by
  simp [checkCore, verdict, orElse, vRollback, vCall, vFn, guardsHold, demoMon, Fn.guards, Fn.innerGuard,
    Fn.outerGuard, mkGuard, sameParam, roleOk, authOk, Guard.roles, Guard.who, Guard.onB, Guard.needsAuth, pick,
    BURNER, MINTER, I32_MAX]

/-- a grant accepted with only a stranger's authorization — `site=stacked.admin.grant` -/
example :
    (checkCore demoMon [3] (.grant 3 0)
      ⟨true, none, { counter := 4, roles := tableOf (setHolds demoMon.holds 3 0 true) }⟩).2.isSome = true := by
  simp [checkCore, verdict, orElse, vRollback, vCall, vAdmin, demoMon]

/-- an accepted call after which the counter did not move — `site=stacked.effect` -/
example :
    (checkCore demoMon [2] (.call ⟨.has, .only⟩ 1 2)
      ⟨true, some 4, { counter := 4, roles := tableOf demoMon.holds }⟩).2.isSome = true := by
  simp [checkCore, verdict, orElse, vRollback, vCall, vFn, vEffect, counterStep, counterF, demoMon, Fn.guards,
    Fn.innerGuard, Fn.outerGuard, mkGuard, sameParam, roleOk, authOk, Guard.roles, Guard.who, Guard.onB,
    Guard.needsAuth, pick, BURNER, MINTER]

end OZ.Access.Stk.Mon
