import OZ.Props.C16
import OZ.Lemmas.GatesMon
/-
C16 — list changes are idempotent, EVENTS INCLUDED ("list changes take effect immediately and
idempotently"): on the model of `AllowList` / `BlockList` (OZ/Model/Gates.lean, `allowUser`, `disallowUser`,
`blockUser`, `unblockUser`: each checks `has()` first) a list change that asks for the status the account
already has is a no-op for every observer — same state, no event — and one that flips the status emits
exactly the matching event; hence the event log of any history replays to exactly the stored list and never
announces a change that did not happen. This is what the monitor sites `site=list.idempotent.<machine>` /
`site=list.event.<machine>` evaluate on the implementation's observations (`vListEv`, OZ/Model/GatesMon.lean;
sound by OZ/Props/C16Mon.lean). `OZ.Gates.list_change_immediate_idempotent` (OZ/Props/C16.lean) states the
idempotence of the state; the statements here add the events.

Property theorems only; `setFn ak on` (OZ/Lemmas/GatesMon.lean) is the library function behind a list change
(`ak`: allow list, `on`: allow / block), `evOf ak on u` the event of that change.
-/
namespace OZ.Gates.Mon
open OZ.Host OZ.Fungible OZ.Gates

/-- **list_change_events**: for each of `allow_user`, `disallow_user`, `block_user`, `unblock_user`: if the
account already has the requested status the call returns the state itself (no write, no event); otherwise
it appends exactly one event, the matching one, flips exactly that status and touches no token state -/
theorem list_change_events (ak on : Bool) (s : LTok) (u : Nat) :
    (s.listed u = on → setFn ak on s u = s) ∧
    (s.listed u ≠ on →
      (setFn ak on s u).log = s.log ++ [evOf ak on u] ∧ (setFn ak on s u).listed = upd s.listed u on ∧
      (setFn ak on s u).tok = s.tok) := by
  cases ak <;> cases on <;> cases h : s.listed u <;>
    simp [setFn, evOf, AllowList.allowUser, AllowList.disallowUser, BlockList.blockUser, BlockList.unblockUser, h]

/-- the entry points of all four list machines run exactly these functions -/
theorem list_change_entry_points (c : Cfg) (auth : List Nat) (u x : Nat) (on : Bool) :
    (∀ s s' : LTok, ALib.apply c s auth (.setList u on x) = .ok s' → s' = setFn true on s u) ∧
    (∀ s s' : LTok, BLib.apply c s auth (.setList u on x) = .ok s' → s' = setFn false on s u) ∧
    (∀ s s' : LEx, AEx.apply c s auth (.setList u on x) = .ok s' → s' = { s with t := setFn true on s.t u }) ∧
    (∀ s s' : LEx, BEx.apply c s auth (.setList u on x) = .ok s' → s' = { s with t := setFn false on s.t u }) :=
  ⟨fun _ _ h => alib_set_eq h, fun _ _ h => blib_set_eq h, fun _ _ h => aex_set_eq h, fun _ _ h => bex_set_eq h⟩

/-! ### the event log tells the list, and nothing but real changes -/

/-- what an observer of the events does with one event -/
def evStep (g : Nat → Bool) : GEvent → (Nat → Bool)
  | .userAllowed u => upd g u true
  | .userBlocked u => upd g u true
  | .userDisallowed u => upd g u false
  | .userUnblocked u => upd g u false
  | _ => g

/-- the list an observer reconstructs from an event log, starting from `g` -/
def replay (g : Nat → Bool) (log : List GEvent) : Nat → Bool := log.foldl evStep g

/-- the event announces a change of the status `g` (not a status the account already had) -/
def realChange (g : Nat → Bool) : GEvent → Bool
  | .userAllowed u => !g u
  | .userBlocked u => !g u
  | .userDisallowed u => g u
  | .userUnblocked u => g u
  | _ => true

/-- every event of the log announces a real change of the list replayed so far -/
def allReal (g : Nat → Bool) : List GEvent → Bool
  | [] => true
  | e :: es => realChange g e && allReal (evStep g e) es

/-- the event log of the state replays to the stored list, and no event in it is redundant -/
def LogTellsList (s : LTok) : Prop := replay emptyList s.log = s.listed ∧ allReal emptyList s.log = true

theorem allReal_snoc (g : Nat → Bool) (log : List GEvent) (e : GEvent) :
    allReal g (log ++ [e]) = (allReal g log && realChange (replay g log) e) := by
  induction log generalizing g with
  | nil => simp [allReal, replay]
  | cons x xs ih => simp [allReal, replay, ih, Bool.and_assoc]

theorem logTellsList_set (ak on : Bool) (s : LTok) (u : Nat) (h : LogTellsList s) :
    LogTellsList (setFn ak on s u) := by
  obtain ⟨h1, h2⟩ := list_change_events ak on s u
  by_cases hs : s.listed u = on
  · rw [h1 hs]; exact h
  · obtain ⟨e1, e2, -⟩ := h2 hs
    obtain ⟨i1, i2⟩ := h
    refine ⟨?_, ?_⟩
    · rw [e1, e2]
      unfold replay at i1 ⊢
      rw [List.foldl_append, i1]
      cases ak <;> cases on <;> rfl
    · rw [e1, allReal_snoc, i2, i1]
      cases ak <;> cases on <;> cases hl : s.listed u <;> simp [evOf, realChange, hl] at hs ⊢

/-- **list_events_tell_the_list**, all histories of the `AllowList` library type: after ANY finite list of
calls (list changes, repeated or not, in any order; token calls with any arguments and authorizations) the
`user_allowed` / `user_disallowed` events emitted so far replay to exactly `allowed()`, and none of them
announced a status the account already had -/
theorem list_events_tell_the_list_allow (c : Cfg) (now : Nat) (ops : List (List Nat × LOp)) :
    LogTellsList (runWith (ALib.apply c) (LTok.empty now) ops) := by
  suffices ∀ s : LTok, LogTellsList s → LogTellsList (runWith (ALib.apply c) s ops) from this _ ⟨rfl, rfl⟩
  induction ops with
  | nil => intro s hs; exact hs
  | cons x xs ih =>
    intro s hs
    simp only [runWith, List.foldl_cons]
    apply ih
    unfold stepWith
    cases hx : ALib.apply c s x.1 x.2 with
    | error e => exact hs
    | ok s1 =>
      simp only
      rcases x with ⟨auth, o⟩
      cases o with
      | tok o =>
        unfold LogTellsList
        rw [alib_tok_log hx, alib_tok_listed hx]
        exact hs
      | setList u on x =>
        rw [alib_set_eq hx]
        exact logTellsList_set true on s u hs

/-- the same for the `BlockList` library type (`user_blocked` / `user_unblocked`, `blocked()`) -/
theorem list_events_tell_the_list_block (c : Cfg) (now : Nat) (ops : List (List Nat × LOp)) :
    LogTellsList (runWith (BLib.apply c) (LTok.empty now) ops) := by
  suffices ∀ s : LTok, LogTellsList s → LogTellsList (runWith (BLib.apply c) s ops) from this _ ⟨rfl, rfl⟩
  induction ops with
  | nil => intro s hs; exact hs
  | cons x xs ih =>
    intro s hs
    simp only [runWith, List.foldl_cons]
    apply ih
    unfold stepWith
    cases hx : BLib.apply c s x.1 x.2 with
    | error e => exact hs
    | ok s1 =>
      simp only
      rcases x with ⟨auth, o⟩
      cases o with
      | tok o =>
        unfold LogTellsList
        rw [blib_tok_log hx, blib_tok_listed hx]
        exact hs
      | setList u on x =>
        rw [blib_set_eq hx]
        exact logTellsList_set false on s u hs

/-! ### non-vacuity (tests, labelled as such) -/

/-- allow 2, allow 2 again, disallow 3 (never allowed), disallow 2, disallow 2 again: two events, not five -/
example :
    (runWith (ALib.apply demoCfg) (LTok.empty 100)
      [([], .setList 2 true 0), ([], .setList 2 true 0), ([], .setList 3 false 0), ([], .setList 2 false 0),
       ([], .setList 2 false 0)]).log = [.userAllowed 2, .userDisallowed 2] := by decide

/-- the change the seeded regression makes (event emitted although the account is already allowed) breaks
`allReal`: an observer would see a change that never happened -/
example : allReal emptyList [.userAllowed 2, .userAllowed 2] = false := by decide

end OZ.Gates.Mon
