import OZ.Lemmas.RegTopicsMon
/-
C20 (b) — soundness of the `topics` MONITOR that decides the property on implementation traces.

`./check C20` reports a concrete violation in a `topics` sequence exactly when
`OZ.RegTopics.Mon.checkCore` (the sub-driver's monitor on parsed values, OZ/Model/RegTopicsMon.lean)
returns a message on the implementation's observations. Here it is proved that on the observations
of the MODEL the monitor never returns a message, for all label parameters `nt`, `ni`, `ht` and every
finite history of `add_claim_topic` / `remove_claim_topic` / `add_trusted_issuer` /
`remove_trusted_issuer` / `update_issuer_claim_topics` with arbitrary arguments
(`monitor_accepts_every_model_trace`). Consequences: a monitor failure is never a false alarm of the
monitor itself, and every conclusion it evaluates (duplicates / absent entries / empty, repeated,
unknown or over-long topic arguments refused; the 15th topic and the 50th issuer accepted, the next
refused; `get_claim_topics` / `get_trusted_issuers` list the plain sets once; `get_claim_topic_issuers`
and `get_trusted_issuer_claim_topics` succeed exactly for listed keys and list the plain relation
once, in both directions; `get_claim_topics_and_issuers` succeeds and is the plain map;
`is_trusted_issuer` / `has_claim_topic` are membership) is a THEOREM about the model, in the
monitor's own executable wording.

`modelObs s nt ni ht ok` is the data the model driver prints for state `s` (`stepLine` / `showState`
of OZ/Drv/C20Topics.lean): the tag; `T=` / `I=` the vectors of `getClaimTopics` / `getTrustedIssuers`;
`TI=` / `IT=` the graphs of `getClaimTopicIssuers` over topics 0..nt-1 and of
`getTrustedIssuerClaimTopics` over issuers 0..ni-1 (only the keys for which the getter succeeds);
`M=` the entries of `getClaimTopicsAndIssuers` sorted by topic with the driver's `mergeSort`
(`Mraw` its printed form, `x` and no entries if the getter fails); `tr=` the bits of
`isTrustedIssuer` over issuers 0..ni-1; `h=` the cells of `hasClaimTopic` over issuers 0..ni-1 x
topics 0..ht-1 (`x` where it fails).

Property theorems only; helper facts come from OZ/Lemmas/RegTopicsMon.lean.
-/
namespace OZ.RegTopics.Mon
open OZ.Reg OZ.RegMon OZ.RegTopics

/-- the `h=` cells the model driver prints -/
def modelH (s : State) (ni ht : Nat) : List String :=
  (List.range ni).flatMap (fun i => (List.range ht).map (fun t =>
    match hasClaimTopic s i t with
    | none => "x"
    | some b => bit b))

/-- the observation the harness / the model driver print for a state -/
def modelObs (s : State) (nt ni ht : Nat) (ok : Bool) : Obs :=
  { ok := ok,
    T := getClaimTopics s,
    I := getTrustedIssuers s,
    TI := (List.range nt).filterMap (fun t => (getClaimTopicIssuers s t).map (fun l => (t, l))),
    IT := (List.range ni).filterMap (fun i => (getTrustedIssuerClaimTopics s i).map (fun l => (i, l))),
    Mraw := (match getClaimTopicsAndIssuers s with
      | none => "x"
      | some l => sepBy ";" ((l.mergeSort (fun (a b : Nat × List Nat) => decide (a.1 ≤ b.1))).map
          (fun (p : Nat × List Nat) => entry p.1 p.2))),
    M := (match getClaimTopicsAndIssuers s with
      | none => []
      | some l => l.mergeSort (fun (a b : Nat × List Nat) => decide (a.1 ≤ b.1))),
    tr := bits ((List.range ni).map (isTrustedIssuer s)),
    h := if (modelH s ni ht).isEmpty then "-" else "".intercalate (modelH s ni ht) }

/-- whether the model accepts the call -/
def accepted (s : State) (op : Op) : Bool :=
  match step s op with
  | .ok _ => true
  | .error _ => false

/-- the getter part of the monitor never fires on the observation of a state the plain structure
describes -/
theorem getters_quiet {g : Mon} {s : State} {nt ni ht : Nat} (ha : Agree g s nt ni ht) (hI : Inv s) (ok : Bool) :
    firstFail (getters g (modelObs s nt ni ht ok)) = none := by
  have hT : (nodupB s.topics = true ∧ sameSet s.topics g.topics = true) :=
    ⟨(nodupB_iff _).2 hI.tN, (sameSet_iff _ _).2 (fun x => by rw [ha.topics])⟩
  have hIs : (nodupB s.issuers = true ∧ sameSet s.issuers g.issuers = true) :=
    ⟨(nodupB_iff _).2 hI.iN, (sameSet_iff _ _).2 (fun x => by rw [ha.issuers])⟩
  have hM : mOk g (modelObs s nt ni ht ok).Mraw (modelObs s nt ni ht ok).M = true := by
    show mOk g (match getClaimTopicsAndIssuers s with | none => "x" | some l => _)
      (match getClaimTopicsAndIssuers s with | none => [] | some l => _) = true
    rw [getM_some hI]
    exact mOk_quiet ha hI _ (mraw_ne_x _)
  have hTr : (modelObs s nt ni ht ok).tr = bits (trWant g) := by
    show bits _ = bits _
    unfold trWant
    rw [ha.ni, ha.issuers]
    rfl
  have hH : modelH s ni ht = hWant g := by
    unfold modelH hWant
    rw [ha.ni, ha.ht]
    exact List.flatMap_congr (fun i _ => List.map_congr_left (fun t _ => hcell_eq ha hI i t))
  unfold getters
  rw [List.append_assoc, List.append_assoc]
  show firstFail ([chk (decide (nodupB s.topics = true ∧ sameSet s.topics g.topics = true)) _,
    chk (decide (nodupB s.issuers = true ∧ sameSet s.issuers g.issuers = true)) _] ++ _) = none
  rw [chk_decide hT, chk_decide hIs, firstFail_append_none _ rfl,
    firstFail_append_none _ (firstFail_map_none _ _ (fun t ht' => by
      rw [ha.nt] at ht'; exact tiCheck_quiet ha hI nt t ht')),
    firstFail_append_none _ (firstFail_map_none _ _ (fun i hi => by
      rw [ha.ni] at hi; exact itCheck_quiet ha hI ni i hi)),
    chk_of hM]
  show firstFail [none, chk (decide ((modelObs s nt ni ht ok).tr = _)) _,
    chk (decide ((if (modelH s ni ht).isEmpty then "-" else "".intercalate (modelH s ni ht)) = _)) _] = none
  rw [firstFail_none_cons, chk_decide hTr, firstFail_none_cons, hH, chk_decide rfl]
  rfl

/-- **one call**: fed with the model's own observation of any call (accepted or refused), the
monitor reports nothing and its plain structure keeps describing the model's state -/
theorem monitor_sound_step {g : Mon} {s : State} {nt ni ht : Nat} (hI : Inv s) (ha : Agree g s nt ni ht) (op : Op) :
    (checkCore g op (modelObs (next s op) nt ni ht (accepted s op))).2 = none ∧
    Agree (checkCore g op (modelObs (next s op) nt ni ht (accepted s op))).1 (next s op) nt ni ht := by
  have key : ∃ g', decide2 "topics" g (plain g op) (accepted s op) (near g op) = (g', none) ∧
      Agree g' (next s op) nt ni ht := by
    unfold next accepted
    cases hs : step s op with
    | ok s' =>
      obtain ⟨g', hp, ha'⟩ := plain_ok ha hI hs
      exact ⟨g', by rw [hp]; rfl, ha'⟩
    | error e =>
      obtain ⟨w, hp⟩ := plain_err ha hI hs
      exact ⟨g, by rw [hp]; rfl, ha⟩
  obtain ⟨g', hd, ha'⟩ := key
  have q := getters_quiet ha' (inv_next hI op) (accepted s op)
  unfold checkCore
  rw [show (modelObs (next s op) nt ni ht (accepted s op)).ok = accepted s op from rfl, hd]
  refine ⟨?_, ha'⟩
  show firstFail (none :: getters g' _) = none
  rw [firstFail_none_cons]
  exact q

/-- the monitor run over a whole history of model observations: first message, if any -/
def monitorRun (nt ni ht : Nat) : Mon → State → List Op → Option String
  | _, _, [] => none
  | g, s, op :: ops =>
    match (checkCore g op (modelObs (next s op) nt ni ht (accepted s op))).2 with
    | some msg => some msg
    | none => monitorRun nt ni ht (checkCore g op (modelObs (next s op) nt ni ht (accepted s op))).1 (next s op) ops

/-- the monitor's initial state for a sequence (what `minit` builds from the label) -/
def monInit (nt ni ht : Nat) : Mon := { topics := [], issuers := [], rel := [], nt := nt, ni := ni, ht := ht }

/-- **monitor soundness**: for all label parameters `nt`, `ni`, `ht` and every finite history of
`add_claim_topic` / `remove_claim_topic` / `add_trusted_issuer` / `remove_trusted_issuer` /
`update_issuer_claim_topics` — any topics, issuers and topic lists, accepted or refused — the
monitor that the sub-driver's `minit` builds reports nothing on the observations of the model that
the sub-driver's `initM` builds -/
theorem monitor_accepts_every_model_trace (nt ni ht : Nat) (ops : List Op) :
    monitorRun nt ni ht (monInit nt ni ht) init ops = none := by
  suffices ∀ g s, Inv s → Agree g s nt ni ht → monitorRun nt ni ht g s ops = none from
    this _ _ inv_init ⟨rfl, rfl, rfl, rfl, rfl, fun i t => by simp [monInit, init, memO]⟩
  induction ops with
  | nil => intro g s _ _; rfl
  | cons op ops ih =>
    intro g s hI ha
    obtain ⟨h1, h2⟩ := monitor_sound_step hI ha op
    unfold monitorRun
    rw [h1]
    exact ih _ _ (inv_next hI op) h2

/-! ### non-vacuity (tests, labelled as such): the monitor is not trivially silent -/

/-- a refused 15th topic, an accepted duplicate topic, an accepted issuer with an unknown topic, an
issuer list naming an issuer twice, a reverse list missing an issuer, a map with a wrong key and a
wrong `has_claim_topic` cell are reported -/
example :
    (decide2 "topics" { monInit 1 1 1 with topics := List.range 14 } (plain { monInit 1 1 1 with topics := List.range 14 } (.addTopic 14))
      false (near { monInit 1 1 1 with topics := List.range 14 } (.addTopic 14))).2.isSome = true ∧
    (decide2 "topics" { monInit 1 1 1 with topics := [3] } (plain { monInit 1 1 1 with topics := [3] } (.addTopic 3)) true "valid").2.isSome = true ∧
    (decide2 "topics" (monInit 1 1 1) (plain (monInit 1 1 1) (.addIssuer 0 [7])) true "valid").2.isSome = true ∧
    (tiCheck { monInit 1 1 1 with topics := [0], issuers := [0], rel := [(0, 0)] } [(0, [0, 0])] 0).isSome = true ∧
    (tiCheck { monInit 1 1 1 with topics := [0], issuers := [0], rel := [(0, 0)] } [(0, [])] 0).isSome = true ∧
    mOk { monInit 1 1 1 with topics := [0] } "1:-" [(1, [])] = false ∧
    hWant { monInit 1 1 1 with topics := [0], issuers := [0], rel := [(0, 0)] } ≠ ["0"] := by
  refine ⟨by decide, by decide, by decide, ?_, ?_, ?_, by decide⟩
  · simp [tiCheck, chk, nodupB, sameSet, wantT]
  · simp [tiCheck, chk, nodupB, sameSet, wantT]
  · simp [mOk, mWant, sortN]

end OZ.RegTopics.Mon
