import OZ.Lemmas.NftMonAuth
/-
C11 — soundness of the MONITOR that decides the property on implementation traces.

`./check C11` reports a concrete violation exactly when `OZ.NftMon.Auth.checkCore` (the driver's
monitor on parsed values, OZ/Model/NftMon.lean) returns a message on the implementation's
observations (apart from the string-level alarm `site=nft.parse` of the driver). Here it is proved
that on the observations of the MODELS the monitor never returns a message — for all three flavours
(base incl. explicit ids, enumerable, consecutive at the bit level), every host configuration
(`min_temp`, `max_ttl`), every `flavour=` label, every start ledger and every finite history of op
lines that observes the tokens it moves (`monitor_accepts_every_model_trace`). Consequences:

  * an implementation whose observations agree with the model's (the correspondence the check
    establishes by differential testing) can never raise a monitor alarm — a monitor failure is
    never a false alarm of the monitor itself;
  * every conclusion the monitor evaluates — an accepted transfer / burn takes the token from its
    current owner, who authorizes; an accepted transfer_from / burn_from has an authorizing spender
    that is the owner, the account of a ghost approval of that token with live_until ≥ ledger, or a
    ghost operator of the CURRENT owner with live_until ≥ ledger; an accepted approve comes from the
    owner or such an operator, approve_for_all from the owner; get_approved is none after every
    move; no reported approval / operator is stale (expired, revoked, cleared, a former owner's) —
    is a THEOREM about the models, in the monitor's own executable wording, with the monitor's own
    ghost lists.

The model observation `OZ.NftMon.stepObs` used here IS the data the driver's model side prints:
`NftIO.stepLine` is `showObs (stepObs cfg s l op)` after parsing the op line into `l` and `l.op = some
op`; a history item is such a pair `(l, op)`, i.e. any op line whatever its unused fields, windows
`q=` and observed ids `qa=` are.

Hypothesis `hQ` (a moved token is among the observed ids `qa=`): the monitor refuses to judge a move
it cannot see the approval of (`site=nft.auth.unobserved`, a check on the harness protocol, not on
the contract); the harness always lists the named token (`observed_set_hypothesis_needed`).

Property theorems only; helper facts come from OZ/Lemmas/NftMon.lean, OZ/Lemmas/NftMonAuth.lean.
-/
namespace OZ.NftMon.Auth
open OZ.Host OZ.Nft OZ.NftMon

/-- **one call**: fed with the model's own observation of any call (accepted or rejected, any
flavour), the monitor reports nothing and its state keeps describing the model's -/
theorem monitor_sound_step (cfg : Cfg) {m : Mon} {ms : MState} {spec : Nat → Option Nat} (ha : Agree m ms spec)
    (l : Line) (op : Op) (hl : l.op = some op) (hq : ∀ f id, op.moves = some (f, id) → id ∈ l.qa) :
    (checkCore m l (stepObs cfg ms l op).2).2 = none ∧
    ∃ spec', Agree (checkCore m l (stepObs cfg ms l op).2).1 (stepObs cfg ms l op).1 spec' := by
  have hv : ∀ (t : Mon × Option String) (o : Obs), t.2 = none → verdict t l o = answers t.1 l o := by
    intro t o ht; unfold verdict; rw [ht]
  unfold stepObs
  cases hx : ms.apply cfg l.auth op with
  | error e =>
    show verdict (track m l (obsOf false none ms l (probeOf op l.a) [])) l (obsOf false none ms l (probeOf op l.a) []) = none ∧
      ∃ spec', Agree (track m l (obsOf false none ms l (probeOf op l.a) [])).1 ms spec'
    have htr : track m l (obsOf false none ms l (probeOf op l.a) []) = (m, none) := by
      unfold track; rw [if_pos (by simp [obsOf])]
    rw [htr, hv _ _ rfl]
    refine ⟨?_, spec, ha⟩
    exact answers_none ha l (obsOf false none ms l (probeOf op l.a) []) rfl rfl rfl
      (fun hm => by simp [moved, obsOf] at hm)
  | ok p =>
    obtain ⟨ms', r⟩ := p
    show verdict (track m l (obsOf true r ms' l (probeOf op l.a) (demOf op))) l (obsOf true r ms' l (probeOf op l.a) (demOf op)) = none ∧
      ∃ spec', Agree (track m l (obsOf true r ms' l (probeOf op l.a) (demOf op))).1 ms' spec'
    obtain ⟨h1, h2⟩ := track_accepted ha hl hx (obsOf true r ms' l (probeOf op l.a) (demOf op)) rfl rfl rfl
    rw [hv _ _ h1]
    refine ⟨?_, _, h2⟩
    apply answers_none h2 l (obsOf true r ms' l (probeOf op l.a) (demOf op)) rfl rfl rfl
    intro hm
    obtain ⟨⟨f, hmv⟩, hcl⟩ := moved_cleared ha.good hl hx _ hm
    exact ⟨hq f l.id hmv, getApproved_none_of_entry_none hcl⟩

/-- the monitor run over a whole history of model observations: first message, if any. A history
item is an op line with the operation it denotes. -/
def monitorRun (cfg : Cfg) : Mon → MState → List (Line × Op) → Option String
  | _, _, [] => none
  | m, ms, x :: xs =>
    match (checkCore m x.1 (stepObs cfg ms x.1 x.2).2).2 with
    | some msg => some msg
    | none => monitorRun cfg (checkCore m x.1 (stepObs cfg ms x.1 x.2).2).1 (stepObs cfg ms x.1 x.2).1 xs

/-- **monitor soundness**: for every host configuration, flavour label (`initState`: what the
driver's `init` builds; `Auth.init`: what its `minit` builds), start ledger and finite history —
any accounts, ids, batch sizes, live_until values, authorizing subsets, windows, any ledger
movement, explicit mints over owned ids included — the monitor reports nothing on the models'
observations -/
theorem monitor_accepts_every_model_trace (cfg : Cfg) (flavour : String) (start : Nat)
    (hist : List (Line × Op)) (hL : ∀ x ∈ hist, x.1.op = some x.2)
    (hQ : ∀ x ∈ hist, ∀ f id, x.2.moves = some (f, id) → id ∈ x.1.qa) :
    monitorRun cfg Auth.init (initState flavour start) hist = none := by
  suffices ∀ m ms spec, Agree m ms spec → monitorRun cfg m ms hist = none by
    obtain ⟨hg, hc, _⟩ := init_good flavour start
    refine this _ _ _ ⟨hg, fun _ => rfl, ?_, ?_, fun _ p hp => by cases hp⟩
    · intro id e he; rw [hc] at he; cases he
    · intro o p e he; rw [hc] at he; cases he
  induction hist with
  | nil => intro m ms spec _; rfl
  | cons x xs ih =>
    intro m ms spec ha
    obtain ⟨h1, spec', h2⟩ := monitor_sound_step cfg ha x.1 x.2 (hL x List.mem_cons_self)
      (hQ x List.mem_cons_self)
    unfold monitorRun
    rw [h1]
    exact ih (fun y hy => hL y (List.mem_cons_of_mem _ hy)) (fun y hy => hQ y (List.mem_cons_of_mem _ hy)) _ _ _ h2

/-! ### about the hypothesis and the repaired mint rule (tests, labelled as such) -/

/-- a history line: only the fields the kind uses matter -/
def ln (kind : Kind) (a : List Nat) (id lu : Nat) (auth qa : List Nat) : Line :=
  { kind, a, id, n := 0, lu, auth, q := [], qa }

/-- the hypothesis `hQ` cannot be dropped: a perfectly authorized transfer whose token is not among
the observed ids makes the monitor report `site=nft.auth.unobserved` (it cannot see whether the
approval was cleared) -/
theorem observed_set_hypothesis_needed :
    (monitorRun ⟨1, 200000⟩ Auth.init (initState "seq" 100)
      [(ln .mint [1] 0 0 [] [0], .mintSeq 1), (ln .transfer [1, 2] 0 0 [1] [], .transfer 1 2 0)]).isSome = true := by
  decide

/-- FINDING (false alarm of the monitor as it was before this proof): it dropped the ghost approval
of an id on every MINT of that id, whereas `Base::update` leaves the approval entry alone when it
mints. On the model trace  mint_id(to 1, id 7); approve(1 → 2, id 7, until 200); mint_id(to 3, id 7)
— an explicit mint over an owned id, outside the fresh-id precondition of `Base::mint`, about which
the property says nothing — the model (like the code) still reports `get_approved(7) = 2`, and the
old rule (`setOwner`: owner change + approval drop, now used for transfers / burns only) made the
monitor report `site=nft.auth.stale-approval` on the model's own observation: -/
theorem legacy_mint_rule_false_alarm :
    let l1 := ln .mintId [1] 7 0 [] [7]
    let l2 := ln .approve [1, 2] 7 200 [1] [7]
    let l3 := ln .mintId [3] 7 0 [] [7]
    let s1 := stepObs ⟨1, 200000⟩ (initState "exp" 100) l1 (.mint 1 7)
    let m1 := checkCore Auth.init l1 s1.2
    let s2 := stepObs ⟨1, 200000⟩ s1.1 l2 (.approve 1 2 7 200)
    let m2 := checkCore m1.1 l2 s2.2
    let s3 := stepObs ⟨1, 200000⟩ s2.1 l3 (.mint 3 7)
    m1.2 = none ∧ m2.2 = none ∧ s3.2.ok = true ∧ s3.2.appr = [(7, 2)] ∧
    (answers (setOwner m2.1 7 (some 3)) l3 s3.2).isSome = true ∧
    (checkCore m2.1 l3 s3.2).2 = none := by
  decide

/-- the repaired rule demands exactly what the old one demanded whenever the property applies:
while every ghost approval belongs to a token the plain map knows an owner of (which every accepted
`approve` guarantees, else `site=nft.auth.approve-nonexistent`), a mint of an id WITHOUT owner finds
no ghost approval to drop, so both rules produce the same monitor state -/
theorem mint_of_unowned_id_finds_no_ghost_approval (m : Mon) (id to : Nat)
    (hga : ∀ p ∈ m.appr, (ghostOwner m p.1).isSome = true) (hfresh : ghostOwner m id = none) :
    setOwner m id (some to) = setOwnerMint m id to := by
  have : m.appr.filter (fun p => decide (p.1 ≠ id)) = m.appr := by
    rw [List.filter_eq_self]
    intro p hp
    have := hga p hp
    have hne : p.1 ≠ id := by
      intro e; rw [e, hfresh] at this; cases this
    simpa using hne
  unfold setOwner setOwnerMint
  rw [this]

/-! ### non-vacuity (tests, labelled as such): the monitor is not trivially silent -/

/-- a former owner's operator moving the token: `site=nft.auth.spender-unjustified` -/
example :
    (checkCore { batches := [(0, 9, 1)], over := [(3, some 2)], appr := [], oper := [(1, 4, 500)], next := 10 }
      (ln .transferFrom [4, 2, 4] 3 0 [4] [3])
      ⟨true, none, [], [(3, some 4)], [9, 1, 0, 0, 1, 0], [3], [], [(1, 4)], none, [], [], 120, [4]⟩).2.isSome = true := by
  decide

/-- an approval that is still readable one ledger after its live_until: `site=nft.auth.stale-approval` -/
example :
    (checkCore { batches := [], over := [(0, some 1)], appr := [(0, 2, 120)], oper := [], next := 1 }
      { kind := .advance, a := [], id := 0, n := 1, lu := 0, auth := [], q := [], qa := [0] }
      ⟨true, none, [], [(0, some 1)], [0, 1, 0, 0, 0, 0], [0], [(0, 2)], [], none, [], [], 121, []⟩).2.isSome = true := by
  decide

end OZ.NftMon.Auth
