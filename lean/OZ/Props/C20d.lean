import OZ.Lemmas.RegRules
/-
C20 (d): the context rules of a smart account (`Meta(id)`, `Signers(id)`, `Policies(id)`,
`Ids(type)`, `Fingerprint(hash)`, `NextId`, `Count`) represent the plain finite map
  id ↦ rule = getContextRule s id
under ANY history of the eight rule-management operations (arbitrary arguments, an arbitrary
oracle `installOk` for the policies' `install`, failed calls rolled back): ids are never reused,
the per-type id lists enumerate the rules of a type once, `Count` is the number of rules, and
the stored fingerprint set is the injective image of the rules.
The constructor of the example account is one `add_context_rule` on the empty state, so every
state of the deployed account is `run installOk (init now) (add :: ops)`.
-/
namespace OZ.Props.C20d
open OZ.Reg OZ.RegRules

/-- **rules_refines.** After any history: `get_context_rules_count` is the number of rules;
`get_context_rules(type)` never fails and returns exactly the rules of that type, each once;
every rule's id is its key and its signer and policy vectors are duplicate-free and within the
documented bounds. -/
theorem rules_refines (installOk : Nat → Bool) (now : Nat) (ops : List Op) :
    let s := run installOk (init now) ops
    (∃ lv : List Nat, lv.Nodup ∧ (∀ id, id ∈ lv ↔ (getContextRule s id).isSome = true) ∧
        getContextRulesCount s = lv.length) ∧
    (∀ c, ∃ l, getContextRules s c = some l ∧ (l.map (·.id)).Nodup ∧
        ∀ r, r ∈ l ↔ (getContextRule s r.id = some r ∧ r.ctx = c)) ∧
    (∀ id r, getContextRule s id = some r → r.id = id ∧ r.signers.Nodup ∧ r.policies.Nodup ∧
        r.signers.length ≤ 15 ∧ r.policies.length ≤ 5) ∧
    getContextRulesCount s ≤ 15 := by
  intro s
  have hI : Inv s := inv_run installOk (inv_init now) ops
  refine ⟨?_, ?_, ?_, hI.r.cntLe⟩
  · obtain ⟨lv, h1, h2, h3⟩ := hI.r.live
    refine ⟨lv, h1, fun id => ?_, h3⟩
    rw [h2]; unfold getContextRule; rw [Option.isSome_map]
  · intro c
    obtain ⟨l, hl, hmap, hall⟩ := getContextRules_spec hI c
    refine ⟨l, hl, by rw [hmap]; exact hI.r.idsNodup c, fun r => ?_⟩
    constructor
    · intro hr
      refine ⟨hall r hr, ?_⟩
      have hid : r.id ∈ s.ids c := by rw [← hmap]; exact List.mem_map.2 ⟨r, hr, rfl⟩
      obtain ⟨m, hm, hmc⟩ := (hI.r.idsMem c r.id).1 hid
      obtain ⟨m', hm', hr'⟩ := (getContextRule_some s r.id r).1 (hall r hr)
      rw [hm] at hm'; injection hm' with hm'; subst hm'
      rw [hr']; exact hmc
    · rintro ⟨hr, hc⟩
      obtain ⟨m, hm, hr'⟩ := (getContextRule_some s r.id r).1 hr
      have hid : r.id ∈ s.ids c := (hI.r.idsMem c r.id).2 ⟨m, hm, by rw [hr'] at hc; exact hc⟩
      rw [← hmap] at hid
      obtain ⟨r2, hr2, hid2⟩ := List.mem_map.1 hid
      have := hall r2 hr2
      rw [hid2, hr] at this; injection this with this
      rw [this]; exact hr2
  · intro id r hr
    obtain ⟨m, _, rfl⟩ := (getContextRule_some s id r).1 hr
    exact ⟨rfl, hI.r.sgNodup id, hI.r.psNodup id, hI.r.sgLe id, hI.r.psLe id⟩

/-- **rule_ids_never_reused.** `NextId` never decreases along a history; every rule has an id
below it; an accepted `add_context_rule` creates its rule under the id `NextId`, which no rule
holds, and raises `NextId` by one. So the id of a rule created later is strictly above the id of
every rule created earlier, removed or not. -/
theorem rule_ids_never_reused (installOk : Nat → Bool) (s : State) (hs : Reachable installOk s) :
    (∀ ops, s.nextId ≤ (run installOk s ops).nextId) ∧
    (∀ id, (getContextRule s id).isSome = true → id < s.nextId) ∧
    (∀ c n vu sg ps s', addContextRule installOk s c n vu sg ps = .ok s' →
      getContextRule s s.nextId = none ∧
      getContextRule s' s.nextId = some ⟨s.nextId, c, n, sg, ps, vu⟩ ∧
      s'.nextId = s.nextId + 1 ∧
      ∀ id, id ≠ s.nextId → getContextRule s' id = getContextRule s id) := by
  have hI := reachable_inv hs
  refine ⟨nextId_run_mono installOk s, ?_, ?_⟩
  · intro id h
    unfold getContextRule at h; rw [Option.isSome_map] at h
    exact hI.r.idLt id h
  · intro c n vu sg ps s' hok
    obtain ⟨_, rfl⟩ := (addContextRule_ok_iff installOk s s' c n vu sg ps).1 hok
    have hdead : s.info s.nextId = none := by
      cases h : s.info s.nextId with
      | none => rfl
      | some m => exact absurd (hI.r.idLt s.nextId (by rw [h]; rfl)) (Nat.lt_irrefl _)
    refine ⟨by unfold getContextRule; rw [hdead]; rfl, ?_, rfl, ?_⟩
    · simp [getContextRule, added, storeRule, updD]
    · intro id hid
      simp [getContextRule, added, storeRule, updD, hid]

/-- **fingerprints_eq_rules.** In a reachable state the stored fingerprint set is exactly the
image of the rules under `fingerprint`, without repetition, and the map is injective (two
different rules never share a fingerprint); an `add_context_rule` whose fingerprint is that of
an existing rule is refused. -/
theorem fingerprints_eq_rules (installOk : Nat → Bool) (s : State) (hs : Reachable installOk s) :
    s.fps.Nodup ∧
    (∀ fp, fp ∈ s.fps ↔ ∃ id r, getContextRule s id = some r ∧ fingerprint r = fp) ∧
    (∀ id1 id2 r1 r2, getContextRule s id1 = some r1 → getContextRule s id2 = some r2 →
      fingerprint r1 = fingerprint r2 → id1 = id2) ∧
    (∀ c n vu sg ps id r, getContextRule s id = some r → fingerprint r = (c, sortNat sg, sortNat ps) →
      ∃ e, addContextRule installOk s c n vu sg ps = .error e) := by
  have hI := reachable_inv hs
  have hmem : ∀ fp, fp ∈ s.fps ↔ ∃ id r, getContextRule s id = some r ∧ fingerprint r = fp := by
    intro fp
    rw [hI.f.fpsMem]
    constructor
    · rintro ⟨id, h⟩
      rw [fpOf_eq] at h
      cases hr : getContextRule s id with
      | none => rw [hr] at h; cases h
      | some r => rw [hr] at h; injection h with h; exact ⟨id, r, hr, h⟩
    · rintro ⟨id, r, hr, h⟩
      exact ⟨id, by rw [fpOf_eq, hr]; simp [h]⟩
  refine ⟨hI.f.fpsNodup, hmem, ?_, ?_⟩
  · intro id1 id2 r1 r2 h1 h2 he
    apply hI.f.fpInj id1 id2 (fingerprint r1)
    · rw [fpOf_eq, h1]; rfl
    · rw [fpOf_eq, h2, he]; rfl
  · intro c n vu sg ps id r hr hfp
    apply err_of_not_ok
    intro s' hok
    obtain ⟨⟨_, _, _, _, _, hn, _⟩, _⟩ := (addContextRule_ok_iff installOk s s' c n vu sg ps).1 hok
    exact hn ((hmem _).2 ⟨id, r, hr, hfp⟩)

/-- **rules_abs_step.** Every accepted operation on an existing rule changes the map
`id ↦ rule` at that id only, and exactly as its name says (signers and policies are appended at
the end, removed in place; a removal deletes the entry). -/
theorem rules_abs_step (installOk : Nat → Bool) (s : State) (id : Nat) :
    (∀ n s', updateName s id n = .ok s' →
      ∀ id', getContextRule s' id' =
        if id' = id then (getContextRule s id).map (fun r => { r with name := n }) else getContextRule s id') ∧
    (∀ vu s', updateValidUntil s id vu = .ok s' →
      ∀ id', getContextRule s' id' =
        if id' = id then (getContextRule s id).map (fun r => { r with validUntil := vu }) else getContextRule s id') ∧
    (∀ s', removeContextRule s id = .ok s' →
      ∀ id', getContextRule s' id' = if id' = id then none else getContextRule s id') ∧
    (∀ x s', addSigner s id x = .ok s' →
      ∀ id', getContextRule s' id' =
        if id' = id then (getContextRule s id).map (fun r => { r with signers := r.signers ++ [x] })
        else getContextRule s id') ∧
    (∀ x s', removeSigner s id x = .ok s' →
      ∀ id', getContextRule s' id' =
        if id' = id then (getContextRule s id).map (fun r => { r with signers := eraseLast r.signers x })
        else getContextRule s id') ∧
    (∀ p s', addPolicy installOk s id p = .ok s' →
      ∀ id', getContextRule s' id' =
        if id' = id then (getContextRule s id).map (fun r => { r with policies := r.policies ++ [p] })
        else getContextRule s id') ∧
    (∀ p s', removePolicy s id p = .ok s' →
      ∀ id', getContextRule s' id' =
        if id' = id then (getContextRule s id).map (fun r => { r with policies := eraseLast r.policies p })
        else getContextRule s id') := by
  refine ⟨?_, ?_, ?_, ?_, ?_, ?_, ?_⟩
  · intro n s' h id'
    obtain ⟨m, hm, rfl⟩ := (updateName_ok_iff s s' id n).1 h
    by_cases hid : id' = id
    · subst hid; simp [getContextRule, updD, hm]
    · simp [getContextRule, updD, hid]
  · intro vu s' h id'
    obtain ⟨m, hm, _, rfl⟩ := (updateValidUntil_ok_iff s s' id vu).1 h
    by_cases hid : id' = id
    · subst hid; simp [getContextRule, updD, hm]
    · simp [getContextRule, updD, hid]
  · intro s' h id'
    obtain ⟨m, hm, _, rfl⟩ := (removeContextRule_ok_iff s s' id).1 h
    by_cases hid : id' = id
    · subst hid; simp [getContextRule, removed, updD]
    · simp [getContextRule, removed, updD, hid]
  · intro x s' h id'
    obtain ⟨m, hm, _, _, rfl⟩ := (addSigner_ok_iff s s' id x).1 h
    by_cases hid : id' = id
    · subst hid; simp [getContextRule, sgSet, refp, updD, hm]
    · simp [getContextRule, sgSet, refp, updD, hid]
  · intro x s' h id'
    obtain ⟨m, hm, _, _, rfl⟩ := (removeSigner_ok_iff s s' id x).1 h
    by_cases hid : id' = id
    · subst hid; simp [getContextRule, sgSet, refp, updD, hm]
    · simp [getContextRule, sgSet, refp, updD, hid]
  · intro p s' h id'
    obtain ⟨m, hm, _, _, _, rfl⟩ := (addPolicy_ok_iff installOk s s' id p).1 h
    by_cases hid : id' = id
    · subst hid; simp [getContextRule, psSet, refp, updD, hm]
    · simp [getContextRule, psSet, refp, updD, hid]
  · intro p s' h id'
    obtain ⟨m, hm, _, _, rfl⟩ := (removePolicy_ok_iff s s' id p).1 h
    by_cases hid : id' = id
    · subst hid; simp [getContextRule, psSet, refp, updD, hm]
    · simp [getContextRule, psSet, refp, updD, hid]

/-- **rules_dup_refused.** A repeated signer in a new rule, a signer or policy that the rule
already lists, and a rule whose fingerprint is stored are all refused. -/
theorem rules_dup_refused (installOk : Nat → Bool) (s : State) :
    (∀ c n vu sg ps, ¬ sg.Nodup → ∃ e, addContextRule installOk s c n vu sg ps = .error e) ∧
    (∀ c n vu sg ps, (c, sortNat sg, sortNat ps) ∈ s.fps → ∃ e, addContextRule installOk s c n vu sg ps = .error e) ∧
    (∀ id sg, sg ∈ s.signers id → ∃ e, addSigner s id sg = .error e) ∧
    (∀ id p, p ∈ s.policies id → ∃ e, addPolicy installOk s id p = .error e) := by
  refine ⟨?_, ?_, ?_, ?_⟩
  · intro c n vu sg ps h
    exact err_of_not_ok (fun s' hok => h ((addContextRule_ok_iff installOk s s' c n vu sg ps).1 hok).1.2.1)
  · intro c n vu sg ps h
    exact err_of_not_ok (fun s' hok => ((addContextRule_ok_iff installOk s s' c n vu sg ps).1 hok).1.2.2.2.2.2.1 h)
  · intro id sg h
    exact err_of_not_ok (fun s' hok => by
      obtain ⟨m, _, hn, _⟩ := (addSigner_ok_iff s s' id sg).1 hok; exact hn h)
  · intro id p h
    exact err_of_not_ok (fun s' hok => by
      obtain ⟨m, _, hn, _⟩ := (addPolicy_ok_iff installOk s s' id p).1 hok; exact hn h)

/-- **rules_absent_refused.** Every operation on an id that holds no rule is refused, and so is
the removal of a signer or policy the rule does not list. -/
theorem rules_absent_refused (installOk : Nat → Bool) (s : State) (id : Nat) :
    (getContextRule s id = none →
      (∀ n, ∃ e, updateName s id n = .error e) ∧ (∀ vu, ∃ e, updateValidUntil s id vu = .error e) ∧
      (∃ e, removeContextRule s id = .error e) ∧ (∀ x, ∃ e, addSigner s id x = .error e) ∧
      (∀ x, ∃ e, removeSigner s id x = .error e) ∧ (∀ x, ∃ e, addPolicy installOk s id x = .error e) ∧
      (∀ x, ∃ e, removePolicy s id x = .error e)) ∧
    (∀ x, x ∉ s.signers id → ∃ e, removeSigner s id x = .error e) ∧
    (∀ x, x ∉ s.policies id → ∃ e, removePolicy s id x = .error e) := by
  refine ⟨?_, ?_, ?_⟩
  · intro h
    have hnone : s.info id = none := by
      unfold getContextRule at h
      cases hi : s.info id with
      | none => rfl
      | some m => rw [hi] at h; cases h
    refine ⟨?_, ?_, ?_, ?_, ?_, ?_, ?_⟩
    · intro n; exact ⟨_, by unfold updateName; rw [hnone]⟩
    · intro vu; exact ⟨_, by unfold updateValidUntil; rw [hnone]⟩
    · exact ⟨_, by unfold removeContextRule; rw [hnone]⟩
    · intro x; exact ⟨_, by unfold addSigner; rw [hnone]⟩
    · intro x; exact ⟨_, by unfold removeSigner; rw [hnone]⟩
    · intro x; exact ⟨_, by unfold addPolicy; rw [hnone]⟩
    · intro x; exact ⟨_, by unfold removePolicy; rw [hnone]⟩
  · intro x h
    exact err_of_not_ok (fun s' hok => by
      obtain ⟨m, _, hm, _⟩ := (removeSigner_ok_iff s s' id x).1 hok; exact h hm)
  · intro x h
    exact err_of_not_ok (fun s' hok => by
      obtain ⟨m, _, hm, _⟩ := (removePolicy_ok_iff s s' id x).1 hok; exact h hm)

/-- **rules_limit_exact.** In a reachable state, for arguments that are otherwise acceptable:
a new rule is accepted exactly while fewer than `MAX_CONTEXT_RULES = 15` exist (the 15th
accepted, the 16th refused); a new signer of a rule exactly while it has fewer than
`MAX_SIGNERS = 15`; a new (installable) policy exactly while it has fewer than `MAX_POLICIES = 5`. -/
theorem rules_limit_exact (installOk : Nat → Bool) (s : State) (hs : Reachable installOk s) :
    (∀ c n vu sg ps, sg.Nodup → ps.Nodup → pastValidUntil s vu = false → sg.length ≤ 15 → ps.length ≤ 5 →
      ¬ (sg = [] ∧ ps = []) → (c, sortNat sg, sortNat ps) ∉ s.fps → ps.all installOk = true →
      ((∃ s', addContextRule installOk s c n vu sg ps = .ok s') ↔ getContextRulesCount s < 15)) ∧
    (∀ id r x, getContextRule s id = some r → x ∉ r.signers →
      (r.ctx, sortNat (r.signers ++ [x]), sortNat r.policies) ∉ s.fps →
      ((∃ s', addSigner s id x = .ok s') ↔ r.signers.length < 15)) ∧
    (∀ id r p, getContextRule s id = some r → p ∉ r.policies → installOk p = true →
      (r.ctx, sortNat r.signers, sortNat (r.policies ++ [p])) ∉ s.fps →
      ((∃ s', addPolicy installOk s id p = .ok s') ↔ r.policies.length < 5)) := by
  have hI := reachable_inv hs
  refine ⟨?_, ?_, ?_⟩
  · intro c n vu sg ps h1 h2 h3 h4 h5 h6 h7 h8
    constructor
    · rintro ⟨s', hok⟩; exact ((addContextRule_ok_iff installOk s s' c n vu sg ps).1 hok).1.1
    · intro hc
      exact ⟨_, (addContextRule_ok_iff installOk s _ c n vu sg ps).2 ⟨⟨hc, h1, h3, ⟨h4, h5, h6⟩, h2, h7, h8⟩, rfl⟩⟩
  · intro id r x hr hx hfp
    obtain ⟨m, hm, rfl⟩ := (getContextRule_some s id r).1 hr
    simp only at hx hfp ⊢
    constructor
    · rintro ⟨s', hok⟩
      obtain ⟨m', _, _, ⟨⟨hl, _, _⟩, _⟩, _⟩ := (addSigner_ok_iff s s' id x).1 hok
      simp [MAX_SIGNERS] at hl; omega
    · intro hl
      refine ⟨_, (addSigner_ok_iff s _ id x).2 ⟨m, hm, hx, ⟨⟨?_, hI.r.psLe id, ?_⟩,
        ⟨nodup_append_singleton (hI.r.sgNodup id) hx, hI.r.psNodup id, hfp⟩, hI.r.sgNodup id, hI.r.psNodup id⟩, rfl⟩⟩
      · simp [MAX_SIGNERS]; omega
      · intro h; simp at h
  · intro id r p hr hp hi hfp
    obtain ⟨m, hm, rfl⟩ := (getContextRule_some s id r).1 hr
    simp only at hp hfp ⊢
    constructor
    · rintro ⟨s', hok⟩
      obtain ⟨m', _, _, _, ⟨⟨_, hl, _⟩, _⟩, _⟩ := (addPolicy_ok_iff installOk s s' id p).1 hok
      simp [MAX_POLICIES] at hl; omega
    · intro hl
      refine ⟨_, (addPolicy_ok_iff installOk s _ id p).2 ⟨m, hm, hp, hi, ⟨⟨hI.r.sgLe id, ?_, ?_⟩,
        ⟨hI.r.sgNodup id, nodup_append_singleton (hI.r.psNodup id) hp, hfp⟩, hI.r.sgNodup id, hI.r.psNodup id⟩, rfl⟩⟩
      · simp [MAX_POLICIES]; omega
      · intro h; simp at h

/-- **rules_enumerates_once.** In a reachable state index access into `Ids(type)` is a
bijection between `0 .. len-1` and the ids of the rules of that type. -/
theorem rules_enumerates_once (installOk : Nat → Bool) (s : State) (hs : Reachable installOk s) (c : Nat) :
    (∀ id, (∃ r, getContextRule s id = some r ∧ r.ctx = c) ↔ ∃ i : Nat, (s.ids c)[i]? = some id) ∧
    (∀ (i j : Nat) id, (s.ids c)[i]? = some id → (s.ids c)[j]? = some id → i = j) := by
  have hI := reachable_inv hs
  refine ⟨fun id => ?_, nodup_index_inj _ (hI.r.idsNodup c)⟩
  rw [← List.mem_iff_getElem?, hI.r.idsMem]
  constructor
  · rintro ⟨r, hr, hc⟩
    obtain ⟨m, hm, rfl⟩ := (getContextRule_some s id r).1 hr
    exact ⟨m, hm, hc⟩
  · rintro ⟨m, hm, hc⟩
    exact ⟨_, (getContextRule_some s id _).2 ⟨m, hm, rfl⟩, hc⟩

/-! ### non-vacuity: the id of a removed rule is not handed out again -/

example :
    let ok : Nat → Bool := fun _ => true
    let s := run ok (init 100) [.add 0 0 none [0] [], .add 1 1 none [1] [], .remove 1, .add 1 2 none [1] []]
    s.nextId = 3 ∧ getContextRulesCount s = 2 ∧ (getContextRule s 1).isNone = true ∧
    (getContextRule s 2).map (·.name) = some 2 ∧ s.ids 1 = [2] ∧ s.fps.length = 2 := by decide +kernel

end OZ.Props.C20d
