import OZ.Lemmas.Timelock
/-
C08 — A timelocked operation runs once, only after its delay and its predecessor.

Property theorems only. The model (OZ/Model/Timelock.lean) mirrors
packages/governance/src/timelock/storage.rs. Operation ids are the tuples
(target, function, args, predecessor, salt) themselves (`Id.op`), i.e. `hash_operation` is
an abstract injective function (collision resistance of Keccak-256 over the XDR encoding is
assumed; the correspondence checks id-equality ⇔ tuple-equality on all generated pairs).

All statements are universally quantified over every state satisfying the invariant `Inv`
(in particular every state reachable from `init now`, `2 ≤ now ≤ u32::MAX`, through ANY finite
list of schedule / set_execute / execute / cancel / set_min_delay / advance calls with
arbitrary arguments, accepted or rejected), i.e. under the regime the property states:
ledger sequence ≥ 2. `sentinels_need_ledger_ge_two` shows that this hypothesis is necessary.

The ghost log (`State.log`, newest first) records the accepted schedule / cancel / execute
calls; `log_entry_has_cause` and `sched_entry_faithful` tie every entry to the call of the
history that produced it, `accepted_is_logged` (Lemmas) says that nothing accepted is missing;
`execute_requires_history` states the property purely over histories, with no ghost state.
-/
namespace OZ.Timelock
open OZ.Host

/-! ### ids -/

/-- same five fields ⇔ same id (definitional in the model; observed on the implementation) -/
theorem id_is_a_function (a b : Operation) : a.id = b.id ↔ a = b := by
  constructor
  · intro h
    cases a; cases b
    simp only [Operation.id] at h
    injection h with h1 h2 h3 h4 h5
    subst h1; subst h2; subst h3; subst h4; subst h5; rfl
  · intro h; rw [h]

/-- an operation id is never the "no predecessor" marker, and never its own predecessor -/
theorem id_ne_zero_ne_pred (a : Operation) : a.id ≠ Id.zero ∧ a.id ≠ a.pred := by
  refine ⟨(by intro h; cases h), ?_⟩
  intro h
  have : sizeOf a.id = sizeOf a.pred := by rw [h]
  simp only [Operation.id, Id.op.sizeOf_spec] at this
  omega

/-! ### reachability -/

/-- every state reachable at ledgers ≥ 2 satisfies the invariant -/
theorem inv_reachable {now : Nat} (h2 : 2 ≤ now) (hm : now ≤ U32_MAX) (ops : List Op) :
    Inv (run (init now) ops) := run_inv (init_inv h2 hm) ops

/-! ### execution requires … -/

/-- An accepted `set_execute_operation` (hence `execute_operation`) of `op` at ledger `now`:
the log holds an accepted schedule of exactly this id at some ledger `l` with delay `d` and the
minimum delay `m ≤ d` then in force; nothing about this id (no cancel, no execution, no
re-schedule) was accepted since; the delay has fully elapsed (`l + d ≤ now`, or the saturated
corner `l + d > u32::MAX ∧ now = u32::MAX`); the predecessor is zero or has been executed;
and the id was never executed before. -/
theorem execute_requires {s s' : State} (hi : Inv s) {op : Operation}
    (h : setExecute s op = .ok s') :
    ∃ newer older l d m,
      s.log = newer ++ Ev.sched op.id l d m :: older ∧
      (∀ e ∈ newer, e.id ≠ op.id) ∧
      m ≤ d ∧ 2 ≤ l ∧ l ≤ s.now ∧
      elapsed l d s.now ∧
      (op.pred = Id.zero ∨ ghost s.log op.pred = .done) ∧
      (∀ l', Ev.exec op.id l' ∉ s.log) := by
  obtain ⟨h2, hn, hp, _⟩ := setExecute_ok h
  obtain ⟨l, d, m, hg, hv, hmd, hl2, hln⟩ := (hi.coh op.id).ledger_ge_two h2
  obtain ⟨newer, older, hlog, hnew⟩ := ghost_pending_split hg
  refine ⟨newer, older, l, d, m, hlog, hnew, hmd, hl2, hln, ?_, ?_, ?_⟩
  · rw [hv] at hn; exact (satAdd_le_iff_elapsed hi.nowHi).mp hn
  · rcases hp with hz | h1
    · exact Or.inl hz
    · exact Or.inr ((hi.coh op.pred).of_one hi.nowHi h1)
  · apply execCount_zero_iff.mp
    have := hi.cnt op.id
    rw [if_neg (by omega)] at this
    exact this

/-- the same over histories, for `execute_operation` -/
theorem execute_requires_run {now : Nat} (h2 : 2 ≤ now) (hm : now ≤ U32_MAX) (ops : List Op)
    {op : Operation} {ok : Bool} {s' : State}
    (h : execute (run (init now) ops) op ok = .ok s') :
    ∃ newer older l d m,
      (run (init now) ops).log = newer ++ Ev.sched op.id l d m :: older ∧
      (∀ e ∈ newer, e.id ≠ op.id) ∧
      m ≤ d ∧ 2 ≤ l ∧ l ≤ (run (init now) ops).now ∧
      elapsed l d (run (init now) ops).now ∧
      (op.pred = Id.zero ∨ ghost (run (init now) ops).log op.pred = .done) ∧
      (∀ l', Ev.exec op.id l' ∉ (run (init now) ops).log) := by
  obtain ⟨s1, h1, _, _⟩ := execute_ok h
  exact execute_requires (inv_reachable h2 hm ops) h1

example : (setExecute (run (init 100)
    [.setMinDelay 5, .schedule ⟨7, 0, [1], Id.zero, 0⟩ 5, .advance 5]) ⟨7, 0, [1], Id.zero, 0⟩).toBool = true := by
  decide
example : (setExecute (run (init 100)
    [.setMinDelay 5, .schedule ⟨7, 0, [1], Id.zero, 0⟩ 5, .advance 4]) ⟨7, 0, [1], Id.zero, 0⟩).toBool = false := by
  decide
/-- the saturated corner is reachable: scheduled near the end of the u32 range -/
example : (setExecute (run (init 4294967290)
    [.setMinDelay 0, .schedule ⟨7, 0, [], Id.zero, 0⟩ 4294967295, .advance 5]) ⟨7, 0, [], Id.zero, 0⟩).toBool = true := by
  decide

/-! ### the ghost log is the history -/

/-- every log entry of a run was produced by an accepted call of the history: the history
splits as `pre ++ x :: post`, `x` was accepted in the state after `pre`, and the entry is what
`x` logs there -/
theorem log_entry_has_cause (s0 : State) (ops : List Op) (e : Ev) (h : e ∈ (run s0 ops).log) :
    e ∈ s0.log ∨ ∃ pre x post s1, ops = pre ++ x :: post ∧
      apply (run s0 pre) x = .ok s1 ∧ logged (run s0 pre) x = some e := by
  induction ops generalizing s0 with
  | nil => exact Or.inl h
  | cons x xs ih =>
    rcases ih (step s0 x) h with h1 | ⟨pre, y, post, s1, hsplit, hacc, hlog⟩
    · rw [accepted_is_logged] at h1
      cases ha : apply s0 x with
      | error err => rw [ha] at h1; exact Or.inl h1
      | ok s1 =>
        rw [ha] at h1
        cases hl : logged s0 x with
        | none => rw [hl] at h1; exact Or.inl h1
        | some e' =>
          rw [hl] at h1
          cases h1 with
          | head => exact Or.inr ⟨[], x, xs, s1, rfl, ha, hl⟩
          | tail _ h1' => exact Or.inl h1'
    · exact Or.inr ⟨x :: pre, y, post, s1, by rw [hsplit]; rfl, hacc, hlog⟩

/-- a schedule entry of the log is faithful: it was produced by an accepted
`schedule_operation(op, d)` with `op.id` the entry's id — hence, ids being injective, of
exactly that operation tuple —, at ledger `l`, when the minimum delay in force was `m` -/
theorem sched_entry_faithful {s s1 : State} {x : Op} {id : Id} {l d m : Nat}
    (ha : apply s x = .ok s1) (hl : logged s x = some (.sched id l d m)) :
    ∃ op, x = .schedule op d ∧ op.id = id ∧ s.now = l ∧ s.minDelay = some m ∧ m ≤ d := by
  cases x with
  | schedule op d' =>
    obtain ⟨m', hm, hmd, _, _⟩ := schedule_ok ha
    simp only [logged, hm, Option.getD_some, Option.some.injEq, Ev.sched.injEq] at hl
    obtain ⟨h1, h2, h3, h4⟩ := hl
    subst h1; subst h2; subst h3; subst h4
    exact ⟨op, rfl, rfl, rfl, hm, hmd⟩
  | setExecute op => simp [logged] at hl
  | execute op ok => simp [logged] at hl
  | cancel i => simp [logged] at hl
  | setMinDelay d' => simp [logged] at hl
  | advance n => simp [logged] at hl

/-- **The property over histories, without any ghost state.** If, after ANY finite history
`ops` started at a ledger ≥ 2, `set_execute_operation(op)` is accepted, then the history
splits as `pre ++ schedule(op, d) :: post` where
* that schedule — of exactly this operation tuple — was accepted in the state after `pre`,
* the minimum delay in force there was `m ≤ d`,
* the delay has fully elapsed since the ledger of that call (or the saturated corner),
* no call accepted in `post` concerns this id (no cancel, no execution, no re-schedule),
* the predecessor is zero or some accepted call of the history executed it,
* no accepted call of the history ever executed this id. -/
theorem execute_requires_history {now : Nat} (h2 : 2 ≤ now) (hm : now ≤ U32_MAX) (ops : List Op)
    {op : Operation} {s' : State} (h : setExecute (run (init now) ops) op = .ok s') :
    ∃ pre post d m s1,
      ops = pre ++ Op.schedule op d :: post ∧
      schedule (run (init now) pre) op d = .ok s1 ∧
      (run (init now) pre).minDelay = some m ∧ m ≤ d ∧
      elapsed (run (init now) pre).now d (run (init now) ops).now ∧
      (∀ p1 y p2 s2 e, post = p1 ++ y :: p2 → apply (run s1 p1) y = .ok s2 →
          logged (run s1 p1) y = some e → e.id ≠ op.id) ∧
      (op.pred = Id.zero ∨ ∃ p1 y p2 s2 l, ops = p1 ++ y :: p2 ∧
          apply (run (init now) p1) y = .ok s2 ∧ logged (run (init now) p1) y = some (.exec op.pred l)) ∧
      (∀ p1 y p2 s2 l, ops = p1 ++ y :: p2 → apply (run (init now) p1) y = .ok s2 →
          logged (run (init now) p1) y ≠ some (.exec op.id l)) := by
  obtain ⟨newer, older, l, d, m, hlog, hnew, hmd, _, _, hel, hpred, hnever⟩ :=
    execute_requires (inv_reachable h2 hm ops) h
  obtain ⟨pre, x, post, s1, hsplit, hacc, hlg, hold, hs1, hfin⟩ :=
    log_split_history (init now) ops newer older _ hlog (by simp [init])
  obtain ⟨op', hx, hid, hnow, hmin, _⟩ := sched_entry_faithful hacc hlg
  have hop : op' = op := (id_is_a_function op' op).mp hid
  subst hop; subst hx
  refine ⟨pre, post, d, m, s1, hsplit, hacc, hmin, hmd, by rw [hnow]; exact hel, ?_, ?_, ?_⟩
  · intro p1 y p2 s2 e hp hay hly
    apply hnew
    have hfin' : (run s1 post).log = newer ++ s1.log := by rw [hfin, hs1]
    exact accepted_later_logged s1 post newer hfin' p1 y p2 s2 e hp hay hly
  · rcases hpred with hz | hd
    · exact Or.inl hz
    · right
      obtain ⟨l', hmem⟩ := ghost_done_mem hd
      rcases log_entry_has_cause (init now) ops _ hmem with h0 | ⟨p1, y, p2, s2, hp, hay, hly⟩
      · simp [init] at h0
      · exact ⟨p1, y, p2, s2, l', hp, hay, hly⟩
  · intro p1 y p2 s2 l' hp hay hly
    have hfull : (run (init now) ops).log = (run (init now) ops).log ++ (init now).log := by simp [init]
    exact hnever l' (accepted_later_logged (init now) ops _ hfull p1 y p2 s2 _ hp hay hly)

/-! ### done is final; at most one execution -/

/-- once an id is Done: scheduling, executing and cancelling it are rejected, and whatever is
called afterwards (any finite list of calls) it is still reported Done -/
theorem done_is_final (s : State) (id : Id) (h : getOperationState s id = .done) :
    (∀ op d, op.id = id → ∃ e, schedule s op d = .error e) ∧
    (∀ op, op.id = id → ∃ e, setExecute s op = .error e) ∧
    (∀ op ok, op.id = id → ∃ e, execute s op ok = .error e) ∧
    (∃ e, cancel s id = .error e) ∧
    ∀ ops, getOperationState (run s ops) id = .done := by
  have h1 : s.ledger id = 1 := stateOf_done.mp h
  refine ⟨?_, ?_, ?_, ?_, ?_⟩
  · intro op d hid
    cases hs : schedule s op d with
    | error e => exact ⟨e, rfl⟩
    | ok s' => obtain ⟨_, _, _, h0, _⟩ := schedule_ok hs; rw [hid] at h0; omega
  · intro op hid
    cases hs : setExecute s op with
    | error e => exact ⟨e, rfl⟩
    | ok s' => obtain ⟨h2, _, _, _⟩ := setExecute_ok hs; rw [hid] at h2; omega
  · intro op ok hid
    cases hs : execute s op ok with
    | error e => exact ⟨e, rfl⟩
    | ok s' =>
      obtain ⟨s1, hs1, _, _⟩ := execute_ok hs
      obtain ⟨h2, _, _, _⟩ := setExecute_ok hs1; rw [hid] at h2; omega
  · cases hs : cancel s id with
    | error e => exact ⟨e, rfl⟩
    | ok s' => obtain ⟨h2, _⟩ := cancel_ok hs; omega
  · intro ops
    exact stateOf_done.mpr (run_ledger_one h1 ops)

example : getOperationState (run (init 100)
    [.setMinDelay 0, .schedule ⟨7, 0, [], Id.zero, 0⟩ 0, .execute ⟨7, 0, [], Id.zero, 0⟩ true])
    (Operation.id ⟨7, 0, [], Id.zero, 0⟩) = .done := by decide

/-- in every reachable state the log holds at most one execution per id, and exactly one iff
the id is reported Done -/
theorem executed_at_most_once {s : State} (hi : Inv s) (id : Id) :
    execCount s.log id ≤ 1 ∧ (execCount s.log id = 1 ↔ getOperationState s id = .done) := by
  have := hi.cnt id
  by_cases h1 : s.ledger id = 1
  · rw [if_pos h1] at this
    exact ⟨by omega, fun _ => stateOf_done.mpr h1, fun _ => this⟩
  · rw [if_neg h1] at this
    refine ⟨by omega, fun h => by omega, fun h => absurd (stateOf_done.mp h) h1⟩

/-! ### the reported state machine -/

/-- the only moves of a reported operation state -/
inductive Move : OpState → OpState → Prop
  | stay (a : OpState) : Move a a
  | scheduleWaiting : Move .unset .waiting
  | scheduleReady : Move .unset .ready
  | time : Move .waiting .ready
  | cancelWaiting : Move .waiting .unset
  | cancelReady : Move .ready .unset
  | execute : Move .ready .done

/-- At ledgers ≥ 2 one call (accepted or rejected, any arguments) changes the reported state of
an id only along Unset → Waiting | Ready (an accepted schedule of that id), Waiting → Ready (the
ledger advanced), Waiting | Ready → Unset (an accepted cancel of that id), Ready → Done (an
accepted execution of that id). -/
theorem state_machine (s : State) (h2 : 2 ≤ s.now) (x : Op) (id : Id)
    (hne : getOperationState s id ≠ getOperationState (step s x) id) :
    match x with
    | .schedule op _ => op.id = id ∧ getOperationState s id = .unset ∧
        (getOperationState (step s x) id = .waiting ∨ getOperationState (step s x) id = .ready)
    | .setExecute op => op.id = id ∧ getOperationState s id = .ready ∧
        getOperationState (step s x) id = .done
    | .execute op _ => op.id = id ∧ getOperationState s id = .ready ∧
        getOperationState (step s x) id = .done
    | .cancel i => i = id ∧ (getOperationState s id = .waiting ∨ getOperationState s id = .ready) ∧
        getOperationState (step s x) id = .unset
    | .setMinDelay _ => False
    | .advance _ => getOperationState s id = .waiting ∧ getOperationState (step s x) id = .ready := by
  unfold step at hne ⊢
  cases h : apply s x with
  | error e => rw [h] at hne; exact absurd rfl hne
  | ok s' =>
    rw [h] at hne
    simp only at hne ⊢
    cases x with
    | schedule op d =>
      obtain ⟨m, _, _, h0, rfl⟩ := schedule_ok h
      simp only [getOperationState, getOperationLedger] at hne ⊢
      by_cases hid : id = op.id
      · subst hid
        rw [updId_same] at hne ⊢
        exact ⟨rfl, stateOf_unset.mpr h0, stateOf_ge_two (satAdd_ge_two h2)⟩
      · rw [updId_other _ _ _ _ hid] at hne; exact absurd rfl hne
    | setExecute op =>
      obtain ⟨hv2, hvn, _, rfl⟩ := setExecute_ok h
      simp only [getOperationState, getOperationLedger] at hne ⊢
      by_cases hid : id = op.id
      · subst hid
        rw [updId_same]
        exact ⟨rfl, stateOf_ready.mpr ⟨hv2, hvn⟩, stateOf_done.mpr rfl⟩
      · rw [updId_other _ _ _ _ hid] at hne; exact absurd rfl hne
    | execute op ok =>
      obtain ⟨s1, hs1, _, rfl⟩ := execute_ok h
      obtain ⟨hv2, hvn, _, rfl⟩ := setExecute_ok hs1
      simp only [getOperationState, getOperationLedger] at hne ⊢
      by_cases hid : id = op.id
      · subst hid
        rw [updId_same]
        exact ⟨rfl, stateOf_ready.mpr ⟨hv2, hvn⟩, stateOf_done.mpr rfl⟩
      · rw [updId_other _ _ _ _ hid] at hne; exact absurd rfl hne
    | cancel i =>
      obtain ⟨hv2, rfl⟩ := cancel_ok h
      simp only [getOperationState, getOperationLedger] at hne ⊢
      by_cases hid : id = i
      · subst hid
        rw [updId_same]
        exact ⟨rfl, stateOf_ge_two hv2, stateOf_unset.mpr rfl⟩
      · rw [updId_other _ _ _ _ hid] at hne; exact absurd rfl hne
    | setMinDelay d =>
      injection h with h; subst h
      exact hne rfl
    | advance n =>
      obtain ⟨_, rfl⟩ := advance_ok h
      simp only [getOperationState, getOperationLedger] at hne ⊢
      by_cases h0 : s.ledger id = 0
      · rw [h0] at hne; exact absurd rfl hne
      · by_cases h1 : s.ledger id = 1
        · rw [h1] at hne; exact absurd rfl hne
        · by_cases hw : s.now < s.ledger id
          · have hb := stateOf_waiting.mpr ⟨show 2 ≤ s.ledger id by omega, hw⟩
            refine ⟨hb, ?_⟩
            rcases stateOf_ge_two (v := s.ledger id) (now := s.now + n) (by omega) with ha | ha
            · rw [hb, ha] at hne; exact absurd rfl hne
            · exact ha
          · have hb := stateOf_ready.mpr ⟨show 2 ≤ s.ledger id by omega, show s.ledger id ≤ s.now by omega⟩
            have ha := stateOf_ready.mpr ⟨show 2 ≤ s.ledger id by omega, show s.ledger id ≤ s.now + n by omega⟩
            rw [hb, ha] at hne; exact absurd rfl hne

/-- corollary: every step is one of the seven allowed moves -/
theorem state_machine_moves (s : State) (h2 : 2 ≤ s.now) (x : Op) (id : Id) :
    Move (getOperationState s id) (getOperationState (step s x) id) := by
  by_cases hne : getOperationState s id = getOperationState (step s x) id
  · rw [← hne]; exact Move.stay _
  · have h := state_machine s h2 x id hne
    cases x with
    | schedule op d =>
      obtain ⟨_, hb, ha | ha⟩ := h
      · rw [hb, ha]; exact Move.scheduleWaiting
      · rw [hb, ha]; exact Move.scheduleReady
    | setExecute op => obtain ⟨_, hb, ha⟩ := h; rw [hb, ha]; exact Move.execute
    | execute op ok => obtain ⟨_, hb, ha⟩ := h; rw [hb, ha]; exact Move.execute
    | cancel i =>
      obtain ⟨_, hb | hb, ha⟩ := h
      · rw [hb, ha]; exact Move.cancelWaiting
      · rw [hb, ha]; exact Move.cancelReady
    | setMinDelay d => exact False.elim h
    | advance n => obtain ⟨hb, ha⟩ := h; rw [hb, ha]; exact Move.time

/-! ### the reported state is the state of the history -/

/-- In every reachable state `get_operation_state`, `get_operation_ledger` and the four
predicates report exactly what the ghost log says: Unset iff the last accepted call about the
id is a cancel (or there is none), Done iff it is an execution, otherwise (scheduled at `l`
with delay `d`) Ready iff the delay has elapsed and Waiting iff not. -/
theorem state_reported_correctly {s : State} (hi : Inv s) (id : Id) :
    getOperationState s id = ghostState (ghost s.log id) s.now ∧
    getOperationLedger s id = (match ghost s.log id with
      | .unset => 0 | .done => 1 | .pending l d _ => satAdd l d) ∧
    (operationExists s id = true ↔ ghost s.log id ≠ .unset) ∧
    (isOperationPending s id = true ↔ ∃ l d m, ghost s.log id = .pending l d m) ∧
    (isOperationReady s id = true ↔ ∃ l d m, ghost s.log id = .pending l d m ∧ elapsed l d s.now) ∧
    (isOperationDone s id = true ↔ ghost s.log id = .done) := by
  have hc := hi.coh id
  unfold operationExists isOperationPending isOperationReady isOperationDone
  unfold getOperationState getOperationLedger
  cases hg : ghost s.log id with
  | unset =>
    rw [hg] at hc
    have h0 : s.ledger id = 0 := hc
    have hs : stateOf (s.ledger id) s.now = .unset := stateOf_unset.mpr h0
    rw [hs]
    refine ⟨rfl, h0, by simp, by simp, by simp, by simp⟩
  | done =>
    rw [hg] at hc
    have h1 : s.ledger id = 1 := hc
    have hs : stateOf (s.ledger id) s.now = .done := stateOf_done.mpr h1
    rw [hs]
    refine ⟨rfl, h1, by simp, by simp, by simp, by simp⟩
  | pending l d m =>
    rw [hg] at hc
    obtain ⟨hv, _, hl2, hln⟩ := hc
    have hge : 2 ≤ s.ledger id := by
      rw [hv]; exact satAdd_ge_two hl2
    by_cases he : elapsed l d s.now
    · have hs : stateOf (s.ledger id) s.now = .ready :=
        stateOf_ready.mpr ⟨hge, by rw [hv]; exact (satAdd_le_iff_elapsed hi.nowHi).mpr he⟩
      rw [hs]
      refine ⟨by simp [ghostState, he], hv, by simp, by simp,
        ⟨fun _ => ⟨l, d, m, rfl, he⟩, fun _ => by decide⟩, by simp⟩
    · have hs : stateOf (s.ledger id) s.now = .waiting := by
        apply stateOf_waiting.mpr ⟨hge, ?_⟩
        rw [hv]
        have : ¬ satAdd l d ≤ s.now := fun h => he ((satAdd_le_iff_elapsed hi.nowHi).mp h)
        omega
      rw [hs]
      refine ⟨by simp [ghostState, he], hv, by simp, by simp, ⟨fun h => (by cases h), ?_⟩, by simp⟩
      rintro ⟨l', d', m', hp, he'⟩
      injection hp with e1 e2 e3; subst e1; subst e2
      exact absurd he' he

/-! ### the target is called once per execution -/

/-- an accepted `execute_operation` calls the target exactly once, with exactly the scheduled
function and arguments, after the operation has been marked done -/
theorem target_called_once_per_execute {s s' : State} {op : Operation} {ok : Bool}
    (h : execute s op ok = .ok s') :
    s'.calls = (op.target, op.fn, op.args) :: s.calls ∧ getOperationState s' op.id = .done := by
  obtain ⟨s1, h1, _, rfl⟩ := execute_ok h
  obtain ⟨_, _, _, rfl⟩ := setExecute_ok h1
  refine ⟨rfl, ?_⟩
  simp only [getOperationState, getOperationLedger]
  rw [updId_same]; exact stateOf_done.mpr rfl

/-- nothing else ever calls a target: a rejected call and every call other than an accepted
`execute_operation` leave the call log alone -/
theorem target_called_only_by_execute (s : State) (x : Op) :
    (step s x).calls = s.calls ∨
      ∃ op s', x = .execute op true ∧ execute s op true = .ok s' ∧
        (step s x).calls = (op.target, op.fn, op.args) :: s.calls := by
  unfold step
  cases h : apply s x with
  | error e => exact Or.inl rfl
  | ok s' =>
    cases x with
    | schedule op d => obtain ⟨_, _, _, _, rfl⟩ := schedule_ok h; exact Or.inl rfl
    | setExecute op => obtain ⟨_, _, _, rfl⟩ := setExecute_ok h; exact Or.inl rfl
    | execute op ok =>
      obtain ⟨s1, h1, hok, hs'⟩ := execute_ok h
      subst hok
      right
      refine ⟨op, s', rfl, h, ?_⟩
      exact (target_called_once_per_execute h).1
    | cancel i => obtain ⟨_, rfl⟩ := cancel_ok h; exact Or.inl rfl
    | setMinDelay d => injection h with h; subst h; exact Or.inl rfl
    | advance n => obtain ⟨_, rfl⟩ := advance_ok h; exact Or.inl rfl

/-! ### completeness: a call succeeds exactly under the coded conditions -/

/-- `schedule_operation` succeeds iff the id is Unset and the delay is at least the minimum
delay in force (which must be set) -/
theorem schedule_succeeds_iff (s : State) (op : Operation) (d : Nat) :
    (∃ s', schedule s op d = .ok s') ↔
      getOperationState s op.id = .unset ∧ ∃ m, s.minDelay = some m ∧ m ≤ d := by
  constructor
  · rintro ⟨s', h⟩
    obtain ⟨m, hm, hmd, h0, _⟩ := schedule_ok h
    exact ⟨stateOf_unset.mpr h0, m, hm, hmd⟩
  · rintro ⟨hu, m, hm, hmd⟩
    have hex : operationExists s op.id = false := by unfold operationExists; rw [hu]; rfl
    unfold schedule getMinDelay scheduleWith
    rw [hex, hm]
    simp only [Bool.false_eq_true, if_false]
    rw [if_neg (by omega)]
    exact ⟨_, rfl⟩

/-- `set_execute_operation` succeeds iff the operation is Ready and its predecessor is zero or Done -/
theorem execute_succeeds_iff (s : State) (op : Operation) :
    (∃ s', setExecute s op = .ok s') ↔
      getOperationState s op.id = .ready ∧ (op.pred = Id.zero ∨ getOperationState s op.pred = .done) := by
  constructor
  · rintro ⟨s', h⟩
    obtain ⟨h2, hn, hp, _⟩ := setExecute_ok h
    refine ⟨stateOf_ready.mpr ⟨h2, hn⟩, ?_⟩
    rcases hp with hz | h1
    · exact Or.inl hz
    · exact Or.inr (stateOf_done.mpr h1)
  · rintro ⟨hr, hp⟩
    have hrd : isOperationReady s op.id = true := by unfold isOperationReady; rw [hr]; rfl
    unfold setExecute
    rw [hrd]
    simp only [Bool.not_true, Bool.false_eq_true, if_false]
    rcases hp with hz | hd
    · rw [if_neg (by intro h; exact h.1 hz)]; exact ⟨_, rfl⟩
    · have hdn : isOperationDone s op.pred = true := by unfold isOperationDone; rw [hd]; rfl
      rw [if_neg (by rw [hdn]; intro h; exact absurd h.2 (by decide))]; exact ⟨_, rfl⟩

/-- `execute_operation` succeeds iff moreover the target accepts the call -/
theorem execute_call_succeeds_iff (s : State) (op : Operation) (ok : Bool) :
    (∃ s', execute s op ok = .ok s') ↔
      getOperationState s op.id = .ready ∧ (op.pred = Id.zero ∨ getOperationState s op.pred = .done) ∧
        ok = true := by
  constructor
  · rintro ⟨s', h⟩
    obtain ⟨s1, h1, hok, _⟩ := execute_ok h
    obtain ⟨hr, hp⟩ := (execute_succeeds_iff s op).mp ⟨s1, h1⟩
    exact ⟨hr, hp, hok⟩
  · rintro ⟨hr, hp, hok⟩
    obtain ⟨s1, h1⟩ := (execute_succeeds_iff s op).mpr ⟨hr, hp⟩
    unfold execute invokeTarget
    rw [h1, hok]
    exact ⟨_, rfl⟩

/-- `cancel_operation` succeeds iff the operation is pending (Waiting or Ready) -/
theorem cancel_succeeds_iff (s : State) (id : Id) :
    (∃ s', cancel s id = .ok s') ↔
      getOperationState s id = .waiting ∨ getOperationState s id = .ready := by
  constructor
  · rintro ⟨s', h⟩
    obtain ⟨h2, _⟩ := cancel_ok h
    exact stateOf_ge_two h2
  · intro hp
    have hpe : isOperationPending s id = true := by
      unfold isOperationPending
      rcases hp with h | h <;> rw [h] <;> rfl
    unfold cancel
    rw [hpe]
    exact ⟨_, rfl⟩

/-- the same in terms of the history (ghost log), in every reachable state: scheduling succeeds
iff the last accepted call about the id is a cancel or there is none, and the delay suffices -/
theorem schedule_succeeds_iff_history {s : State} (hi : Inv s) (op : Operation) (d : Nat) :
    (∃ s', schedule s op d = .ok s') ↔
      ghost s.log op.id = .unset ∧ ∃ m, s.minDelay = some m ∧ m ≤ d := by
  rw [schedule_succeeds_iff]
  have hrep := (state_reported_correctly hi op.id).1
  constructor
  · rintro ⟨hu, hm⟩
    refine ⟨?_, hm⟩
    rw [hrep] at hu
    cases hg : ghost s.log op.id with
    | unset => rfl
    | done => rw [hg] at hu; cases hu
    | pending l d' m => rw [hg] at hu; simp only [ghostState] at hu; split at hu <;> cases hu
  · rintro ⟨hg, hm⟩
    exact ⟨by rw [hrep, hg]; rfl, hm⟩

/-- **converse of `execute_requires`**: execution succeeds iff the log holds an accepted schedule of
the id with nothing about it accepted since (`ghost = pending l d m`), the delay `d` has elapsed
since ledger `l`, and the predecessor is zero or was executed -/
theorem execute_succeeds_iff_history {s : State} (hi : Inv s) (op : Operation) :
    (∃ s', setExecute s op = .ok s') ↔
      (∃ l d m, ghost s.log op.id = .pending l d m ∧ elapsed l d s.now) ∧
      (op.pred = Id.zero ∨ ghost s.log op.pred = .done) := by
  rw [execute_succeeds_iff]
  obtain ⟨_, _, _, _, hready, _⟩ := state_reported_correctly hi op.id
  obtain ⟨_, _, _, _, _, hdone⟩ := state_reported_correctly hi op.pred
  have e1 : getOperationState s op.id = .ready ↔ isOperationReady s op.id = true := by
    unfold isOperationReady; constructor
    · intro h; rw [h]; rfl
    · intro h; simpa using h
  have e2 : getOperationState s op.pred = .done ↔ isOperationDone s op.pred = true := by
    unfold isOperationDone; constructor
    · intro h; rw [h]; rfl
    · intro h; simpa using h
  rw [e1, e2, hready, hdone]

/-- an operation that was scheduled (with a delay the schedule call accepted), has not been
cancelled or executed since, whose delay has elapsed and whose predecessor is zero or executed CAN
be executed -/
theorem can_execute {s : State} (hi : Inv s) {op : Operation} {newer older : List Ev} {l d m : Nat}
    (hlog : s.log = newer ++ Ev.sched op.id l d m :: older) (hnew : ∀ e ∈ newer, e.id ≠ op.id)
    (hel : elapsed l d s.now) (hp : op.pred = Id.zero ∨ ghost s.log op.pred = .done) :
    ∃ s', setExecute s op = .ok s' :=
  (execute_succeeds_iff_history hi op).mpr ⟨⟨l, d, m, ghost_of_split hlog hnew, hel⟩, hp⟩

/-- cancelling succeeds iff the last accepted call about the id is a schedule -/
theorem cancel_succeeds_iff_history {s : State} (hi : Inv s) (id : Id) :
    (∃ s', cancel s id = .ok s') ↔ ∃ l d m, ghost s.log id = .pending l d m := by
  rw [cancel_succeeds_iff]
  obtain ⟨_, _, _, hpend, _, _⟩ := state_reported_correctly hi id
  rw [← hpend]
  unfold isOperationPending
  constructor
  · rintro (h | h) <;> rw [h] <;> rfl
  · intro h
    by_cases hw : getOperationState s id = .waiting
    · exact Or.inl hw
    · right; simpa [hw] using h

/-- non-vacuity: after the minimum delay is set, an unset operation can be scheduled with exactly
that delay and not with one ledger less; it can be cancelled; once the delay is over it can be
executed, and not one ledger earlier -/
example : (schedule (run (init 100) [.setMinDelay 5]) ⟨7, 0, [1], Id.zero, 0⟩ 5).toBool = true ∧
    (schedule (run (init 100) [.setMinDelay 5]) ⟨7, 0, [1], Id.zero, 0⟩ 4).toBool = false ∧
    (cancel (run (init 100) [.setMinDelay 5, .schedule ⟨7, 0, [1], Id.zero, 0⟩ 5])
      (Operation.id ⟨7, 0, [1], Id.zero, 0⟩)).toBool = true ∧
    (setExecute (run (init 100) [.setMinDelay 5, .schedule ⟨7, 0, [1], Id.zero, 0⟩ 5, .advance 5])
      ⟨7, 0, [1], Id.zero, 0⟩).toBool = true ∧
    (setExecute (run (init 100) [.setMinDelay 5, .schedule ⟨7, 0, [1], Id.zero, 0⟩ 5, .advance 4])
      ⟨7, 0, [1], Id.zero, 0⟩).toBool = false := by decide
/-- a predecessor that is scheduled but not executed blocks; once executed it does not -/
example : (setExecute (run (init 100) [.setMinDelay 0, .schedule ⟨7, 0, [], Id.zero, 0⟩ 0,
      .schedule ⟨7, 0, [], Operation.id ⟨7, 0, [], Id.zero, 0⟩, 1⟩ 0])
      ⟨7, 0, [], Operation.id ⟨7, 0, [], Id.zero, 0⟩, 1⟩).toBool = false ∧
    (setExecute (run (init 100) [.setMinDelay 0, .schedule ⟨7, 0, [], Id.zero, 0⟩ 0,
      .schedule ⟨7, 0, [], Operation.id ⟨7, 0, [], Id.zero, 0⟩, 1⟩ 0, .setExecute ⟨7, 0, [], Id.zero, 0⟩])
      ⟨7, 0, [], Operation.id ⟨7, 0, [], Id.zero, 0⟩, 1⟩).toBool = true := by decide

/-! ### why ledgers 0 and 1 are excluded -/

/-- At ledger 1 an accepted schedule with delay 0 stores the ready ledger 1 = `DONE_LEDGER`:
the operation is reported Done although nothing was ever executed. At ledger 0, delay 1 does
the same and delay 0 stores 0 = `UNSET_LEDGER` (the accepted schedule is invisible and can be
repeated). So the hypothesis `2 ≤ now` of the theorems above is necessary. -/
theorem sentinels_need_ledger_ge_two :
    (getOperationState (run (init 1) [.setMinDelay 0, .schedule ⟨7, 0, [], Id.zero, 0⟩ 0])
        (Operation.id ⟨7, 0, [], Id.zero, 0⟩) = .done ∧
      execCount (run (init 1) [.setMinDelay 0, .schedule ⟨7, 0, [], Id.zero, 0⟩ 0]).log
        (Operation.id ⟨7, 0, [], Id.zero, 0⟩) = 0) ∧
    getOperationState (run (init 0) [.setMinDelay 0, .schedule ⟨7, 0, [], Id.zero, 0⟩ 1])
        (Operation.id ⟨7, 0, [], Id.zero, 0⟩) = .done ∧
    (getOperationState (run (init 0) [.setMinDelay 0, .schedule ⟨7, 0, [], Id.zero, 0⟩ 0])
        (Operation.id ⟨7, 0, [], Id.zero, 0⟩) = .unset ∧
      (run (init 0) [.setMinDelay 0, .schedule ⟨7, 0, [], Id.zero, 0⟩ 0]).log.length = 1) := by
  decide

end OZ.Timelock
